#!/bin/bash
# Entry point of the lncverif static checks.
#   ./run.sh setup              build bin/lncverif from the vendored sources (offline)
#   ./run.sh Cxx quick|thorough decide property Cxx on /repo's current working tree
#   ./run.sh explain <replay>   re-run the obligation stored in a replay file
#   ./run.sh selftest [Cxx]     run the sensitivity mutants (checker self-test)
set -u
cd "$(dirname "$0")"
VERIF="$PWD"
REPO="${REPO:-/repo}"

TC=/root/go/pkg/mod/golang.org/toolchain@v0.0.1-go1.24.9.linux-amd64/bin
if [ -x "$TC/go" ]; then
	export PATH="$TC:$PATH"
elif [ -x /opt/veriftools/go1.26.8/bin/go ]; then
	export PATH="/opt/veriftools/go1.26.8/bin:$PATH"
fi
export GOTOOLCHAIN=local GOFLAGS=-mod=mod GOPROXY=off GOSUMDB=off GOWORK=off
unset GOARCH GOOS

build() {
	mkdir -p "$VERIF/bin" "$VERIF/evidence"
	(cd "$VERIF/checker" && GOFLAGS=-mod=vendor go build -o "$VERIF/bin/lncverif" .) || {
		echo "CHECKER-ERROR: cannot build lncverif" >&2
		return 2
	}
}

ensure() {
	if [ ! -x "$VERIF/bin/lncverif" ] || [ -n "$(find "$VERIF/checker" -name '*.go' -newer "$VERIF/bin/lncverif" -not -path '*/vendor/*' -print -quit)" ]; then
		build || exit 2
	fi
}

case "${1:-}" in
setup)
	build
	;;
explain)
	ensure
	exec "$VERIF/bin/lncverif" -repo "$REPO" -verif "$VERIF" -explain "${2:?replay file}"
	;;
selftest)
	ensure
	exec "$VERIF/bin/lncverif" -repo "$REPO" -verif "$VERIF" -selftest -property "${2:-}"
	;;
benignfuzz)
	# behaviour-preserving transformation sweep over every source file (a checker self-test;
	# every new finding is a false alarm). Optional argument: only files whose path contains it.
	ensure
	exec "$VERIF/bin/lncverif" -repo "$REPO" -verif "$VERIF" -benignfuzz -benignfuzz-file "${2:-}"
	;;
dump)
	ensure
	exec "$VERIF/bin/lncverif" -repo "$REPO" -verif "$VERIF" -dump "${2:?function}"
	;;
C[0-9][0-9])
	ensure
	tier="${2:-${VERIF_TIER:-quick}}"
	exec "$VERIF/bin/lncverif" -repo "$REPO" -verif "$VERIF" -property "$1" -tier "$tier"
	;;
*)
	echo "usage: $0 setup | Cxx quick|thorough | explain <replay> | selftest [Cxx] | benignfuzz [file] | dump <func>" >&2
	exit 2
	;;
esac
