package main

import (
	"fmt"
	"go/token"
	"go/types"

	"golang.org/x/tools/go/ssa"
)

// ruleTICK: the contract of gbn's IntervalAwareForceTicker that the keepalive (C13) and
// the liveness rules (C06) rely on. Shape rules over ticker.go:
//
//	TICK-1 Resume stores 1 and Pause stores 0 into isActive atomically, IsActive is "load == 1",
//	       and nothing else writes isActive (a reset keeps the paused/active state).
//	TICK-2 the ticker goroutine forwards a clock tick to the Force channel when IsActive() holds
//	       (send on Force in a select with the skip and quit alternatives) and skips it otherwise;
//	       Ticks() returns Force.
//	TICK-3 resetWithIntervalUnsafe stops the old clock, ends and waits for the old goroutine,
//	       installs time.NewTicker(newInterval) with the *given* interval, a new quit channel, and
//	       restarts the goroutine on every path; Reset passes the stored interval, ResetWithInterval
//	       its argument; the constructor creates the clock with the interval it stores.
func ruleTICK(c *Checker) {
	w := c.w
	const T = "(*gbn.IntervalAwareForceTicker)."
	fActive := w.Field("gbn.IntervalAwareForceTicker.isActive")
	fForce := w.Field("gbn.IntervalAwareForceTicker.Force")
	fTicker := w.Field("gbn.IntervalAwareForceTicker.ticker")
	fQuit := w.Field("gbn.IntervalAwareForceTicker.quit")
	fInterval := w.Field("gbn.IntervalAwareForceTicker.interval")
	fSkip := w.Field("gbn.IntervalAwareForceTicker.skip")
	resume, pause, isActive := w.Func(T+"Resume"), w.Func(T+"Pause"), w.Func(T+"IsActive")
	start, ticks := w.Func(T+"start"), w.Func(T+"Ticks")
	reset, resetI, resetU := w.Func(T+"Reset"), w.Func(T+"ResetWithInterval"), w.Func(T+"resetWithIntervalUnsafe")
	ctor := w.Func("gbn.NewIntervalAwareForceTicker")
	if fActive == nil || fForce == nil || fTicker == nil || fQuit == nil || fInterval == nil || fSkip == nil ||
		resume == nil || pause == nil || isActive == nil || start == nil || ticks == nil || reset == nil || resetI == nil || resetU == nil || ctor == nil {
		c.anchorFail("gbn.IntervalAwareForceTicker (fields isActive/Force/ticker/quit/interval/skip, methods Resume/Pause/IsActive/start/Ticks/Reset*)")
		return
	}
	// ---- TICK-1 ----
	atomicStores := func(fn *ssa.Function) []int64 {
		var out []int64
		allInstrs(fn, func(in ssa.Instruction) {
			call, ok := in.(*ssa.Call)
			if !ok || call.Common().StaticCallee() == nil {
				return
			}
			sc := call.Common().StaticCallee()
			if sc.Pkg == nil || sc.Pkg.Pkg.Path() != "sync/atomic" || sc.Name() != "StoreUint32" {
				return
			}
			if fa, ok := call.Common().Args[0].(*ssa.FieldAddr); ok && structFieldOf(fa) == fActive {
				if k, ok := intConst(call.Common().Args[1]); ok {
					out = append(out, k)
				} else {
					out = append(out, -1)
				}
			}
		})
		return out
	}
	rs, ps := atomicStores(resume), atomicStores(pause)
	c.decide(len(rs) == 1 && rs[0] == 1 && resume.Blocks[0].Instrs != nil && len(resume.Blocks) == 1, "TICK-1", "Resume|isActive = 1", resume.Pos(), "atomic store of 1, unconditionally",
		"Resume does not (unconditionally) mark the ticker active: a resumed pong timer never fires and a silent peer is never detected")
	uncondPause := false
	allInstrs(pause, func(in ssa.Instruction) {
		if call, ok := in.(*ssa.Call); ok && call.Block() == pause.Blocks[0] {
			if sc := call.Common().StaticCallee(); sc != nil && sc.Name() == "StoreUint32" {
				uncondPause = true
			}
		}
	})
	c.decide(len(ps) == 1 && ps[0] == 0 && uncondPause, "TICK-1", "Pause|isActive = 0", pause.Pos(), "atomic store of 0, unconditionally",
		"Pause does not (unconditionally) mark the ticker inactive: the pong timer of a responsive peer keeps running and closes the connection")
	okIs := false
	allInstrs(isActive, func(in ssa.Instruction) {
		ret, ok := in.(*ssa.Return)
		if !ok {
			return
		}
		bo, ok := ret.Results[0].(*ssa.BinOp)
		if !ok || bo.Op != token.EQL {
			return
		}
		k, isK := intConst(bo.Y)
		call, isCall := bo.X.(*ssa.Call)
		if isK && k == 1 && isCall && call.Common().StaticCallee() != nil && call.Common().StaticCallee().Name() == "LoadUint32" {
			if fa, ok := call.Common().Args[0].(*ssa.FieldAddr); ok && structFieldOf(fa) == fActive {
				okIs = true
			}
		}
	})
	c.decide(okIs, "TICK-1", "IsActive|atomic load == 1", isActive.Pos(), "IsActive is LoadUint32(&isActive) == 1", "IsActive does not report the flag that Resume/Pause set")
	// no other writer of isActive (plain stores or atomic calls outside Resume/Pause)
	others := ""
	for _, fn := range w.Funcs {
		if w.pkgShort(fn) != targetGBN || fn == resume || fn == pause {
			continue
		}
		allInstrs(fn, func(in ssa.Instruction) {
			switch x := in.(type) {
			case *ssa.Store:
				if structFieldOf(x.Addr) == fActive {
					others = fnName(fn)
				}
			case *ssa.Call:
				if sc := x.Common().StaticCallee(); sc != nil && sc.Pkg != nil && sc.Pkg.Pkg.Path() == "sync/atomic" && len(x.Common().Args) > 0 {
					if fa, ok := x.Common().Args[0].(*ssa.FieldAddr); ok && structFieldOf(fa) == fActive && sc.Name() != "LoadUint32" {
						others = fnName(fn)
					}
				}
			}
		})
	}
	c.decide(others == "", "TICK-1", "isActive|written by Resume and Pause only", token.NoPos, "a reset keeps the paused/active state", "isActive is also written in "+others+": resetting a paused timer would arm it (or disarm an active one)")

	// ---- TICK-2 ----
	var loop *ssa.Function
	allInstrs(start, func(in ssa.Instruction) {
		if g, ok := in.(*ssa.Go); ok {
			if f := w.funcValue(g.Common().Value); f != nil {
				loop = f
			}
		}
	})
	if loop == nil {
		c.fail("TICK-2", "start|goroutine", start.Pos(), "start does not launch the ticker goroutine")
	} else {
		// the select that receives from ticker.C
		var fwd *ssa.Select
		var tickBody *ssa.BasicBlock
		allInstrs(loop, func(in ssa.Instruction) {
			sel, ok := in.(*ssa.Select)
			if !ok {
				return
			}
			cases, _ := w.selectCases(sel)
			for _, sc := range cases {
				if sc.IsSend && chanField(sc.Chan) == fForce {
					fwd = sel
				}
				if !sc.IsSend && sc.Body != nil {
					if nt := namedOf(elemOfChan(sc.Chan)); nt != nil && nt.Obj().Name() == "Time" && chanField(sc.Chan) != fForce {
						tickBody = sc.Body
					}
				}
			}
		})
		okFwd := fwd != nil && tickBody != nil
		why := "the goroutine has no select that receives a clock tick and one that sends on Force"
		if okFwd {
			// the forwarding select is reached from the tick case only under IsActive() == true
			act := hasFact(fwd.Block(), func(f Fact) bool {
				call, ok := f.Cond.(*ssa.Call)
				return ok && f.Val && call.Common().StaticCallee() == isActive
			})
			reach := pathFromBlockEntry(tickBody, fwd, nil)
			cases, _ := w.selectCases(fwd)
			hasSkip, hasQuit := false, false
			for _, sc := range cases {
				if !sc.IsSend && chanField(sc.Chan) == fSkip {
					hasSkip = true
				}
				if !sc.IsSend && chanField(sc.Chan) == fQuit {
					hasQuit = true
				}
			}
			okFwd = act && reach && hasSkip && hasQuit && fwd.Blocking
			why = fmt.Sprintf("forwarding is malformed (under IsActive: %v, reached from the clock tick: %v, skip alternative: %v, quit alternative: %v)", act, reach, hasSkip, hasQuit)
		}
		c.decide(okFwd, "TICK-2", "goroutine|an active ticker forwards every clock tick to Force", loop.Pos(), "tick -> IsActive() -> select{Force <- tick, <-skip, <-quit}", why)
	}
	okTicks := false
	allInstrs(ticks, func(in ssa.Instruction) {
		if ret, ok := in.(*ssa.Return); ok {
			v := ret.Results[0]
			if ct, ok := v.(*ssa.ChangeType); ok {
				v = ct.X
			}
			if chanField(v) == fForce {
				okTicks = true
			}
		}
	})
	c.decide(okTicks, "TICK-2", "Ticks|returns Force", ticks.Pos(), "Ticks() is the channel the goroutine forwards to", "Ticks() does not return the Force channel")

	// ---- TICK-3 ----
	callsOf := func(fn *ssa.Function, pred func(ssa.CallInstruction) bool) []ssa.CallInstruction {
		return findCalls(fn, pred)
	}
	newTicker := callsOf(resetU, func(ci ssa.CallInstruction) bool { return staticCalleeIs(ci.Common(), "time", "", "NewTicker") })
	okNew := len(newTicker) == 1 && newTicker[0].Common().Args[0] == ssa.Value(resetU.Params[1])
	if okNew {
		okNew = false
		for _, st := range w.Stores(fTicker) {
			if st.Parent() == resetU && st.Val == newTicker[0].(ssa.Value) {
				okNew = true
			}
		}
	}
	c.decide(okNew, "TICK-3", "reset|new clock with the given interval", resetU.Pos(), "ticker = time.NewTicker(newInterval)", "a reset does not install a clock with the requested interval: the timer fires at the old rate (or never)")
	okInt := false
	for _, st := range w.Stores(fInterval) {
		if st.Parent() == resetU && st.Val == ssa.Value(resetU.Params[1]) {
			okInt = true
		}
	}
	c.decide(okInt, "TICK-3", "reset|interval remembered", resetU.Pos(), "interval = newInterval", "a reset does not remember the new interval: the next plain Reset falls back to an old one")
	// old goroutine ended and waited for, new quit, start() on every path
	stops := callsOf(resetU, func(ci ssa.CallInstruction) bool {
		sc := ci.Common().StaticCallee()
		return sc != nil && isMethod(sc, "time", "Ticker", "Stop")
	})
	closes := callsOf(resetU, func(ci ssa.CallInstruction) bool {
		return isBuiltinCall(ci, "close") && chanField(ci.Common().Args[0]) == fQuit
	})
	waits := callsOf(resetU, func(ci ssa.CallInstruction) bool {
		sc := ci.Common().StaticCallee()
		return sc != nil && isMethod(sc, "sync", "WaitGroup", "Wait")
	})
	starts := callsOf(resetU, func(ci ssa.CallInstruction) bool { return ci.Common().StaticCallee() == start })
	var quitStore *ssa.Store
	for _, st := range w.Stores(fQuit) {
		if st.Parent() == resetU {
			if _, ok := st.Val.(*ssa.MakeChan); ok {
				quitStore = st
			}
		}
	}
	okOrder := len(stops) == 1 && len(closes) == 1 && len(waits) == 1 && len(starts) == 1 && quitStore != nil && len(newTicker) == 1
	if okOrder {
		okOrder = instrDominates(closes[0], waits[0]) && instrDominates(waits[0], quitStore) && instrDominates(waits[0], newTicker[0]) &&
			instrDominates(quitStore, starts[0]) && instrDominates(newTicker[0], starts[0]) &&
			pathToReturn(resetU.Blocks[0].Instrs[0], func(*ssa.Return) bool { return true }, func(in ssa.Instruction) bool { return in == ssa.Instruction(starts[0]) }) == nil
	}
	c.decide(okOrder, "TICK-3", "reset|old goroutine ended, new one started on every path", resetU.Pos(), "Stop, close(quit), Wait, then new clock + new quit, then start()",
		"a reset does not end the old ticker goroutine before starting exactly one new one on every path: the timer stops ticking (or two goroutines feed one channel)")
	// Reset passes the stored interval, ResetWithInterval its argument
	argOf := func(fn *ssa.Function) ssa.Value {
		cs := callsOf(fn, func(ci ssa.CallInstruction) bool { return ci.Common().StaticCallee() == resetU })
		if len(cs) != 1 {
			return nil
		}
		return cs[0].Common().Args[1]
	}
	c.decide(argOf(reset) != nil && isLoadOfField(argOf(reset), fInterval), "TICK-3", "Reset|uses the stored interval", reset.Pos(), "resetWithIntervalUnsafe(t.interval)", "Reset does not restart the ticker with its configured interval")
	c.decide(argOf(resetI) != nil && argOf(resetI) == ssa.Value(resetI.Params[1]), "TICK-3", "ResetWithInterval|uses its argument", resetI.Pos(), "resetWithIntervalUnsafe(newInterval)", "ResetWithInterval ignores the interval it is given")
	// constructor
	ctorNew := callsOf(ctor, func(ci ssa.CallInstruction) bool { return staticCalleeIs(ci.Common(), "time", "", "NewTicker") })
	okCtor := len(ctorNew) == 1 && ctorNew[0].Common().Args[0] == ssa.Value(ctor.Params[0])
	if okCtor {
		okCtor = false
		for _, st := range w.Stores(fInterval) {
			if st.Parent() == ctor && st.Val == ssa.Value(ctor.Params[0]) {
				okCtor = true
			}
		}
	}
	okCtor = okCtor && len(callsOf(ctor, func(ci ssa.CallInstruction) bool { return ci.Common().StaticCallee() == start })) == 1
	c.decide(okCtor, "TICK-3", "constructor|clock and stored interval agree, goroutine started", ctor.Pos(), "NewTicker(interval), interval stored, start()", "the constructor's clock, stored interval and goroutine do not agree")
	c.floor("TICK-1", 4)
	c.floor("TICK-2", 2)
	c.floor("TICK-3", 6)
}

func elemOfChan(v ssa.Value) types.Type {
	if ch, ok := v.Type().Underlying().(*types.Chan); ok {
		return ch.Elem()
	}
	return types.Typ[types.Invalid]
}
