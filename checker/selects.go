package main

import (
	"fmt"
	"go/token"
	"go/types"
	"strings"

	"golang.org/x/tools/go/ssa"
)

// SelCase is one case of a select statement.
type SelCase struct {
	Idx    int
	IsSend bool
	Chan   ssa.Value
	Desc   string // stable description of the channel operand
	SendV  ssa.Value
	Body   *ssa.BasicBlock // first block executed when this case fires (nil if not found)
	RecvV  ssa.Value       // received value (nil if unused)
}

// accessPath describes a value as a path of field names from a root (receiver,
// parameter, captured variable): "quit", "resendTicker.C", "cfg.recvFromStream".
func (w *World) accessPath(v ssa.Value) string {
	return w.accessPathD(v, 0)
}

func (w *World) accessPathD(v ssa.Value, d int) string {
	if d > 10 {
		return "…"
	}
	v = unwrapLoadAlloc(v)
	switch x := v.(type) {
	case *ssa.Parameter:
		if x.Parent() != nil && x.Parent().Signature.Recv() != nil && len(x.Parent().Params) > 0 && x.Parent().Params[0] == x {
			return ""
		}
		return "param:" + x.Name()
	case *ssa.FreeVar:
		// captured receiver or local: name only
		if isReceiverName(x) {
			return ""
		}
		return "var:" + x.Name()
	case *ssa.Alloc:
		return "var:" + x.Comment
	case *ssa.UnOp:
		if x.Op == token.MUL {
			switch a := x.X.(type) {
			case *ssa.FieldAddr:
				base := w.accessPathD(a.X, d+1)
				name := structFieldOf(a).Name()
				if base == "" {
					return name
				}
				return base + "." + name
			case *ssa.FreeVar:
				if isReceiverName(a) {
					return ""
				}
				return "var:" + a.Name()
			case *ssa.Global:
				return "global:" + a.Name()
			case *ssa.Alloc:
				return "var:" + a.Comment
			}
			return "*" + w.accessPathD(x.X, d+1)
		}
	case *ssa.FieldAddr:
		base := w.accessPathD(x.X, d+1)
		name := structFieldOf(x).Name()
		if base == "" {
			return "&" + name
		}
		return "&" + base + "." + name
	case *ssa.Field:
		base := w.accessPathD(x.X, d+1)
		name := structFieldOf(x).Name()
		if base == "" {
			return name
		}
		return base + "." + name
	case *ssa.Call:
		cc := x.Common()
		if cc.IsInvoke() {
			return w.accessPathD(cc.Value, d+1) + "." + cc.Method.Name() + "()"
		}
		if sc := cc.StaticCallee(); sc != nil {
			if sc.Signature.Recv() != nil && len(cc.Args) > 0 {
				base := w.accessPathD(cc.Args[0], d+1)
				base = strings.TrimPrefix(base, "&")
				if base == "" {
					return sc.Name() + "()"
				}
				return base + "." + sc.Name() + "()"
			}
			if sc.Pkg != nil {
				return sc.Pkg.Pkg.Name() + "." + sc.Name() + "()"
			}
			return sc.Name() + "()"
		}
		return "call()"
	case *ssa.MakeChan:
		return "local-chan"
	case *ssa.ChangeType:
		return w.accessPathD(x.X, d+1)
	case *ssa.ChangeInterface:
		return w.accessPathD(x.X, d+1)
	case *ssa.MakeInterface:
		return w.accessPathD(x.X, d+1)
	case *ssa.Phi:
		return "phi:" + x.Comment
	case *ssa.Extract:
		return fmt.Sprintf("%s#%d", w.accessPathD(x.Tuple, d+1), x.Index)
	case *ssa.Const:
		if x.Value == nil {
			return "nil"
		}
		return x.Value.ExactString()
	}
	return "?"
}

// isReceiverName: a free variable that captures the method receiver of the
// enclosing method.
func isReceiverName(fv *ssa.FreeVar) bool {
	fn := fv.Parent()
	for fn != nil && fn.Parent() != nil {
		fn = fn.Parent()
	}
	if fn == nil || fn.Signature.Recv() == nil || len(fn.Params) == 0 {
		return false
	}
	return fn.Params[0].Name() == fv.Name()
}

// selectCases decodes a select instruction.
func (w *World) selectCases(sel *ssa.Select) ([]SelCase, *ssa.BasicBlock) {
	var idxV ssa.Value
	extracts := map[int]ssa.Value{}
	for _, r := range *sel.Referrers() {
		if ex, ok := r.(*ssa.Extract); ok {
			extracts[ex.Index] = ex
			if ex.Index == 0 {
				idxV = ex
			}
		}
	}
	bodies := map[int64]*ssa.BasicBlock{}
	var defaultBody *ssa.BasicBlock
	if idxV != nil {
		var lastIf *ssa.If
		for _, r := range *idxV.Referrers() {
			bo, ok := r.(*ssa.BinOp)
			if !ok || bo.Op != token.EQL {
				continue
			}
			k, ok := intConst(bo.Y)
			if !ok {
				continue
			}
			for _, rr := range *bo.Referrers() {
				if iff, ok := rr.(*ssa.If); ok {
					bodies[k] = iff.Block().Succs[0]
					if lastIf == nil || k >= int64(len(sel.States)-1) {
						lastIf = iff
					}
				}
			}
		}
		if !sel.Blocking && lastIf != nil {
			// default: the else leg of the last comparison
			maxK := int64(-1)
			for k := range bodies {
				if k > maxK {
					maxK = k
				}
			}
			for _, r := range *idxV.Referrers() {
				bo, ok := r.(*ssa.BinOp)
				if !ok {
					continue
				}
				if k, ok := intConst(bo.Y); ok && k == maxK {
					for _, rr := range *bo.Referrers() {
						if iff, ok := rr.(*ssa.If); ok {
							defaultBody = iff.Block().Succs[1]
						}
					}
				}
			}
		}
	} else if !sel.Blocking && len(sel.States) == 0 {
		defaultBody = nil
	}
	var out []SelCase
	recvN := 0
	for i, st := range sel.States {
		sc := SelCase{Idx: i, IsSend: st.Dir == types.SendOnly, Chan: st.Chan, SendV: st.Send, Desc: w.accessPath(st.Chan)}
		sc.Body = bodies[int64(i)]
		if !sc.IsSend {
			sc.RecvV = extracts[2+recvN]
			recvN++
		}
		out = append(out, sc)
	}
	return out, defaultBody
}

// chanField returns the struct field a channel value is loaded from (nil if
// it is not a direct field load).
func chanField(v ssa.Value) *types.Var {
	u, ok := unwrapLoadAlloc(v).(*ssa.UnOp)
	if !ok || u.Op != token.MUL {
		return nil
	}
	fa, ok := u.X.(*ssa.FieldAddr)
	if !ok {
		return nil
	}
	return structFieldOf(fa)
}
