package main

import (
	"fmt"
	"go/token"
	"go/types"
	"strings"

	"golang.org/x/tools/go/ssa"
)

// ---------------------------------------------------------------------------
// Window arithmetic rules shared by C01, C09 and C10.

func init() {
	register("C01",
		"WIN-1 acceptance discipline in the receive loop: delivery to Recv and the advance of recvSeq happen only under the fact Seq == recvSeq of the received packet, recvSeq advances exactly once per accepted packet as (recvSeq+1) % s before delivery, the ACK carries the accepted packet's Seq and is sent before the advance, on the other leg nothing is delivered or advanced and a NACK carries recvSeq. WIN-2 single producer/consumer of recvDataChan and sendDataChan. WIN-3 retransmission buffer: addPacket labels the packet with top, stores it at content[top] and advances top by (top+1) % s; the send loop queues before the first transmission; resend walks i from a snapshot of base to a snapshot of top with step (i+1) % s and retransmits exactly content[i]. WIN-4 every store to the window base matches one of four (value, guard) templates (exact ACK, cumulative ACK, NACK==top, NACK in window). ORD-1 containsSequence is decided exactly, for all values, by evaluating its decision tree under all 13 weak orderings of (base, top, seq). INV: window fields stay below s, peer sequence numbers are validated before use. WIN-5/SEQSPACE/SIZE (as C09): admission only under size() < n, s = n+1 at every definition, size() in a recognised overflow-free closed form - the window discipline that keeps a resent window distinguishable from the next one. WIN-3 also: the resend walk continues exactly while i != top snapshot and is left otherwise only after a transmission, and no path round the transmission exists inside the loop. SIZE is decided on the linear form of the returned uint8 expression. WIN-1 also: every acknowledged packet (a ping too) uses up its sequence number before the next iteration. The handshake obligations of C10 are imported (both ends count in the sequence space the handshake agreed on). Not decided: the interplay of loss/duplication/delay with timers and the resend sync over all schedules (needs model checking); that Send retains the caller's slice.",
		[]string{"uint8 arithmetic wraps; comparison results depend on the ordering of the operands only"},
		runC01)
	register("C09",
		"WIN-5 admission: in the send loop every path from one addPacket to the next passes a block dominated by size() < n; sendDataChan is unbuffered, received only by the send loop's main select and sent only by Send's hand-off (so Send blocks exactly while the loop is not admitting). SEQSPACE: every definition of an s field is X+1 with X the value stored to the sibling n (or config.n) and X <= 254, so the sequence space is strictly larger than the window for every constructor and for setN; syncer.s is the queue's s. SIZE: queue.size() is one of the two accepted closed forms of (top - base) mod s. Plus INV, WIN-4 and ORD-1 as for C01/C07. The lock-order, race and close-site obligations of C18 are imported (Send blocks only until an ACK frees a slot presupposes that the two loops cannot deadlock on the queue's mutexes). The wake-up and timer-ownership obligations of C06 (WAKE, KA-6: the resend timer is stopped only by Close) are imported: a blocked Send is released by the send loop, whose window-full wait falls back on the resend timer when the non-blocking ACK signal was missed. WIN-5 also: Send cuts a non-final chunk only under remainder > max, so a message of k*max bytes takes k window slots. Not decided: the instantaneous outstanding count under all ACK/NACK schedules (follows from these facts only by an inductive argument the checker does not make).",
		[]string{"uint8 arithmetic wraps"},
		runC09)
	register("C10",
		"GBNHS-1: in serverHandshake the N echoed in the SYN reply and the argument of setN are the same value, read from the N field of a received PacketSYN and proved <= 254; the 'resent' shortcut can only be taken after a SYN was processed. GBNHS-2: in clientHandshake the SYNACK is sent only under respSYN.N == cfg.n and the unequal leg returns an error. GBNHS-3: while waiting for SYN a successfully parsed non-SYN packet cannot complete the handshake without another receive (client: any type; server: except SYNACK/DATA after a restart). GBNHS-4: NewClientConn rejects n == 255 before the config is built. GBNHS-7: in clientHandshake every path from a timeout leg back to the wait passes a send of a serialized SYN; the server's restart shortcut is entered only through a successful type test for SYNACK or DATA. GBNHS-6: every blocking wait of a handshake function that has a timeout alternative is entered with a freshly armed timeout (time.After evaluated, or the timer Reset, on every path from the wait back to itself); every nil return of serverHandshake outside the quit/ctx cases is preceded by setN. GBNHS-5: in both handshake functions every blocking wait on the local packet channel is preceded - from function entry and from the point where the previous packet was taken - by a send attempt on the local token channel that lets the reader goroutine perform the next receive (so a stale packet that is ignored does not leave the handshake waiting for a timeout). GBNHS-5 also: the re-arm send on the token channel is non-blocking. GBNHS-2/3 also: the client SYN carries cfg.n, a non-SYN never ends the client wait, the restart shortcut takes SYNACK and DATA, no send error of a handshake is dropped. GBNHS-2 also: the error leg of the constructors returns a certain error (the tested value, a freshly made error, a package-level error variable) - not the result of a later call such as Close(), which is nil. GBNHS-1 also: the packet whose N serverHandshake echoes and adopts is, on every way into the echo code, the result of the most recent Deserialize. Not decided: convergence under loss/duplication/stale packets and success once the transport behaves (liveness).",
		nil,
		runC10)
}

// ---------------------------------------------------------------------------
// ORD-1: exhaustive decision of a comparison-only function

type ordering [3]int // ranks of base, top, seq

func allWeakOrderings() []ordering {
	var out []ordering
	seen := map[ordering]bool{}
	for a := 0; a < 3; a++ {
		for b := 0; b < 3; b++ {
			for c := 0; c < 3; c++ {
				// normalise ranks to dense 0..k
				vals := []int{a, b, c}
				uniq := map[int]bool{}
				for _, v := range vals {
					uniq[v] = true
				}
				var sorted []int
				for v := 0; v < 3; v++ {
					if uniq[v] {
						sorted = append(sorted, v)
					}
				}
				rank := map[int]int{}
				for i, v := range sorted {
					rank[v] = i
				}
				o := ordering{rank[a], rank[b], rank[c]}
				if !seen[o] {
					seen[o] = true
					out = append(out, o)
				}
			}
		}
	}
	return out
}

// evalCompareOnly interprets fn (params only compared with each other) under an ordering.
func evalCompareOnly(fn *ssa.Function, o ordering) (bool, string) {
	val := func(v ssa.Value) (int, bool) {
		for i, p := range fn.Params {
			if ssa.Value(p) == v {
				return o[i], true
			}
		}
		return 0, false
	}
	b := fn.Blocks[0]
	var prev *ssa.BasicBlock
	env := map[ssa.Value]bool{}
	boolOf := func(v ssa.Value) (bool, bool) {
		if k, ok := v.(*ssa.Const); ok && k.Value != nil {
			return k.Value.ExactString() == "true", k.Value.ExactString() == "true" || k.Value.ExactString() == "false"
		}
		r, ok := env[v]
		return r, ok
	}
	for steps := 0; steps < 200; steps++ {
		for _, in := range b.Instrs {
			switch in := in.(type) {
			case *ssa.BinOp:
				x, ok1 := val(in.X)
				y, ok2 := val(in.Y)
				if !ok1 || !ok2 {
					return false, "operand is not a parameter"
				}
				var r bool
				switch in.Op {
				case token.EQL:
					r = x == y
				case token.NEQ:
					r = x != y
				case token.LSS:
					r = x < y
				case token.LEQ:
					r = x <= y
				case token.GTR:
					r = x > y
				case token.GEQ:
					r = x >= y
				default:
					return false, "non-comparison operator"
				}
				env[in] = r
			case *ssa.Phi:
				for i, p := range b.Preds {
					if p == prev {
						r, ok := boolOf(in.Edges[i])
						if !ok {
							return false, "phi of a non-boolean"
						}
						env[in] = r
					}
				}
			case *ssa.UnOp:
				if isLogPlumbing(in) {
					continue
				}
				if in.Op != token.NOT {
					return false, "unexpected unary operator"
				}
				r, ok := boolOf(in.X)
				if !ok {
					return false, "not of unknown"
				}
				env[in] = !r
			case *ssa.If:
				r, ok := boolOf(in.Cond)
				if !ok {
					return false, "branch on unknown"
				}
				prev = b
				if r {
					b = b.Succs[0]
				} else {
					b = b.Succs[1]
				}
			case *ssa.Jump:
				prev = b
				b = b.Succs[0]
			case *ssa.Return:
				r, ok := boolOf(in.Results[0])
				if !ok {
					return false, "returns a non-constant"
				}
				return r, ""
			case *ssa.DebugRef:
			default:
				if isLogPlumbing(in) {
					continue
				}
				return false, fmt.Sprintf("unexpected instruction %T", in)
			}
		}
	}
	return false, "no termination"
}

func ruleORD1(c *Checker) {
	fn := c.w.Func("gbn.containsSequence")
	if fn == nil || len(fn.Params) != 3 {
		c.anchorFail("gbn.containsSequence(base, top, seq)")
		return
	}
	for _, o := range allWeakOrderings() {
		base, top, seq := o[0], o[1], o[2]
		want := false
		switch {
		case base == top:
			want = false
		case base < top:
			want = base <= seq && seq < top
		default:
			want = seq < top || base <= seq
		}
		got, prob := evalCompareOnly(fn, o)
		key := fmt.Sprintf("containsSequence|ranks base=%d top=%d seq=%d", base, top, seq)
		if prob != "" {
			c.undecided("ORD-1", key, fn.Pos(), "containsSequence is no longer a pure comparison function: "+prob)
			continue
		}
		c.decide(got == want, "ORD-1", key, fn.Pos(), fmt.Sprintf("returns %v = seq in [base,top) cyclically", got),
			fmt.Sprintf("returns %v but seq in [base,top) cyclically is %v for this ordering", got, want))
	}
	c.floor("ORD-1", 13)
}

// ---------------------------------------------------------------------------
// WIN-4: base moves

func ruleWIN4(c *Checker) {
	w := c.w
	fBase := w.Field("gbn.queue.sequenceBase")
	contains := w.Func("gbn.containsSequence")
	if fBase == nil || contains == nil {
		c.anchorFail("gbn.queue.sequenceBase / containsSequence")
		return
	}
	const (
		base = "load(gbn.queue.sequenceBase)"
		top  = "load(gbn.queue.sequenceTop)"
		s    = "load(gbn.queueCfg.s)"
	)
	n := 0
	seenTemplate := map[string]bool{}
	u8Param := func(f *ssa.Function) ssa.Value {
		var p0 ssa.Value
		k := 0
		for _, p := range f.Params {
			if b, ok := p.Type().Underlying().(*types.Basic); ok && b.Kind() == types.Uint8 {
				p0 = p
				k++
			}
		}
		if k != 1 {
			return nil
		}
		return p0
	}
	type baseCtx struct {
		st      *ssa.Store
		owner   *ssa.Function // the ACK/NACK handler the move belongs to
		facts   []Fact
		seq     ssa.Value // the peer sequence number in the handler
		hseq    ssa.Value // the same value inside a helper (nil if the store is in the handler itself)
		viaName string
	}
	var ctxs []baseCtx
	for _, st := range w.Stores(fBase) {
		fn := st.Parent()
		n++
		// a helper of the handlers (`q.moveBasePast(seq)`): judged in the context of each call site
		hp := u8Param(fn)
		sites, closed := w.CallersOf(fn)
		isHelper := hp != nil && closed && len(sites) > 0
		if isHelper {
			for _, sx := range sites {
				cp := u8Param(sx.Caller)
				idx := -1
				for k, p := range fn.Params {
					if ssa.Value(p) == hp {
						idx = k
					}
				}
				if cp == nil || idx < 0 || idx >= len(sx.Instr.Common().Args) || sx.Instr.Common().Args[idx] != cp {
					isHelper = false
				}
			}
		}
		if isHelper {
			for _, sx := range sites {
				ctxs = append(ctxs, baseCtx{st: st, owner: sx.Caller, facts: append(append([]Fact{}, factsAt(st.Block())...), factsAt(sx.Instr.Block())...),
					seq: u8Param(sx.Caller), hseq: hp, viaName: " (in " + fn.Name() + ")"})
			}
			continue
		}
		ctxs = append(ctxs, baseCtx{st: st, owner: fn, facts: factsAt(st.Block()), seq: u8Param(fn)})
	}
	for _, cx := range ctxs {
		st, fn, seq := cx.st, cx.owner, cx.seq
		norm := func(v ssa.Value) string {
			t := w.canonFB(v)
			if seq != nil {
				t = strings.ReplaceAll(t, "param:"+seq.Name(), "param:seq")
			}
			if cx.hseq != nil {
				t = strings.ReplaceAll(t, "param:"+cx.hseq.Name(), "param:seq")
			}
			return t
		}
		val := norm(st.Val)
		key := fmt.Sprintf("%s|base = %s%s", fnName(fn), val, cx.viaName)
		if seq == nil {
			c.fail("WIN-4", key, instrPos(st), "the window base is moved in a function without a peer sequence parameter")
			continue
		}
		facts := cx.facts
		eqFact := func(other string) bool {
			for _, f := range facts {
				bo, ok := f.Cond.(*ssa.BinOp)
				if !ok {
					continue
				}
				eq := (bo.Op == token.EQL && f.Val) || (bo.Op == token.NEQ && !f.Val)
				if !eq {
					continue
				}
				x, y := norm(bo.X), norm(bo.Y)
				if (x == "param:seq" && y == other) || (y == "param:seq" && x == other) {
					return true
				}
			}
			return false
		}
		inWindow := func() bool {
			for _, f := range facts {
				call, ok := f.Cond.(*ssa.Call)
				if !ok || !f.Val || call.Common().StaticCallee() != contains {
					continue
				}
				a := call.Common().Args
				if len(a) == 3 && w.canonFB(a[0]) == base && w.canonFB(a[1]) == top && (a[2] == seq || (cx.hseq != nil && a[2] == cx.hseq)) {
					return true
				}
			}
			return false
		}
		// the queue is known to be non-empty: size() != 0 or base != top among the facts
		nonEmpty := func() bool {
			for _, f := range facts {
				bo, ok := f.Cond.(*ssa.BinOp)
				if !ok {
					continue
				}
				if call, ok := bo.X.(*ssa.Call); ok {
					if sc := call.Common().StaticCallee(); sc != nil && sc.Name() == "size" && sc.Signature.Recv() != nil {
						if k, isK := intConst(bo.Y); isK && lenFactNonEmpty(bo.Op, k, f.Val) {
							return true
						}
					}
				}
				x, y := norm(bo.X), norm(bo.Y)
				if (x == base && y == top) || (x == top && y == base) {
					if (bo.Op == token.NEQ && f.Val) || (bo.Op == token.EQL && !f.Val) {
						return true
					}
				}
			}
			return false
		}
		okk, why := false, ""
		seenTemplate[fnName(fn)+"|"+val] = true
		switch val {
		case "((1+" + base + ")%" + s + ")":
			okk, why = eqFact(base), "exact ACK: base+1 mod s under seq == base"
			if okk && !nonEmpty() {
				okk, why = false, "the exact-ACK leg is not protected by a non-empty test: a late duplicate ACK equal to base on an empty queue (base == top) moves the base past top, size() becomes N and then 0 with packets outstanding"
			}
		case "((1+param:seq)%" + s + ")":
			okk = inWindow() || eqFact(base)
			why = "cumulative ACK: seq+1 mod s under containsSequence(base, top, seq)"
		case top:
			okk, why = eqFact(top), "NACK for top: base = top under seq == top"
			if okk && inWindow() {
				// containsSequence(base, top, top) is false by definition: this leg is dead
				okk, why = false, "the NACK-for-top leg is only reached after the in-window test, which top never passes: a NACK for top (all packets received, ACKs lost) is ignored and the queue never drains"
			}
		case "param:seq":
			okk = inWindow() || eqFact(base) || eqFact(top)
			why = "NACK in window: base = seq under containsSequence(base, top, seq)"
		default:
			why = "the stored value matches none of the four base-move templates"
		}
		c.decide(okk, "WIN-4", key, instrPos(st), why, "illegal move of the window base ("+why+"; guard present: "+fmt.Sprint(okk)+")")
	}
	if n == 0 {
		c.fail("WIN-4", "stores", token.NoPos, "no store to the window base found")
	}
	// the NACK handler must honour both a NACK for top and a NACK inside the window; the ACK handler must move the base
	need := map[string]string{
		"(*gbn.queue).processNACK|" + top:                   "a NACK for top empties the queue (all data received, ACKs lost)",
		"(*gbn.queue).processNACK|param:seq":                "a NACK inside the window moves the base to it",
		"(*gbn.queue).processACK|((1+param:seq)%" + s + ")": "a cumulative ACK moves the base past it",
	}
	for k, what := range need {
		altOK := seenTemplate[k]
		if strings.HasSuffix(k, "((1+param:seq)%"+s+")") && !altOK {
			altOK = seenTemplate["(*gbn.queue).processACK|((1+"+base+")%"+s+")"]
		}
		c.decide(altOK, "WIN-4", "template present|"+k, token.NoPos, what, "missing base move: "+what)
	}
	c.floor("WIN-4", 4)
}

// ---------------------------------------------------------------------------
// C01

func runC01(c *Checker) {
	// a message is reassembled from chunks before it is delivered: the chunking obligations (C14) are
	// part of "exactly once, in order, intact" (its recorded known finding stays under C14)
	importLayers(c, "C14")
	// the sequence space both ends count in is the one the handshake agreed on: an endpoint that
	// finishes the handshake with another N wraps its sequence numbers where the peer does not and
	// the peer accepts a later packet as the next in order (C10, every completion adopts N)
	importLayers(c, "C10")
	w := c.w
	rl := w.Func("(*gbn.GoBackNConn).receivePacketsForever")
	sl := w.Func("(*gbn.GoBackNConn).sendPacketsForever")
	fRecvSeq := w.Field("gbn.GoBackNConn.recvSeq")
	fSeq := w.Field("gbn.PacketData.Seq")
	fRecvChan := w.Field("gbn.GoBackNConn.recvDataChan")
	fSendChan := w.Field("gbn.GoBackNConn.sendDataChan")
	if rl == nil || sl == nil || fRecvSeq == nil || fSeq == nil || fRecvChan == nil || fSendChan == nil {
		c.anchorFail("receive/send loops, recvSeq, PacketData.Seq, recvDataChan, sendDataChan")
		return
	}
	// the accepted packet: the value m with the fact load(m.Seq) == load(recvSeq)
	acceptFact := func(b *ssa.BasicBlock) (ssa.Value, bool) {
		var pkt ssa.Value
		okk := hasFact(b, func(f Fact) bool {
			bo, ok := f.Cond.(*ssa.BinOp)
			if !ok {
				return false
			}
			eq := (bo.Op == token.EQL && f.Val) || (bo.Op == token.NEQ && !f.Val)
			if !eq {
				return false
			}
			for _, pr := range [][2]ssa.Value{{bo.X, bo.Y}, {bo.Y, bo.X}} {
				if isLoadOfField(pr[0], fSeq) && isLoadOfField(pr[1], fRecvSeq) {
					pkt = unwrapLoadAlloc(pr[0]).(*ssa.UnOp).X.(*ssa.FieldAddr).X
					return true
				}
			}
			return false
		})
		return pkt, okk
	}
	rejectFact := func(b *ssa.BasicBlock) bool {
		return hasFact(b, func(f Fact) bool {
			bo, ok := f.Cond.(*ssa.BinOp)
			if !ok {
				return false
			}
			ne := (bo.Op == token.EQL && !f.Val) || (bo.Op == token.NEQ && f.Val)
			if !ne {
				return false
			}
			return isLoadOfField(bo.X, fSeq) && isLoadOfField(bo.Y, fRecvSeq) || isLoadOfField(bo.Y, fSeq) && isLoadOfField(bo.X, fRecvSeq)
		})
	}
	// (a) delivery under acceptance of the delivered packet
	var deliveries []*ssa.Select
	allInstrs(rl, func(in ssa.Instruction) {
		sel, ok := in.(*ssa.Select)
		if !ok {
			return
		}
		cases, _ := w.selectCases(sel)
		for _, sc := range cases {
			if sc.IsSend && chanField(sc.Chan) == fRecvChan {
				deliveries = append(deliveries, sel)
				pkt, okk := acceptFact(sel.Block())
				c.decide(okk && pkt == sc.SendV, "WIN-1", "receiveLoop|deliver only the expected packet", instrPos(sel),
					"delivery is dominated by Seq == recvSeq of the delivered packet",
					"a packet can be handed to Recv without its sequence number matching recvSeq: duplicates or out-of-order data reach the application")
			}
		}
	})
	allInstrs(rl, func(in ssa.Instruction) {
		if s, ok := in.(*ssa.Send); ok && chanField(s.Chan) == fRecvChan {
			c.fail("WIN-1", "receiveLoop|bare delivery", instrPos(s), "delivery with a bare channel send (cannot be interrupted; not the checked select)")
		}
	})
	// pings carry no application data and must not be delivered
	if fPing := w.Field("gbn.PacketData.IsPing"); fPing != nil {
		for _, d := range deliveries {
			cases, _ := w.selectCases(d)
			for _, sc := range cases {
				if !sc.IsSend || chanField(sc.Chan) != fRecvChan {
					continue
				}
				notPing := hasFact(d.Block(), func(f Fact) bool {
					u, ok := f.Cond.(*ssa.UnOp)
					if !ok || u.Op != token.MUL || f.Val {
						return false
					}
					fa, ok := u.X.(*ssa.FieldAddr)
					return ok && structFieldOf(fa) == fPing && fa.X == sc.SendV
				})
				c.decide(notPing, "WIN-1", "receiveLoop|ping-not-delivered", instrPos(d), "delivery is dominated by !IsPing of the delivered packet",
					"a keepalive ping can be handed to Recv as if it were a message the peer sent")
			}
		}
	}
	if len(deliveries) != 1 {
		c.fail("WIN-1", "receiveLoop|one delivery site", rl.Pos(), fmt.Sprintf("expected exactly one delivery site, found %d", len(deliveries)))
	}
	// (a') the answers (ACK, NACK) leave in the order in which the packets were judged: they are sent
	// by the receive goroutine itself, not by goroutines it spawns (an ACK overtaken by later ACKs and
	// NACKs can be taken for the acknowledgement of a packet that reuses its sequence number)
	if sp := w.Func("(*gbn.GoBackNConn).sendPacket"); sp != nil {
		bad := ""
		n := 0
		sites, _ := w.CallersOf(sp)
		for _, sx := range sites {
			isAns := false
			for _, a := range sx.Instr.Common().Args {
				if mi, ok := a.(*ssa.MakeInterface); ok {
					if nn := namedOf(deref(mi.X.Type())); nn != nil && (nn.Obj().Name() == "PacketACK" || nn.Obj().Name() == "PacketNACK") {
						isAns = true
					}
				}
			}
			if !isAns {
				continue
			}
			n++
			top := sx.Caller
			for top.Parent() != nil {
				// a closure: fine when it is only called, not started as a goroutine
				par := top.Parent()
				started := false
				allInstrs(par, func(in ssa.Instruction) {
					if g, ok := in.(*ssa.Go); ok {
						if mc, ok := g.Common().Value.(*ssa.MakeClosure); ok && mc.Fn == ssa.Value(top) {
							started = true
						}
					}
				})
				if started {
					bad = fnName(sx.Caller) + " at " + w.pos(instrPos(sx.Instr))
				}
				top = par
			}
			if top != rl {
				sub := w.ReachableSameGoroutine(rl)
				if !sub[top] {
					bad = fnName(sx.Caller) + " at " + w.pos(instrPos(sx.Instr))
				}
			}
		}
		c.decide(bad == "" && n >= 2, "WIN-1", "receiveLoop|answers sent by the receive goroutine itself", rl.Pos(), fmt.Sprintf("%d ACK/NACK sends, all in the receive goroutine", n),
			"an ACK/NACK is sent from another goroutine ("+bad+"): answers can overtake each other, and a stale ACK acknowledges a packet that reuses its sequence number")
	}
	// (b) recvSeq advance
	stores := w.Stores(fRecvSeq)
	nAdv := 0
	for _, st := range stores {
		if st.Parent() != rl {
			c.fail("WIN-1", "recvSeq|writer "+fnName(st.Parent()), instrPos(st), "recvSeq is written outside the receive loop")
			continue
		}
		nAdv++
		val := w.canonFB(st.Val)
		_, acc := acceptFact(st.Block())
		want := "((1+load(gbn.GoBackNConn.recvSeq))%load(gbn.config.s))"
		c.decide(val == want && acc, "WIN-1", "receiveLoop|recvSeq = (recvSeq+1) % s on acceptance", instrPos(st),
			"advance by one modulo s under Seq == recvSeq", fmt.Sprintf("recvSeq is set to %s (expected %s), under acceptance: %v", val, want, acc))
		// advance precedes delivery and every delivery is preceded by an advance
		for _, d := range deliveries {
			c.decide(instrDominates(st, d), "WIN-1", "receiveLoop|advance before delivery", instrPos(d), "recvSeq is advanced before the packet is delivered",
				"a packet can be delivered without recvSeq having been advanced: the retransmission of the same packet is accepted again")
		}
		// an accepted (acknowledged, recvSeq advanced) data packet IS delivered: from the advance, the
		// loop head is reached again only through the taken hand-over to Recv - the other cases of the
		// delivery select leave the function - or on the ping leg (pings carry no data). A packet that
		// is acknowledged but given up on is never resent by the peer: it is lost.
		if hd := loopHeadOf(rl); hd != nil && len(deliveries) == 1 {
			fIsPingF := w.Field("gbn.PacketData.IsPing")
			d := deliveries[0]
			cases, _ := w.selectCases(d)
			sendBody := map[*ssa.BasicBlock]bool{}
			otherLeaves := true
			for _, sc := range cases {
				if sc.IsSend && chanField(sc.Chan) == fRecvChan {
					if sc.Body != nil {
						sendBody[sc.Body] = true
					}
					continue
				}
				if sc.Body == nil || !blockLeaves(sc.Body, 0) {
					otherLeaves = false
				}
			}
			lost := false
			seen := map[*ssa.BasicBlock]bool{}
			var walk func(b *ssa.BasicBlock, from int)
			walk = func(b *ssa.BasicBlock, from int) {
				if lost {
					return
				}
				for i := from; i < len(b.Instrs); i++ {
					if b.Instrs[i] == ssa.Instruction(d) {
						return // the delivery select: judged by otherLeaves
					}
				}
				for _, sct := range b.Succs {
					if seen[sct] || !edgeFeasible(b, sct) {
						continue
					}
					// the ping leg legitimately skips the delivery
					if f, ok := edgeFact(b, sct); ok && f.Val && fIsPingF != nil && isLoadOfField(f.Cond, fIsPingF) {
						continue
					}
					if sct == hd {
						lost = true
						return
					}
					seen[sct] = true
					walk(sct, 0)
				}
			}
			walk(st.Block(), instrIndex(st)+1)
			c.decide(!lost && otherLeaves, "WIN-1", "receiveLoop|an accepted data packet is always delivered", instrPos(d),
				"after the advance the next iteration is reached only through the hand-over to Recv (or on the ping leg); the other cases of the delivery select return",
				fmt.Sprintf("an acknowledged data packet can be dropped (next iteration reachable without the hand-over: %v; every other case of the delivery select leaves the loop: %v): the peer never resends it", lost, otherLeaves))
		}
		// at most once per iteration: no path from the store back to itself without passing the loop head
		head := loopHeadOf(rl)
		if head != nil {
			again := pathExists(st, st, func(in ssa.Instruction) bool { return in.Block() == head })
			c.decide(!again, "WIN-1", "receiveLoop|one advance per packet", instrPos(st), "no second advance within one iteration", "recvSeq can advance twice for one packet")
		}
	}
	if nAdv != 1 {
		c.fail("WIN-1", "receiveLoop|single advance site", rl.Pos(), fmt.Sprintf("expected exactly one store to recvSeq in the receive loop, found %d", nAdv))
	}
	// (d)/(e) ACK and NACK contents
	allInstrs(rl, func(in ssa.Instruction) {
		st, ok := in.(*ssa.Store)
		if !ok {
			return
		}
		fa, ok := st.Addr.(*ssa.FieldAddr)
		if !ok {
			return
		}
		owner := namedOf(fa.X.Type())
		if owner == nil || structFieldOf(fa).Name() != "Seq" {
			return
		}
		switch owner.Obj().Name() {
		case "PacketACK":
			pkt, acc := acceptFact(st.Block())
			okk := acc && isLoadOfField(st.Val, fSeq) && unwrapLoadAlloc(st.Val).(*ssa.UnOp).X.(*ssa.FieldAddr).X == pkt
			if !okk && acc && isLoadOfField(st.Val, fRecvSeq) {
				// under Seq == recvSeq the expected number is the accepted one, as long as it is read
				// before recvSeq is advanced
				ld, _ := unwrapLoadAlloc(st.Val).(ssa.Instruction)
				stale := false
				for _, adv := range w.Stores(fRecvSeq) {
					if adv.Parent() == rl && ld != nil && pathExists(adv, ld, func(in ssa.Instruction) bool {
						h := loopHeadOf(rl)
						return h != nil && in.Block() == h
					}) {
						stale = true
					}
				}
				okk = ld != nil && !stale
			}
			c.decide(okk, "WIN-1", "receiveLoop|ACK carries the accepted Seq", instrPos(st), "ACK.Seq = Seq of the packet accepted on this leg",
				"the ACK does not carry the sequence number of the packet just accepted")
			// ... and whatever is acknowledged is consumed: once the ACK went out the sender forgets the
			// packet, so its sequence number must be used up on every way to the next iteration - for a
			// ping too (an acknowledged ping that leaves recvSeq where it was makes the receiver NACK
			// every later packet for ever)
			if fa, ok := st.Addr.(*ssa.FieldAddr); ok {
				var ackSend ssa.Instruction
				allInstrs(rl, func(x ssa.Instruction) {
					ci, ok := x.(ssa.CallInstruction)
					if !ok {
						return
					}
					for _, a := range ci.Common().Args {
						if mi, ok := a.(*ssa.MakeInterface); ok && mi.X == fa.X {
							ackSend = x
						}
					}
				})
				if h := loopHeadOf(rl); ackSend != nil && h != nil && len(h.Instrs) > 0 {
					isAdv := func(x ssa.Instruction) bool {
						s2, ok := x.(*ssa.Store)
						if !ok {
							return false
						}
						f2, ok := s2.Addr.(*ssa.FieldAddr)
						return ok && structFieldOf(f2) == fRecvSeq
					}
					skipped := pathExists(ackSend, h.Instrs[0], isAdv)
					c.decide(!skipped, "WIN-1", "receiveLoop|every acknowledged packet uses up its sequence number", instrPos(ackSend), "from the ACK every way to the next iteration passes the advance of recvSeq",
						"after the ACK was sent the loop can go on without advancing recvSeq (on the ping leg, say): the sender has dropped the packet, the receiver still waits for it and NACKs everything that follows")
				}
			}
			// the ACK send precedes the advance (so ACK.Seq, if read from recvSeq, would still be right) - informational
		case "PacketNACK":
			okk := rejectFact(st.Block()) && isLoadOfField(st.Val, fRecvSeq)
			c.decide(okk, "WIN-1", "receiveLoop|NACK carries recvSeq", instrPos(st), "NACK.Seq = recvSeq on the mismatch leg",
				"the NACK does not carry the sequence number the receiver expects (or is sent on the acceptance leg)")
		}
	})
	// a NACK built in a helper: the helper must only be called on the mismatch leg and use recvSeq
	for _, fn := range w.Funcs {
		if w.pkgShort(fn) != targetGBN || fn == rl {
			continue
		}
		allInstrs(fn, func(in ssa.Instruction) {
			st, ok := in.(*ssa.Store)
			if !ok {
				return
			}
			fa, ok := st.Addr.(*ssa.FieldAddr)
			if !ok || structFieldOf(fa).Name() != "Seq" {
				return
			}
			owner := namedOf(fa.X.Type())
			if owner == nil || owner.Obj().Name() != "PacketNACK" || fn.Name() == "Deserialize" {
				return
			}
			sites, closed := w.CallersOf(fn)
			okk := closed && len(sites) > 0 && isLoadOfField(st.Val, fRecvSeq)
			for _, s := range sites {
				if s.Caller != rl || !rejectFact(s.Instr.Block()) {
					okk = false
				}
			}
			c.decide(okk, "WIN-1", "receiveLoop|NACK carries recvSeq", instrPos(st), "NACK.Seq = recvSeq, built by a helper that is only called on the mismatch leg",
				"a NACK is built outside the mismatch leg of the receive loop or does not carry recvSeq")
		})
	}
	// (e) on the reject leg: no delivery, no advance
	for _, st := range stores {
		if st.Parent() == rl && rejectFact(st.Block()) {
			c.fail("WIN-1", "receiveLoop|advance on mismatch", instrPos(st), "recvSeq advances although the packet was not the expected one")
		}
	}
	for _, d := range deliveries {
		if rejectFact(d.Block()) {
			c.fail("WIN-1", "receiveLoop|delivery on mismatch", instrPos(d), "a packet is delivered on the mismatch leg")
		}
	}
	c.floor("WIN-1", 6)

	// ---- WIN-2 ----
	ruleWIN2(c, fRecvChan, fSendChan, rl, sl)

	// ---- WIN-3 ----
	ruleWIN3(c, sl)

	ruleWIN4(c)
	ruleORD1(c)

	rg := newRanger(w)
	inv := gbnInvariants(w, rg)
	proveFieldInvariants(c, rg, inv, "INV")
	ws := newWindowSpace(c, rg)
	ws.proveStores("INV")
	ws.proveContainsArgs("INV")
	c.floor("INV", 12)
	// the window discipline is what keeps a resent window distinguishable from the next one
	ruleWIN5(c)
	ruleSEQSPACE(c, rg)
	ruleSIZE(c)
}

// ruleWIN2: channel ownership.
func ruleWIN2(c *Checker, fRecvChan, fSendChan *types.Var, rl, sl *ssa.Function) {
	w := c.w
	recvFn := w.Func("(*gbn.GoBackNConn).Recv")
	sendFn := w.Func("(*gbn.GoBackNConn).Send")
	type use struct {
		fn   *ssa.Function
		send bool
		pos  token.Pos
	}
	uses := map[*types.Var][]use{}
	for _, fn := range w.Funcs {
		if w.pkgShort(fn) != targetGBN {
			continue
		}
		allInstrs(fn, func(in ssa.Instruction) {
			switch in := in.(type) {
			case *ssa.Select:
				for _, st := range in.States {
					if f := chanField(st.Chan); f == fRecvChan || f == fSendChan {
						uses[f] = append(uses[f], use{fn, st.Send != nil, instrPos(in)})
					}
				}
			case *ssa.Send:
				if f := chanField(in.Chan); f == fRecvChan || f == fSendChan {
					uses[f] = append(uses[f], use{fn, true, instrPos(in)})
				}
			case *ssa.UnOp:
				if in.Op == token.ARROW {
					if f := chanField(in.X); f == fRecvChan || f == fSendChan {
						uses[f] = append(uses[f], use{fn, false, instrPos(in)})
					}
				}
			}
		})
	}
	rootOf := func(fn *ssa.Function) *ssa.Function {
		for fn.Parent() != nil {
			fn = fn.Parent()
		}
		return fn
	}
	check := func(f *types.Var, name string, producer, consumer *ssa.Function) {
		np, nc := 0, 0
		for _, u := range uses[f] {
			r := rootOf(u.fn)
			if u.send {
				np++
				c.decide(r == producer, "WIN-2", fmt.Sprintf("%s|producer %s", name, fnName(r)), u.pos, "sent by "+fnName(producer)+" only",
					name+" has a second producer: messages can be reordered")
			} else {
				nc++
				c.decide(r == consumer, "WIN-2", fmt.Sprintf("%s|consumer %s", name, fnName(r)), u.pos, "received by "+fnName(consumer)+" only",
					name+" has a second consumer: messages can be lost to the wrong reader")
			}
		}
		if np == 0 || nc == 0 {
			c.fail("WIN-2", name+"|endpoints", token.NoPos, fmt.Sprintf("%s has %d producers and %d consumers", name, np, nc))
		}
	}
	if recvFn == nil || sendFn == nil {
		c.anchorFail("Recv / Send")
		return
	}
	check(fRecvChan, "recvDataChan", rl, recvFn)
	check(fSendChan, "sendDataChan", sendFn, sl)
	c.floor("WIN-2", 4)
}

// ruleWIN3: retransmission buffer.
func ruleWIN3(c *Checker, sl *ssa.Function) {
	w := c.w
	add := w.Func("(*gbn.queue).addPacket")
	resend := w.Func("(*gbn.queue).resend")
	fTop := w.Field("gbn.queue.sequenceTop")
	fBase := w.Field("gbn.queue.sequenceBase")
	fContent := w.Field("gbn.queue.content")
	fSeq := w.Field("gbn.PacketData.Seq")
	if add == nil || resend == nil || fTop == nil || fContent == nil || fSeq == nil || fBase == nil {
		c.anchorFail("queue.addPacket / resend / content / sequenceTop")
		return
	}
	pkt := ssa.Value(add.Params[1])
	const topS, sS = "load(gbn.queue.sequenceTop)", "load(gbn.queueCfg.s)"
	var seqSt, contSt, topSt *ssa.Store
	allInstrs(add, func(in ssa.Instruction) {
		st, ok := in.(*ssa.Store)
		if !ok {
			return
		}
		switch a := st.Addr.(type) {
		case *ssa.FieldAddr:
			if structFieldOf(a) == fSeq && a.X == pkt {
				seqSt = st
			}
			if structFieldOf(a) == fTop {
				topSt = st
			}
		case *ssa.IndexAddr:
			if isLoadOfField(a.X, fContent) {
				contSt = st
			}
		}
	})
	c.decide(seqSt != nil && w.canonFB(seqSt.Val) == topS, "WIN-3", "addPacket|packet.Seq = top", add.Pos(), "the packet is labelled with the current top", "the queued packet is not labelled with sequenceTop")
	okCont := contSt != nil && contSt.Val == pkt && w.canonFB(contSt.Addr.(*ssa.IndexAddr).Index) == topS
	c.decide(okCont, "WIN-3", "addPacket|content[top] = packet", add.Pos(), "the packet is stored at content[top]", "the packet is not stored at content[sequenceTop]")
	okTop := topSt != nil && w.canonFB(topSt.Val) == "((1+"+topS+")%"+sS+")"
	c.decide(okTop, "WIN-3", "addPacket|top = (top+1) % s", add.Pos(), "top advances by one modulo s", "sequenceTop does not advance by exactly one modulo s")
	if seqSt != nil && contSt != nil && topSt != nil {
		c.decide(instrDominates(seqSt, topSt) && instrDominates(contSt, topSt), "WIN-3", "addPacket|label and store before advancing top", add.Pos(),
			"Seq and content[top] are written before top moves", "top is advanced before the packet is labelled/stored: the packet gets the next sequence number or slot")
	}
	for _, st := range w.Stores(fTop) {
		c.decide(st.Parent() == add, "WIN-3", "sequenceTop|writer "+fnName(st.Parent()), instrPos(st), "written by addPacket only", "sequenceTop is written outside addPacket")
	}
	// send loop: addPacket(p) dominates the first transmission of the same p
	// (looking through one level of closures/helpers: "add and send" may be an extracted function)
	adds := w.effectiveCalls(sl, func(ci ssa.CallInstruction) bool { return ci.Common().StaticCallee() == add })
	firsts := w.effectiveCalls(sl, func(ci ssa.CallInstruction) bool {
		sc := ci.Common().StaticCallee()
		return sc != nil && sc.Name() == "sendPacket"
	})
	okQ := len(adds) == 1 && len(firsts) == 1
	if okQ {
		a, f := adds[0], firsts[0]
		var sent, queued ssa.Value
		for _, arg := range f.Inner.Common().Args {
			if mi, ok := arg.(*ssa.MakeInterface); ok {
				sent = unwrapLoadAlloc(mi.X)
			}
		}
		queued = unwrapLoadAlloc(a.Inner.Common().Args[1])
		okQ = effDominates(a, f) && sent != nil && sent == queued && a.Helper == f.Helper
	}
	c.decide(okQ, "WIN-3", "sendLoop|queue before first transmission", sl.Pos(), "addPacket(p) dominates sendPacket(p)", "a packet can be transmitted without being in the retransmission queue (or a different packet is queued)")
	// resend: index phi from base snapshot, step (i+1)%s, until top snapshot, sends content[i]
	var idx *ssa.Phi
	var resendCall *ssa.Call
	allInstrs(resend, func(in ssa.Instruction) {
		call, ok := in.(*ssa.Call)
		if !ok {
			return
		}
		f := chanField(call.Common().Value)
		if f == nil || f.Name() != "sendPkt" || len(call.Common().Args) != 1 {
			return
		}
		if u, ok := unwrapLoadAlloc(call.Common().Args[0]).(*ssa.UnOp); ok && u.Op == token.MUL {
			if ia, ok := u.X.(*ssa.IndexAddr); ok && isLoadOfField(ia.X, fContent) {
				idx, _ = ia.Index.(*ssa.Phi)
				resendCall = call
			}
		}
	})
	// every slot of the window is retransmitted: inside the loop no way leads from the loop head back
	// to it without passing the transmission (a packet that is skipped - a ping, say - is NACKed by
	// the receiver for ever, and everything behind it is never delivered)
	if idx != nil && resendCall != nil {
		head := idx.Block()
		skipped := false
		for _, sct := range head.Succs {
			if !head.Dominates(sct) || !pathFromBlockEntryToBlock(sct, head, nil) {
				continue // the exit edge
			}
			if pathFromBlockEntryToBlock(sct, head, func(in ssa.Instruction) bool { return in == ssa.Instruction(resendCall) }) {
				skipped = true
			}
		}
		c.decide(!skipped, "WIN-3", "resend|every slot between base and top is retransmitted", instrPos(resendCall), "each iteration of the resend loop passes the transmission",
			"the resend loop can go on to the next slot without transmitting the current one: a skipped packet is never repaired")
	}
	// the walk ends at the top snapshot and nowhere else: the loop is left from its head exactly when
	// i == top, and otherwise only after a transmission (the error return)
	if idx != nil && resendCall != nil {
		head := idx.Block()
		inLoop := func(b *ssa.BasicBlock) bool {
			return b == head || (head.Dominates(b) && pathFromBlockEntryToBlock(b, head, nil))
		}
		isTopSnap := func(v ssa.Value) bool { return isLoadOfField(v, fTop) }
		okB, whyB := true, ""
		nBody := 0
		for _, sct := range head.Succs {
			f, okf := edgeFact(head, sct)
			rel := ""
			if okf {
				rel = factRel(f, isValue(ssa.Value(idx)), isTopSnap)
			}
			switch {
			case inLoop(sct) && rel == "!=":
				nBody++
			case !inLoop(sct) && rel == "==":
			default:
				okB, whyB = false, "the loop head does not test i != top (found '"+rel+"')"
			}
		}
		okB = okB && nBody == 1
		for _, b := range resend.Blocks {
			if b == head || !inLoop(b) {
				continue
			}
			for _, sct := range b.Succs {
				if !inLoop(sct) && !(resendCall.Block() == b || resendCall.Block().Dominates(b)) {
					okB, whyB = false, "the loop can be left before the current slot was transmitted"
				}
			}
		}
		c.decide(okB, "WIN-3", "resend|the walk ends exactly at the top snapshot", instrPos(resendCall), "loop continues while i != top, left otherwise only after a transmission",
			"the resend loop does not run exactly until the index reaches the top snapshot (a wrapped window is not retransmitted, or the walk stops early): "+whyB)
	}
	okR := idx != nil
	why := "the packet retransmitted is not content[i] with i the loop index"
	if okR {
		nInit, nStep := 0, 0
		for _, e := range idx.Edges {
			switch {
			case isLoadOfField(e, fBase):
				nInit++
			case w.canonFB(e) == "((1+phi:"+idx.Comment+")%"+sS+")":
				nStep++
			default:
				okR = false
				why = "the resend index is neither initialised from sequenceBase nor advanced by (i+1) % s: " + w.canonFB(e)
			}
		}
		okR = okR && nInit == 1 && nStep >= 1
	}
	c.decide(okR, "WIN-3", "resend|walks base..top by (i+1) % s sending content[i]", resend.Pos(), "resend retransmits exactly content[i] for i = base, base+1, ... (mod s)", why)
	c.floor("WIN-3", 8)
}

// ---------------------------------------------------------------------------
// C09

func runC09(c *Checker) {
	// "at most N outstanding" is about the N both sides agreed on: the handshake obligations of
	// C10 (every completion adopts the negotiated N and s = N+1) are part of this check
	importLayers(c, "C10")
	// "Send blocks only until an acknowledgement frees a slot" presupposes that the send and the
	// receive goroutine cannot deadlock on the queue's two mutexes (C18 LOCKORD)
	importLayers(c, "C18")
	// "Send blocks only while the window is full": the blocked Send is released by the send loop,
	// whose window-full wait is re-evaluated by the ACK signal or, when that non-blocking signal was
	// missed, by the resend timer - the wake-up and timer-ownership obligations of C06 (WAKE, KA-6)
	// are what keeps a freed slot from going unnoticed
	importLayers(c, "C06")
	w := c.w
	ruleWIN5(c)
	ruleChunkMinimal(c)
	rg := newRanger(w)
	inv := gbnInvariants(w, rg)
	proveFieldInvariants(c, rg, inv, "INV")
	ruleSEQSPACE(c, rg)
	ruleSIZE(c)
	ws := newWindowSpace(c, rg)
	ws.proveStores("INV")
	ws.proveContainsArgs("INV")
	ws.proveImmutable("INV")
	c.floor("INV", 12)
	ruleWIN4(c)
	ruleORD1(c)
}

// ruleWIN5: admission to the send window.
func ruleWIN5(c *Checker) {
	w := c.w
	sl := w.Func("(*gbn.GoBackNConn).sendPacketsForever")
	add := w.Func("(*gbn.queue).addPacket")
	size := w.Func("(*gbn.queue).size")
	fN := w.Field("gbn.config.n")
	fSendChan := w.Field("gbn.GoBackNConn.sendDataChan")
	if sl == nil || add == nil || size == nil || fN == nil || fSendChan == nil {
		c.anchorFail("send loop / addPacket / size / config.n / sendDataChan")
		return
	}
	// WIN-5
	roomFact := func(f Fact) bool {
		return factRel(f, func(v ssa.Value) bool {
			call, ok := v.(*ssa.Call)
			return ok && call.Common().StaticCallee() == size
		}, func(v ssa.Value) bool { return isLoadOfField(v, fN) }) == "<"
	}
	hasRoomOnEdge := func(p, s *ssa.BasicBlock) bool {
		for _, f := range factsOnEdge(p, s) {
			if roomFact(f) {
				return true
			}
		}
		return false
	}
	effAdds := w.effectiveCalls(sl, func(ci ssa.CallInstruction) bool { return ci.Common().StaticCallee() == add })
	var adds []ssa.CallInstruction
	for _, e := range effAdds {
		adds = append(adds, e.Site)
	}
	if len(adds) == 0 {
		c.fail("WIN-5", "sendLoop|addPacket", sl.Pos(), "the send loop never queues a packet")
	}
	for _, a := range adds {
		// walk from after a; stop at blocks with the room fact; reaching any addPacket is a violation
		seen := map[*ssa.BasicBlock]bool{}
		bad := false
		var walk func(b *ssa.BasicBlock, from int)
		walk = func(b *ssa.BasicBlock, from int) {
			for i := from; i < len(b.Instrs); i++ {
				for _, a2 := range adds {
					if b.Instrs[i] == ssa.Instruction(a2) {
						bad = true
						return
					}
				}
			}
			for _, s := range b.Succs {
				if seen[s] || !edgeFeasible(b, s) {
					continue
				}
				if hasRoomOnEdge(b, s) {
					continue
				}
				seen[s] = true
				walk(s, 0)
			}
		}
		walk(a.Block(), instrIndex(a)+1)
		c.decide(!bad, "WIN-5", "sendLoop|admission only under size() < n", instrPos(a), "every path from one addPacket to the next passes a block dominated by size() < n",
			"a new packet can be admitted while size() >= n: more than N packets are outstanding")
	}
	capk, okc := w.chanCapacity(fieldLoadIn(sl, fSendChan))
	c.decide(okc && capk == 0, "WIN-5", "sendDataChan|unbuffered", sl.Pos(), "sendDataChan has capacity 0 (Send blocks exactly while the loop is not admitting)",
		fmt.Sprintf("sendDataChan is buffered (capacity known: %v, %d): Send returns for messages beyond the window", okc, capk))
	// received only in the main select (the one that is not the window-full wait)
	nRecv := 0
	allInstrs(sl, func(in ssa.Instruction) {
		sel, ok := in.(*ssa.Select)
		if !ok {
			return
		}
		cases, _ := w.selectCases(sel)
		for _, sc := range cases {
			if !sc.IsSend && chanField(sc.Chan) == fSendChan {
				nRecv++
				// the received packet flows to addPacket
				okFlow := false
				for _, a := range effAdds {
					if len(a.Args) < 2 || a.Args[1] == nil {
						continue
					}
					for _, v := range expandValues(a.Args[1]) {
						if v == sc.RecvV {
							okFlow = true
						}
					}
				}
				c.decide(okFlow, "WIN-5", "sendLoop|received packet is queued", instrPos(sel), "the packet taken from sendDataChan is the one queued", "the packet taken from Send is not the one queued")
			}
		}
	})
	// every packet that is queued was obtained in this iteration: the value taken from sendDataChan
	// or a PacketData allocated on a ping leg - never a value carried over from an earlier iteration
	// (a stale packet would be queued again under a new sequence number and delivered twice) or nil
	for i, a := range effAdds {
		if len(a.Args) < 2 || a.Args[1] == nil {
			c.fail("WIN-5", fmt.Sprintf("sendLoop|queued packet %d is fresh", i+1), instrPos(a.Site), "the queued packet cannot be traced to the send loop")
			continue
		}
		bad := ""
		var vals []ssa.Value
		seenPhi := map[*ssa.Phi]bool{}
		var expand func(v ssa.Value)
		expand = func(v ssa.Value) {
			v = unwrapLoadAlloc(v)
			if phi, ok := v.(*ssa.Phi); ok {
				if seenPhi[phi] {
					return
				}
				seenPhi[phi] = true
				for k, e := range phi.Edges {
					// a back edge (the predecessor is dominated by the phi's block) carries last iteration's value
					if phi.Block().Dominates(phi.Block().Preds[k]) {
						bad = "a value carried over from the previous iteration (" + w.canonFB(e) + ")"
						continue
					}
					expand(e)
				}
				return
			}
			vals = append(vals, v)
		}
		expand(a.Args[1])
		for _, v := range vals {
			switch x := v.(type) {
			case *ssa.Alloc:
				if nt := namedOf(x.Type()); nt == nil || nt.Obj().Name() != "PacketData" {
					bad = w.canonFB(v)
				}
			case *ssa.Extract, *ssa.UnOp:
				isRecv := false
				allInstrs(sl, func(in ssa.Instruction) {
					if sel, ok := in.(*ssa.Select); ok {
						cases, _ := w.selectCases(sel)
						for _, sc := range cases {
							if !sc.IsSend && chanField(sc.Chan) == fSendChan && sc.RecvV == v {
								isRecv = true
							}
						}
					}
				})
				if !isRecv {
					bad = w.canonFB(v)
				}
			default:
				bad = w.canonFB(v)
			}
		}
		c.decide(bad == "", "WIN-5", fmt.Sprintf("sendLoop|queued packet %d is fresh", i+1), instrPos(a.Site), "the queued packet is the one just received from Send or a newly allocated ping",
			"the send loop can queue "+bad+": a packet that was already sent is queued again under a new sequence number (duplicate delivery), or a nil packet is queued")
	}
	c.decide(nRecv == 1, "WIN-5", "sendDataChan|single receive site", sl.Pos(), "one receive site in the send loop", fmt.Sprintf("%d receive sites for sendDataChan in the send loop", nRecv))
	fRecvChan := w.Field("gbn.GoBackNConn.recvDataChan")
	rl := w.Func("(*gbn.GoBackNConn).receivePacketsForever")
	if fRecvChan != nil && rl != nil {
		ruleWIN2(c, fRecvChan, fSendChan, rl, sl)
	}
	c.floor("WIN-5", 5)

}

// ruleSEQSPACE: s = n + 1 at every definition.
func ruleSEQSPACE(c *Checker, rg *Ranger) {
	w := c.w
	fN := w.Field("gbn.config.n")
	if fN == nil {
		c.anchorFail("gbn.config.n")
		return
	}
	for _, fk := range []string{"gbn.config.s", "gbn.queueCfg.s"} {
		f := w.Field(fk)
		if f == nil {
			c.anchorFail(fk)
			continue
		}
		for _, st := range w.Stores(f) {
			key := fmt.Sprintf("%s|%s = %s", fnName(st.Parent()), fk, w.canonFB(st.Val))
			bo, ok := st.Val.(*ssa.BinOp)
			okk := false
			var x ssa.Value
			if ok && bo.Op == token.ADD {
				if k, ok := intConst(bo.Y); ok && k == 1 {
					x = bo.X
				} else if k, ok := intConst(bo.X); ok && k == 1 {
					x = bo.Y
				}
			}
			if x != nil {
				// X is load(config.n) or the value stored to config.n in the same function, or a parameter n stored as n by this function's composite literal
				if isLoadOfField(x, fN) {
					okk = true
				}
				for _, s2 := range w.Stores(fN) {
					if s2.Parent() == st.Parent() && s2.Val == x {
						okk = true
					}
				}
				r := rg.At(x, st.Block())
				okk = okk && !r.empty && r.hi <= 254
			} else if ks, isK := intConst(st.Val); isK {
				// both constants (`n: DefaultN, s: DefaultN + 1` folded by the compiler): s is the constant
				// stored to n in the same function, plus one
				for _, s2 := range w.Stores(fN) {
					if kn, ok := intConst(s2.Val); ok && s2.Parent() == st.Parent() && ks == kn+1 && kn <= 254 {
						okk = true
					}
				}
			}
			c.decide(okk, "SEQSPACE", key, instrPos(st), "s = n + 1 with n the window size in force and n <= 254", "the sequence space is not defined as window size + 1 (or can wrap to 0): s > n no longer holds")
		}
	}
	if f := w.Field("gbn.syncer.s"); f != nil {
		for _, st := range w.Stores(f) {
			p, isParam := st.Val.(*ssa.Parameter)
			okk := isParam
			if isParam {
				sites, closed := w.CallersOf(p.Parent())
				okk = closed && len(sites) > 0
				idx := -1
				for i, q := range p.Parent().Params {
					if q == p {
						idx = i
					}
				}
				for _, s := range sites {
					if idx < 0 || w.canonFB(s.Instr.Common().Args[idx]) != "load(gbn.queueCfg.s)" {
						okk = false
					}
				}
			}
			c.decide(okk, "SEQSPACE", "syncer.s = queueCfg.s", instrPos(st), "the syncer uses the queue's sequence space", "the syncer's sequence space is not the queue's")
		}
	}
	c.floor("SEQSPACE", 4)

}

// ruleSIZE: queue.size() is (top - base) mod s.
func ruleSIZE(c *Checker) {
	w := c.w
	size := w.Func("(*gbn.queue).size")
	if size == nil {
		c.anchorFail("(*gbn.queue).size")
		return
	}
	okSize, whySize := sizeShape(w, size)
	c.decide(okSize, "SIZE", "queue.size|closed form", size.Pos(), whySize, "queue.size() is not (top - base) mod s in one of the accepted closed forms: "+whySize)
	c.floor("SIZE", 1)

}

// sizeShape recognises size() = top-base if top>=base else top+(s-base).
func sizeShape(w *World, size *ssa.Function) (bool, string) {
	const top, base, s = "load(gbn.queue.sequenceTop)", "load(gbn.queue.sequenceBase)", "load(gbn.queueCfg.s)"
	isC := func(k string) func(ssa.Value) bool {
		return func(v ssa.Value) bool { return w.canonFB(v) == k }
	}
	// linear form of a uint8 expression over top, base, s: uint8 addition and
	// subtraction are exact modulo 256, so every parenthesisation and operand
	// order of the same linear combination is the same function.
	var lin func(v ssa.Value, sign int, acc map[string]int) bool
	lin = func(v ssa.Value, sign int, acc map[string]int) bool {
		v = unwrapLoadAlloc(v)
		if b, ok := v.Type().Underlying().(*types.Basic); !ok || b.Kind() != types.Uint8 {
			return false
		}
		if bo, ok := v.(*ssa.BinOp); ok && (bo.Op == token.ADD || bo.Op == token.SUB) {
			ys := sign
			if bo.Op == token.SUB {
				ys = -sign
			}
			return lin(bo.X, sign, acc) && lin(bo.Y, ys, acc)
		}
		switch k := w.canonFB(v); k {
		case top, base, s:
			acc[k] += sign
			return true
		}
		return false
	}
	var forms []string
	ok := true
	allInstrs(size, func(in ssa.Instruction) {
		ret, isRet := in.(*ssa.Return)
		if !isRet || ret.Block().Comment == "recover" {
			return
		}
		rel := ""
		hasFact(ret.Block(), func(f Fact) bool {
			if r := factRel(f, isC(top), isC(base)); r != "" {
				rel = r
			}
			return false
		})
		acc := map[string]int{}
		isLin := lin(ret.Results[0], 1, acc)
		switch {
		case isLin && acc[top] == 1 && acc[base] == -1 && acc[s] == 0 && (rel == ">=" || rel == ">" || rel == "=="):
			forms = append(forms, "top-base if top>=base")
		case isLin && acc[top] == 1 && acc[base] == -1 && acc[s] == 1 && (rel == "<"):
			forms = append(forms, "top+(s-base) if top<base")
		default:
			ok = false
			forms = append(forms, "unrecognised: "+w.canonFB(unwrapLoadAlloc(ret.Results[0]))+" under top "+rel+" base")
		}
	})
	if len(forms) == 0 {
		return false, "no return"
	}
	return ok, strings.Join(forms, "; ")
}

// ---------------------------------------------------------------------------
// C10

func runC10(c *Checker) {
	w := c.w
	sh := w.Func("(*gbn.GoBackNConn).serverHandshake")
	ch := w.Func("(*gbn.GoBackNConn).clientHandshake")
	setN := w.Func("(*gbn.GoBackNConn).setN")
	fSynN := w.Field("gbn.PacketSYN.N")
	fN := w.Field("gbn.config.n")
	if sh == nil || ch == nil || setN == nil || fSynN == nil || fN == nil {
		c.anchorFail("serverHandshake / clientHandshake / setN / PacketSYN.N / config.n")
		return
	}
	rg := newRanger(w)
	inv := gbnInvariants(w, rg)
	proveFieldInvariants(c, rg, inv, "GBNHS-4")
	c.floor("GBNHS-4", 7)

	// ---- GBNHS-1 ----
	calls := findCalls(sh, func(ci ssa.CallInstruction) bool { return ci.Common().StaticCallee() == setN })
	var echoed ssa.Value
	var echoStore *ssa.Store
	allInstrs(sh, func(in ssa.Instruction) {
		st, ok := in.(*ssa.Store)
		if !ok {
			return
		}
		if fa, ok := st.Addr.(*ssa.FieldAddr); ok && structFieldOf(fa) == fSynN {
			echoed = st.Val
			echoStore = st
		}
	})
	if len(calls) != 1 || echoed == nil {
		c.fail("GBNHS-1", "serverHandshake|shape", sh.Pos(), fmt.Sprintf("expected one setN call and one SYN reply, found %d setN calls, reply found: %v", len(calls), echoed != nil))
	} else {
		adopted := calls[0].Common().Args[1]
		// echoed value: load of PacketSYN.N of a received (type-asserted) packet
		fromPeer := false
		if isLoadOfField(echoed, fSynN) {
			base := unwrapLoadAlloc(echoed).(*ssa.UnOp).X.(*ssa.FieldAddr).X
			if _, ok := base.(*ssa.TypeAssert); ok {
				fromPeer = true
			}
			if ex, ok := base.(*ssa.Extract); ok {
				_, fromPeer = ex.Tuple.(*ssa.TypeAssert)
			}
		}
		c.decide(fromPeer, "GBNHS-1", "serverHandshake|echo the client's N", instrPos(echoStore), "the SYN reply carries the N field of the received SYN",
			"the server's SYN reply does not carry the window size the client proposed: "+w.canonFB(echoed))
		okSame := true
		var defs []string
		for _, v := range expandValues(adopted) {
			defs = append(defs, w.canonFB(v))
			if v == echoed {
				continue
			}
			if k, ok := intConst(v); ok && k == 0 {
				continue // initial value; excluded by the 'resent' rule below
			}
			okSame = false
		}
		c.decide(okSame, "GBNHS-1", "serverHandshake|adopt exactly the echoed N", instrPos(calls[0]), "setN receives the value that was echoed: "+strings.Join(defs, ","),
			"the server adopts a window size other than the one it echoed to the client: "+strings.Join(defs, ","))
		r := rg.At(adopted, calls[0].Block())
		c.decide(!r.empty && r.hi <= 254, "GBNHS-1", "serverHandshake|adopted N representable", instrPos(calls[0]), fmt.Sprintf("adopted N in %s", r),
			fmt.Sprintf("the adopted window size may be 255 (range %s): s = N+1 wraps to 0", r))
		// the resent shortcut only after a SYN was processed
		okResent := true
		nTrue := 0
		allInstrs(sh, func(in ssa.Instruction) {
			phi, ok := in.(*ssa.Phi)
			if !ok || !isRestartFlag(sh, phi) {
				return
			}
			for i, e := range phi.Edges {
				if isBoolConstVal(e, true) {
					nTrue++
					p := phi.Block().Preds[i]
					if !(echoStore.Block() == p || echoStore.Block().Dominates(p)) {
						okResent = false
					}
				}
			}
		})
		// ... and conversely: whenever the server gives up waiting for the SYNACK and goes back to waiting
		// for a SYN (any way back to the loop head from the region after the echo), the flag is set -
		// otherwise the client, which may have completed, can never be recognised again (its SYNACK and
		// data are ignored for ever; the only other legal reaction to an unexpected packet is an error)
		okBack, nBack := true, 0
		allInstrs(sh, func(in ssa.Instruction) {
			phi, ok := in.(*ssa.Phi)
			if !ok || !isRestartFlag(sh, phi) {
				return
			}
			for i, e := range phi.Edges {
				p := phi.Block().Preds[i]
				if !(echoStore.Block() == p || echoStore.Block().Dominates(p)) {
					continue
				}
				// only back edges into the wait-for-SYN loop head (the phi's block dominates the echo)
				if !phi.Block().Dominates(echoStore.Block()) {
					continue
				}
				nBack++
				if !isBoolConstVal(e, true) {
					okBack = false
				}
			}
		})
		c.decide(okBack && nBack > 0, "GBNHS-1", "serverHandshake|every restart after the echo sets the restart flag", sh.Pos(), fmt.Sprintf("%d ways back to the wait for SYN after the echo, all with the flag set", nBack),
			"after echoing the SYN the server can go back to waiting for a SYN without setting the restart flag (e.g. on an unexpected packet): a client that has completed is never recognised, NewServerConn neither returns nor fails")
		c.decide(okResent && nTrue > 0, "GBNHS-1", "serverHandshake|restart flag set only after a SYN was echoed", sh.Pos(), "every 'resent = true' is dominated by the SYN echo",
			"the restart shortcut (accepting SYNACK/DATA) can be taken before any SYN was received: the server would enter the data phase with a window nobody proposed")
	}
	c.floor("GBNHS-1", 5)

	// ---- GBNHS-2 ----
	var synackSend ssa.CallInstruction
	for _, ci := range findCalls(ch, func(ci ssa.CallInstruction) bool {
		f := chanField(ci.Common().Value)
		return f != nil && f.Name() == "sendToStream"
	}) {
		// the bytes come from (*PacketSYNACK).Serialize
		for _, a := range ci.Common().Args {
			if ex, ok := unwrapLoadAlloc(a).(*ssa.Extract); ok {
				if call, ok := ex.Tuple.(*ssa.Call); ok && call.Common().StaticCallee() != nil && strings.Contains(fnName(call.Common().StaticCallee()), "PacketSYNACK") {
					synackSend = ci
				}
			}
		}
	}
	if synackSend == nil {
		c.fail("GBNHS-2", "clientHandshake|SYNACK send", ch.Pos(), "the client never sends a SYNACK")
	} else {
		agreed := hasFact(synackSend.Block(), func(f Fact) bool {
			bo, ok := f.Cond.(*ssa.BinOp)
			if !ok {
				return false
			}
			eq := (bo.Op == token.NEQ && !f.Val) || (bo.Op == token.EQL && f.Val)
			if !eq {
				return false
			}
			return isLoadOfField(bo.X, fSynN) && isLoadOfField(bo.Y, fN) || isLoadOfField(bo.Y, fSynN) && isLoadOfField(bo.X, fN)
		})
		c.decide(agreed, "GBNHS-2", "clientHandshake|SYNACK only if the server echoed our N", instrPos(synackSend), "dominated by respSYN.N == cfg.n",
			"the client completes the handshake without checking that the server echoed the proposed window size")
		// the unequal leg returns an error
		okErr := false
		for _, b := range ch.Blocks {
			if hasFact(b, func(f Fact) bool {
				bo, ok := f.Cond.(*ssa.BinOp)
				if !ok {
					return false
				}
				ne := (bo.Op == token.NEQ && f.Val) || (bo.Op == token.EQL && !f.Val)
				return ne && (isLoadOfField(bo.X, fSynN) && isLoadOfField(bo.Y, fN) || isLoadOfField(bo.Y, fSynN) && isLoadOfField(bo.X, fN))
			}) && blockReturnsError(b, 0) {
				okErr = true
			}
		}
		c.decide(okErr, "GBNHS-2", "clientHandshake|mismatch fails the handshake", ch.Pos(), "a different N ends the handshake with an error", "a mismatching N does not fail the handshake with an error")
	}
	c.floor("GBNHS-2", 2)

	// ---- GBNHS-3 ----
	for _, fn := range []*ssa.Function{ch, sh} {
		ruleNonSynIgnored(c, fn)
	}
	ruleHandshakeExtras(c, ch, sh)
	ruleFreshSYN(c, sh)
	// the constructors hand out a connection only after their handshake succeeded: its error is
	// tested, the failing leg returns it, and start() runs on the success leg only
	for _, pr := range [][2]string{{"gbn.NewClientConn", "clientHandshake"}, {"gbn.NewServerConn", "serverHandshake"}} {
		ctor := w.Func(pr[0])
		if ctor == nil {
			c.anchorFail(pr[0])
			continue
		}
		okk, why := false, "no handshake call"
		for _, ci := range findCalls(ctor, func(ci ssa.CallInstruction) bool {
			sc := ci.Common().StaticCallee()
			return sc != nil && sc.Name() == pr[1]
		}) {
			call, isCall := ci.(*ssa.Call)
			if !isCall {
				continue
			}
			okk, why = errCheckedAndReturned(call, 0)
			for _, st := range findCalls(ctor, func(x ssa.CallInstruction) bool {
				sc := x.Common().StaticCallee()
				return sc != nil && sc.Name() == "start"
			}) {
				if !hasFact(st.Block(), func(f Fact) bool { return factRel(f, isValue(ssa.Value(call)), isNilConst) == "==" }) {
					okk, why = false, "start() is not under 'handshake error == nil'"
				}
			}
		}
		c.decide(okk, "GBNHS-2", pr[0]+"|a failed handshake ends the constructor", ctor.Pos(), "the handshake error is tested and returned; start() only on success",
			pr[0]+" can hand out (or start) a connection whose handshake failed ("+why+"): one side is in the data phase without an agreed window")
	}
	c.floor("GBNHS-3", 3)

	// ---- GBNHS-1 (cont.): the server never reports a completed handshake without having adopted N ----
	{
		exitBodies := map[*ssa.BasicBlock]bool{}
		allInstrs(sh, func(in ssa.Instruction) {
			if sel, ok := in.(*ssa.Select); ok {
				cases, _ := w.selectCases(sel)
				for _, scs := range cases {
					if !scs.IsSend && scs.Body != nil && !isByteSliceChan(scs.Chan) {
						exitBodies[scs.Body] = true
					}
				}
			}
		})
		isSetN := func(in ssa.Instruction) bool {
			ci, ok := in.(ssa.CallInstruction)
			if !ok {
				return false
			}
			sc := ci.Common().StaticCallee()
			return sc != nil && sc.Name() == "setN"
		}
		bad := ""
		allInstrs(sh, func(in ssa.Instruction) {
			ret, ok := in.(*ssa.Return)
			if !ok || bad != "" || exitBodies[ret.Block()] || len(ret.Results) == 0 {
				return
			}
			succ := false
			for _, v := range expandValues(ret.Results[len(ret.Results)-1]) {
				if isNilConst(v) {
					succ = true
				}
			}
			if succ && pathFromEntry(sh, ret, isSetN) {
				bad = w.pos(instrPos(ret))
			}
		})
		c.decide(bad == "", "GBNHS-1", "serverHandshake|every completion adopts N", sh.Pos(), "no nil return outside the quit/ctx cases without a preceding setN",
			"the server can report a completed handshake at "+bad+" without calling setN: it enters the data phase with the default window instead of the one it echoed to the client")
	}

	// ---- GBNHS-2 (cont.): the client never reports a completed handshake without having sent the SYNACK ----
	if synackSend != nil {
		exitBodies := map[*ssa.BasicBlock]bool{}
		allInstrs(ch, func(in ssa.Instruction) {
			if sel, ok := in.(*ssa.Select); ok {
				cases, _ := w.selectCases(sel)
				for _, scs := range cases {
					if !scs.IsSend && scs.Body != nil && !isByteSliceChan(scs.Chan) {
						exitBodies[scs.Body] = true
					}
				}
			}
		})
		bad := ""
		allInstrs(ch, func(in ssa.Instruction) {
			ret, ok := in.(*ssa.Return)
			if !ok || bad != "" || exitBodies[ret.Block()] || len(ret.Results) == 0 {
				return
			}
			succ := false
			for _, v := range expandValues(ret.Results[len(ret.Results)-1]) {
				if isNilConst(v) {
					succ = true
				}
			}
			if succ && pathFromEntry(ch, ret, func(i2 ssa.Instruction) bool { return i2 == ssa.Instruction(synackSend) }) {
				bad = w.pos(instrPos(ret))
			}
		})
		c.decide(bad == "", "GBNHS-2", "clientHandshake|every completion sends SYNACK", ch.Pos(), "no nil return outside the quit/ctx cases without the SYNACK send",
			"the client can report a completed handshake at "+bad+" without having sent SYNACK: the server keeps waiting and restarts while the client already sends data")
	}

	// ---- GBNHS-7: a handshake timeout makes the client send its SYN again ----
	{
		var synSends []ssa.Instruction
		for _, ci := range findCalls(ch, func(ci ssa.CallInstruction) bool {
			f := chanField(ci.Common().Value)
			return f != nil && f.Name() == "sendToStream"
		}) {
			for _, a := range ci.Common().Args {
				for _, v := range expandValues(a) {
					if ex, ok := unwrapLoadAlloc(v).(*ssa.Extract); ok {
						if call, ok := ex.Tuple.(*ssa.Call); ok && call.Common().StaticCallee() != nil && strings.Contains(fnName(call.Common().StaticCallee()), "PacketSYN)") {
							synSends = append(synSends, ci)
						}
					}
				}
			}
		}
		isSynSend := func(in ssa.Instruction) bool {
			for _, sd := range synSends {
				if in == sd {
					return true
				}
			}
			return false
		}
		n := 0
		allInstrs(ch, func(in ssa.Instruction) {
			sel, ok := in.(*ssa.Select)
			if !ok || !sel.Blocking {
				return
			}
			cases, _ := w.selectCases(sel)
			for _, sc := range cases {
				ch2, isCh := sc.Chan.Type().Underlying().(*types.Chan)
				if sc.IsSend || !isCh || sc.Body == nil {
					continue
				}
				if nt := namedOf(ch2.Elem()); nt == nil || nt.Obj().Name() != "Time" {
					continue
				}
				n++
				again := pathFromBlockEntry(sc.Body, sel, isSynSend)
				c.decide(len(synSends) > 0 && !again, "GBNHS-7", fmt.Sprintf("clientHandshake|timeout-%d resends SYN", n), instrPos(sel),
					"every path from the timeout leg back to the wait passes a send of a serialized PacketSYN",
					"after a handshake timeout the client can wait again without having sent another SYN: a lost SYN or SYN reply is never repaired and both constructors hang")
			}
		})
		if n == 0 {
			c.fail("GBNHS-7", "clientHandshake|timeout leg", ch.Pos(), "no wait with a timeout alternative found in clientHandshake")
		}
	}

	// ---- GBNHS-6: the handshake timeout is re-armed for every wait ----
	for _, fn := range []*ssa.Function{ch, sh} {
		ruleHandshakeTimerRearmed(c, fn)
	}
	c.floor("GBNHS-6", 2)

	// ---- GBNHS-5: the handshake reader is re-armed before every wait for a packet ----
	for _, fn := range []*ssa.Function{ch, sh} {
		ruleReaderRearmed(c, fn)
	}
	c.floor("GBNHS-5", 4)
}

// ruleReaderRearmed: the handshake functions read the transport through a helper
// goroutine that performs one receive per token on the local recvNext channel.
// Before every blocking wait on recvChan - from function entry and after every
// packet taken from recvChan - a (non-blocking) send on recvNext must have been
// attempted, otherwise the helper stays parked and the wait can only time out.
func ruleReaderRearmed(c *Checker, fn *ssa.Function) {
	w := c.w
	localChan := func(v ssa.Value, elem func(types.Type) bool) bool {
		for _, x := range expandValues(v) {
			mk, ok := unwrapLoadAlloc(x).(*ssa.MakeChan)
			if !ok || mk.Parent() != fn {
				return false
			}
			ch, ok := mk.Type().Underlying().(*types.Chan)
			if !ok || !elem(ch.Elem()) {
				return false
			}
		}
		return true
	}
	isBytes := func(t types.Type) bool {
		sl, ok := t.Underlying().(*types.Slice)
		return ok && types.Identical(sl.Elem(), types.Typ[types.Byte])
	}
	isInt := func(t types.Type) bool {
		b, ok := t.Underlying().(*types.Basic)
		return ok && b.Info()&types.IsInteger != 0
	}
	type wait struct {
		sel  *ssa.Select
		body *ssa.BasicBlock
	}
	var waits []wait
	rearm := map[ssa.Instruction]bool{}
	allInstrs(fn, func(in ssa.Instruction) {
		sel, ok := in.(*ssa.Select)
		if !ok {
			return
		}
		cases, _ := w.selectCases(sel)
		for _, sc := range cases {
			if !sc.IsSend && sel.Blocking && localChan(sc.Chan, isBytes) {
				waits = append(waits, wait{sel, sc.Body})
			}
			if sc.IsSend && localChan(sc.Chan, isInt) {
				rearm[sel] = true
			}
		}
	})
	name := fnName(fn)
	if len(waits) == 0 || len(rearm) == 0 {
		c.fail("GBNHS-5", name+"|shape", fn.Pos(), fmt.Sprintf("expected blocking waits on the local packet channel and re-arm sends on the local token channel, found %d / %d", len(waits), len(rearm)))
		return
	}
	// re-arming never waits: when the reader has not yet consumed the previous token (it is still
	// blocked in the transport read after a timeout) the one-slot token channel is full, and a
	// blocking send would stop the handshake for good
	k := 0
	for in := range rearm {
		sel := in.(*ssa.Select)
		k++
		_ = k
		c.decide(!sel.Blocking, "GBNHS-5", fmt.Sprintf("%s|re-arm at %s is non-blocking", name, fnName(sel.Parent())), instrPos(sel),
			"the send on the token channel sits in a select with a default case",
			"the handshake can block while re-arming the reader (select without default): after two timeouts in a row the token channel is still full and the handshake never continues")
	}
	avoid := func(in ssa.Instruction) bool { return rearm[in] }
	for i, wt := range waits {
		c.decide(!pathFromEntry(fn, wt.sel, avoid), "GBNHS-5", fmt.Sprintf("%s|wait-%d|armed from entry", name, i+1), instrPos(wt.sel),
			"every path from the start of the handshake to this wait passes a send on recvNext",
			"the handshake can wait for a packet before the reader goroutine was told to receive one")
		bad := ""
		for j, to := range waits {
			var reach bool
			if wt.body != nil {
				reach = pathFromBlockEntry(wt.body, to.sel, avoid)
			} else {
				reach = pathExists(wt.sel, to.sel, avoid)
			}
			if reach {
				bad = fmt.Sprintf("wait-%d at %s", j+1, w.pos(instrPos(to.sel)))
				break
			}
		}
		c.decide(bad == "", "GBNHS-5", fmt.Sprintf("%s|wait-%d|re-armed after a packet was taken", name, i+1), instrPos(wt.sel),
			"after a packet is taken from recvChan every path to the next wait passes a send on recvNext",
			"after a packet (e.g. a stale non-SYN packet of an earlier connection) was consumed here, "+bad+" is reached without signalling the reader: nothing is received until the handshake timeout fires, and the extra SYN/SYN-reply it causes can tear the new connection down")
	}
}

// ruleNonSynIgnored: after a successful Deserialize in the "waiting for SYN" position,
// a non-SYN packet cannot reach handshake completion without another receive.
func ruleNonSynIgnored(c *Checker, fn *ssa.Function) {
	w := c.w
	isServer := strings.Contains(fn.Name(), "server")
	// completion: server = the setN call; client = the SYNACK send
	var completion []ssa.Instruction
	if isServer {
		for _, ci := range findCalls(fn, func(ci ssa.CallInstruction) bool {
			sc := ci.Common().StaticCallee()
			return sc != nil && sc.Name() == "setN"
		}) {
			completion = append(completion, ci)
		}
	} else {
		// completion = sending the SYNACK
		for _, ci := range findCalls(fn, func(ci ssa.CallInstruction) bool {
			f := chanField(ci.Common().Value)
			return f != nil && f.Name() == "sendToStream"
		}) {
			for _, a := range ci.Common().Args {
				if ex, ok := unwrapLoadAlloc(a).(*ssa.Extract); ok {
					if call, ok := ex.Tuple.(*ssa.Call); ok && call.Common().StaticCallee() != nil && strings.Contains(fnName(call.Common().StaticCallee()), "PacketSYNACK") {
						completion = append(completion, ci)
					}
				}
			}
		}
	}
	// receive points: selects with a receive on a local channel (recvChan)
	var receives []ssa.Instruction
	allInstrs(fn, func(in ssa.Instruction) {
		if sel, ok := in.(*ssa.Select); ok && sel.Blocking {
			receives = append(receives, sel)
		}
	})
	isNonSyn := func(f Fact) bool {
		ex, ok := f.Cond.(*ssa.Extract)
		if !ok || f.Val || ex.Index != 1 {
			return false
		}
		ta, ok := ex.Tuple.(*ssa.TypeAssert)
		return ok && namedOf(ta.AssertedType) != nil && namedOf(ta.AssertedType).Obj().Name() == "PacketSYN"
	}
	restartOK := func(b *ssa.BasicBlock) bool {
		if !isServer {
			return false
		}
		return hasFact(b, func(f Fact) bool {
			phi, ok := f.Cond.(*ssa.Phi)
			return ok && f.Val && isRestartFlag(fn, phi)
		})
	}
	found, okk := false, true
	okShortcut := true
	_ = isNonSyn
	for _, b := range fn.Blocks {
		if !nonSynKnown(b) || len(b.Instrs) == 0 {
			continue
		}
		entry := false
		for _, p := range b.Preds {
			if !nonSynKnown(p) {
				entry = true
			}
		}
		if !entry {
			continue
		}
		// only the waiting-for-SYN position: the region entry must be reachable from function entry without passing a SYN echo
		found = true
		seen := map[*ssa.BasicBlock]bool{}
		var walk func(x *ssa.BasicBlock) bool
		walk = func(x *ssa.BasicBlock) bool {
			if seen[x] || restartOK(x) {
				return false
			}
			seen[x] = true
			for _, in := range x.Instrs {
				for _, r := range receives {
					if in == r {
						return false
					}
				}
				for _, cpl := range completion {
					if in == cpl {
						return true
					}
				}
			}
			for _, s := range x.Succs {
				if edgeFeasible(x, s) && walk(s) {
					return true
				}
			}
			return false
		}
		// the second type switch of the server (waiting for SYNACK) legitimately completes on SYNACK: skip regions dominated by a SYN echo
		if isServer && dominatedBySynEcho(w, b) {
			continue
		}
		if walk(b) {
			okk = false
		}
		_ = b

	}
	if isServer {
		// the restart shortcut itself is only for a SYNACK or a DATA packet: every block that is under
		// the restart flag AND leads to completion without another receive must be known to handle one
		// of the two (entered over successful type tests for them). A FIN/ACK/NACK of an abandoning or
		// earlier client must not complete the handshake.
		ackOrData := func(b *ssa.BasicBlock) bool {
			isAD := func(f Fact) bool {
				ex, ok := f.Cond.(*ssa.Extract)
				if !ok || !f.Val || ex.Index != 1 {
					return false
				}
				ta, ok := ex.Tuple.(*ssa.TypeAssert)
				if !ok || namedOf(ta.AssertedType) == nil {
					return false
				}
				n := namedOf(ta.AssertedType).Obj().Name()
				return n == "PacketSYNACK" || n == "PacketData"
			}
			if hasFact(b, isAD) {
				return true
			}
			for x := b; x != nil; x = x.Idom() {
				if len(x.Preds) == 0 {
					continue
				}
				all := true
				for _, p := range x.Preds {
					f, ok := edgeFact(p, x)
					if !ok || !isAD(f) {
						all = false
						break
					}
				}
				if all {
					return true
				}
			}
			return false
		}
		for _, b := range fn.Blocks {
			if !restartOK(b) || !nonSynKnown(b) || (dominatedBySynEcho(w, b)) {
				continue
			}
			if !ackOrData(b) {
				okShortcut = false
			}
		}
		// ... and it takes both: when the client's SYNACK is lost (not late) the first thing the
		// restarted server sees is the client's DATA - without the DATA arm it waits for a SYN that
		// the client, which is in its data phase, never sends again
		haveT := map[string]bool{}
		allInstrs(fn, func(in ssa.Instruction) {
			ta, ok := in.(*ssa.TypeAssert)
			if !ok || !ta.CommaOk || namedOf(ta.AssertedType) == nil || dominatedBySynEcho(w, ta.Block()) {
				return
			}
			tn := namedOf(ta.AssertedType).Obj().Name()
			if tn != "PacketSYNACK" && tn != "PacketData" {
				return
			}
			for _, r := range *ta.Referrers() {
				ex, ok := r.(*ssa.Extract)
				if !ok || ex.Index != 1 {
					continue
				}
				for _, rr := range *ex.Referrers() {
					if iff, ok := rr.(*ssa.If); ok {
						// the ok-successor reaches a block under the restart flag
						succ := iff.Block().Succs[0]
						seen := map[*ssa.BasicBlock]bool{}
						var walk func(b *ssa.BasicBlock, d int) bool
						walk = func(b *ssa.BasicBlock, d int) bool {
							if seen[b] || d > 6 {
								return false
							}
							seen[b] = true
							if restartOK(b) {
								return true
							}
							for _, in2 := range b.Instrs {
								if _, isTA := in2.(*ssa.TypeAssert); isTA && b != succ {
									return false
								}
							}
							for _, sx := range b.Succs {
								if walk(sx, d+1) {
									return true
								}
							}
							return false
						}
						if walk(succ, 0) {
							haveT[tn] = true
						}
					}
				}
			}
		})
		c.decide(haveT["PacketSYNACK"] && haveT["PacketData"], "GBNHS-3", fnName(fn)+"|the restart shortcut takes a SYNACK and a DATA packet", fn.Pos(),
			"both type tests lead to the leg that completes after a restart",
			fmt.Sprintf("after a restart the server does not complete on both a SYNACK and a DATA packet (SYNACK: %v, DATA: %v): if the client's SYNACK was lost, its DATA is all the server ever gets and the handshake never completes", haveT["PacketSYNACK"], haveT["PacketData"]))
		c.decide(okShortcut, "GBNHS-3", fnName(fn)+"|restart shortcut only for SYNACK or DATA", fn.Pos(),
			"the leg that completes after a restart is entered only through a successful type test for SYNACK or DATA",
			"after a restart any non-SYN packet (FIN, ACK, NACK of an abandoning or earlier client) completes the server's handshake: it enters the data phase although no client finished")
	}
	c.decide(found && okk, "GBNHS-3", fnName(fn)+"|non-SYN ignored while waiting for SYN", fn.Pos(),
		"a parsed non-SYN packet leads back to the receive (or, on the server after a restart, SYNACK/DATA completes)",
		"a non-SYN packet (e.g. stale data of an earlier connection) can complete the handshake while the endpoint is waiting for SYN")
}

func dominatedBySynEcho(w *World, b *ssa.BasicBlock) bool {
	fSynN := w.Field("gbn.PacketSYN.N")
	res := false
	allInstrs(b.Parent(), func(in ssa.Instruction) {
		if st, ok := in.(*ssa.Store); ok {
			if fa, ok := st.Addr.(*ssa.FieldAddr); ok && structFieldOf(fa) == fSynN {
				if st.Block() == b || st.Block().Dominates(b) {
					res = true
				}
			}
		}
	})
	return res
}

// isRestartFlag: phi is a boolean flag variable of the server handshake that is tested
// (as the condition of an If) inside the region where a parsed packet is known not to
// be a SYN - the "we restarted, so SYNACK/DATA may complete" flag, whatever it is called.
func isRestartFlag(fn *ssa.Function, phi *ssa.Phi) bool {
	if b, ok := phi.Type().Underlying().(*types.Basic); !ok || b.Kind() != types.Bool {
		return false
	}
	if phi.Parent() != fn || phi.Referrers() == nil {
		return false
	}
	nonSyn := func(f Fact) bool {
		ex, ok := f.Cond.(*ssa.Extract)
		if !ok || f.Val || ex.Index != 1 {
			return false
		}
		ta, ok := ex.Tuple.(*ssa.TypeAssert)
		return ok && namedOf(ta.AssertedType) != nil && namedOf(ta.AssertedType).Obj().Name() == "PacketSYN"
	}
	_ = nonSyn
	for _, r := range *phi.Referrers() {
		iff, ok := r.(*ssa.If)
		if !ok || iff.Cond != ssa.Value(phi) {
			continue
		}
		if nonSynKnown(iff.Block()) {
			return true
		}
	}
	return false
}

func isByteSliceChan(v ssa.Value) bool {
	ch, ok := v.Type().Underlying().(*types.Chan)
	if !ok {
		return false
	}
	sl, ok := ch.Elem().Underlying().(*types.Slice)
	return ok && types.Identical(sl.Elem(), types.Typ[types.Byte])
}

// ruleHandshakeTimerRearmed: a blocking select of a handshake function that has a timeout
// alternative must get a freshly armed timeout every time it is entered: on every path
// from the select back to itself the timer channel is produced anew (time.After) or the
// timer is Reset. Otherwise a timeout that fired once never fires again and a second loss
// blocks the handshake forever.
func ruleHandshakeTimerRearmed(c *Checker, fn *ssa.Function) {
	w := c.w
	isTimeChan := func(v ssa.Value) bool {
		ch, ok := v.Type().Underlying().(*types.Chan)
		if !ok {
			return false
		}
		nt := namedOf(ch.Elem())
		return nt != nil && nt.Obj().Pkg() != nil && nt.Obj().Pkg().Path() == "time" && nt.Obj().Name() == "Time"
	}
	n := 0
	allInstrs(fn, func(in ssa.Instruction) {
		sel, ok := in.(*ssa.Select)
		if !ok || !sel.Blocking {
			return
		}
		cases, _ := w.selectCases(sel)
		for _, sc := range cases {
			if sc.IsSend || !isTimeChan(sc.Chan) {
				continue
			}
			n++
			key := fmt.Sprintf("%s|timeout-%d re-armed for every wait", fnName(fn), n)
			arming := map[ssa.Instruction]bool{}
			cv := unwrapLoadAlloc(sc.Chan)
			switch x := cv.(type) {
			case *ssa.Call:
				if staticCalleeIs(x.Common(), "time", "", "After") || staticCalleeIs(x.Common(), "time", "", "Tick") {
					arming[x] = true
				}
			case *ssa.UnOp:
				// load of (*time.Timer).C
				if fa, ok := x.X.(*ssa.FieldAddr); ok && x.Op == token.MUL {
					if nt := namedOf(fa.X.Type()); nt != nil && nt.Obj().Name() == "Timer" {
						timer := unwrapLoadAlloc(fa.X)
						allInstrs(fn, func(i2 ssa.Instruction) {
							call, ok := i2.(*ssa.Call)
							if !ok {
								return
							}
							s := call.Common().StaticCallee()
							if s != nil && s.Name() == "Reset" && len(call.Common().Args) > 0 && unwrapLoadAlloc(call.Common().Args[0]) == timer {
								arming[call] = true
							}
						})
					}
				}
			}
			if len(arming) == 0 {
				c.fail("GBNHS-6", key, instrPos(sel), "the timeout channel of this wait is neither time.After(...) nor the channel of a timer that is Reset in this function")
				continue
			}
			again := pathExists(sel, sel, func(i2 ssa.Instruction) bool { return arming[i2] })
			c.decide(!again, "GBNHS-6", key, instrPos(sel), "every path from this wait back to it arms the timeout anew",
				"the wait can be re-entered with a timeout that is not re-armed (e.g. after it fired once): a second lost SYN or SYN reply blocks the handshake forever")
		}
	})
}

// nonSynKnown: at block b the parsed handshake packet is known not to be a SYN: a failed type
// test for *PacketSYN dominates b, or b (or a dominator of b) is entered only over edges on which
// a type test for another packet type succeeded (the body of `case *PacketSYNACK, *PacketData:`).
func nonSynKnown(b *ssa.BasicBlock) bool {
	assertOf := func(f Fact) (string, bool) {
		ex, ok := f.Cond.(*ssa.Extract)
		if !ok || ex.Index != 1 {
			return "", false
		}
		ta, ok := ex.Tuple.(*ssa.TypeAssert)
		if !ok || namedOf(ta.AssertedType) == nil {
			return "", false
		}
		return namedOf(ta.AssertedType).Obj().Name(), true
	}
	for _, f := range factsAt(b) {
		if n, ok := assertOf(f); ok {
			if n == "PacketSYN" && !f.Val {
				return true
			}
			if n != "PacketSYN" && strings.HasPrefix(n, "Packet") && f.Val {
				return true
			}
		}
	}
	for x := b; x != nil; x = x.Idom() {
		if len(x.Preds) == 0 {
			continue
		}
		all := true
		for _, p := range x.Preds {
			f, ok := edgeFact(p, x)
			if !ok {
				all = false
				break
			}
			n, isA := assertOf(f)
			if !isA || !f.Val || n == "PacketSYN" || !strings.HasPrefix(n, "Packet") {
				all = false
				break
			}
		}
		if all {
			return true
		}
	}
	return false
}

// pathFromBlockEntryToBlock: some path leads from the entry of block `from` to the entry of
// block `to` (one or more edges), avoiding instructions accepted by avoid.
func pathFromBlockEntryToBlock(from, to *ssa.BasicBlock, avoid func(ssa.Instruction) bool) bool {
	seen := map[*ssa.BasicBlock]bool{}
	var walk func(b *ssa.BasicBlock) bool
	walk = func(b *ssa.BasicBlock) bool {
		for _, in := range b.Instrs {
			if avoid != nil && avoid(in) {
				return false
			}
		}
		for _, s := range b.Succs {
			if !edgeFeasible(b, s) {
				continue
			}
			if s == to {
				return true
			}
			if seen[s] {
				continue
			}
			seen[s] = true
			if walk(s) {
				return true
			}
		}
		return false
	}
	seen[from] = true
	return walk(from)
}

// ruleHandshakeExtras: (a) the client's SYN proposes the configured window (the value it later
// compares the echo with); (b) a packet that is not a SYN never ends the client's wait for the
// SYN - it may be a left-over of an earlier connection - so from the failed type test no return
// is reachable before the next wait; (c) no error of a transport send is dropped in either
// handshake.
func ruleHandshakeExtras(c *Checker, ch, sh *ssa.Function) {
	w := c.w
	fSynN := w.Field("gbn.PacketSYN.N")
	fN := w.Field("gbn.config.n")
	if fSynN == nil || fN == nil {
		return
	}
	// (a)
	okN, n := true, 0
	for _, st := range w.Stores(fSynN) {
		if st.Parent() != ch {
			continue
		}
		n++
		if !isLoadOfField(st.Val, fN) {
			okN = false
		}
	}
	c.decide(okN && n >= 1, "GBNHS-2", "clientHandshake|the SYN proposes the configured window", ch.Pos(), "PacketSYN{N: cfg.n}",
		"the client's SYN does not carry cfg.n: for any window but the default the echo can never match and the handshake never converges")
	// (b)
	var waits []ssa.Instruction
	allInstrs(ch, func(in ssa.Instruction) {
		if _, ok := in.(*ssa.Select); ok {
			waits = append(waits, in) // also the non-blocking re-arm poll with its quit/ctx exits
		}
	})
	okIgn, found := true, false
	allInstrs(ch, func(in ssa.Instruction) {
		ta, ok := in.(*ssa.TypeAssert)
		if !ok || !ta.CommaOk || namedOf(ta.AssertedType) == nil || namedOf(ta.AssertedType).Obj().Name() != "PacketSYN" {
			return
		}
		for _, r := range *ta.Referrers() {
			ex, ok := r.(*ssa.Extract)
			if !ok || ex.Index != 1 {
				continue
			}
			for _, rr := range *ex.Referrers() {
				iff, ok := rr.(*ssa.If)
				if !ok {
					continue
				}
				found = true
				notSyn := iff.Block().Succs[1]
				if len(notSyn.Instrs) == 0 {
					continue
				}
				isWait := func(x ssa.Instruction) bool {
					for _, wt := range waits {
						if x == wt {
							return true
						}
					}
					return false
				}
				allInstrs(ch, func(x ssa.Instruction) {
					if ret, ok := x.(*ssa.Return); ok && ret.Block().Comment != "recover" {
						if pathFromBlockEntry(notSyn, ret, isWait) {
							okIgn = false
						}
					}
				})
			}
		}
	})
	c.decide(found && okIgn, "GBNHS-3", fnName(ch)+"|a non-SYN packet never ends the wait for the SYN", ch.Pos(), "from the failed SYN type test every path reaches the next wait before any return",
		"a packet that is not a SYN (a left-over of an earlier connection) makes the client give up the handshake instead of reading on")
	// (c)
	for _, fn := range []*ssa.Function{ch, sh} {
		bad := ""
		k := 0
		allInstrs(fn, func(in ssa.Instruction) {
			call, ok := in.(*ssa.Call)
			if !ok {
				return
			}
			f := chanField(call.Common().Value)
			if f == nil || f.Name() != "sendToStream" {
				return
			}
			k++
			tested := false
			for _, r := range *call.Referrers() {
				if bo, ok := r.(*ssa.BinOp); ok && (bo.Op == token.EQL || bo.Op == token.NEQ) {
					tested = true
				}
			}
			if !tested {
				bad = w.pos(instrPos(call))
			}
		})
		c.decide(bad == "" && k >= 1, "GBNHS-2", fnName(fn)+"|no send error is dropped", fn.Pos(), fmt.Sprintf("%d transport sends, each error tested", k),
			"the error of the transport send at "+bad+" is dropped: the handshake reports completion although its SYN/SYNACK never went out")
	}
}
