package main

// Blank imports so that `go mod vendor` keeps every x/tools package the
// checker may use.
import (
	_ "golang.org/x/tools/go/ast/astutil"
	_ "golang.org/x/tools/go/callgraph"
	_ "golang.org/x/tools/go/callgraph/cha"
	_ "golang.org/x/tools/go/callgraph/static"
	_ "golang.org/x/tools/go/callgraph/vta"
	_ "golang.org/x/tools/go/cfg"
	_ "golang.org/x/tools/go/packages"
	_ "golang.org/x/tools/go/ssa"
	_ "golang.org/x/tools/go/ssa/ssautil"
	_ "golang.org/x/tools/go/types/typeutil"
)
