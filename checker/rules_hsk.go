package main

import (
	"bytes"
	"fmt"
	"go/ast"
	"go/constant"
	"go/printer"
	"go/token"
	"go/types"
	"sort"
	"strings"

	"golang.org/x/tools/go/ssa"
)

// ---------------------------------------------------------------------------
// C03 (only holders of the secret complete a handshake) and C04 (completed
// handshakes agree): structural rules over the Noise handshake code.

func init() {
	register("C03",
		"HSK-ORDER: the pattern tables XXPattern/KKPattern (read from the typed AST) are exactly the Noise patterns -> me / <- e,ee,s,es / -> s,se and, with both static keys as pre-messages, -> e,es,ss / <- e,ee,se, with ascending act numbers and alternating roles starting with the initiator; DoHandshake processes Pattern[i] for i = 0,1,2,.. in order, returns at the first error of an act, and calls split (the only function that keys the transport ciphers) only after the last act - so no side holds session keys after a failed act and the responder writes act 2 (the only act that carries the auth payload) only after act 1 was read; readMsgPattern cannot return nil without a successful DecryptAndHash (MAC check), for every act, version and payload size including the empty act-1 payload. HSK-ERR: no error of a handshake step (reader, key parsing, ECDH, decryption, key generation, token/pattern processing) is dropped, and every caller of DoHandshake (gRPC client/server handshake, Dial, the TCP listener) tests its error and leaves on the failing leg. HSK-SIB: writeTokens and readTokens handle every Token constant; their ee/es/se/ss cases are structurally identical (both sides derive the same keys); in the me case the unmasked ephemeral enters the transcript hash and only the masked point is written, the reader unmasks with the same passphraseEntropy and hashes the unmasked point; every pre-message mixes the local or remote static key and a missing remote key is an error; the pairing secret is used whole (stretchPassphrase hands its unmodified parameter to scrypt as password and salt, ekeMask/ekeUnmask turn the whole stretched value into the scalar, NewBrontideMachine stretches exactly ConnData.PassphraseEntropy()). SYM-1..4: the symmetric-state primitives all of this rests on have the Noise shape: mixHash folds the old digest and the whole input into the new digest, EncryptAndHash/DecryptAndHash authenticate under the running digest and hash the same ciphertext on both sides (the reader only after a successful tag check), mixKey ratchets the chaining key by HKDF over the whole DH output and re-keys the cipher, InitializeSymmetric starts digest and chaining key from SHA-256(protocol name). HSK-SIB pattern source: every place that configures a handshake machine takes the pattern from the HandshakePattern() of the connection data it hands to the machine, and ConnData.HandshakePattern returns XX exactly while no remote key is stored (a paired responder cannot be made to run the passphrase-only pattern again). HSK-SIB also: the bytes of the pairing secret are never written (no element store, copy or clear into a secret-holding slice) and stretchPassphrase returns the output of a scrypt.Key call of the same invocation without retaining its parameter. HSK-ERR also: both handshake entry points of NoiseGrpcConn install the new Machine before DoHandshake runs and run it on that Machine (a rejected handshake leaves no keys of the previous session behind). HSK-SIB also: every value that can reach a mixKey call of readTokens/writeTokens is result 0 of an ecdh call of that invocation; SIDFRESH (as C11): only NewConnData and a successful SetRemote write the remote key. Not decided: the PAKE security argument; 'for all passphrase pairs' (cryptographic).",
		[]string{"ECDH is commutative; SHA-256/ChaCha20-Poly1305 are secure; a MAC over a transcript that includes the unmasked ephemeral fails unless both sides used the same passphrase"},
		runC03)
	register("C04",
		"SYM-1..4 (as C03): mixHash, EncryptAndHash, DecryptAndHash, mixKey and InitializeSymmetric have the Noise shape. HSK-BIND: every buffer filled from the handshake reader is, on every path to a successful return, fed (directly, through ParsePubKey/ekeUnmask/a stored key, or as ciphertext) into mixHash or DecryptAndHash, and every value written to the act buffer is an EncryptAndHash result or shares its origin with a dominating mixHash argument - so any modified handshake byte changes the transcript and fails a MAC. The cleartext version byte is the exception (known finding: it is bound nowhere, a MITM can give the two sides different versions). HSK-VER: the relay-controlled version is used, besides comparisons and error messages, only under min <= version <= max (acts 1,2) with the store to h.version additionally under 'initiator', or under version == h.version (act 3); an unknown version ends in an error; for the two-act KK pattern (no re-check by the responder) the minimum and maximum version handed to the handshake state are forced to >= 2 on every path. TRUNC: every narrowing conversion of the auth-payload length is dominated by a bound that makes it exact, the v0 bound is the fixed payload size minus the length prefix, and the v0 reader fills the announced length with io.ReadFull. PUBLISH: SetRemote is called iff version >= HandshakeVersion2 (with nothing that can fail between split and that call) and SetAuthData iff initiator, both after split, with the handshake state's remoteStatic / receivedPayload, both error-checked. PUBLISH also: ConnData.SetRemote and SetAuthData store their argument on every successful return and on no failing one. HSK-VER also: NoiseGrpcConn hands its configured min/max handshake version to every machine it builds and the two options store into the field of their name. SYM-2/3 also: nil destination for Encrypt/Decrypt. PUBLISH also: the act payload encrypted is nil, payloadToSend or a buffer of this call; the reader unframes the v0 payload by its 2-byte length with a checked ReadFull and keeps the whole act-2 plaintext for v1+; the writer prefixes are len(payloadToSend). PUBLISH also: an error value that a later assignment can replace before it is tested counts as dropped (SetRemote's error overwritten by SetAuthData's). PUBLISH also: every successful GetRequestMetadata decodes ConnData.AuthData() read in that invocation into a map made in that invocation (no remembered metadata). PUBLISH also: every access to a ConnData field that is written after construction is under ConnData.mu (exclusive for writes), and no application callback stored in ConnData is invoked while mu may be held. Not decided: 'every single-bit flip aborts' (cryptographic); complementary keys (KEYSEP, C02).",
		[]string{"SHA-256 is collision resistant; the AEAD authenticates its associated data (the transcript hash)"},
		runC04)
}

// ---------------------------------------------------------------------------
// AST helpers

func (w *World) funcDecl(pkg, recv, name string) *ast.FuncDecl {
	p := w.Pkgs[pkg]
	if p == nil {
		return nil
	}
	for _, f := range p.Syntax {
		for _, d := range f.Decls {
			fd, ok := d.(*ast.FuncDecl)
			if !ok || fd.Name.Name != name {
				continue
			}
			if recv == "" && fd.Recv == nil {
				return fd
			}
			if recv != "" && fd.Recv != nil && len(fd.Recv.List) == 1 {
				t := fd.Recv.List[0].Type
				if st, ok := t.(*ast.StarExpr); ok {
					t = st.X
				}
				if id, ok := t.(*ast.Ident); ok && id.Name == recv {
					return fd
				}
			}
		}
	}
	return nil
}

func (w *World) nodeText(n ast.Node) string {
	var buf bytes.Buffer
	_ = printer.Fprint(&buf, w.Fset, n)
	return strings.Join(strings.Fields(buf.String()), " ")
}

// tokenCases returns, for the `switch token` inside fd, case constant name -> body text.
func (w *World) tokenCases(fd *ast.FuncDecl, info *types.Info) (map[string]string, map[string]token.Pos) {
	out := map[string]string{}
	pos := map[string]token.Pos{}
	ast.Inspect(fd.Body, func(n ast.Node) bool {
		sw, ok := n.(*ast.SwitchStmt)
		if !ok || sw.Tag == nil {
			return true
		}
		tv, ok := info.Types[sw.Tag]
		if !ok {
			return true
		}
		nt, ok := tv.Type.(*types.Named)
		if !ok || nt.Obj().Name() != "Token" {
			return true
		}
		for _, st := range sw.Body.List {
			cc := st.(*ast.CaseClause)
			var body bytes.Buffer
			for _, s := range cc.Body {
				_ = printer.Fprint(&body, w.Fset, s)
				body.WriteString(" ; ")
			}
			txt := strings.Join(strings.Fields(body.String()), " ")
			if cc.List == nil {
				out["default"] = txt
				pos["default"] = cc.Pos()
				continue
			}
			for _, e := range cc.List {
				name := ""
				if id, ok := e.(*ast.Ident); ok {
					if c, ok := info.Uses[id].(*types.Const); ok {
						name = c.Name()
					}
				}
				if name == "" {
					name = w.nodeText(e)
				}
				out[name] = txt
				pos[name] = cc.Pos()
			}
		}
		return false
	})
	return out, pos
}

// ---------------------------------------------------------------------------
// C03

type msgPat struct {
	Tokens    []string
	Initiator bool
	Act       int64
}

// readPattern evaluates a HandshakePattern composite literal.
func readPattern(w *World, name string) (pre, acts []msgPat, pname string, ok bool) {
	p := w.Pkgs[targetMbox]
	info := p.TypesInfo
	var lit *ast.CompositeLit
	for _, f := range p.Syntax {
		for _, d := range f.Decls {
			gd, isG := d.(*ast.GenDecl)
			if !isG {
				continue
			}
			for _, sp := range gd.Specs {
				vs, isV := sp.(*ast.ValueSpec)
				if !isV {
					continue
				}
				for i, id := range vs.Names {
					if id.Name == name && i < len(vs.Values) {
						lit, _ = vs.Values[i].(*ast.CompositeLit)
					}
				}
			}
		}
	}
	if lit == nil {
		return nil, nil, "", false
	}
	constOf := func(e ast.Expr) constant.Value {
		if tv, ok := info.Types[e]; ok {
			return tv.Value
		}
		return nil
	}
	identName := func(e ast.Expr) string {
		if id, ok := e.(*ast.Ident); ok {
			if c, ok := info.Uses[id].(*types.Const); ok {
				return c.Name()
			}
			return id.Name
		}
		return "?"
	}
	parseList := func(e ast.Expr) []msgPat {
		cl, ok := e.(*ast.CompositeLit)
		if !ok {
			return nil
		}
		var out []msgPat
		for _, el := range cl.Elts {
			mcl, ok := el.(*ast.CompositeLit)
			if !ok {
				continue
			}
			var mp msgPat
			for _, kv := range mcl.Elts {
				k, ok := kv.(*ast.KeyValueExpr)
				if !ok {
					continue
				}
				switch identName(k.Key) {
				case "Tokens":
					if tl, ok := k.Value.(*ast.CompositeLit); ok {
						for _, t := range tl.Elts {
							mp.Tokens = append(mp.Tokens, identName(t))
						}
					}
				case "Initiator":
					if v := constOf(k.Value); v != nil {
						mp.Initiator = constant.BoolVal(v)
					}
				case "ActNum":
					if v := constOf(k.Value); v != nil {
						mp.Act, _ = constant.Int64Val(constant.ToInt(v))
					}
				}
			}
			out = append(out, mp)
		}
		return out
	}
	for _, el := range lit.Elts {
		kv, ok := el.(*ast.KeyValueExpr)
		if !ok {
			continue
		}
		switch identName(kv.Key) {
		case "PreMessages":
			pre = parseList(kv.Value)
		case "Pattern":
			acts = parseList(kv.Value)
		case "Name":
			if v := constOf(kv.Value); v != nil {
				pname = constant.StringVal(v)
			}
		}
	}
	return pre, acts, pname, true
}

func patString(ps []msgPat) string {
	var s []string
	for _, p := range ps {
		dir := "<-"
		if p.Initiator {
			dir = "->"
		}
		s = append(s, fmt.Sprintf("%s %s (act %d)", dir, strings.Join(p.Tokens, ","), p.Act))
	}
	return strings.Join(s, " ; ")
}

// inOrderIndex: v takes the values 0, 1, 2, ... in this order, one per loop iteration: the phi of
// a counting loop (0 on entry, itself+1 on the back edge) or the index of a range loop in go/ssa's
// rotated form (phi -1 on entry, v = phi+1, v on the back edge).
func inOrderIndex(v ssa.Value) (ssa.Value, bool) {
	if phi, ok := v.(*ssa.Phi); ok {
		nInit, nStep := 0, 0
		for _, e := range phi.Edges {
			if k, ok := intConst(e); ok && k == 0 {
				nInit++
			} else if bo, ok := e.(*ssa.BinOp); ok && bo.Op == token.ADD && bo.X == ssa.Value(phi) {
				if k, ok := intConst(bo.Y); ok && k == 1 {
					nStep++
				}
			}
		}
		return v, nInit == 1 && nStep >= 1 && nInit+nStep == len(phi.Edges)
	}
	if bo, ok := v.(*ssa.BinOp); ok && bo.Op == token.ADD {
		phi, ok := bo.X.(*ssa.Phi)
		if k, ok2 := intConst(bo.Y); !ok || !ok2 || k != 1 {
			return v, false
		}
		nInit, nStep := 0, 0
		for _, e := range phi.Edges {
			if k, ok := intConst(e); ok && k == -1 {
				nInit++
			} else if e == v {
				nStep++
			}
		}
		return v, nInit == 1 && nStep >= 1 && nInit+nStep == len(phi.Edges)
	}
	return v, false
}

func runC03(c *Checker) {
	ruleSYM(c)
	w := c.w
	// ---- HSK-ORDER (a): pattern tables ----
	type want struct {
		pre, acts string
	}
	wants := map[string]want{
		"XXPattern": {"", "-> me (act 1) ; <- e,ee,s,es (act 2) ; -> s,se (act 3)"},
		"KKPattern": {"-> s (act 0) ; <- s (act 0)", "-> e,es,ss (act 1) ; <- e,ee,se (act 2)"},
	}
	for _, name := range []string{"XXPattern", "KKPattern"} {
		pre, acts, _, ok := readPattern(w, name)
		if !ok {
			c.anchorFail("mailbox." + name)
			continue
		}
		got := want{patString(pre), patString(acts)}
		c.decide(got == wants[name], "HSK-ORDER", "pattern|"+name, token.NoPos, "pre-messages ["+got.pre+"], acts ["+got.acts+"]",
			"the handshake pattern table differs from the Noise pattern: pre-messages ["+got.pre+"], acts ["+got.acts+"]; expected ["+wants[name].pre+"], ["+wants[name].acts+"]")
	}
	dh := mboxFunc(c, "(*mailbox.Machine).DoHandshake")
	split := mboxFunc(c, "(*mailbox.Machine).split")
	rmp := mboxFunc(c, "(*mailbox.handshakeState).readMsgPattern")
	wmp := mboxFunc(c, "(*mailbox.handshakeState).writeMsgPattern")
	rt := mboxFunc(c, "(*mailbox.handshakeState).readTokens")
	wt := mboxFunc(c, "(*mailbox.handshakeState).writeTokens")
	nhs := mboxFunc(c, "mailbox.newHandshakeState")
	dah := mboxFunc(c, "(*mailbox.symmetricState).DecryptAndHash")
	if dh == nil || split == nil || rmp == nil || wmp == nil || rt == nil || wt == nil || nhs == nil || dah == nil {
		return
	}
	// ---- HSK-ORDER (b): DoHandshake ----
	// the act index: `for i := 0; i < len(p); i++ { p[i] }` (phi 0, +1) or the rotated shape go/ssa
	// builds for `for _, mp := range p` (phi -1, the index is phi+1)
	var idx ssa.Value
	okIdx := false
	allInstrs(dh, func(in ssa.Instruction) {
		ia, ok := in.(*ssa.IndexAddr)
		if !ok {
			return
		}
		if f := chanField(ia.X); f == nil || f.Name() != "Pattern" {
			return
		}
		if v, ok := inOrderIndex(ia.Index); ok {
			idx = v
			okIdx = true
		} else if idx == nil {
			idx = ia.Index
		}
	})
	c.decide(okIdx, "HSK-ORDER", "DoHandshake|acts in index order", dh.Pos(), "Pattern[i] for i = 0, 1, 2, ... (no act skipped or repeated)", "DoHandshake does not walk the pattern in index order starting at 0 with step 1")
	for _, callee := range []*ssa.Function{wmp, rmp} {
		for _, ci := range findCalls(dh, func(ci ssa.CallInstruction) bool { return ci.Common().StaticCallee() == callee }) {
			okk, why := errCheckedAndReturned(ci.(*ssa.Call), 0)
			c.decide(okk, "HSK-ORDER", "DoHandshake|stop at first failed act|"+callee.Name(), instrPos(ci), why, "a failed act does not abort the handshake: "+why)
		}
	}
	splits := findCalls(dh, func(ci ssa.CallInstruction) bool { return ci.Common().StaticCallee() == split })
	okSplit := len(splits) == 1
	if okSplit {
		// split only after the loop: not inside a cycle and dominated by the loop-exit fact i >= len
		okSplit = !pathExists(splits[0], splits[0], nil) && idx != nil && hasFact(splits[0].Block(), func(f Fact) bool {
			bo, ok := f.Cond.(*ssa.BinOp)
			return ok && !f.Val && bo.Op == token.LSS && bo.X == idx
		})
	}
	c.decide(okSplit, "HSK-ORDER", "DoHandshake|split after the last act", dh.Pos(), "split() is called once, after every act was processed", "split() can run before all acts completed: session keys exist after a partial handshake")
	sites, _ := w.CallersOf(split)
	for _, s := range sites {
		c.decide(s.Caller == dh, "HSK-ORDER", "split|caller "+fnName(s.Caller), instrPos(s.Instr), "split is called from DoHandshake only", "split is called outside DoHandshake")
	}
	// (c) readMsgPattern: no nil return without a successful DecryptAndHash
	macs := findCalls(rmp, func(ci ssa.CallInstruction) bool { return ci.Common().StaticCallee() == dah })
	isMac := func(in ssa.Instruction) bool {
		for _, m := range macs {
			if in == ssa.Instruction(m) {
				return true
			}
		}
		return false
	}
	nNil := 0
	allInstrs(rmp, func(in ssa.Instruction) {
		ret, ok := in.(*ssa.Return)
		if !ok {
			return
		}
		isNil := false
		for _, v := range expandValues(ret.Results[0]) {
			if isNilConst(v) {
				isNil = true
			}
		}
		if !isNil {
			return
		}
		nNil++
		skip := pathFromEntry(rmp, ret, isMac)
		c.decide(!skip, "HSK-ORDER", fmt.Sprintf("readMsgPattern|MAC before success #%d", nNil), instrPos(ret), "every path to this nil return passes DecryptAndHash",
			"an act can be accepted without any MAC check (e.g. for an empty payload): a peer that does not know the secret passes this act")
	})
	for _, m := range macs {
		okk, why := errCheckedAndReturned(m.(*ssa.Call), 1)
		c.decide(okk, "HSK-ORDER", "readMsgPattern|MAC failure aborts", instrPos(m), why, "a failed MAC check in readMsgPattern does not abort: "+why)
	}
	// (d) the auth payload is only attached in act 2
	fPay := w.Field("mailbox.handshakeState.payloadToSend")
	fAct := w.Field("mailbox.MessagePattern.ActNum")
	if fPay != nil && fAct != nil {
		for _, ld := range w.Loads(fPay) {
			if ld.Parent() != wmp {
				continue
			}
			act2 := hasFact(ld.Block(), func(f Fact) bool {
				bo, ok := f.Cond.(*ssa.BinOp)
				if !ok || !f.Val || bo.Op != token.EQL {
					return false
				}
				k, ok := intConst(bo.Y)
				return ok && k == 2 && fieldOfValue2(bo.X) == fAct
			})
			c.decide(act2, "HSK-ORDER", "writeMsgPattern|auth payload only in act 2", instrPos(ld), "payloadToSend is read under ActNum == act2", "the auth payload is attached to an act other than act 2 (it would be released before the peer is authenticated)")
		}
	}
	c.floor("HSK-ORDER", 10)

	// ---- HSK-ERR ----
	for _, fn := range []*ssa.Function{rmp, wmp, rt, wt, dh, nhs} {
		allInstrs(fn, func(in ssa.Instruction) {
			call, ok := in.(*ssa.Call)
			if !ok {
				return
			}
			sig := call.Common().Signature()
			idx := -1
			for i := 0; i < sig.Results().Len(); i++ {
				if isErrorType(sig.Results().At(i).Type()) {
					idx = i
				}
			}
			if idx < 0 {
				return
			}
			label := calleeLabel(call.Common())
			// writes into local bytes.Buffers cannot fail; still accepted when checked
			okk, why := errCheckedAndReturned(call, idx)
			if !okk && strings.Contains(label, "bytes.Buffer") {
				return
			}
			c.decide(okk, "HSK-ERR", fmt.Sprintf("%s|%s", fnName(fn), label), instrPos(call), why, "an error of a handshake step is dropped: "+why)
		})
	}
	// ... and nobody who runs a handshake goes on after it failed: every caller of DoHandshake in the
	// package tests its error and leaves on the failing leg (the gRPC credentials, Dial, the listener)
	nCallers := 0
	for _, fn := range w.Funcs {
		if w.pkgShort(fn) != targetMbox {
			continue
		}
		for _, ci := range findCalls(fn, func(ci ssa.CallInstruction) bool { return ci.Common().StaticCallee() == dh }) {
			call, ok := ci.(*ssa.Call)
			if !ok {
				continue
			}
			nCallers++
			okk, why := errCheckedAndReturned(call, 0)
			c.decide(okk, "HSK-ERR", fmt.Sprintf("%s|caller of DoHandshake", fnName(fn)), instrPos(call), why,
				"a failed handshake does not stop its caller ("+why+"): a peer that does not hold the secret gets a connection")
		}
	}
	if nCallers < 4 {
		c.fail("HSK-ERR", "callers of DoHandshake", token.NoPos, fmt.Sprintf("expected the gRPC client and server handshakes, Dial and the listener, found %d callers", nCallers))
	}
	ruleMachineReplacedFirst(c, "HSK-ERR")
	// the key a KK responder authenticates act one against is whatever ConnData holds: it must be
	// a key whose pairing completed (SetRemote stores it on success only, nothing else writes it) -
	// a key left behind by a refused pairing would be accepted on the next connection (SIDFRESH, as C11/C17)
	ruleRemoteKey(c)
	c.floor("HSK-ERR", 21)

	// ---- HSK-SIB ----
	// token dispatch, from the branch facts of the SSA (a switch and an if-chain look the same):
	// which Token constants have a leg, and that the leg on which every comparison failed ends
	// in an error return
	tokenLegs := func(fn *ssa.Function) (map[string]token.Pos, bool, token.Pos) {
		legs := map[string]token.Pos{}
		compared := map[string]bool{}
		tokOf := func(f Fact) (string, bool) {
			bo, ok := f.Cond.(*ssa.BinOp)
			if !ok || bo.Op != token.EQL {
				return "", false
			}
			for _, side := range []ssa.Value{bo.X, bo.Y} {
				if k, ok := side.(*ssa.Const); ok && k.Value != nil && k.Value.Kind() == constant.String {
					if nt := namedOf(k.Type()); nt != nil && nt.Obj().Name() == "Token" {
						return constant.StringVal(k.Value), true
					}
				}
			}
			return "", false
		}
		if fn == nil {
			return legs, false, token.NoPos
		}
		for _, b := range fn.Blocks {
			for _, f := range factsAt(b) {
				if t, ok := tokOf(f); ok {
					compared[t] = true
					if f.Val {
						if _, have := legs[t]; !have && len(b.Instrs) > 0 {
							legs[t] = b.Instrs[0].Pos()
						}
					}
				}
			}
		}
		// default leg: a block under "!= t" for every compared token
		defErr, defPos := false, token.NoPos
		for _, b := range fn.Blocks {
			neg := map[string]bool{}
			for _, f := range factsAt(b) {
				if t, ok := tokOf(f); ok && !f.Val {
					neg[t] = true
				}
			}
			if len(compared) > 0 && len(neg) == len(compared) {
				entry := true
				for _, p := range b.Preds {
					n2 := 0
					for _, f := range factsAt(p) {
						if _, ok := tokOf(f); ok && !f.Val {
							n2++
						}
					}
					if n2 == len(compared) {
						entry = false
					}
				}
				if entry {
					defErr = blockReturnsError(b, 0)
					if len(b.Instrs) > 0 {
						defPos = b.Instrs[0].Pos()
					}
				}
			}
		}
		return legs, defErr, defPos
	}
	wfnT := mboxFunc(c, "(*mailbox.handshakeState).writeTokens")
	rfnT := mboxFunc(c, "(*mailbox.handshakeState).readTokens")
	if wfnT == nil || rfnT == nil {
		c.anchorFail("writeTokens/readTokens")
		return
	}
	wpos, wDefErr, wDefPos := tokenLegs(wfnT)
	rpos, rDefErr, rDefPos := tokenLegs(rfnT)
	var tokens []string
	tokVal := map[string]string{}
	sc := w.Pkgs[targetMbox].Types.Scope()
	for _, n := range sc.Names() {
		if k, ok := sc.Lookup(n).(*types.Const); ok {
			if nt, ok := k.Type().(*types.Named); ok && nt.Obj().Name() == "Token" {
				tokens = append(tokens, n)
				tokVal[n] = constant.StringVal(k.Val())
			}
		}
	}
	for _, t := range tokens {
		_, okw := wpos[tokVal[t]]
		_, okr := rpos[tokVal[t]]
		c.decide(okw && okr, "HSK-SIB", "token|"+t+"|handled by writer and reader", wpos[tokVal[t]], "writeTokens and readTokens both have a leg for it",
			fmt.Sprintf("token %s is not handled on both sides (writer: %v, reader: %v)", t, okw, okr))
	}
	c.decide(wDefErr, "HSK-SIB", "writeTokens|unknown token is an error", wDefPos, "the leg on which no token matched returns an error", "an unknown token is silently skipped")
	c.decide(rDefErr, "HSK-SIB", "readTokens|unknown token is an error", rDefPos, "the leg on which no token matched returns an error", "an unknown token is silently skipped")
	// the DH steps, from the SSA of both token processors: which (remote, local) key pair is handed
	// to ecdh under which role, per token, and that the result is mixed into the chaining key
	type dhStep struct{ role, remote, local string }
	dhSteps := func(fn *ssa.Function) (map[string][]dhStep, map[string]bool, map[string]token.Pos) {
		out := map[string][]dhStep{}
		mixed := map[string]bool{}
		pos := map[string]token.Pos{}
		if fn == nil {
			return out, mixed, pos
		}
		fInit := w.Field("mailbox.handshakeState.initiator")
		recvField := func(v ssa.Value) string {
			u, ok := unwrapLoadAlloc(v).(*ssa.UnOp)
			if !ok || u.Op != token.MUL {
				return ""
			}
			fa, ok := u.X.(*ssa.FieldAddr)
			if !ok || !sameParam(fa.X, fn.Params[0]) {
				return ""
			}
			return structFieldOf(fa).Name()
		}
		for _, ci := range findCalls(fn, func(ci ssa.CallInstruction) bool { return calleeNameIsCI(ci, "ecdh") }) {
			call, ok := ci.(*ssa.Call)
			if !ok || len(call.Common().Args) != 2 {
				continue
			}
			tok, role := "", "any"
			for _, f := range factsAt(call.Block()) {
				if bo, ok := f.Cond.(*ssa.BinOp); ok && bo.Op == token.EQL && f.Val && tok == "" {
					for _, side := range []ssa.Value{bo.X, bo.Y} {
						if k, ok := side.(*ssa.Const); ok && k.Value != nil && k.Value.Kind() == constant.String {
							if nt := namedOf(k.Type()); nt != nil && nt.Obj().Name() == "Token" {
								tok = constant.StringVal(k.Value)
							}
						}
					}
				}
				if fInit != nil && isLoadOfField(f.Cond, fInit) {
					if f.Val {
						role = "initiator"
					} else {
						role = "responder"
					}
				}
			}
			if tok == "" {
				tok = "?"
			}
			out[tok] = append(out[tok], dhStep{role, recvField(call.Common().Args[0]), recvField(call.Common().Args[1])})
			pos[tok] = instrPos(call)
			// result 0 reaches a mixKey call (directly or through a local/phi)
			for _, mk := range findCalls(fn, func(ci ssa.CallInstruction) bool { return calleeNameIsCI(ci, "mixKey") }) {
				for _, v := range expandValues(mk.Common().Args[len(mk.Common().Args)-1]) {
					if ex, ok := v.(*ssa.Extract); ok && ex.Tuple == ssa.Value(call) && ex.Index == 0 {
						mixed[tok+"|"+role] = true
					}
				}
			}
		}
		for t := range out {
			sort.Slice(out[t], func(a, b int) bool { return fmt.Sprint(out[t][a]) < fmt.Sprint(out[t][b]) })
		}
		return out, mixed, pos
	}
	wfn := mboxFunc(c, "(*mailbox.handshakeState).writeTokens")
	rfn := mboxFunc(c, "(*mailbox.handshakeState).readTokens")
	wdh, wmix, wdpos := dhSteps(wfn)
	rdh, rmix, _ := dhSteps(rfn)
	wantDH := map[string][]dhStep{
		"ee": {{"any", "remoteEphemeral", "localEphemeral"}},
		"ss": {{"any", "remoteStatic", "localStatic"}},
		"es": {{"initiator", "remoteStatic", "localEphemeral"}, {"responder", "remoteEphemeral", "localStatic"}},
		"se": {{"initiator", "remoteEphemeral", "localStatic"}, {"responder", "remoteStatic", "localEphemeral"}},
	}
	for _, t := range []string{"ee", "es", "se", "ss"} {
		c.decide(len(wdh[t]) > 0 && fmt.Sprint(wdh[t]) == fmt.Sprint(rdh[t]), "HSK-SIB", "dh|"+t+"|writer == reader", rpos[t], fmt.Sprintf("identical DH step on both sides: %v", wdh[t]),
			fmt.Sprintf("the %s step differs between writeTokens and readTokens: the two parties derive different keys. writer: %v | reader: %v", t, wdh[t], rdh[t]))
	}
	for _, t := range []string{"ee", "es", "se", "ss"} {
		okk := fmt.Sprint(wdh[t]) == fmt.Sprint(wantDH[t])
		for _, st := range wantDH[t] {
			okk = okk && wmix[t+"|"+st.role] && rmix[t+"|"+st.role]
		}
		p := wpos[t]
		if q, ok := wdpos[t]; ok {
			p = q
		}
		c.decide(okk, "HSK-SIB", "dh|"+t+"|key pair per role", p, fmt.Sprintf("ecdh(remote, local) per role: %v, result mixed into the key", wantDH[t]),
			fmt.Sprintf("the %s step does not combine the keys Noise prescribes for each role (found %v, want %v, result mixed into the key on every leg: %v)", t, wdh[t], wantDH[t], okk))
	}
	for t := range wdh {
		if _, ok := wantDH[t]; !ok {
			c.fail("HSK-SIB", "dh|"+t+"|unexpected DH", wdpos[t], fmt.Sprintf("an ecdh call outside the four DH tokens: %v", wdh[t]))
		}
	}
	// ... and nothing but the DH outputs of this very handshake is mixed into the chaining key: every
	// value that can reach a mixKey call of the two token processors is result 0 of an ecdh call of
	// that invocation (a remembered secret - cached per local key, say - authenticates whoever the
	// cache entry was computed for, not the peer of this handshake)
	for _, fn := range []*ssa.Function{wfn, rfn} {
		if fn == nil {
			continue
		}
		for _, mk := range findCalls(fn, func(ci ssa.CallInstruction) bool { return calleeNameIsCI(ci, "mixKey") }) {
			bad := ""
			args := mk.Common().Args
			for _, v := range expandValues(args[len(args)-1]) {
				if ex, ok := v.(*ssa.Extract); ok && ex.Index == 0 {
					if call, ok := ex.Tuple.(*ssa.Call); ok && calleeNameIs(call, "ecdh") && call.Parent() == fn {
						continue
					}
				}
				if isNilConst(v) {
					continue // the zero value of a result variable on a leg that returns the error
				}
				bad = w.canonFB(v)
			}
			c.decide(bad == "", "HSK-SIB", fmt.Sprintf("%s|mixKey input is a DH output of this handshake|%s", fn.Name(), w.canonFB(args[len(args)-1])), instrPos(mk),
				"every value reaching mixKey is the result of an ecdh call of this invocation",
				"a value that is not the output of an ecdh call of this handshake ("+bad+") can be mixed into the chaining key: a remembered or foreign secret authenticates a party that does not hold the keys of this handshake")
		}
	}
	checkMeCase(c, wt, rt)
	checkPreMessages(c, nhs)
	c.floor("HSK-SIB", 20)
	ruleSecretWhole(c)
}

// ruleSecretWhole: the pairing secret is used in full on its way into the mask: stretchPassphrase
// hands its whole parameter to scrypt (as password and salt), NewBrontideMachine stretches exactly
// ConnData.PassphraseEntropy() and gives the result to the handshake state, and ekeMask/ekeUnmask
// turn the whole stretched value into the scalar. Two passphrases that differ in any bit then
// give different masks.
func ruleSecretWhole(c *Checker) {
	w := c.w
	onlyPassedOn := func(p *ssa.Parameter) (bool, string) {
		for _, r := range *p.Referrers() {
			switch x := r.(type) {
			case *ssa.Call:
				if b, ok := x.Call.Value.(*ssa.Builtin); ok && (b.Name() == "len" || b.Name() == "cap") {
					continue
				}
				continue // handed to a callee as a whole value
			case *ssa.DebugRef:
			case *ssa.Slice:
				return false, "the secret is sliced (" + w.canonFB(x) + "): part of it is ignored"
			case *ssa.IndexAddr, *ssa.Index:
				return false, "single bytes of the secret are picked"
			case *ssa.Phi:
				return false, "the secret is conditionally replaced"
			case *ssa.Store, *ssa.MakeInterface:
			}
		}
		return true, "used whole"
	}
	if sp := mboxFunc(c, "mailbox.stretchPassphrase"); sp != nil {
		p := sp.Params[0]
		okk, why := onlyPassedOn(p)
		// scrypt.Key(p, p, ...)
		okCall := false
		for _, ci := range findCalls(sp, func(ci ssa.CallInstruction) bool {
			sc := ci.Common().StaticCallee()
			return sc != nil && sc.Name() == "Key" && sc.Pkg != nil && strings.HasSuffix(sc.Pkg.Pkg.Path(), "scrypt")
		}) {
			a := ci.Common().Args
			if len(a) >= 2 && a[0] == ssa.Value(p) && a[1] == ssa.Value(p) {
				okCall = true
			}
		}
		c.decide(okk && okCall, "HSK-SIB", "secret|stretchPassphrase uses the whole entropy", sp.Pos(), "scrypt.Key(entropy, entropy, ...) on the unmodified parameter",
			"stretchPassphrase does not stretch the whole passphrase entropy ("+why+"): passphrases differing only in the ignored part are accepted as equal")
		// ... on every call: each successful return hands out the output of a scrypt.Key call made in
		// this invocation (a remembered result is only as good as the comparison that guards it - one
		// that keeps a reference to the caller's buffer compares the buffer with itself), and the
		// parameter is not retained
		var keys []*ssa.Call
		for _, ci := range findCalls(sp, func(ci ssa.CallInstruction) bool {
			sc := ci.Common().StaticCallee()
			return sc != nil && sc.Name() == "Key" && sc.Pkg != nil && strings.HasSuffix(sc.Pkg.Pkg.Path(), "scrypt")
		}) {
			if call, ok := ci.(*ssa.Call); ok {
				keys = append(keys, call)
			}
		}
		badRet := ""
		allInstrs(sp, func(in ssa.Instruction) {
			ret, ok := in.(*ssa.Return)
			if !ok || ret.Block().Comment == "recover" {
				return
			}
			succ := false
			for _, v := range expandValues(ret.Results[len(ret.Results)-1]) {
				if isNilConst(v) {
					succ = true
				}
			}
			if !succ {
				return
			}
			for _, v := range expandValues(ret.Results[0]) {
				okv := false
				if ex, isEx := v.(*ssa.Extract); isEx && ex.Index == 0 {
					for _, k := range keys {
						if ex.Tuple == ssa.Value(k) {
							okv = true
						}
					}
				}
				if !okv && !isNilConst(v) {
					badRet = "returns " + w.canonFB(v) + " at " + w.pos(instrPos(ret))
				}
			}
			if pathFromEntry(sp, ret, func(x ssa.Instruction) bool {
				for _, k := range keys {
					if x == ssa.Instruction(k) {
						return true
					}
				}
				return false
			}) {
				badRet = "return at " + w.pos(instrPos(ret)) + " reachable without scrypt.Key"
			}
		})
		retained := ""
		for _, r := range *p.Referrers() {
			if st, ok := r.(*ssa.Store); ok && st.Val == ssa.Value(p) {
				if _, isLocal := st.Addr.(*ssa.Alloc); !isLocal {
					retained = w.pos(instrPos(st))
				}
			}
		}
		c.decide(badRet == "" && retained == "" && len(keys) == 1, "HSK-SIB", "secret|stretchPassphrase stretches on every call", sp.Pos(), "every successful return is the output of this call's scrypt.Key; the parameter is not retained",
			"stretchPassphrase can hand out something other than this call's scrypt output ("+badRet+") or keeps a reference to the caller's secret (stored at "+retained+"): a stale stretched key of another passphrase can be used")
	}
	for _, n := range []string{"mailbox.ekeMask", "mailbox.ekeUnmask"} {
		fn := mboxFunc(c, n)
		if fn == nil {
			continue
		}
		p := fn.Params[1]
		okk, why := onlyPassedOn(p)
		okSet := false
		for _, ci := range findCalls(fn, func(ci ssa.CallInstruction) bool {
			sc := ci.Common().StaticCallee()
			return sc != nil && sc.Name() == "SetByteSlice"
		}) {
			if ci.Common().Args[1] == ssa.Value(p) {
				okSet = true
			}
		}
		c.decide(okk && okSet, "HSK-SIB", "secret|"+fn.Name()+" turns the whole stretched secret into the scalar", fn.Pos(), "pw.SetByteSlice(passphraseEntropy) on the unmodified parameter",
			fn.Name()+" does not use the whole stretched secret ("+why+")")
	}
	secretArgIdx := -1 // position of the stretched secret among newHandshakeState's parameters
	if nbm := mboxFunc(c, "mailbox.NewBrontideMachine"); nbm != nil {
		okk := false
		for _, ci := range findCalls(nbm, func(ci ssa.CallInstruction) bool { return calleeNameIsCI(ci, "stretchPassphrase") }) {
			if call, ok := ci.Common().Args[0].(*ssa.Call); ok && call.Common().IsInvoke() && call.Common().Method.Name() == "PassphraseEntropy" {
				// the stretched value reaches newHandshakeState
				for _, h := range findCalls(nbm, func(ci ssa.CallInstruction) bool { return calleeNameIsCI(ci, "newHandshakeState") }) {
					for ai, a := range h.Common().Args {
						for _, v := range expandValues(a) {
							if ex, ok := v.(*ssa.Extract); ok && ex.Tuple == ssa.Value(ci.(*ssa.Call)) && ex.Index == 0 {
								okk = true
								secretArgIdx = ai
							}
						}
					}
				}
			}
		}
		c.decide(okk, "HSK-SIB", "secret|NewBrontideMachine stretches ConnData.PassphraseEntropy() and hands it to the handshake", nbm.Pos(), "stretchPassphrase(cfg.ConnData.PassphraseEntropy()) -> newHandshakeState",
			"the handshake state does not receive the stretched passphrase entropy of the connection data")
		// ... whenever the pattern that uses it (XX: the `me` token) is run: the stretch is decided by the
		// pattern name and by nothing else (a machine running XX without the secret masks with the zero
		// scalar, i.e. not at all)
		for _, ci := range findCalls(nbm, func(ci ssa.CallInstruction) bool { return calleeNameIsCI(ci, "stretchPassphrase") }) {
			facts := factsAt(ci.Block())
			byPattern, other := false, ""
			for _, f := range facts {
				bo, ok := f.Cond.(*ssa.BinOp)
				if !ok {
					other = w.canonFB(f.Cond)
					continue
				}
				isName := func(v ssa.Value) bool {
					u, ok := unwrapLoadAlloc(v).(*ssa.UnOp)
					if !ok || u.Op != token.MUL {
						return false
					}
					fa, ok := u.X.(*ssa.FieldAddr)
					return ok && structFieldOf(fa).Name() == "Name" && namedOf(deref(fa.X.Type())) != nil && namedOf(deref(fa.X.Type())).Obj().Name() == "HandshakePattern"
				}
				isXX := func(v ssa.Value) bool {
					k, ok := v.(*ssa.Const)
					xx := w.Const("mailbox.XX")
					return ok && xx != nil && k.Value != nil && k.Value.Kind() == constant.String && constant.Compare(k.Value, token.EQL, xx.Val())
				}
				switch {
				case factRel(f, isName, isXX) == "==":
					byPattern = true
				case isNilConst(bo.Y) || isNilConst(bo.X):
					// earlier error checks (err == nil legs)
					if _, isErr := bo.X.Type().Underlying().(*types.Interface); !isErr {
						other = w.canonFB(f.Cond)
					}
				default:
					// version range tests etc. that dominate by returning on the other leg are fine;
					// anything that *selects* the stretch is not
					if ci.Block().Idom() != nil && !blockReturnsError(otherSucc(f, ci.Block()), 0) {
						other = w.canonFB(f.Cond)
					}
				}
			}
			c.decide(byPattern && other == "", "HSK-SIB", "secret|stretched exactly when the pattern is XX", instrPos(ci), "the stretch is guarded by HandshakePattern.Name == XX only",
				"the passphrase is not stretched exactly when the XX pattern is run (guarded by pattern name: "+fmt.Sprint(byPattern)+", other condition: "+other+"): a machine can run XX with an empty secret, which masks the ephemeral key with nothing")
		}
	}
	rulePatternSource(c, "HSK-SIB")
	ruleSecretImmutable(c, "HSK-SIB")
	ruleConnDataFidelity(c, "HSK-SIB")
	ruleKeySchedule(c, "HSK-ORDER")
	// the handshake state keeps exactly what it was given
	if nhs := mboxFunc(c, "mailbox.newHandshakeState"); nhs != nil {
		f := w.Field("mailbox.handshakeState.passphraseEntropy")
		okk := false
		if f != nil {
			for _, st := range w.Stores(f) {
				if st.Parent() == nhs {
					if p, ok := st.Val.(*ssa.Parameter); ok && secretArgIdx >= 0 && secretArgIdx < len(nhs.Params) && nhs.Params[secretArgIdx] == p {
						okk = true
					}
				}
			}
		}
		c.decide(okk, "HSK-SIB", "secret|handshakeState.passphraseEntropy = parameter", nhs.Pos(), "stored unmodified", "the handshake state does not store the passphrase entropy it was given")
	}
}

// fieldOfValue2: load of a field through a local copy (mp.ActNum where mp is a local struct).
func fieldOfValue2(v ssa.Value) *types.Var {
	v = unwrapLoadAlloc(v)
	switch x := v.(type) {
	case *ssa.UnOp:
		if x.Op == token.MUL {
			if fa, ok := x.X.(*ssa.FieldAddr); ok {
				return structFieldOf(fa)
			}
		}
	case *ssa.Field:
		return structFieldOf(x)
	}
	return nil
}

// blocksOfTokenCase returns the blocks of fn dominated by the fact token == name.
func blocksOfTokenCase(fn *ssa.Function, name string) []*ssa.BasicBlock {
	var out []*ssa.BasicBlock
	for _, b := range fn.Blocks {
		if hasFact(b, func(f Fact) bool {
			bo, ok := f.Cond.(*ssa.BinOp)
			if !ok || !f.Val || bo.Op != token.EQL {
				return false
			}
			k, ok := bo.Y.(*ssa.Const)
			return ok && k.Value != nil && k.Value.Kind() == constant.String && constant.StringVal(k.Value) == name
		}) {
			out = append(out, b)
		}
	}
	return out
}

func callsIn(blocks []*ssa.BasicBlock, pred func(*ssa.Call) bool) []*ssa.Call {
	var out []*ssa.Call
	for _, b := range blocks {
		for _, in := range b.Instrs {
			if call, ok := in.(*ssa.Call); ok && pred(call) {
				out = append(out, call)
			}
		}
	}
	return out
}

func calleeNameIs(call *ssa.Call, name string) bool {
	if call.Common().IsInvoke() {
		return call.Common().Method.Name() == name
	}
	sc := call.Common().StaticCallee()
	return sc != nil && sc.Name() == name
}

// originCalls: the calls that v is derived from (through method calls on results, derefs, extracts).
func originCalls(v ssa.Value, depth int, out map[*ssa.Call]bool) {
	if depth > 8 {
		return
	}
	v = unwrapLoadAlloc(v)
	switch x := v.(type) {
	case *ssa.Call:
		out[x] = true
		for _, a := range x.Common().Args {
			originCalls(a, depth+1, out)
		}
		if x.Common().IsInvoke() {
			originCalls(x.Common().Value, depth+1, out)
		}
	case *ssa.Extract:
		originCalls(x.Tuple, depth+1, out)
	case *ssa.UnOp:
		if fa, ok := x.X.(*ssa.FieldAddr); ok && x.Op == token.MUL {
			// a field load: follow the values stored to that field in the same function
			f := structFieldOf(fa)
			allInstrs(x.Parent(), func(in ssa.Instruction) {
				if st, ok := in.(*ssa.Store); ok {
					if fa2, ok := st.Addr.(*ssa.FieldAddr); ok && structFieldOf(fa2) == f {
						originCalls(st.Val, depth+1, out)
					}
				}
			})
			return
		}
		originCalls(x.X, depth+1, out)
	case *ssa.FieldAddr:
		originCalls(x.X, depth+1, out)
	case *ssa.MakeInterface:
		originCalls(x.X, depth+1, out)
	case *ssa.ChangeInterface:
		originCalls(x.X, depth+1, out)
	case *ssa.Slice:
		originCalls(x.X, depth+1, out)
	case *ssa.Alloc:
		// a fresh struct literal: the values stored into its fields
		for _, r := range *x.Referrers() {
			if fa, ok := r.(*ssa.FieldAddr); ok {
				for _, rr := range *fa.Referrers() {
					if st, ok := rr.(*ssa.Store); ok && st.Addr == ssa.Value(fa) {
						originCalls(st.Val, depth+1, out)
					}
				}
			}
		}
	}
}

func hasOrigin(v ssa.Value, name string) bool {
	m := map[*ssa.Call]bool{}
	originCalls(v, 0, m)
	for call := range m {
		if calleeNameIs(call, name) {
			return true
		}
		if f := chanField(call.Common().Value); f != nil && f.Name() == name {
			return true
		}
	}
	return false
}

func checkMeCase(c *Checker, wt, rt *ssa.Function) {
	w := c.w
	fEnt := w.Field("mailbox.handshakeState.passphraseEntropy")
	fRemE := w.Field("mailbox.handshakeState.remoteEphemeral")
	if fEnt == nil || fRemE == nil {
		c.anchorFail("handshakeState.passphraseEntropy/remoteEphemeral")
		return
	}
	// writer
	wb := blocksOfTokenCase(wt, "me")
	mix := callsIn(wb, func(call *ssa.Call) bool { return calleeNameIs(call, "mixHash") })
	wr := callsIn(wb, func(call *ssa.Call) bool { return call.Common().IsInvoke() && call.Common().Method.Name() == "Write" })
	okMix := len(mix) == 1 && hasOrigin(mix[0].Common().Args[1], "ephemeralGen") && !hasOrigin(mix[0].Common().Args[1], "ekeMask")
	c.decide(okMix, "HSK-SIB", "me|writer hashes the unmasked ephemeral", wt.Pos(), "mixHash(e.PubKey()) of the freshly generated key, not of the masked point",
		"the writer's me step does not hash the unmasked ephemeral: the act-1 MAC no longer proves knowledge of the passphrase")
	okWr := len(wr) == 1 && hasOrigin(wr[0].Common().Args[0], "ekeMask")
	var mask *ssa.Call
	if okWr {
		m := map[*ssa.Call]bool{}
		originCalls(wr[0].Common().Args[0], 0, m)
		for call := range m {
			if calleeNameIs(call, "ekeMask") {
				mask = call
			}
		}
		okWr = mask != nil && isLoadOfField(mask.Common().Args[1], fEnt) && hasOrigin(mask.Common().Args[0], "ephemeralGen")
	}
	c.decide(okWr, "HSK-SIB", "me|writer sends ekeMask(e, passphraseEntropy)", wt.Pos(), "only the masked point is written, masked with passphraseEntropy",
		"the writer's me step does not send the ephemeral masked with the passphrase entropy")
	// reader
	rb := blocksOfTokenCase(rt, "me")
	un := callsIn(rb, func(call *ssa.Call) bool { return calleeNameIs(call, "ekeUnmask") })
	rmix := callsIn(rb, func(call *ssa.Call) bool { return calleeNameIs(call, "mixHash") })
	okUn := len(un) == 1 && isLoadOfField(un[0].Common().Args[1], fEnt) && hasOrigin(un[0].Common().Args[0], "ParsePubKey")
	stored := false
	if okUn {
		for _, r := range *un[0].Referrers() {
			if st, ok := r.(*ssa.Store); ok {
				if fa, ok := st.Addr.(*ssa.FieldAddr); ok && structFieldOf(fa) == fRemE {
					stored = true
				}
			}
		}
	}
	c.decide(okUn && stored, "HSK-SIB", "me|reader unmasks with passphraseEntropy", rt.Pos(), "remoteEphemeral = ekeUnmask(ParsePubKey(input), passphraseEntropy)",
		"the reader's me step does not unmask the received point with the passphrase entropy into remoteEphemeral")
	okRMix := len(rmix) == 1 && len(un) == 1 && instrDominates(un[0], rmix[0]) &&
		(hasOrigin(rmix[0].Common().Args[1], "ekeUnmask") || originLoadsField(rmix[0].Common().Args[1], fRemE))
	c.decide(okRMix, "HSK-SIB", "me|reader hashes the unmasked ephemeral", rt.Pos(), "mixHash(remoteEphemeral) after unmasking",
		"the reader's me step hashes something other than the unmasked ephemeral: a wrong passphrase is not detected by the MAC")
}

// originLoadsField: v derives from a load of field f.
func originLoadsField(v ssa.Value, f *types.Var) bool {
	found := false
	var rec func(v ssa.Value, d int)
	rec = func(v ssa.Value, d int) {
		if d > 8 || found {
			return
		}
		v = unwrapLoadAlloc(v)
		if isLoadOfField(v, f) {
			found = true
			return
		}
		switch x := v.(type) {
		case *ssa.Call:
			for _, a := range x.Common().Args {
				rec(a, d+1)
			}
		case *ssa.UnOp:
			rec(x.X, d+1)
		case *ssa.Extract:
			rec(x.Tuple, d+1)
		case *ssa.Slice:
			rec(x.X, d+1)
		}
	}
	rec(v, 0)
	return found
}

func checkPreMessages(c *Checker, nhs *ssa.Function) {
	// inside the loop over PreMessages: mixHash(localPub...) under Initiator == h.initiator, else mixHash(remoteStatic...) with a nil check that errors
	mix := findCalls(nhs, func(ci ssa.CallInstruction) bool {
		sc := ci.Common().StaticCallee()
		return sc != nil && sc.Name() == "mixHash" && pathExists(ci, ci, nil)
	})
	var local, remote bool
	for _, m := range mix {
		arg := m.Common().Args[1]
		if hasOrigin(arg, "PubKey") {
			local = true
		}
		if p := paramOrigin(arg); p != nil && isRemoteStaticParam(p) {
			// dominated by remoteStatic != nil
			if hasFact(m.Block(), func(f Fact) bool {
				bo, ok := f.Cond.(*ssa.BinOp)
				return ok && isNilConst(bo.Y) && bo.X == ssa.Value(p) && ((bo.Op == token.EQL && !f.Val) || (bo.Op == token.NEQ && f.Val))
			}) {
				remote = true
			}
		}
	}
	// the nil leg returns an error
	okErr := false
	for _, b := range nhs.Blocks {
		if hasFact(b, func(f Fact) bool {
			bo, ok := f.Cond.(*ssa.BinOp)
			if !ok || !isNilConst(bo.Y) {
				return false
			}
			p, ok := bo.X.(*ssa.Parameter)
			return ok && isRemoteStaticParam(p) && ((bo.Op == token.EQL && f.Val) || (bo.Op == token.NEQ && !f.Val))
		}) && blockReturnsError(b, 0) {
			okErr = true
		}
	}
	c.decide(local && remote && okErr, "HSK-SIB", "pre-messages|static keys bound into the transcript", nhs.Pos(), "each pre-message mixes the local or the (non-nil) remote static key; a missing remote key is an error",
		fmt.Sprintf("pre-message keys are not bound into the transcript (local: %v, remote under nil check: %v, nil is an error: %v): the key-based pattern no longer authenticates the stored keys", local, remote, okErr))
}

func paramOrigin(v ssa.Value) *ssa.Parameter {
	for d := 0; d < 8; d++ {
		v = unwrapLoadAlloc(v)
		switch x := v.(type) {
		case *ssa.Parameter:
			return x
		case *ssa.Call:
			if len(x.Common().Args) == 0 {
				return nil
			}
			v = x.Common().Args[0]
		case *ssa.UnOp:
			v = x.X
		default:
			return nil
		}
	}
	return nil
}

// ---------------------------------------------------------------------------
// C04

func runC04(c *Checker) {
	w := c.w
	ruleSYM(c)
	rmp := mboxFunc(c, "(*mailbox.handshakeState).readMsgPattern")
	wmp := mboxFunc(c, "(*mailbox.handshakeState).writeMsgPattern")
	rt := mboxFunc(c, "(*mailbox.handshakeState).readTokens")
	wt := mboxFunc(c, "(*mailbox.handshakeState).writeTokens")
	dh := mboxFunc(c, "(*mailbox.Machine).DoHandshake")
	split := mboxFunc(c, "(*mailbox.Machine).split")
	if rmp == nil || wmp == nil || rt == nil || wt == nil || dh == nil || split == nil {
		return
	}
	// what was read is only bound if a failed tag aborts: every DecryptAndHash of the reader
	// (act payloads, the encrypted static key) has its error tested and returned before any
	// success return (shared with C03 HSK-ORDER / C02 AUTHERR)
	for _, fn := range []*ssa.Function{rmp, rt} {
		n := 0
		for _, ci := range findCalls(fn, func(ci ssa.CallInstruction) bool {
			sc := ci.Common().StaticCallee()
			return sc != nil && sc.Name() == "DecryptAndHash"
		}) {
			call, ok := ci.(*ssa.Call)
			if !ok {
				continue
			}
			n++
			okk, why := errCheckedAndReturned(call, 1)
			c.decide(okk, "HSK-BIND", fmt.Sprintf("%s|DecryptAndHash #%d|failed tag aborts", fnName(fn), n), instrPos(call), why,
				"a failed authentication tag does not abort the act ("+why+"): what the peer sent (static key, payload, transcript) is accepted without proof, so the two sides can complete with different identities or keys")
		}
	}
	// ---- HSK-BIND reader side ----
	for _, fn := range []*ssa.Function{rmp, rt} {
		r := ssa.Value(fn.Params[1])
		nDesc := map[string]int{} // several buffers of the same size in one function are numbered in source order
		allInstrs(fn, func(in ssa.Instruction) {
			call, ok := in.(*ssa.Call)
			if !ok {
				return
			}
			sc := call.Common().StaticCallee()
			if sc == nil || !(isPkgFunc(sc, "io", "ReadFull") || isPkgFunc(sc, "io", "ReadAtLeast")) || call.Common().Args[0] != r {
				return
			}
			buf := call.Common().Args[1]
			desc := hskBufDesc(w, buf)
			nDesc[desc]++
			if nDesc[desc] > 1 {
				desc = fmt.Sprintf("%s (#%d of that size)", desc, nDesc[desc])
			}
			// forward closure of values derived from buf within fn
			tainted := map[ssa.Value]bool{}
			var bufBase ssa.Value = buf
			if sl, ok := buf.(*ssa.Slice); ok {
				bufBase = sl.X
			}
			isT := func(v ssa.Value) bool {
				v = unwrapLoadAlloc(v)
				if tainted[v] || v == buf {
					return true
				}
				if sl, ok := v.(*ssa.Slice); ok && (sl.X == bufBase || tainted[sl.X]) {
					return true
				}
				if u, ok := v.(*ssa.UnOp); ok && u.Op == token.MUL {
					if tainted[u.X] {
						return true
					}
					if ia, ok := u.X.(*ssa.IndexAddr); ok && ia.X == bufBase {
						return true
					}
				}
				if ex, ok := v.(*ssa.Extract); ok && tainted[ex.Tuple] {
					return true
				}
				return false
			}
			fieldT := map[*types.Var]bool{}
			for changed := true; changed; {
				changed = false
				allInstrs(fn, func(i2 ssa.Instruction) {
					switch x := i2.(type) {
					case *ssa.Call:
						if tainted[x] {
							return
						}
						for _, a := range x.Common().Args {
							if isT(a) {
								tainted[x] = true
								changed = true
							}
						}
					case *ssa.Store:
						if fa, ok := x.Addr.(*ssa.FieldAddr); ok && isT(x.Val) && !fieldT[structFieldOf(fa)] {
							fieldT[structFieldOf(fa)] = true
							changed = true
						}
					case *ssa.UnOp:
						if x.Op == token.MUL && !tainted[x] {
							if fa, ok := x.X.(*ssa.FieldAddr); ok && fieldT[structFieldOf(fa)] {
								tainted[x] = true
								changed = true
							}
						}
					case *ssa.Extract:
						if tainted[x.Tuple] && !tainted[x] {
							tainted[x] = true
							changed = true
						}
					}
				})
			}
			var binds []ssa.Instruction
			allInstrs(fn, func(i2 ssa.Instruction) {
				bc, ok := i2.(*ssa.Call)
				if !ok {
					return
				}
				if calleeNameIs(bc, "mixHash") || calleeNameIs(bc, "DecryptAndHash") {
					for _, a := range bc.Common().Args[1:] {
						if isT(a) {
							binds = append(binds, bc)
						}
					}
				}
			})
			isBind := func(i2 ssa.Instruction) bool {
				for _, b := range binds {
					if i2 == b {
						return true
					}
				}
				return false
			}
			unbound := pathToReturn(call, func(ret *ssa.Return) bool {
				for _, v := range expandValues(ret.Results[0]) {
					if isNilConst(v) {
						return true
					}
				}
				return false
			}, isBind)
			key := fmt.Sprintf("%s|read into %s", fnName(fn), desc)
			c.decide(unbound == nil && len(binds) > 0, "HSK-BIND", key, instrPos(call), "the bytes read reach mixHash/DecryptAndHash on every path to success",
				"bytes read from the wire into "+desc+" are not bound into the handshake transcript: a man-in-the-middle can change them without failing any MAC")
		})
	}
	// ---- HSK-BIND writer side ----
	for _, fn := range []*ssa.Function{wmp, wt} {
		var mixArgs []ssa.Value
		var mixCalls []*ssa.Call
		allInstrs(fn, func(in ssa.Instruction) {
			if call, ok := in.(*ssa.Call); ok && calleeNameIs(call, "mixHash") {
				mixArgs = append(mixArgs, call.Common().Args[1])
				mixCalls = append(mixCalls, call)
			}
		})
		allInstrs(fn, func(in ssa.Instruction) {
			call, ok := in.(*ssa.Call)
			if !ok {
				return
			}
			cc := call.Common()
			var arg ssa.Value
			if cc.IsInvoke() && cc.Method.Name() == "Write" {
				arg = cc.Args[0]
			} else if sc := cc.StaticCallee(); sc != nil && isMethod(sc, "bytes", "Buffer", "Write") {
				if localAssemblyBuffer(cc.Args[0]) {
					return
				}
				arg = cc.Args[1]
			}
			if arg == nil {
				return
			}
			a := unwrapLoadAlloc(arg)
			if bc, ok := a.(*ssa.Call); ok && bc.Common().StaticCallee() != nil && isMethod(bc.Common().StaticCallee(), "bytes", "Buffer", "Bytes") {
				return // the assembled act buffer
			}
			key := fmt.Sprintf("%s|write of %s", fnName(fn), hskBufDesc(w, a))
			if ec, ok := a.(*ssa.Call); ok && calleeNameIs(ec, "EncryptAndHash") {
				c.ok("HSK-BIND", key, instrPos(call), "EncryptAndHash result (ciphertext is hashed into the transcript)")
				return
			}
			// same value hashed before, or shares an origin call with a dominating mixHash argument
			bound := false
			oa := map[*ssa.Call]bool{}
			originCalls(a, 0, oa)
			for i, m := range mixArgs {
				if !instrDominates(mixCalls[i], call) {
					continue
				}
				if unwrapLoadAlloc(m) == a {
					bound = true
				}
				om := map[*ssa.Call]bool{}
				originCalls(m, 0, om)
				for x := range oa {
					if om[x] && (calleeNameIs(x, "PubKey") || chanField(x.Common().Value) != nil) {
						bound = true
					}
				}
			}
			c.decide(bound, "HSK-BIND", key, instrPos(call), "the written value (or the key it is derived from) was mixed into the transcript hash before",
				"bytes written to the wire are not bound into the handshake transcript: a man-in-the-middle can change them without failing any MAC")
		})
	}
	c.floor("HSK-BIND", 10)

	// ---- HSK-VER ----
	ruleHSKVER(c, rmp)

	ruleKKMinVersion(c, "HSK-VER")

	// ---- KEYSEP (complementary traffic keys) ----
	ruleKEYSEP(c)

	// ---- TRUNC ----
	rg := newRanger(w)
	nT := 0
	allInstrs(wmp, func(in ssa.Instruction) {
		cv, ok := in.(*ssa.Convert)
		if !ok || !isInteger(cv.Type()) || !derivesFromLen(cv.X, 0) {
			return
		}
		src, dst := fullRange(cv.X.Type()), fullRange(cv.Type())
		if src.within(dst) {
			return
		}
		nT++
		r := rg.At(cv.X, cv.Block())
		key := fmt.Sprintf("writeMsgPattern|conv<%s>(%s)", typeStr(cv.Type()), w.canonFB(cv.X))
		okk := r.within(dst)
		bound := ""
		if typeStr(cv.Type()) == "uint16" {
			// version 0: the fixed payload buffer
			ap, lh := w.Const("mailbox.ActTwoPayloadSize"), w.Const("mailbox.lengthHeaderSize")
			if ap != nil && lh != nil {
				a, _ := constant.Int64Val(ap.Val())
				l, _ := constant.Int64Val(lh.Val())
				okk = okk && r.hi <= a-l
				bound = fmt.Sprintf(" (v0 limit %d)", a-l)
			}
		}
		c.decide(okk, "TRUNC", key, instrPos(cv), fmt.Sprintf("auth payload length in %s fits%s", r, bound),
			fmt.Sprintf("the auth payload length (range %s) is narrowed without a dominating bound%s: a longer payload is silently truncated while both sides complete", r, bound))
	})
	// v0 reader: io.ReadFull into the announced length
	okRF := false
	allInstrs(rmp, func(in ssa.Instruction) {
		call, ok := in.(*ssa.Call)
		if !ok {
			return
		}
		sc := call.Common().StaticCallee()
		if sc != nil && isPkgFunc(sc, "io", "ReadFull") {
			if ms, ok := call.Common().Args[1].(*ssa.MakeSlice); ok {
				l := ms.Len
				if cvt, ok := l.(*ssa.Convert); ok {
					l = cvt.X
				}
				if uc, ok := l.(*ssa.Call); ok && calleeNameIs(uc, "Uint16") {
					if e, _ := errCheckedAndReturned(call, 1); e {
						okRF = true
					}
				}
			}
		}
	})
	c.decide(okRF, "TRUNC", "readMsgPattern|v0 payload filled completely", rmp.Pos(), "the announced v0 payload length is read with io.ReadFull and its error is returned",
		"the v0 reader does not insist on the announced payload length: a length beyond the buffer yields zero-padded auth data")
	c.floor("TRUNC", 3)
	_ = nT

	// ---- PUBLISH ----
	fVer := w.Field("mailbox.handshakeState.version")
	fInit := w.Field("mailbox.handshakeState.initiator")
	fRS := w.Field("mailbox.handshakeState.remoteStatic")
	fRP := w.Field("mailbox.handshakeState.receivedPayload")
	hv2 := w.Const("mailbox.HandshakeVersion2")
	if fVer == nil || fInit == nil || fRS == nil || fRP == nil || hv2 == nil {
		c.anchorFail("handshakeState.version/initiator/remoteStatic/receivedPayload, HandshakeVersion2")
		return
	}
	v2, _ := constant.Int64Val(constant.ToInt(hv2.Val()))
	sp := findCalls(dh, func(ci ssa.CallInstruction) bool { return ci.Common().StaticCallee() == split })
	pub := func(method string, arg *types.Var, guard func(Fact) bool, what string) {
		calls := findCalls(dh, func(ci ssa.CallInstruction) bool {
			return ci.Common().IsInvoke() && ci.Common().Method.Name() == method
		})
		okk := len(calls) == 1 && len(sp) == 1
		why := fmt.Sprintf("%d %s calls", len(calls), method)
		if okk {
			call := calls[0].(*ssa.Call)
			g := hasFact(call.Block(), guard)
			a := isLoadOfField(call.Common().Args[0], arg)
			e, _ := errCheckedAndReturned(call, 0)
			after := instrDominates(sp[0], call)
			// the call happens whenever the guard holds: the guard's true edge leads straight to the call block
			okk = g && a && e && after
			why = fmt.Sprintf("guard:%v argument:%v error checked:%v after split:%v", g, a, e, after)
			// no other condition on the path: the call block's facts are exactly the guard (plus loop exit)
			extra := 0
			for _, f := range factsAt(call.Block()) {
				if !guard(f) {
					if bo, ok := f.Cond.(*ssa.BinOp); ok && bo.Op == token.LSS {
						continue // loop exit
					}
					if bo, ok := f.Cond.(*ssa.BinOp); ok && isNilConst(bo.Y) {
						// earlier error checks are fine, except: nothing that can fail may stand between the end
						// of the wire handshake (split) and SetRemote - the peer has already moved to the
						// key-derived rendezvous at that point, so this side must store the key unconditionally
						if method == "SetRemote" {
							if ci, ok := bo.X.(ssa.Instruction); ok && instrDominates(sp[0], ci) {
								extra++
							}
							if ex, ok := bo.X.(*ssa.Extract); ok {
								if ci, ok := ex.Tuple.(ssa.Instruction); ok && instrDominates(sp[0], ci) {
									extra++
								}
							}
						}
						continue
					}
					extra++
				}
			}
			if extra > 0 {
				okk = false
				why += fmt.Sprintf(" extra conditions:%d", extra)
			}
		}
		c.decide(okk, "PUBLISH", "DoHandshake|"+method, dh.Pos(), what, "the post-handshake publication is wrong ("+why+"): the two sides end up with different views of identities/auth data")
	}
	pub("SetRemote", fRS, func(f Fact) bool {
		bo, ok := f.Cond.(*ssa.BinOp)
		if !ok || !isLoadOfField(bo.X, fVer) {
			return false
		}
		k, ok := intConst(bo.Y)
		if !ok {
			return false
		}
		return (bo.Op == token.GEQ && f.Val && k == v2) || (bo.Op == token.LSS && !f.Val && k == v2) || (bo.Op == token.GTR && f.Val && k == v2-1)
	}, "SetRemote(remoteStatic) iff version >= HandshakeVersion2, after split, error checked")
	rulePublishOrder(c, "PUBLISH")
	ruleConnDataSetters(c, "PUBLISH", true)
	ruleVersionConfig(c, "HSK-VER")
	rulePayloadSource(c, "PUBLISH")
	ruleConnDataFidelity(c, "PUBLISH")
	ruleReceivedPayload(c, "PUBLISH")
	rulePayloadFraming(c, "PUBLISH")
	pub("SetAuthData", fRP, func(f Fact) bool { return f.Val && isLoadOfField(f.Cond, fInit) },
		"SetAuthData(receivedPayload) iff initiator, after split, error checked")
	ruleMetadataFresh(c, "PUBLISH")
	ruleConnDataGuard(c, "PUBLISH")
	c.floor("PUBLISH", 10)
}

// ruleHSKVER checks every use of the version byte read from the wire.
func ruleHSKVER(c *Checker, rmp *ssa.Function) {
	w := c.w
	fVer := w.Field("mailbox.handshakeState.version")
	fMin := w.Field("mailbox.handshakeState.minVersion")
	fMax := w.Field("mailbox.handshakeState.maxVersion")
	fInit := w.Field("mailbox.handshakeState.initiator")
	if fVer == nil || fMin == nil || fMax == nil || fInit == nil {
		c.anchorFail("handshakeState.version/minVersion/maxVersion/initiator")
		return
	}
	// the version value: load of element 0 of the 1-byte array filled by the first ReadFull
	var version ssa.Value
	allInstrs(rmp, func(in ssa.Instruction) {
		u, ok := in.(*ssa.UnOp)
		if !ok || u.Op != token.MUL || version != nil {
			return
		}
		if ia, ok := u.X.(*ssa.IndexAddr); ok {
			if al, ok := ia.X.(*ssa.Alloc); ok {
				if n, ok := arrayLen(al.Type()); ok && n == 1 {
					version = u
				}
			}
		}
	})
	if version == nil {
		c.fail("HSK-VER", "readMsgPattern|version byte", rmp.Pos(), "the version byte read from the wire was not found")
		return
	}
	factsInRange := func(fs []Fact) bool {
		lo, hi := false, false
		for _, f := range fs {
			if factRel(f, isValue(version), func(v ssa.Value) bool { return isLoadOfField(v, fMin) }) == ">=" {
				lo = true
			}
			if factRel(f, isValue(version), func(v ssa.Value) bool { return isLoadOfField(v, fMax) }) == "<=" {
				hi = true
			}
		}
		return lo && hi
	}
	factsSame := func(fs []Fact) bool {
		for _, f := range fs {
			if factRel(f, isValue(version), func(v ssa.Value) bool { return isLoadOfField(v, fVer) }) == "==" {
				return true
			}
		}
		return false
	}
	inRange := func(b *ssa.BasicBlock) bool { return factsInRange(factsAt(b)) }
	// act 3 (read by the responder): the version byte must be the one the responder chose in act 2.
	// The range test is not enough there: v1 and v2 share a wire format, so a rewritten act-2 byte
	// would leave the two sides on different versions. There must be a comparison of the wire byte
	// with h.version, under ActNum == act3, whose mismatch leg returns an error.
	{
		fAct := w.Field("mailbox.MessagePattern.ActNum")
		act3 := w.Const("mailbox.act3")
		okEcho := false
		if fAct != nil && act3 != nil {
			a3, _ := constant.Int64Val(constant.ToInt(act3.Val()))
			for _, bb := range rmp.Blocks {
				if len(bb.Instrs) == 0 {
					continue
				}
				iff, ok := bb.Instrs[len(bb.Instrs)-1].(*ssa.If)
				if !ok {
					continue
				}
				rel := factRel(Fact{iff.Cond, true}, isValue(version), func(v ssa.Value) bool { return isLoadOfField(v, fVer) })
				if rel != "==" && rel != "!=" {
					continue
				}
				underAct3 := hasFact(bb, func(f Fact) bool {
					return factRel(f, func(v ssa.Value) bool {
						u, ok := unwrapLoadAlloc(v).(*ssa.UnOp)
						if ok && u.Op == token.MUL {
							if fa, ok := u.X.(*ssa.FieldAddr); ok && structFieldOf(fa) == fAct {
								return true
							}
						}
						if fl, ok := unwrapLoadAlloc(v).(*ssa.Field); ok && structFieldOf(fl) == fAct {
							return true
						}
						return false
					}, func(v ssa.Value) bool { k, ok := intConst(v); return ok && k == a3 }) == "=="
				})
				mismatch := bb.Succs[0]
				if rel == "==" {
					mismatch = bb.Succs[1]
				}
				if underAct3 && blockReturnsError(mismatch, 0) {
					okEcho = true
				}
			}
		}
		c.decide(okEcho, "HSK-VER", "readMsgPattern|act 3 echoes the chosen version", rmp.Pos(), "under ActNum == act3 the wire version is compared with h.version and a mismatch is an error",
			"the responder does not insist that act 3 carries the version it chose in act 2: a man-in-the-middle rewriting the act-2 version byte leaves client and server on different versions (and only one of them publishes the remote key)")
	}
	// unvalidated: blocks reachable from the entry along edges on which the version is neither range-checked nor equal to ours
	unvalidated := map[*ssa.BasicBlock]bool{rmp.Blocks[0]: true}
	work := []*ssa.BasicBlock{rmp.Blocks[0]}
	for len(work) > 0 {
		b := work[len(work)-1]
		work = work[:len(work)-1]
		for _, sct := range b.Succs {
			fs := factsOnEdge(b, sct)
			if factsInRange(fs) || factsSame(fs) || unvalidated[sct] || !edgeFeasible(b, sct) {
				continue
			}
			unvalidated[sct] = true
			work = append(work, sct)
		}
	}
	n := 0
	for _, r := range *version.Referrers() {
		in := r
		switch x := r.(type) {
		case *ssa.BinOp:
			switch x.Op {
			case token.EQL, token.NEQ, token.LSS, token.LEQ, token.GTR, token.GEQ:
				continue // comparisons decide, they do not use
			}
			n++
			c.fail("HSK-VER", "readMsgPattern|version used in arithmetic", instrPos(in), "the relay-controlled version byte is used in arithmetic")
		case *ssa.MakeInterface:
			// only for error messages
			okk := true
			for _, rr := range *x.Referrers() {
				if st, ok := rr.(*ssa.Store); ok {
					if ia, ok := st.Addr.(*ssa.IndexAddr); ok {
						if al, ok := ia.X.(*ssa.Alloc); ok && al.Comment == "varargs" {
							continue
						}
					}
				}
				okk = false
			}
			n++
			c.decide(okk, "HSK-VER", "readMsgPattern|version in error message", instrPos(in), "formatted into an error only", "the relay-controlled version byte escapes through an interface value")
		case *ssa.Store:
			n++
			fa, ok := x.Addr.(*ssa.FieldAddr)
			okk := ok && structFieldOf(fa) == fVer && inRange(x.Block()) && hasFact(x.Block(), func(f Fact) bool { return f.Val && isLoadOfField(f.Cond, fInit) })
			c.decide(okk, "HSK-VER", "readMsgPattern|adopt version", instrPos(in), "h.version = version only for the initiator and only under minVersion <= version <= maxVersion",
				"the version byte from the wire is adopted outside the supported range or by the responder")
		case *ssa.DebugRef:
		default:
			n++
			c.fail("HSK-VER", fmt.Sprintf("readMsgPattern|version used by %T", r), instrPos(in), "unexpected use of the relay-controlled version byte")
		}
	}
	// every block that decides the payload format on `version` is reached only under a validated version
	allInstrs(rmp, func(in ssa.Instruction) {
		iff, ok := in.(*ssa.If)
		if !ok {
			return
		}
		bo, ok := iff.Cond.(*ssa.BinOp)
		if !ok || bo.X != version || bo.Op != token.EQL {
			return
		}
		if _, isConst := bo.Y.(*ssa.Const); !isConst {
			return
		}
		n++
		okk := !unvalidated[iff.Block()]
		c.decide(okk, "HSK-VER", "readMsgPattern|payload format chosen on a validated version|"+w.canonFB(bo.Y), instrPos(iff),
			"the payload switch is reached only after the range check (acts 1,2) or the equality check with our version (act 3)",
			"the payload format is chosen from an unvalidated version byte")
	})
	// unknown version -> error: the block where all equality tests failed returns an error
	okDefault := false
	for _, b := range rmp.Blocks {
		cnt := 0
		for _, f := range factsAt(b) {
			if bo, ok := f.Cond.(*ssa.BinOp); ok && bo.X == version && bo.Op == token.EQL && !f.Val {
				if _, isConst := bo.Y.(*ssa.Const); isConst {
					cnt++
				}
			}
		}
		if cnt >= 3 && blockReturnsError(b, 0) {
			okDefault = true
		}
	}
	c.decide(okDefault, "HSK-VER", "readMsgPattern|unknown version is an error", rmp.Pos(), "the payload switch has an erroring default", "an unknown version falls through the payload switch without an error")
	c.floor("HSK-VER", 5)
	_ = n
}

// hskBufDesc names a handshake buffer independently of local variable names.
func hskBufDesc(w *World, v ssa.Value) string {
	if sl, ok := v.(*ssa.Slice); ok {
		if al, ok := sl.X.(*ssa.Alloc); ok {
			if n, ok := arrayLen(al.Type()); ok {
				if n == 1 {
					return "the 1-byte version field"
				}
				return fmt.Sprintf("a %d-byte field", n)
			}
		}
	}
	if ms, ok := v.(*ssa.MakeSlice); ok {
		return "a buffer of " + w.canonFB(ms.Len) + " bytes"
	}
	return w.canonFB(v)
}

// ruleKKMinVersion: the KK pattern has no third act in which the responder could re-check the
// version, so the initiator's range check is the only validation of the act-2 version byte: for
// KK the minimum version handed to the handshake state must be >= HandshakeVersion2 (and the
// maximum must be checked).
func ruleKKMinVersion(c *Checker, rule string) {
	w := c.w
	nbm := mboxFunc(c, "mailbox.NewBrontideMachine")
	nhs := mboxFunc(c, "mailbox.newHandshakeState")
	hv2 := w.Const("mailbox.HandshakeVersion2")
	kk := w.Const("mailbox.KK")
	if nbm == nil || nhs == nil || hv2 == nil || kk == nil {
		c.anchorFail("NewBrontideMachine / newHandshakeState / HandshakeVersion2 / KK")
		return
	}
	v2, _ := constant.Int64Val(constant.ToInt(hv2.Val()))
	kkName := constant.StringVal(kk.Val())
	isKK := func(f Fact) (bool, bool) { // (is a KK test, value)
		bo, ok := f.Cond.(*ssa.BinOp)
		if !ok || (bo.Op != token.EQL && bo.Op != token.NEQ) {
			return false, false
		}
		k, ok := bo.Y.(*ssa.Const)
		if !ok || k.Value == nil || k.Value.Kind() != constant.String || constant.StringVal(k.Value) != kkName {
			return false, false
		}
		return true, f.Val == (bo.Op == token.EQL)
	}
	rg := newRanger(w)
	calls := findCalls(nbm, func(ci ssa.CallInstruction) bool { return ci.Common().StaticCallee() == nhs })
	if len(calls) != 1 {
		c.fail(rule, "NewBrontideMachine|newHandshakeState call", nbm.Pos(), "expected exactly one call of newHandshakeState")
		return
	}
	call := calls[0]
	for idx, what := range []string{"minimum", "maximum"} {
		arg := call.Common().Args[idx]
		okk := true
		detail := ""
		judge := func(v ssa.Value, facts []Fact, r Range, where string) {
			for _, f := range facts {
				if is, val := isKK(f); is && !val {
					return // not the KK pattern on this path
				}
			}
			if r.empty || r.lo < v2 {
				okk = false
				detail = fmt.Sprintf("on %s the %s version for KK has range %s", where, what, r)
			}
		}
		if phi, ok := arg.(*ssa.Phi); ok {
			for i, e := range phi.Edges {
				p := phi.Block().Preds[i]
				judge(e, factsOnEdge(p, phi.Block()), rg.OnEdge(e, p, phi.Block()), "the edge from block "+p.Comment)
			}
		} else {
			// path-sensitive: from the KK leg, every path to the call must pass an edge on which arg >= 2 is known
			validated := func(fs []Fact) bool {
				return !rg.eval(arg, fs, 0).empty && rg.eval(arg, fs, 0).lo >= v2
			}
			var kkStart []*ssa.BasicBlock
			for _, b := range nbm.Blocks {
				for _, sct := range b.Succs {
					for _, f := range factsOnEdge(b, sct) {
						if is, val := isKK(f); is && val {
							if ef, ok := edgeFact(b, sct); ok && ef.Cond == f.Cond {
								kkStart = append(kkStart, sct)
							}
						}
					}
				}
			}
			if len(kkStart) == 0 {
				okk = false
				detail = "no test for the KK pattern found"
			}
			seen := map[*ssa.BasicBlock]bool{}
			var walk func(b *ssa.BasicBlock) bool
			walk = func(b *ssa.BasicBlock) bool {
				if b == call.Block() {
					return true
				}
				if seen[b] {
					return false
				}
				seen[b] = true
				for _, sct := range b.Succs {
					if validated(factsOnEdge(b, sct)) || !edgeFeasible(b, sct) {
						continue
					}
					if walk(sct) {
						return true
					}
				}
				return false
			}
			for _, st := range kkStart {
				if validated(factsAt(st)) {
					continue
				}
				if walk(st) {
					okk = false
					detail = "a path from the KK leg reaches newHandshakeState without the " + what + " version having been checked against 2"
				}
			}
		}
		c.decide(okk, rule, "NewBrontideMachine|KK requires "+what+" version >= 2", instrPos(call),
			"for the KK pattern the "+what+" handshake version handed to the handshake state is >= HandshakeVersion2",
			"for the KK pattern (two acts, no re-check by the responder) the "+what+" version is not forced to >= 2: a rewritten act-2 version byte is accepted and the two sides disagree on the version ("+detail+")")
	}
}

// isRemoteStaticParam: the parameter of newHandshakeState that carries the peer's static
// key - its only parameter of type *btcec.PublicKey (identified by type, not by name).
func isRemoteStaticParam(p *ssa.Parameter) bool {
	nt := namedOf(deref(p.Type()))
	if nt == nil || nt.Obj().Name() != "PublicKey" {
		return false
	}
	n := 0
	for _, q := range p.Parent().Params {
		if t := namedOf(deref(q.Type())); t != nil && t.Obj().Name() == "PublicKey" {
			n++
		}
	}
	return n == 1
}

// rulePublishOrder: after split() no return is reachable before SetRemote on the version >= 2
// paths (shared by C04 PUBLISH and C11/C17 SIDFRESH).
func rulePublishOrder(c *Checker, rule string) {
	w := c.w
	dh := mboxFunc(c, "(*mailbox.Machine).DoHandshake")
	split := mboxFunc(c, "(*mailbox.Machine).split")
	fVer := w.Field("mailbox.handshakeState.version")
	hv2 := w.Const("mailbox.HandshakeVersion2")
	if dh == nil || split == nil || fVer == nil || hv2 == nil {
		c.anchorFail("DoHandshake/split/handshakeState.version/HandshakeVersion2")
		return
	}
	v2, _ := constant.Int64Val(constant.ToInt(hv2.Val()))
	sp := findCalls(dh, func(ci ssa.CallInstruction) bool { return ci.Common().StaticCallee() == split })
	// once the wire handshake is complete (split), no return is reachable before SetRemote on the
	// version >= 2 paths: the peer has moved to the key-derived rendezvous, this side must follow
	if len(sp) == 1 {
		setRemote := findCalls(dh, func(ci ssa.CallInstruction) bool {
			return ci.Common().IsInvoke() && ci.Common().Method.Name() == "SetRemote"
		})
		isVer := func(v ssa.Value) bool { return isLoadOfField(v, fVer) }
		isV2 := func(v ssa.Value) bool { k, ok := intConst(v); return ok && k == v2 }
		bad := ""
		seen := map[*ssa.BasicBlock]bool{}
		var walk func(b *ssa.BasicBlock, from int)
		walk = func(b *ssa.BasicBlock, from int) {
			for i := from; i < len(b.Instrs) && bad == ""; i++ {
				in := b.Instrs[i]
				for _, sr := range setRemote {
					if in == sr {
						return
					}
				}
				if r, ok := in.(*ssa.Return); ok {
					bad = w.pos(instrPos(r))
					return
				}
			}
			for _, sct := range b.Succs {
				if seen[sct] || !edgeFeasible(b, sct) || bad != "" {
					continue
				}
				if f, ok := edgeFact(b, sct); ok && factRel(f, isVer, isV2) == "<" {
					continue // the version < 2 leg publishes nothing
				}
				seen[sct] = true
				walk(sct, 0)
			}
		}
		walk(sp[0].Block(), instrIndex(sp[0])+1)
		c.decide(bad == "" && len(setRemote) == 1, rule, "DoHandshake|nothing can fail between split and SetRemote", dh.Pos(), "for version >= 2 every path from split reaches SetRemote before any return",
			"DoHandshake can return at "+bad+" after the wire handshake completed but before SetRemote: the peer has stored our key and moved to the key-derived rendezvous, this side stays on the passphrase")
	}
}

// otherSucc returns, for a fact established on the way to block b, the successor of the
// deciding block that does NOT lead to b (nil if not determinable).
func otherSucc(f Fact, b *ssa.BasicBlock) *ssa.BasicBlock {
	for a := b.Idom(); a != nil; a = a.Idom() {
		if len(a.Instrs) == 0 {
			continue
		}
		iff, ok := a.Instrs[len(a.Instrs)-1].(*ssa.If)
		if !ok || iff.Cond != f.Cond {
			continue
		}
		for _, s := range a.Succs {
			if !(s == b || s.Dominates(b)) {
				return s
			}
		}
	}
	return b
}

// rulePatternSource: the pattern a handshake machine runs is the one the connection data
// prescribes - KK exactly when a remote static key is stored, XX otherwise - at every place a
// machine is configured. (A paired responder that can be made to run XX again accepts anyone who
// knows the passphrase; a side that runs another pattern than its SID says never meets its peer.)
func rulePatternSource(c *Checker, rule string) {
	w := c.w
	fCfgPat := w.Field("mailbox.BrontideMachineConfig.HandshakePattern")
	fCfgCD := w.Field("mailbox.BrontideMachineConfig.ConnData")
	fRK := w.Field("mailbox.ConnData.remoteKey")
	hp := mboxFunc(c, "(*mailbox.ConnData).HandshakePattern")
	if fCfgPat == nil || fCfgCD == nil || fRK == nil || hp == nil {
		c.anchorFail("BrontideMachineConfig.HandshakePattern / ConnData / ConnData.remoteKey")
		return
	}
	isPatternCall := func(v ssa.Value) (ssa.Value, bool) {
		call, ok := unwrapLoadAlloc(v).(*ssa.Call)
		if !ok {
			return nil, false
		}
		cc := call.Common()
		if cc.IsInvoke() && cc.Method.Name() == "HandshakePattern" {
			return cc.Value, true
		}
		if cc.StaticCallee() == hp {
			return cc.Args[0], true
		}
		return nil, false
	}
	n := 0
	for _, st := range w.Stores(fCfgPat) {
		if strings.HasSuffix(w.Fset.Position(instrPos(st)).Filename, "_test.go") {
			continue
		}
		n++
		key := fnName(st.Parent()) + "|machine pattern = connData.HandshakePattern()"
		recv, okk := isPatternCall(st.Val)
		why := "the pattern is " + w.canonFB(st.Val)
		if !okk {
			// one level of helper: every return of the helper is such a call
			if call, ok := unwrapLoadAlloc(st.Val).(*ssa.Call); ok {
				if sc := call.Common().StaticCallee(); sc != nil && sc.Pkg == st.Parent().Pkg && len(sc.Blocks) > 0 {
					all, any := true, false
					allInstrs(sc, func(in ssa.Instruction) {
						ret, isRet := in.(*ssa.Return)
						if !isRet || ret.Block().Comment == "recover" {
							return
						}
						for _, v := range expandValues(ret.Results[0]) {
							if _, ok := isPatternCall(v); ok {
								any = true
							} else {
								all = false
								why = "helper " + fnName(sc) + " can return " + w.canonFB(v)
							}
						}
					})
					okk = all && any
					recv = nil
				}
			}
		}
		// the same connection data that the machine gets
		if okk && recv != nil {
			fa, _ := st.Addr.(*ssa.FieldAddr)
			same := false
			for _, s2 := range w.Stores(fCfgCD) {
				fa2, _ := s2.Addr.(*ssa.FieldAddr)
				v2 := s2.Val
				if mi, ok := v2.(*ssa.MakeInterface); ok {
					v2 = mi.X
				}
				if fa != nil && fa2 != nil && fa.X == fa2.X && w.canonFB(v2) == w.canonFB(recv) {
					same = true
				}
			}
			if !same {
				okk, why = false, "the pattern is asked of another connection data than the one the machine is given"
			}
		}
		c.decide(okk, rule, key, instrPos(st), "HandshakePattern: cfg.ConnData.HandshakePattern()", "a handshake machine is configured with a pattern that is not the one its connection data prescribes ("+why+"): a paired side can fall back to the passphrase-only pattern, or the two sides run different patterns")
	}
	c.decide(n >= 4, rule, "machine pattern sites", token.NoPos, fmt.Sprintf("%d configuration sites", n), fmt.Sprintf("only %d sites configure BrontideMachineConfig.HandshakePattern (4 expected: grpc client/server, tcp dial/listen)", n))
	// ConnData.HandshakePattern: XX exactly while no remote key is stored, KK afterwards
	isRK := func(v ssa.Value) bool { return isLoadOfField(v, fRK) }
	globalName := func(v ssa.Value) string {
		u, ok := unwrapLoadAlloc(v).(*ssa.UnOp)
		if !ok || u.Op != token.MUL {
			return ""
		}
		g, ok := u.X.(*ssa.Global)
		if !ok {
			return ""
		}
		return g.Name()
	}
	type rv struct {
		v ssa.Value
		b *ssa.BasicBlock
	}
	var rvs []rv
	allInstrs(hp, func(in ssa.Instruction) {
		ret, ok := in.(*ssa.Return)
		if !ok || ret.Block().Comment == "recover" {
			return
		}
		if u, ok := ret.Results[0].(*ssa.UnOp); ok && u.Op == token.MUL {
			if al, ok := u.X.(*ssa.Alloc); ok {
				for _, ref := range *al.Referrers() {
					if st, ok := ref.(*ssa.Store); ok && st.Addr == ssa.Value(al) && (st.Block() == ret.Block() || st.Block().Dominates(ret.Block())) {
						rvs = append(rvs, rv{st.Val, st.Block()})
					}
				}
				return
			}
		}
		rvs = append(rvs, rv{ret.Results[0], ret.Block()})
	})
	nXX, nKK, bad := 0, 0, ""
	for _, r := range rvs {
		rel := ""
		for _, f := range factsAt(r.b) {
			if x := factRel(f, isRK, isNilConst); x != "" {
				rel = x
			}
		}
		switch g := globalName(r.v); {
		case g == "XXPattern" && rel == "==":
			nXX++
		case g == "KKPattern" && rel == "!=":
			nKK++
		default:
			bad = fmt.Sprintf("returns %s under remoteKey %s nil", w.canonFB(r.v), rel)
		}
	}
	c.decide(bad == "" && nXX >= 1 && nKK >= 1, rule, "ConnData.HandshakePattern|XX without a remote key, KK with one", hp.Pos(), "XXPattern under remoteKey == nil, KKPattern under remoteKey != nil",
		"ConnData.HandshakePattern does not return XX exactly while no remote key is stored and KK afterwards ("+bad+")")
}

// ruleSecretImmutable: the bytes of the pairing secret are never written. The slices that hold it
// (ConnData.passphraseEntropy, handshakeState.passphraseEntropy, the parameters they are filled
// from) alias the caller's buffer - the TCP listener hands the same slice to every connection - so
// a wipe or an in-place transformation on one connection changes the secret of all others.
func ruleSecretImmutable(c *Checker, rule string) {
	w := c.w
	isSecretField := func(f *types.Var) bool {
		if f == nil || f.Pkg() == nil || !strings.HasSuffix(f.Pkg().Path(), "/mailbox") {
			return false
		}
		return f.Name() == "passphraseEntropy" || f.Name() == "passphrase"
	}
	var isSecret func(v ssa.Value, d int) bool
	isSecret = func(v ssa.Value, d int) bool {
		if d > 6 {
			return false
		}
		v = unwrapLoadAlloc(v)
		switch x := v.(type) {
		case *ssa.UnOp:
			if x.Op == token.MUL {
				if fa, ok := x.X.(*ssa.FieldAddr); ok {
					return isSecretField(structFieldOf(fa))
				}
			}
		case *ssa.Slice:
			return isSecret(x.X, d+1)
		case *ssa.Call:
			// the accessor
			if x.Common().IsInvoke() && x.Common().Method.Name() == "PassphraseEntropy" {
				return true
			}
			if sc := x.Common().StaticCallee(); sc != nil && sc.Name() == "PassphraseEntropy" {
				return true
			}
		case *ssa.Parameter:
			if sl, ok := x.Type().Underlying().(*types.Slice); ok && types.Identical(sl.Elem(), types.Typ[types.Byte]) {
				return x.Name() == "passphraseEntropy" && false // parameters are covered through the fields they are stored in
			}
		}
		return false
	}
	n, bad := 0, ""
	for _, fn := range w.Funcs {
		if w.pkgShort(fn) != targetMbox || strings.HasSuffix(w.Fset.Position(fn.Pos()).Filename, "_test.go") {
			continue
		}
		allInstrs(fn, func(in ssa.Instruction) {
			switch x := in.(type) {
			case *ssa.FieldAddr:
				if isSecretField(structFieldOf(x)) {
					n++
				}
			case *ssa.Store:
				if ia, ok := x.Addr.(*ssa.IndexAddr); ok && isSecret(ia.X, 0) {
					bad = "element store in " + fnName(fn) + " at " + w.pos(instrPos(x))
				}
			case *ssa.Call:
				if bi, ok := x.Call.Value.(*ssa.Builtin); ok && (bi.Name() == "copy" || bi.Name() == "clear") && len(x.Call.Args) > 0 && isSecret(x.Call.Args[0], 0) {
					bad = bi.Name() + " into the secret in " + fnName(fn) + " at " + w.pos(instrPos(x))
				}
			}
		})
	}
	c.decide(bad == "" && n >= 4, rule, "secret|the bytes of the pairing secret are never written", token.NoPos, fmt.Sprintf("%d accesses of the secret-holding fields, no element store, copy or clear into them", n),
		"the pairing secret is modified in place ("+bad+"): the slice aliases the buffer of whoever configured it (the listener shares one passphrase among all connections), so other handshakes run with a changed - e.g. all-zero, guessable - secret")
}

// ruleVersionConfig: the version range a handshake machine runs with is the configured one. A
// type that carries its own minHandshakeVersion/maxHandshakeVersion (NoiseGrpcConn, set by the
// With*HandshakeVersion options) hands exactly these two fields to every machine it builds - a
// call site that takes the package default instead negotiates versions outside the configured
// range on one role only. The option closures store their argument into the field of their name.
func ruleVersionConfig(c *Checker, rule string) {
	w := c.w
	pairs := [][2]string{{"MinHandshakeVersion", "minHandshakeVersion"}, {"MaxHandshakeVersion", "maxHandshakeVersion"}}
	n := 0
	for _, pr := range pairs {
		fCfg := w.Field("mailbox.BrontideMachineConfig." + pr[0])
		fOwn := w.Field("mailbox.NoiseGrpcConn." + pr[1])
		if fCfg == nil || fOwn == nil {
			c.anchorFail("mailbox.BrontideMachineConfig." + pr[0] + " / NoiseGrpcConn." + pr[1])
			continue
		}
		for _, st := range w.Stores(fCfg) {
			fn := st.Parent()
			if strings.HasSuffix(w.Fset.Position(instrPos(st)).Filename, "_test.go") || fn.Signature.Recv() == nil {
				continue
			}
			if nn := namedOf(deref(fn.Signature.Recv().Type())); nn == nil || nn.Obj().Name() != "NoiseGrpcConn" {
				continue
			}
			n++
			c.decide(isLoadOfField(st.Val, fOwn), rule, fnName(fn)+"|machine "+pr[0]+" = the configured "+pr[1], instrPos(st), "cfg."+pr[0]+" = c."+pr[1],
				fnName(fn)+" builds its handshake machine with "+w.canonFB(st.Val)+" as "+pr[0]+" instead of the configured "+pr[1]+": this role negotiates versions outside the range it was configured with")
		}
		// the option stores its argument into the field of its name
		opt := w.Func("mailbox.With" + pr[0])
		okOpt := false
		if opt != nil {
			for _, st := range w.Stores(fOwn) {
				if st.Parent().Parent() == opt {
					v := st.Val
					if u, ok := v.(*ssa.UnOp); ok && u.Op == token.MUL {
						v = u.X
					}
					if _, ok := v.(*ssa.FreeVar); ok && len(opt.Params) == 1 && len(st.Parent().FreeVars) == 1 {
						okOpt = true
					}
				}
			}
		}
		c.decide(okOpt, rule, "With"+pr[0]+"|sets "+pr[1], token.NoPos, "the option closure stores its argument into "+pr[1], "With"+pr[0]+" does not store its argument into "+pr[1])
	}
	c.decide(n >= 4, rule, "machine version range sites", token.NoPos, fmt.Sprintf("%d stores", n), fmt.Sprintf("only %d stores of the machine's version range found in NoiseGrpcConn methods (client and server handshake: 4)", n))
}

// rulePayloadSource: what writeMsgPattern encrypts as the act's payload is nothing, the configured
// payloadToSend, or a buffer (array) created in this very call - never storage that outlives the
// call (a pooled or cached buffer that is only partly overwritten sends the previous handshake's
// auth payload to this handshake's peer).
func rulePayloadSource(c *Checker, rule string) {
	w := c.w
	wmp := mboxFunc(c, "(*mailbox.handshakeState).writeMsgPattern")
	fPay := w.Field("mailbox.handshakeState.payloadToSend")
	if wmp == nil || fPay == nil {
		c.anchorFail("handshakeState.writeMsgPattern / payloadToSend")
		return
	}
	n := 0
	for _, ci := range findCalls(wmp, func(ci ssa.CallInstruction) bool { return calleeNameIsCI(ci, "EncryptAndHash") }) {
		args := ci.Common().Args
		arg := args[len(args)-1]
		bad := ""
		for _, v := range expandValues(arg) {
			switch x := v.(type) {
			case *ssa.Const:
				if x.Value == nil {
					continue
				}
			case *ssa.Slice:
				if al, ok := x.X.(*ssa.Alloc); ok && al.Parent() == wmp {
					continue // make([]byte, k) / a local array of this call
				}
			case *ssa.MakeSlice:
				if x.Parent() == wmp {
					continue
				}
			}
			if isLoadOfField(v, fPay) {
				continue
			}
			bad = w.canonFB(v)
		}
		n++
		c.decide(bad == "", rule, fmt.Sprintf("writeMsgPattern|payload-%d is nothing, payloadToSend or a buffer of this call", n), instrPos(ci), "nil, h.payloadToSend, or a slice of an allocation made in this invocation",
			"the act payload that writeMsgPattern encrypts comes from "+bad+": storage that outlives the call can still hold (part of) another handshake's auth payload")
	}
	c.decide(n >= 3, rule, "writeMsgPattern|payload sites", token.NoPos, fmt.Sprintf("%d EncryptAndHash calls", n), fmt.Sprintf("only %d EncryptAndHash calls in writeMsgPattern", n))
}

// ruleReceivedPayload: what the initiator keeps as the responder's auth payload is exactly what
// the responder's writer framed (mirror of the writer side, which is checked by HSK-BIND /
// rulePayloadSource):
//
//	v1/v2: the whole plaintext of the act-2 body, stored under ActNum == 2 only;
//	v0:    a buffer of this call of length BigEndian.Uint16(plaintext[:2]), filled by
//	       io.ReadFull from a reader over plaintext[2:] whose error is checked.
func ruleReceivedPayload(c *Checker, rule string) {
	w := c.w
	rmp := mboxFunc(c, "(*mailbox.handshakeState).readMsgPattern")
	fRP := w.Field("mailbox.handshakeState.receivedPayload")
	fAct := w.Field("mailbox.MessagePattern.ActNum")
	if rmp == nil || fRP == nil || fAct == nil {
		c.anchorFail("handshakeState.readMsgPattern / receivedPayload / MessagePattern.ActNum")
		return
	}
	dahResult := func(v ssa.Value) *ssa.Call {
		ex, ok := unwrapLoadAlloc(v).(*ssa.Extract)
		if !ok || ex.Index != 0 {
			return nil
		}
		call, ok := ex.Tuple.(*ssa.Call)
		if !ok || !calleeNameIsCI(call, "DecryptAndHash") {
			return nil
		}
		return call
	}
	nWhole, nFramed := 0, 0
	for _, st := range w.Stores(fRP) {
		if st.Parent() != rmp {
			continue
		}
		v := unwrapLoadAlloc(st.Val)
		if dahResult(v) != nil {
			nWhole++
			under2 := hasFact(st.Block(), func(f Fact) bool {
				return factRel(f, func(x ssa.Value) bool { return isLoadOfField(x, fAct) }, func(x ssa.Value) bool { k, ok := intConst(x); return ok && k == 2 }) == "=="
			})
			c.decide(under2, rule, "readMsgPattern|the act-2 plaintext is the received payload (v1+)", instrPos(st), "receivedPayload = DecryptAndHash(body) under ActNum == 2",
				"the received auth payload is taken from the plaintext of an act other than act 2 (or of every act): the initiator ends up with an empty or wrong payload")
			continue
		}
		// v0: framed buffer
		nFramed++
		okk, why := false, "the stored value is "+w.canonFB(v)
		if mk, ok := v.(*ssa.MakeSlice); ok && mk.Parent() == rmp {
			// length = Uint16(plain[:2])
			var plain ssa.Value
			lenOK := false
			for _, lv := range expandValues(mk.Len) {
				x := lv
				narrowed := false
				for {
					if cv, ok := x.(*ssa.Convert); ok {
						if b, ok := cv.Type().Underlying().(*types.Basic); ok && (b.Kind() == types.Uint8 || b.Kind() == types.Int8) {
							narrowed = true
						}
						x = cv.X
						continue
					}
					break
				}
				if call, ok := x.(*ssa.Call); ok && !narrowed {
					if sc := call.Common().StaticCallee(); sc != nil && sc.Name() == "Uint16" && sc.Pkg != nil && sc.Pkg.Pkg.Path() == "encoding/binary" {
						a := call.Common().Args
						if sl, ok := a[len(a)-1].(*ssa.Slice); ok && sl.Low == nil && sl.High != nil {
							if k, isK := intConst(sl.High); isK && k == 2 && dahResult(sl.X) != nil {
								plain = sl.X
								lenOK = true
							}
						}
					}
				}
			}
			// filled by io.ReadFull(reader over plain[2:], buf), error checked, before the store
			fillOK := false
			for _, r := range *mk.Referrers() {
				call, ok := r.(*ssa.Call)
				if !ok || !staticCalleeIs(call.Common(), "io", "", "ReadFull") || call.Common().Args[1] != ssa.Value(mk) || !instrDominates(call, st) {
					continue
				}
				rd := call.Common().Args[0]
				if mi, ok := rd.(*ssa.MakeInterface); ok {
					rd = mi.X
				}
				if nr, ok := rd.(*ssa.Call); ok && staticCalleeIs(nr.Common(), "bytes", "", "NewReader") {
					if sl, ok := nr.Common().Args[0].(*ssa.Slice); ok && sl.High == nil && sl.Low != nil && sl.X == plain {
						if k, isK := intConst(sl.Low); isK && k == 2 {
							if e, _ := errCheckedAndReturned(call, 1); e {
								fillOK = true
							}
						}
					}
				}
			}
			okk = lenOK && fillOK
			why = fmt.Sprintf("length is Uint16(plaintext[:2]): %v, filled from plaintext[2:] with the error checked: %v", lenOK, fillOK)
		}
		c.decide(okk, rule, "readMsgPattern|the v0 payload is unframed exactly (2-byte length, then that many bytes)", instrPos(st), "make([]byte, Uint16(p[:2])) filled by io.ReadFull(bytes.NewReader(p[2:]))",
			"the version-0 auth payload is not cut out of the fixed act-2 buffer by its 2-byte length prefix ("+why+"): the initiator holds padding, the prefix itself or a truncated payload")
	}
	c.decide(nWhole == 1 && nFramed == 1, rule, "readMsgPattern|payload stores", token.NoPos, "one store per framing (v0 framed, v1+ whole)", fmt.Sprintf("expected one framed (v0) and one whole-plaintext (v1+) store of receivedPayload, found %d and %d", nFramed, nWhole))
}

// rulePayloadFraming (writer side of ruleReceivedPayload): the length prefix the responder puts
// in front of its auth payload is exactly len(payloadToSend) - 2 bytes big endian for version 0,
// 4 bytes for version 1/2 - and what follows the prefix is payloadToSend itself, whole; for
// version 0 the framed bytes are copied to the START of the fixed-size buffer.
func rulePayloadFraming(c *Checker, rule string) {
	w := c.w
	wmp := mboxFunc(c, "(*mailbox.handshakeState).writeMsgPattern")
	fPay := w.Field("mailbox.handshakeState.payloadToSend")
	if wmp == nil || fPay == nil {
		return
	}
	isLenOfPayload := func(v ssa.Value) bool {
		for {
			cv, ok := v.(*ssa.Convert)
			if !ok {
				break
			}
			v = cv.X
		}
		call, ok := v.(*ssa.Call)
		if !ok {
			return false
		}
		bi, ok := call.Call.Value.(*ssa.Builtin)
		return ok && bi.Name() == "len" && isLoadOfField(call.Call.Args[0], fPay)
	}
	nPut := 0
	okPut := true
	allInstrs(wmp, func(in ssa.Instruction) {
		call, ok := in.(*ssa.Call)
		if !ok {
			return
		}
		sc := call.Common().StaticCallee()
		if sc == nil || sc.Pkg == nil || sc.Pkg.Pkg.Path() != "encoding/binary" || (sc.Name() != "PutUint16" && sc.Name() != "PutUint32") {
			return
		}
		nPut++
		a := call.Common().Args
		if !isLenOfPayload(a[len(a)-1]) {
			okPut = false
		}
	})
	c.decide(okPut && nPut == 2, rule, "writeMsgPattern|the length prefix is len(payloadToSend)", wmp.Pos(), "PutUint16/PutUint32(len(payloadToSend)) for v0 / v1+",
		"a length prefix of the auth payload is not exactly len(payloadToSend): the initiator cuts the payload at the wrong place")
	// v0 assembly: the local bytes.Buffer gets the length array and then payloadToSend whole; its
	// Bytes() are copied to the start of the fresh fixed-size buffer
	var writes []*ssa.Call
	var cp *ssa.Call
	allInstrs(wmp, func(in ssa.Instruction) {
		call, ok := in.(*ssa.Call)
		if !ok {
			return
		}
		if sc := call.Common().StaticCallee(); sc != nil && isMethod(sc, "bytes", "Buffer", "Write") && localAssemblyBuffer(call.Common().Args[0]) {
			// only the payload assembly buffer (not the act buffer): its Bytes() feed a copy
			writes = append(writes, call)
		}
		if isBuiltinCall(call, "copy") {
			if src, ok := call.Call.Args[1].(*ssa.Call); ok {
				if sc := src.Common().StaticCallee(); sc != nil && isMethod(sc, "bytes", "Buffer", "Bytes") {
					cp = call
				}
			}
		}
	})
	okAsm, why := cp != nil, "no copy of the assembled bytes"
	if okAsm {
		dst, _ := cp.Call.Args[0].(*ssa.Slice)
		if dst == nil || dst.Low != nil {
			okAsm, why = false, "the framed bytes are not copied to the start of the buffer"
		}
		srcBuf := cp.Call.Args[1].(*ssa.Call).Common().Args[0]
		var mine []*ssa.Call
		for _, wr := range writes {
			if wr.Common().Args[0] == srcBuf {
				mine = append(mine, wr)
			}
		}
		if len(mine) != 2 {
			okAsm, why = false, fmt.Sprintf("%d writes into the assembly buffer (length, payload expected)", len(mine))
		} else {
			first, second := mine[0], mine[1]
			if instrDominates(second, first) {
				first, second = second, first
			}
			if _, isArr := first.Common().Args[1].(*ssa.Slice); !isArr {
				okAsm, why = false, "the first write is not the length array"
			}
			if !isLoadOfField(second.Common().Args[1], fPay) {
				okAsm, why = false, "the second write is not payloadToSend itself, whole"
			}
		}
	}
	c.decide(okAsm, rule, "writeMsgPattern|v0 frame = length, then payloadToSend whole, at the start of the buffer", wmp.Pos(), "Write(length[:]); Write(payloadToSend); copy(payload, Bytes())",
		"the version-0 act-2 buffer is not assembled as length prefix + whole payload at offset 0 ("+why+")")
}

// ruleConnDataFidelity: ConnData is the one place the pairing secret, the auth payload and the
// two static keys live; everything else asks it. Its constructor stores each argument into the
// field of the same name, and the four accessors return exactly their field, whole.
func ruleConnDataFidelity(c *Checker, rule string) {
	w := c.w
	ctor := mboxFunc(c, "mailbox.NewConnData")
	cd := w.Named("mailbox.ConnData")
	if ctor == nil || cd == nil {
		c.anchorFail("mailbox.NewConnData / ConnData")
		return
	}
	st, _ := cd.Underlying().(*types.Struct)
	if st == nil {
		return
	}
	bad := ""
	n := 0
	// by position in the (exported, stable) signature - parameter names are free to change
	roles := []string{"localKey", "remoteKey", "passphraseEntropy", "authData", "onRemoteStatic", "onAuthData"}
	for pi, p := range ctor.Params {
		var f *types.Var
		if pi < len(roles) {
			for i := 0; i < st.NumFields(); i++ {
				if st.Field(i).Name() == roles[pi] {
					f = st.Field(i)
				}
			}
		}
		if f == nil || !types.Identical(f.Type(), p.Type()) {
			bad = fmt.Sprintf("no field for parameter %d", pi)
			continue
		}
		stored := false
		for _, s2 := range w.Stores(f) {
			if s2.Parent() == ctor && s2.Val == ssa.Value(p) && len(factsAt(s2.Block())) == 0 {
				stored = true
			}
		}
		if !stored {
			bad = "field " + f.Name() + " is not set from the parameter of that role"
		}
		n++
	}
	c.decide(bad == "" && n >= 6, rule, "NewConnData|every argument is stored into the field of its role", ctor.Pos(), fmt.Sprintf("%d parameters", n),
		"NewConnData does not store each argument into the field of the same name ("+bad+"): the secret, the auth payload or a key the connection runs with is not the configured one")
	for _, pr := range [][2]string{{"LocalKey", "localKey"}, {"RemoteKey", "remoteKey"}, {"PassphraseEntropy", "passphraseEntropy"}, {"AuthData", "authData"}} {
		fn := mboxFunc(c, "(*mailbox.ConnData)."+pr[0])
		f := w.Field("mailbox.ConnData." + pr[1])
		if fn == nil || f == nil {
			continue
		}
		okk, k := true, 0
		allInstrs(fn, func(in ssa.Instruction) {
			ret, ok := in.(*ssa.Return)
			if !ok || ret.Block().Comment == "recover" {
				return
			}
			k++
			for _, v := range expandValues(ret.Results[0]) {
				if !isLoadOfField(v, f) {
					okk = false
				}
			}
		})
		c.decide(okk && k >= 1, rule, "ConnData."+pr[0]+"|returns its field, whole", fn.Pos(), "returns "+pr[1],
			"ConnData."+pr[0]+" does not return the whole "+pr[1]+" field: the handshake runs with a different secret / key / payload than the one stored")
	}
}
