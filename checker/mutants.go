package main

import (
	"encoding/json"
	"fmt"
	"os"
	"os/exec"
	"path/filepath"
	"regexp"
	"sort"
	"strings"
	"sync"
)

// Mutant is one frozen single-site source edit used to test the checker
// itself: applied in memory (go/packages overlay) to the current tree, it must
// turn a discharged obligation of Rule into a finding. Mutants never change a
// check's exit code (a modified /repo may make their context disappear).
type Mutant struct {
	Name string
	Prop string // property whose check must fire (comma separated for several)
	Rule string // rule expected to report (informational)
	File string // path relative to the repository
	Old  string
	New  string
	Nth  int    // 0: Old must be unique; k>0: replace the k-th occurrence; -1: replace every occurrence; -2: every whole-word occurrence (identifier renames)
	More []Edit // further unique replacements in the same file
	// Benign marks a behaviour-preserving edit: no check may report anything new on it.
	Benign bool
	// BenignFor restricts a benign mutant to the listed properties (comma separated). Used when the
	// edit, while behaviour-preserving, adds constructs another check must by design prove anew
	// (e.g. new index expressions for C07, which enumerates every index site).
	BenignFor string
}

// Edit is one additional textual replacement of a mutant.
type Edit struct{ Old, New string }

func mutantOverlay(repo, name string) (map[string][]byte, error) {
	for _, m := range allMutants() {
		if m.Name != name {
			continue
		}
		p := filepath.Join(repo, m.File)
		b, err := os.ReadFile(p)
		if err != nil {
			return nil, err
		}
		s := string(b)
		n := strings.Count(s, m.Old)
		if n == 0 {
			return nil, fmt.Errorf("mutant %s: context not found in %s", name, m.File)
		}
		if m.Nth == -2 {
			// rename of an identifier: every whole-word occurrence
			re := regexp.MustCompile(`\b` + regexp.QuoteMeta(m.Old) + `\b`)
			s = re.ReplaceAllString(s, m.New)
		} else if m.Nth < 0 {
			// rename-style edit: every occurrence
			s = strings.ReplaceAll(s, m.Old, m.New)
		} else if m.Nth == 0 {
			if n != 1 {
				return nil, fmt.Errorf("mutant %s: context occurs %d times in %s", name, n, m.File)
			}
			s = strings.Replace(s, m.Old, m.New, 1)
		} else {
			if n < m.Nth {
				return nil, fmt.Errorf("mutant %s: context occurs %d times, need %d", name, n, m.Nth)
			}
			idx := -1
			from := 0
			for k := 0; k < m.Nth; k++ {
				j := strings.Index(s[from:], m.Old)
				idx = from + j
				from = idx + len(m.Old)
			}
			s = s[:idx] + m.New + s[idx+len(m.Old):]
		}
		for _, e := range m.More {
			if strings.Count(s, e.Old) != 1 {
				return nil, fmt.Errorf("mutant %s: extra context not unique in %s", name, m.File)
			}
			s = strings.Replace(s, e.Old, e.New, 1)
		}
		return map[string][]byte{p: []byte(s)}, nil
	}
	return nil, fmt.Errorf("no such mutant %q", name)
}

type mutantResult struct {
	Benign   bool     `json:"benign,omitempty"`
	Name     string   `json:"mutant"`
	Rule     string   `json:"expected_rule"`
	Outcome  string   `json:"outcome"` // caught | missed | skipped
	Findings []string `json:"findings,omitempty"`
}

// runMutants executes the sensitivity mutants of a property in subprocesses.
func runMutants(repo, verif, prop string) []mutantResult {
	self, err := os.Executable()
	if err != nil {
		return nil
	}
	var ms []Mutant
	for _, m := range allMutants() {
		if m.Benign {
			if m.BenignFor == "" || strings.Contains(","+m.BenignFor+",", ","+prop+",") {
				ms = append(ms, m)
			}
			continue
		}
		for _, p := range strings.Split(m.Prop, ",") {
			if p == prop {
				ms = append(ms, m)
			}
		}
	}
	res := make([]mutantResult, len(ms))
	sem := make(chan struct{}, 6)
	var wg sync.WaitGroup
	for i, m := range ms {
		wg.Add(1)
		go func(i int, m Mutant) {
			defer wg.Done()
			sem <- struct{}{}
			defer func() { <-sem }()
			cmd := exec.Command(self, "-repo", repo, "-verif", verif, "-property", prop, "-mutant", m.Name, "-no-evidence")
			out, _ := cmd.CombinedOutput()
			r := mutantResult{Name: m.Name, Rule: m.Rule, Benign: m.Benign}
			switch {
			case strings.Contains(string(out), "MUTANT-SKIP"):
				r.Outcome = "skipped"
				for _, l := range strings.Split(string(out), "\n") {
					if strings.Contains(l, "MUTANT-SKIP") {
						if len(l) > 300 {
							l = l[:300]
						}
						r.Findings = []string{l}
					}
				}
			default:
				for _, l := range strings.Split(string(out), "\n") {
					if strings.HasPrefix(l, "FINDING ") {
						r.Findings = append(r.Findings, strings.TrimPrefix(l, "FINDING "))
					}
				}
				if len(r.Findings) > 0 {
					r.Outcome = "caught"
				} else {
					r.Outcome = "missed"
				}
				if len(r.Findings) > 4 {
					r.Findings = r.Findings[:4]
				}
			}
			res[i] = r
		}(i, m)
	}
	wg.Wait()
	sort.Slice(res, func(i, j int) bool { return res[i].Name < res[j].Name })
	return res
}

// thoroughExtras adds the sensitivity results (advisory) to the evidence.
func thoroughExtras(repo, verif, prop string, c *Checker) map[string]any {
	// Known findings present on the baseline tree also show up in mutant runs;
	// a mutant counts as caught only if it adds a finding the baseline lacks.
	base := map[string]bool{}
	for _, o := range c.Obls {
		if o.Verdict != vOK {
			base["rule="+o.Rule+" construct="+o.Key] = true
		}
	}
	res := runMutants(repo, verif, prop)
	caught, missed, skipped := 0, 0, 0
	falseAlarms, quiet := 0, 0
	for i := range res {
		if res[i].Outcome == "caught" {
			var fresh []string
			for _, f := range res[i].Findings {
				k := f
				if j := strings.Index(f, " site="); j >= 0 {
					k = f[:j]
				}
				if !base[k] {
					fresh = append(fresh, f)
				}
			}
			res[i].Findings = fresh
			if len(fresh) == 0 {
				res[i].Outcome = "missed"
			}
		}
		if res[i].Benign {
			switch res[i].Outcome {
			case "caught":
				res[i].Outcome = "FALSE-ALARM"
				falseAlarms++
			case "missed":
				res[i].Outcome = "quiet"
				quiet++
			}
			continue
		}
		switch res[i].Outcome {
		case "caught":
			caught++
		case "missed":
			missed++
		default:
			skipped++
		}
	}
	fmt.Printf("sensitivity (advisory): %d breaking mutants, %d caught, %d missed, %d skipped; %d benign edits, %d quiet, %d false alarms\n", len(res)-quiet-falseAlarms, caught, missed, skipped, quiet+falseAlarms, quiet, falseAlarms)
	for _, r := range res {
		if r.Outcome != "caught" && r.Outcome != "quiet" {
			fmt.Printf("  mutant %s: %s (expected rule %s)\n", r.Name, r.Outcome, r.Rule)
		}
	}
	return map[string]any{
		"sensitivity": map[string]any{
			"note":    "frozen single-site mutants applied in memory to the current tree; advisory, never changes the exit code",
			"mutants": len(res) - quiet - falseAlarms, "caught": caught, "missed": missed, "skipped": skipped,
			"benign_edits": quiet + falseAlarms, "benign_quiet": quiet, "benign_false_alarms": falseAlarms,
			"results": res,
		},
	}
}

// explainReplay re-runs the property named in a replay file and prints the
// obligations of that rule/construct on the current tree.
func explainReplay(repo, verif, path string) int {
	b, err := os.ReadFile(path)
	if err != nil {
		fmt.Println("cannot read replay file:", err)
		return 2
	}
	var rp struct {
		Property  string `json:"property"`
		Rule      string `json:"rule"`
		Construct string `json:"construct"`
	}
	if err := json.Unmarshal(b, &rp); err != nil {
		fmt.Println("malformed replay file:", err)
		return 2
	}
	w, err := LoadWorld(repo, nil, "")
	if err != nil {
		fmt.Println("CHECKER-ERROR:", err)
		return 1
	}
	pr := registry[rp.Property]
	if pr == nil {
		fmt.Println("unknown property in replay file")
		return 2
	}
	c := newChecker(w, rp.Property, "quick")
	pr.run(c)
	c.applyFloors()
	rc := 0
	n := 0
	for _, o := range c.Obls {
		if o.Rule == rp.Rule && o.Key == rp.Construct {
			n++
			fmt.Printf("%s %s at %s: %s\n  %s\n  source: %s\n", o.Rule, o.Key, o.Pos, o.Verdict, o.Detail, "")
			if o.Verdict != vOK {
				rc = 1
			}
		}
	}
	if n == 0 {
		fmt.Printf("construct %s of rule %s is not present in the current tree (all obligations of the rule follow)\n", rp.Construct, rp.Rule)
		for _, o := range c.Obls {
			if o.Rule == rp.Rule {
				fmt.Printf("  %s at %s: %s %s\n", o.Key, o.Pos, o.Verdict, o.Detail)
			}
		}
	}
	return rc
}

// runSelftest runs the mutants of one or all properties against the current
// tree and reports which are caught. Exit 1 if any applicable mutant is missed.
func runSelftest(repo, verif, prop string) int {
	props := map[string]bool{}
	for _, m := range allMutants() {
		if m.Benign {
			continue
		}
		for _, p := range strings.Split(m.Prop, ",") {
			if prop == "" || prop == p {
				props[p] = true
			}
		}
	}
	var ids []string
	for p := range props {
		ids = append(ids, p)
	}
	sort.Strings(ids)
	missed := 0
	for _, p := range ids {
		if registry[p] == nil {
			fmt.Printf("%s: not registered, mutants skipped\n", p)
			continue
		}
		w, err := LoadWorld(repo, nil, "")
		if err != nil {
			fmt.Println("CHECKER-ERROR:", err)
			return 2
		}
		c := newChecker(w, p, "quick")
		registry[p].run(c)
		c.applyFloors()
		base := map[string]bool{}
		for _, o := range c.Obls {
			if o.Verdict != vOK {
				base["rule="+o.Rule+" construct="+o.Key] = true
			}
		}
		for _, r := range runMutants(repo, verif, p) {
			out := r.Outcome
			var fresh []string
			for _, f := range r.Findings {
				k := f
				if j := strings.Index(f, " site="); j >= 0 {
					k = f[:j]
				}
				if !base[k] {
					fresh = append(fresh, f)
				}
			}
			if out == "caught" && len(fresh) == 0 {
				out = "missed"
			}
			if r.Benign {
				if out == "caught" {
					out = "FALSE-ALARM"
					missed++
				} else if out == "missed" {
					continue // quiet, as it must be
				}
			}
			if out == "missed" {
				missed++
			}
			first := ""
			if out == "skipped" && len(r.Findings) > 0 {
				first = r.Findings[0]
			}
			if len(fresh) > 0 {
				first = fresh[0]
				if len(first) > 160 {
					first = first[:160] + "…"
				}
			}
			fmt.Printf("%s %-40s %-8s %s\n", p, r.Name, out, first)
		}
	}
	if missed > 0 {
		fmt.Printf("selftest: %d mutants missed\n", missed)
		return 1
	}
	fmt.Println("selftest: all applicable mutants caught")
	return 0
}
