package main

import (
	"fmt"
	"go/token"
	"go/types"
	"strings"

	"golang.org/x/tools/go/ssa"
)

// ---------------------------------------------------------------------------
// C14: message boundaries and contents survive chunking.

func init() {
	register("C14",
		"CHUNK-1: every exit of GoBackNConn.Send that can report success is dominated by a hand-off of a packet whose FinalChunk flag is known to be set (so an empty payload, an exact multiple and every other length end with exactly one final packet). CHUNK-2: every packet payload is the caller's slice itself or data[off:hi] with off the running offset, the offset advances by exactly the chunk length, chunks are at most maxChunkSize and the final flag is set exactly on the leg where the remainder fits. CHUNK-3: in Recv the accumulator of a multi-packet message is connection state that is written back before the next wait, is reset when the message is returned, and has no other writer - so an error return inside a message loses nothing; the mirror case for Send (an error after at least one non-final chunk leaves the peer with a dangling prefix) is reported as a finding. CHUNK-4: Recv reports a message only under the fact FinalChunk of the packet just received, appends every received payload whole and in order, and ping packets are never handed to Recv. CHUNK-2 also: maxChunkSize is stored exactly as configured; CHUNK-3 also: every path from the append to the success return resets the accumulator. CHUNK-1 also: between a successful hand-off and the next one (or the success return) Send cannot fail. Not decided: delivery itself (C01) and the interplay with transport faults.",
		[]string{"append(x, y...) appends y after x"},
		runC14)
}

func runC14(c *Checker) {
	// a message arrives whole only if every one of its chunks is delivered exactly once and in
	// order: the delivery obligations (C01) are part of this check
	importLayers(c, "C01")
	w := c.w
	send := w.Func("(*gbn.GoBackNConn).Send")
	recv := w.Func("(*gbn.GoBackNConn).Recv")
	fSendChan := w.Field("gbn.GoBackNConn.sendDataChan")
	fRecvChan := w.Field("gbn.GoBackNConn.recvDataChan")
	fFinal := w.Field("gbn.PacketData.FinalChunk")
	fPayload := w.Field("gbn.PacketData.Payload")
	fPing := w.Field("gbn.PacketData.IsPing")
	fMax := w.Field("gbn.config.maxChunkSize")
	if send == nil || recv == nil || fSendChan == nil || fRecvChan == nil || fFinal == nil || fPayload == nil || fMax == nil || fPing == nil {
		c.anchorFail("Send/Recv/sendDataChan/recvDataChan/PacketData fields/maxChunkSize")
		return
	}

	// ---- hand-off events in Send: selects (in Send or its closures) that send a packet on sendDataChan
	handoffFns := map[*ssa.Function]int{} // function -> index of the packet parameter (-1: free/local)
	for _, fn := range append([]*ssa.Function{send}, send.AnonFuncs...) {
		allInstrs(fn, func(in ssa.Instruction) {
			sel, ok := in.(*ssa.Select)
			if !ok {
				return
			}
			cases, _ := w.selectCases(sel)
			for _, sc := range cases {
				if sc.IsSend && chanField(sc.Chan) == fSendChan {
					idx := -1
					for i, p := range fn.Params {
						if ssa.Value(p) == sc.SendV {
							idx = i
						}
					}
					handoffFns[fn] = idx
					// the success result of the hand-off function: the send case returns nil, all others non-nil
					if fn != send {
						okk := true
						for _, o := range cases {
							if o.Body == nil {
								okk = false
								continue
							}
							nilRet := blockReturnsNil(o.Body)
							if o.Idx == sc.Idx && !nilRet {
								okk = false
							}
							if o.Idx != sc.Idx && nilRet {
								okk = false
							}
						}
						c.decide(okk, "CHUNK-1", "Send|handoff-result", instrPos(sel), "the hand-off returns nil iff the packet was handed to the send loop",
							"the hand-off helper can return nil without having handed the packet over (or an error although it did)")
					}
				}
			}
		})
	}
	if len(handoffFns) == 0 {
		c.fail("CHUNK-1", "Send|handoff", send.Pos(), "no select that hands a packet to sendDataChan found in Send")
		return
	}
	type handoff struct {
		call ssa.Instruction
		pkt  ssa.Value
	}
	var handoffs []handoff
	allInstrs(send, func(in ssa.Instruction) {
		call, ok := in.(*ssa.Call)
		if !ok {
			return
		}
		for _, callee := range w.Callees(call) {
			if idx, ok := handoffFns[callee]; ok && idx >= 0 && callee != send {
				args := call.Common().Args
				if callee.Signature.Recv() != nil {
					// method: args include receiver
				}
				if idx < len(args) {
					handoffs = append(handoffs, handoff{call, args[idx]})
				}
			}
		}
	})
	if len(handoffs) == 0 {
		c.fail("CHUNK-1", "Send|handoff-calls", send.Pos(), "Send never calls its hand-off helper")
		return
	}
	finalKnownTrue := func(pkt ssa.Value, at ssa.Instruction) (bool, string) {
		al, ok := pkt.(*ssa.Alloc)
		if !ok {
			return false, "packet is not a fresh struct"
		}
		// (a) a store FinalChunk = true that dominates `at`, and no store of another value
		var stores []*ssa.Store
		for _, r := range *al.Referrers() {
			if fa, ok := r.(*ssa.FieldAddr); ok && structFieldOf(fa) == fFinal {
				for _, rr := range *fa.Referrers() {
					if st, ok := rr.(*ssa.Store); ok && st.Addr == fa {
						stores = append(stores, st)
					}
				}
			}
		}
		allTrue := len(stores) > 0
		for _, st := range stores {
			k, ok := st.Val.(*ssa.Const)
			if !ok || k.Value == nil || k.Value.ExactString() != "true" {
				allTrue = false
			}
		}
		for _, st := range stores {
			if allTrue && instrDominates(st, at) {
				return true, "FinalChunk = true is stored before the hand-off on every path"
			}
		}
		// (b) a dominating fact load(pkt.FinalChunk) == true
		for _, f := range factsAt(at.Block()) {
			if !f.Val {
				continue
			}
			if u, ok := f.Cond.(*ssa.UnOp); ok && u.Op == token.MUL {
				if fa, ok := u.X.(*ssa.FieldAddr); ok && structFieldOf(fa) == fFinal && fa.X == pkt {
					return true, "dominated by the test packet.FinalChunk"
				}
			}
		}
		return false, "FinalChunk of the packet handed over is not known to be set"
	}
	nSuccess := 0
	allInstrs(send, func(in ssa.Instruction) {
		ret, ok := in.(*ssa.Return)
		if !ok || ret.Block().Comment == "recover" {
			return
		}
		for _, v := range expandValuesAt(ret.Results[0], ret) {
			if isNilConst(v) {
				nSuccess++
				// a hand-off must dominate this return with a final packet
				okk, why := false, "no hand-off of a final packet dominates this success return: Send can succeed without the peer ever seeing the end of the message"
				for _, h := range handoffs {
					if !instrDominates(h.call, ret) {
						continue
					}
					if ok2, w2 := finalKnownTrue(h.pkt, ret); ok2 {
						okk, why = true, w2
					} else if ok3, w3 := finalKnownTrue(h.pkt, h.call); ok3 {
						okk, why = true, w3
					}
				}
				c.decide(okk, "CHUNK-1", "Send|success-return|nil", instrPos(ret), why, why)
				continue
			}
			if call, ok := v.(*ssa.Call); ok {
				// returned under the fact "result != nil": an error return
				knownNonNil := false
				for _, f := range factsAt(ret.Block()) {
					if bo, ok := f.Cond.(*ssa.BinOp); ok && bo.X == ssa.Value(call) && isNilConst(bo.Y) {
						if (bo.Op == token.NEQ && f.Val) || (bo.Op == token.EQL && !f.Val) {
							knownNonNil = true
						}
					}
				}
				if knownNonNil {
					continue
				}
				isH := false
				for _, h := range handoffs {
					if h.call == ssa.Instruction(call) {
						isH = true
						nSuccess++
						okk, why := finalKnownTrue(h.pkt, h.call)
						c.decide(okk, "CHUNK-1", "Send|success-return|pass-through", instrPos(ret), why,
							"Send returns the hand-off result of a packet that is not marked final: "+why)
					}
				}
				if isH {
					continue
				}
			}
			// other values: errors (non-nil by construction): the global error vars, fmt.Errorf results, hand-off error
		}
	})
	if nSuccess == 0 {
		c.fail("CHUNK-1", "Send|success-return", send.Pos(), "no success return recognised")
	}
	c.floor("CHUNK-1", 3)

	// ---- CHUNK-2: payload slicing
	data := ssa.Value(send.Params[1])
	nPay := 0
	offsetPhis := map[*ssa.Phi]bool{} // the running offset(s) the chunks are cut at
	allInstrs(send, func(in ssa.Instruction) {
		st, ok := in.(*ssa.Store)
		if !ok {
			return
		}
		fa, ok := st.Addr.(*ssa.FieldAddr)
		if !ok || structFieldOf(fa) != fPayload {
			return
		}
		nPay++
		v := unwrapLoadAlloc(st.Val)
		key := "Send|payload|" + w.canonFB(v)
		if v == data {
			c.ok("CHUNK-2", key, instrPos(st), "the whole payload as one packet")
			return
		}
		sl, ok := v.(*ssa.Slice)
		if !ok || sl.X != data || sl.Low == nil || sl.Max != nil {
			c.fail("CHUNK-2", key, instrPos(st), "packet payload is not data or data[off:hi]")
			return
		}
		off, ok := sl.Low.(*ssa.Phi)
		if !ok {
			c.fail("CHUNK-2", key, instrPos(st), "chunk does not start at the running offset")
			return
		}
		offsetPhis[off] = true
		// the offset's edges: 0 or off + advance
		facts := factsAt(st.Block())
		// the edge of `off` (possibly through a merge phi) coming from this block
		adv := advanceFrom(off, st.Block())
		if adv == nil {
			c.fail("CHUNK-2", key, instrPos(st), "cannot find how the running offset advances after this chunk")
			return
		}
		remainingFits, remainingFitsKnown := false, false
		for _, f := range facts {
			switch factRel(f, func(v ssa.Value) bool { return isRemaining(v, data, off) }, func(v ssa.Value) bool { return isLoadOfField(v, fMax) }) {
			case "<=", "<", "==":
				// any guard that implies remainder <= max: with `<` an exact multiple ends with one
				// more, empty, final chunk - the peer still receives exactly the message
				remainingFits, remainingFitsKnown = true, true
			case ">", ">=":
				// remainder >= max is what data[off:off+max] needs
				remainingFits, remainingFitsKnown = false, true
			}
		}
		finalHere := storesConstTo(fa.X, fFinal, st.Block(), "true")
		if sl.High == nil {
			okAdv := isRemaining(adv, data, off)
			c.decide(okAdv && remainingFitsKnown && remainingFits && finalHere, "CHUNK-2", key, instrPos(st),
				"last chunk: data[off:], offset advances by the remainder, under remainder <= max, marked final",
				fmt.Sprintf("last chunk malformed (advance=remainder:%v, under remainder<=max:%v, marked final:%v)", okAdv, remainingFitsKnown && remainingFits, finalHere))
			return
		}
		// middle chunk: high = off + max, advance = max
		hiOK := false
		if add, ok := sl.High.(*ssa.BinOp); ok && add.Op == token.ADD {
			hiOK = (add.X == ssa.Value(off) && isLoadOfField(add.Y, fMax)) || (add.Y == ssa.Value(off) && isLoadOfField(add.X, fMax))
		}
		okAdv := isLoadOfField(adv, fMax)
		c.decide(hiOK && okAdv && remainingFitsKnown && !remainingFits && !finalHere, "CHUNK-2", key, instrPos(st),
			"middle chunk: data[off:off+max], offset advances by max, under remainder > max, not marked final",
			fmt.Sprintf("middle chunk malformed (high=off+max:%v, advance=max:%v, under remainder>max:%v, not final:%v)", hiOK, okAdv, remainingFitsKnown && !remainingFits, !finalHere))
	})
	// the chunk size Send splits at is the configured one: the option stores its argument unchanged
	// (an adjusted value - "minus the header" - turns small sizes negative and Send, which only treats
	// 0 as "off", panics on the first slice)
	for _, st := range w.Stores(fMax) {
		v := st.Val
		if u, ok := v.(*ssa.UnOp); ok && u.Op == token.MUL {
			v = u.X
		}
		fv, isFree := v.(*ssa.FreeVar)
		_, isParam := v.(*ssa.Parameter)
		if isFree && fv.Referrers() != nil {
			// the captured argument is not reassigned
			for _, r := range *fv.Referrers() {
				if s2, ok := r.(*ssa.Store); ok && s2.Addr == ssa.Value(fv) {
					isFree = false
				}
			}
		}
		c.decide(isFree || isParam, "CHUNK-2", "maxChunkSize|stored as configured in "+fnName(st.Parent()), instrPos(st), "maxChunkSize = the option's argument",
			"maxChunkSize is set to "+w.canonFB(st.Val)+" instead of the configured size: the chunking no longer honours the configured maximum (and a non-positive result other than 0 makes Send panic)")
	}
	c.floor("CHUNK-2", 4)
	// offset starts at 0
	allInstrs(send, func(in ssa.Instruction) {
		phi, ok := in.(*ssa.Phi)
		if !ok || !offsetPhis[phi] || len(phi.Block().Preds) < 2 {
			return
		}
		for i, e := range phi.Edges {
			if phi.Block().Dominates(phi.Block().Preds[i]) {
				continue // back edge
			}
			if ep, isPhi := e.(*ssa.Phi); isPhi && offsetPhis[ep] {
				continue
			}
			// a merge in front of the loop (`off := 0; if resume { off = saved }`) is looked
			// through: every value that can arrive is the constant 0
			allZero := true
			bad := ""
			for _, leaf := range expandValues(e) {
				if lp, isPhi := leaf.(*ssa.Phi); isPhi && offsetPhis[lp] {
					continue
				}
				if k, ok := intConst(leaf); !ok || k != 0 {
					allZero = false
					bad = w.canonFB(leaf)
				}
			}
			c.decide(allZero, "CHUNK-2", "Send|offset-initial", instrPos(phi), "the running offset starts at 0",
				"the running offset does not start at 0 (it can start at "+bad+"): the bytes in front of it are never handed over, so the peer's message is not the payload of this call")
		}
	})

	// ---- CHUNK-3S: error return after a non-final hand-off (known finding by design of the API)
	for _, h := range handoffs {
		if ok, _ := finalKnownTrue(h.pkt, h.call); ok {
			continue
		}
		// the call sits in a cycle and an error return is reachable after a successful non-final hand-off
		inLoop := pathExists(h.call, h.call, nil)
		var errRet *ssa.Return
		if inLoop {
			errRet = pathToReturn(h.call, func(r *ssa.Return) bool {
				if r.Block().Comment == "recover" {
					return false
				}
				for _, v := range expandValuesAt(r.Results[0], r) {
					if isNilConst(v) {
						return false
					}
				}
				return true
			}, nil)
		}
		if inLoop && errRet != nil {
			c.fail("CHUNK-3", "Send|error-after-non-final-chunk", instrPos(errRet),
				"Send can return an error (timeout, quit) after at least one non-final chunk was handed over: the peer keeps a dangling prefix and appends the chunks of the retried Send to it")
		}
	}

	// ---- CHUNK-1 (cont.): once a chunk has been handed over, Send fails only by way of the next
	// hand-off: between a successful hand-off and the next one (or the success return) no error
	// return is reachable. Otherwise Send can report a failure although the whole message - final
	// chunk included - is on its way, and the permitted retry delivers it twice.
	for _, h := range handoffs {
		call, ok := h.call.(*ssa.Call)
		if !ok {
			continue
		}
		isOK := func(b *ssa.BasicBlock) bool {
			return hasFact(b, func(f Fact) bool { return factRel(f, isValue(ssa.Value(call)), isNilConst) == "==" })
		}
		bad := ""
		n := 0
		for _, b := range send.Blocks {
			if !isOK(b) || len(b.Instrs) == 0 {
				continue
			}
			entry := false
			for _, p := range b.Preds {
				if !isOK(p) {
					entry = true
				}
			}
			if !entry {
				continue
			}
			n++
			allInstrs(send, func(in ssa.Instruction) {
				ret, ok := in.(*ssa.Return)
				if !ok || ret.Block().Comment == "recover" || bad != "" {
					return
				}
				isErr := true
				for _, v := range expandValuesAt(ret.Results[0], ret) {
					if isNilConst(v) {
						isErr = false
					}
				}
				if isErr && pathFromBlockEntry(b, ret, func(x ssa.Instruction) bool { return x == ssa.Instruction(call) }) {
					bad = w.pos(instrPos(ret))
				}
			})
		}
		if n == 0 {
			continue // the pass-through form `return sendPacket(p)`
		}
		c.decide(bad == "", "CHUNK-1", "Send|no failure between a successful hand-off and the next one", instrPos(call), "after a successful hand-off the only ways on are the next hand-off and the success return",
			"Send can return an error at "+bad+" right after a chunk was handed over successfully (a deadline re-check, say): if that chunk was the final one the peer receives the complete message although Send failed, and a retry delivers it a second time")
	}

	// ---- CHUNK-3 / CHUNK-4: Recv
	checkRecvAccumulator(c, recv, fRecvChan, fFinal, fPayload)

	// ---- CHUNK-4: pings never reach recvDataChan
	rulePingNotDelivered(c, "CHUNK-4")
	c.floor("CHUNK-4", 3)
	c.floor("CHUNK-3", 4)
}

// expandValuesAt resolves a returned value; for loads of named-result locals it
// prefers the store in the same block.
func expandValuesAt(v ssa.Value, at ssa.Instruction) []ssa.Value {
	return expandValues(v)
}

func blockReturnsNil(b *ssa.BasicBlock) bool {
	for d := 0; d < 4; d++ {
		last := b.Instrs[len(b.Instrs)-1]
		switch t := last.(type) {
		case *ssa.Return:
			if len(t.Results) == 0 {
				return false
			}
			for _, v := range expandValues(t.Results[len(t.Results)-1]) {
				if !isNilConst(v) {
					return false
				}
			}
			return true
		case *ssa.Jump:
			b = b.Succs[0]
		default:
			return false
		}
	}
	return false
}

func isLoadOfField(v ssa.Value, f *types.Var) bool {
	v = unwrapLoadAlloc(v)
	u, ok := v.(*ssa.UnOp)
	if !ok || u.Op != token.MUL {
		return false
	}
	fa, ok := u.X.(*ssa.FieldAddr)
	return ok && structFieldOf(fa) == f
}

// isRemaining: v == len(data) - off
func isRemaining(v ssa.Value, data ssa.Value, off ssa.Value) bool {
	bo, ok := unwrapLoadAlloc(v).(*ssa.BinOp)
	if !ok || bo.Op != token.SUB || bo.Y != off {
		return false
	}
	call, ok := bo.X.(*ssa.Call)
	if !ok {
		return false
	}
	b, ok := call.Call.Value.(*ssa.Builtin)
	return ok && b.Name() == "len" && call.Call.Args[0] == data
}

// advanceFrom finds the amount added to the offset phi on the path through block b.
func advanceFrom(off *ssa.Phi, b *ssa.BasicBlock) ssa.Value {
	// candidates: adds off + X located in b or in blocks dominated by b
	var res ssa.Value
	var visit func(phi *ssa.Phi, d int)
	seen := map[*ssa.Phi]bool{}
	visit = func(phi *ssa.Phi, d int) {
		if seen[phi] || d > 4 {
			return
		}
		seen[phi] = true
		for i, e := range phi.Edges {
			p := phi.Block().Preds[i]
			switch x := e.(type) {
			case *ssa.BinOp:
				if x.Op == token.ADD && (p == b || b.Dominates(p)) && x.Block() != nil && (x.Block() == b || b.Dominates(x.Block())) {
					if x.X == ssa.Value(off) {
						res = x.Y
					} else if x.Y == ssa.Value(off) {
						res = x.X
					}
				}
			case *ssa.Phi:
				visit(x, d+1)
			}
		}
	}
	visit(off, 0)
	return res
}

// storesConstTo: block b stores the boolean constant `val` to field f of base.
func storesConstTo(base ssa.Value, f *types.Var, b *ssa.BasicBlock, val string) bool {
	for _, in := range b.Instrs {
		st, ok := in.(*ssa.Store)
		if !ok {
			continue
		}
		fa, ok := st.Addr.(*ssa.FieldAddr)
		if !ok || fa.X != base || structFieldOf(fa) != f {
			continue
		}
		if k, ok := st.Val.(*ssa.Const); ok && k.Value != nil && k.Value.ExactString() == val {
			return true
		}
	}
	return false
}

func checkRecvAccumulator(c *Checker, recv *ssa.Function, fRecvChan, fFinal, fPayload *types.Var) {
	w := c.w
	g := ssa.Value(recv.Params[0])
	var sel *ssa.Select
	var rc SelCase
	allInstrs(recv, func(in ssa.Instruction) {
		s, ok := in.(*ssa.Select)
		if !ok {
			return
		}
		cases, _ := w.selectCases(s)
		for _, sc := range cases {
			if !sc.IsSend && chanField(sc.Chan) == fRecvChan {
				sel, rc = s, sc
			}
		}
	})
	if sel == nil || rc.RecvV == nil {
		c.fail("CHUNK-3", "Recv|receive", recv.Pos(), "no select receiving from recvDataChan found in Recv")
		return
	}
	msg := rc.RecvV
	// the append
	var app *ssa.Call
	allInstrs(recv, func(in ssa.Instruction) {
		call, ok := in.(*ssa.Call)
		if !ok {
			return
		}
		if b, ok := call.Call.Value.(*ssa.Builtin); ok && b.Name() == "append" && len(call.Call.Args) == 2 {
			if u, ok := unwrapLoadAlloc(call.Call.Args[1]).(*ssa.UnOp); ok && u.Op == token.MUL {
				if fa, ok := u.X.(*ssa.FieldAddr); ok && structFieldOf(fa) == fPayload && unwrapLoadAlloc(fa.X) == msg {
					app = call
				}
			}
		}
	})
	if app == nil {
		c.fail("CHUNK-4", "Recv|append-whole-payload", instrPos(sel), "the payload of the received packet is not appended whole (append(acc, msg.Payload...)) to the accumulator")
		return
	}
	c.ok("CHUNK-4", "Recv|append-whole-payload", instrPos(app), "append(acc, msg.Payload...) with msg the packet just received")
	acc := unwrapLoadAlloc(app.Call.Args[0])
	F := receiverFieldLoad(acc, g)
	if F == nil {
		c.fail("CHUNK-3", "Recv|accumulator-is-state", instrPos(app),
			"the accumulator "+w.canonFB(acc)+" is a local of this call: when Recv returns an error (timeout) inside a multi-packet message the chunks already consumed are lost and the retried call returns a tail as a message")
	} else {
		c.ok("CHUNK-3", "Recv|accumulator-is-state", instrPos(app), "accumulator is connection state "+F.Name())
		// written back before any wait / return
		var wb *ssa.Store
		for _, r := range *app.Referrers() {
			if st, ok := r.(*ssa.Store); ok && st.Val == ssa.Value(app) {
				if fa, ok := st.Addr.(*ssa.FieldAddr); ok && structFieldOf(fa) == F && fa.X == g {
					wb = st
				}
			}
		}
		okWB := wb != nil
		if okWB {
			// no path from the append to the select or to a return that avoids the write-back
			avoid := func(in ssa.Instruction) bool { return in == ssa.Instruction(wb) }
			if pathExists(app, sel, avoid) || pathToReturn(app, func(*ssa.Return) bool { return true }, avoid) != nil {
				okWB = false
			}
		}
		c.decide(okWB, "CHUNK-3", "Recv|accumulator-written-back", instrPos(app), F.Name()+" = append(...) before the next wait or return",
			"the appended value is not stored back to "+F.Name()+" on every path before Recv waits again or returns")
		// stores to F: only in Recv; the non-append stores are resets to nil on the success path
		for _, st := range w.Stores(F) {
			key := fmt.Sprintf("Recv|accumulator-writer|%s|%s", fnName(st.Parent()), w.canonFB(st.Val))
			if st.Parent() != recv {
				c.fail("CHUNK-3", key, instrPos(st), "the accumulator is written outside Recv")
				continue
			}
			if st == wb {
				c.ok("CHUNK-3", key, instrPos(st), "write-back of the appended value")
				continue
			}
			// reset: nil, under FinalChunk, and the function returns the previous value
			underFinal := false
			for _, f := range factsAt(st.Block()) {
				if u, ok := f.Cond.(*ssa.UnOp); ok && u.Op == token.MUL && f.Val {
					if fa, ok := u.X.(*ssa.FieldAddr); ok && structFieldOf(fa) == fFinal && unwrapLoadAlloc(fa.X) == msg {
						underFinal = true
					}
				}
			}
			c.decide(isNilConst(st.Val) && underFinal, "CHUNK-3", key, instrPos(st), "reset to nil when the final chunk arrived",
				"the accumulator is overwritten other than by the append write-back or the reset on the final chunk")
		}
	}
	// CHUNK-4: success return under FinalChunk of msg, returning the accumulated bytes
	nOK := 0
	allInstrs(recv, func(in ssa.Instruction) {
		ret, ok := in.(*ssa.Return)
		if !ok || ret.Block().Comment == "recover" {
			return
		}
		isSuccess := false
		for _, v := range expandValues(ret.Results[1]) {
			if isNilConst(v) {
				isSuccess = true
			}
		}
		// restrict to the store in the same block when present
		if isSuccess {
			for i := len(ret.Block().Instrs) - 1; i >= 0; i-- {
				if st, ok := ret.Block().Instrs[i].(*ssa.Store); ok {
					if al, ok := st.Addr.(*ssa.Alloc); ok && isErrorType(deref(al.Type())) {
						isSuccess = isNilConst(st.Val)
						break
					}
				}
			}
		}
		if !isSuccess {
			return
		}
		nOK++
		underFinal := false
		for _, f := range factsAt(ret.Block()) {
			if u, ok := f.Cond.(*ssa.UnOp); ok && u.Op == token.MUL && f.Val {
				if fa, ok := u.X.(*ssa.FieldAddr); ok && structFieldOf(fa) == fFinal && unwrapLoadAlloc(fa.X) == msg {
					underFinal = true
				}
			}
		}
		// the message handed out leaves the accumulator: no way from the append to this return avoids
		// the reset (otherwise the next message is appended to this one)
		if F := receiverFieldLoad(unwrapLoadAlloc(app.Call.Args[0]), g); F != nil {
			isReset := func(in ssa.Instruction) bool {
				st, ok := in.(*ssa.Store)
				if !ok || !isNilConst(st.Val) {
					return false
				}
				fa, ok := st.Addr.(*ssa.FieldAddr)
				return ok && structFieldOf(fa) == F
			}
			c.decide(!pathExists(app, ret, isReset), "CHUNK-3", "Recv|accumulator reset with every message", instrPos(ret), "every path from the append to the success return resets "+F.Name(),
				"Recv can return a message without resetting "+F.Name()+": the next message is appended to the one already delivered (messages are merged)")
		}
		c.decide(underFinal, "CHUNK-4", "Recv|message-ends-on-final-chunk", instrPos(ret), "the success return is dominated by msg.FinalChunk of the packet just received",
			"Recv can report a message without having seen the final chunk (or on a stale flag)")
		// returned bytes: the accumulator (field load or the append result)
		retOK := false
		var desc []string
		for _, v := range expandValues(ret.Results[0]) {
			desc = append(desc, w.canonFB(v))
			if v == ssa.Value(app) {
				retOK = true
			}
			if F != nil && receiverFieldLoad(v, g) == F && instrDominates(app, ret) {
				retOK = true
			}
			if phi, ok := v.(*ssa.Phi); ok {
				for _, e := range phi.Edges {
					if e == ssa.Value(app) {
						retOK = true
					}
				}
			}
		}
		// with a local store in the same block, only that value counts
		for i := len(ret.Block().Instrs) - 1; i >= 0; i-- {
			if st, ok := ret.Block().Instrs[i].(*ssa.Store); ok {
				if al, ok := st.Addr.(*ssa.Alloc); ok && isByteSlice(deref(al.Type())) {
					v := unwrapLoadAlloc(st.Val)
					retOK = v == ssa.Value(app) || (F != nil && receiverFieldLoad(v, g) == F)
					desc = []string{w.canonFB(v)}
					break
				}
			}
		}
		c.decide(retOK, "CHUNK-4", "Recv|returns-accumulated-bytes", instrPos(ret), "returns the accumulated bytes: "+strings.Join(desc, ","),
			"the success return does not return the accumulated bytes: "+strings.Join(desc, ","))
	})
	if nOK == 0 {
		c.fail("CHUNK-4", "Recv|success-return", recv.Pos(), "no success return recognised in Recv")
	}
}

// rulePingNotDelivered: a keepalive ping is consumed by the receive loop: every hand-over to
// recvDataChan is dominated by !IsPing of the delivered packet. (Pings parked in the N-slot
// channel of an application that is not in Recv block the receive loop after N pings, the peer's
// pongs stop, and a healthy idle connection is closed by its own keepalive.)
func rulePingNotDelivered(c *Checker, rule string) {
	w := c.w
	rl := w.Func("(*gbn.GoBackNConn).receivePacketsForever")
	fRecvChan := w.Field("gbn.GoBackNConn.recvDataChan")
	fPing := w.Field("gbn.PacketData.IsPing")
	if rl == nil || fRecvChan == nil || fPing == nil {
		c.anchorFail("receivePacketsForever / recvDataChan / PacketData.IsPing")
		return
	}
	allInstrs(rl, func(in ssa.Instruction) {
		sel, ok := in.(*ssa.Select)
		if !ok {
			return
		}
		cases, _ := w.selectCases(sel)
		for _, sc := range cases {
			if !sc.IsSend || chanField(sc.Chan) != fRecvChan {
				continue
			}
			notPing := false
			for _, f := range factsAt(sel.Block()) {
				if u, ok := f.Cond.(*ssa.UnOp); ok && u.Op == token.MUL && !f.Val {
					if fa, ok := u.X.(*ssa.FieldAddr); ok && structFieldOf(fa) == fPing && fa.X == sc.SendV {
						notPing = true
					}
				}
			}
			c.decide(notPing, rule, "receiveLoop|ping-not-delivered", instrPos(sel), "delivery is dominated by !IsPing of the delivered packet",
				"a ping packet can be handed to Recv: the application sees an extra (empty) message or a broken boundary, and on an idle connection the parked pings fill recvDataChan until the receive loop blocks and the peer's keepalive closes a healthy connection")
		}
	})
}
