package main

import (
	"fmt"
	"go/ast"
	"go/constant"
	"go/token"
	"go/types"
	"path/filepath"
	"sort"
	"strings"

	"golang.org/x/tools/go/ssa"
)

// ---------------------------------------------------------------------------
// C05 (end to end through the relay), C11 (one live connection; reconnect;
// post-pairing switch), C17 (rendezvous derivation): structural rules.

func init() {
	register("C05",
		"WRAP: ClientHandshake/ServerHandshake hand gRPC the *NoiseGrpcConn itself (never the raw transport), and NoiseGrpcConn declares its own Read/Write, so gRPC can only write through the encrypting connection. TAINT-WIRE (relay level): the buffer given to NoiseGrpcConn.Write / NoiseConn.Write flows only into WriteMessage (plus len/slicing); the only functions in mailbox that call Write on a transport-typed value are Machine.Flush and the handshake writer, whose arguments are ciphertext (C08/C16 rules, re-checked here); connKit.Write wraps exactly its argument into one MsgData. FRAME: one Noise write = one control message = one GBN message: connKit.Write performs exactly one SendControlMsg outside any loop and reports len(b) only after it succeeded; SendControlMsg is one Serialize + one gbn Send of exactly those bytes; ReceiveControlMsg is one gbn Recv + Deserialize of exactly those bytes; connKit.Read buffers the whole payload. RDC-1/2/3 (as C15) for every Read/Write method of mailbox. LOCKBAL: in mailbox no mutex is re-locked on a path that may still hold it and no function returns holding a mutex without a deferred unlock (the retry loops of the transport callbacks cannot wedge themselves). RETRY: ConnectSend/ConnectReceive of every client transport and the server's create*MailBox functions never report success without installing a freshly created stream, and in the four transport callbacks a failed stream operation reaches the next attempt only through the re-create call (a dead stream is never retried forever). DUPLEX: the read path (ReadMessage/ReadHeader/ReadBody) and the write path (WriteMessage/Flush) of the record layer touch disjoint Machine fields, Encrypt on the write path seals into a fresh buffer, and NoiseGrpcConn.Read/Write do not write fields the other uses - which is what makes their concurrent execution under the read lock sound. LAYERS: every obligation of the delivery (C01), progress (C06), gbn concurrency (C18), record-layer (C08, C02) and framing (C16) checks is part of this check (the end-to-end behaviour is their composition). Not decided (runtime): delivery and completion under relay drops / stream re-creation and the interleavings of the four endpoint goroutines - no static argument in reach bounds those.",
		[]string{"gRPC writes only through the net.Conn returned by the TransportCredentials handshake"},
		runC05)
	register("C11",
		"EXCL: in Server.Accept and Client.Dial every path to a successful return on which a previous connection existed passes a receive on that connection's Done() channel (Accept: or returns io.EOF on quit); Done() returns the quit field, which the once-guarded Close closes on every path and only after the gbn connection and both relay streams have been released. SIDFRESH: both functions call connData.SID() on every invocation after that wait and before constructing; the sid handed to NewServerConn/NewClientConn is that fresh value (directly or through a dominating store to the sid field); on the leg 'sid changed and a previous connection exists' the old connection is stopped/closed and forgotten on every path from there on (no return and no Refresh in between), so the New constructor (not Refresh) runs - Refresh only under 'previous connection exists'; ConnData.SID and HandshakePattern branch on the same remoteKey != nil predicate and SetRemote stores the key; DoHandshake publishes the remote key for version >= 2 (C04 PUBLISH, re-checked). FRESH: RefreshServerConn/RefreshClientConn return a newly allocated connection with a newly allocated connKit, neither filled by a whole-struct copy of the closed connection; quit is a new channel, gbnConn the result of a new gbn.New*Conn, connKit.impl the new connection, and closeOnce / recvBuffer / read and write deadlines stay at their zero value (no unread bytes, closed channel or spent Once of the closed connection reach the connection handed out next). SIDFRESH also: ConnData.SetRemote stores the key on every successful return and on no failing one; every handshake machine is configured with its own connection data's HandshakePattern(), which returns XX exactly while no remote key is stored and KK afterwards. RETRY also: the client's create*MailBox return only under a successful Connect* or from their quit/ctx cases. DUPLEX callback locks: the relay operation of each of the four gbn callbacks runs under an exclusive mutex, and the send and the receive callback of one connection hold different mutexes (full duplex). EXCL also: temporaryError.Temporary is the constant true and Accept returns the constructors' errors wrapped in it (a failed attempt never ends the grpc accept loop). RETRY (as C05): the server re-creates the mailbox before every attempt to open its stream. SIDFRESH also: the remembered and the fresh SID are compared over all 64 bytes. RETRY also: initAccountCipherBox precedes every RecvStream/SendStream attempt of the server. The obligations of C12 (blocked calls are woken on shutdown) are imported as LAYER/C12. LOCKBAL (as C05) and the transport adapter rules T-3/T-4 (socket errors reported, Refresh without the old streams) are shared. FRAME/RETRY/FRESH transport adapters: every CipherBox sent carries the payload as Msg, the Msg of the received box is what gbn gets, socket/stream errors are reported, Refresh() leaves the connected-ness fields unset. WRAP also: a handshake read deadline is cleared on every success path and connKit maps the zero deadline to never (MaxInt64) on the timeout setter of its own direction. The obligations of C12 are imported (the next connection is handed out only after Close of the old one returned). Not decided: behaviour over sequences of connect/close/relay-failure events; that a client knowing only the passphrase is rejected after pairing (follows cryptographically from the KK pattern, C03).",
		nil,
		runC11)
	register("C17",
		"CONST: NumPassphraseEntropyBytes*8 >= NumPassphraseWords*aezeed.BitsPerWord and NumPassphraseEntropyBytes = ceil(that/8). CODEC-SIB: PassphraseEntropyToMnemonic and PassphraseMnemonicToEntropy read/write with the same constant object aezeed.BitsPerWord, iterate NumPassphraseWords times, use the paired tables aezeed.DefaultWordList / aezeed.ReverseWordMap, the writer is sized by NumPassphraseEntropyBytes, and NewPassphraseEntropy normalises by the round trip. SIDDIR: the boolean direction flags passed to GetSID for the receive and send streams are complementary within client and within server and mirrored between them (client.send = server.receive, client.receive = server.send); Refresh* copies both stream IDs unchanged; GetSID returns its input on one leg and XORs a non-zero constant into one byte on the other (the two directions never share a stream); ConnData.SID is the only producer of the sid used by Server/Client and hashes (SHA-512) the whole passphrase entropy or the HMAC of the ECDH output. SIDFRESH (as C11): Accept and Dial recompute that SID on every call after waiting for the previous connection, hand exactly that value to the constructor and drop the old connection when it changed - so after pairing both sides are on the key-derived streams. SIDDIR stream direction: each relay-facing function of mailbox (classified by the relay API it calls or the ClientConnTransport slot it implements) touches only the stream ID of its own direction. SIDFRESH also: DoHandshake publishes the remote key under the negotiated version >= 2; ConnData.SetRemote stores the key on every successful return; every handshake machine is configured with cfg.ConnData.HandshakePattern(), which returns XX exactly while no remote key is stored. CODEC-SIB also: NewClientWebsocketConn cuts the typed phrase with strings.Split/Fields over the whole phrase and copies the pieces into the word array. SIDDIR also: every fallible step of ConnData.SID has its error tested and returned. CODEC-SIB also: PassphraseEntropyToMnemonic fails only with the bit reader's own error (or under index >= len(DefaultWordList)): total over the 11-bit groups. Not decided: bit-exact inversion of the bit-stream codec (bstream semantics, word list contents), ECDH symmetry, hash collision freedom - trusted.",
		[]string{"aezeed.DefaultWordList has 2^BitsPerWord distinct words and ReverseWordMap is its inverse; bstream reads and writes bits MSB first"},
		runC17)
}

// ---------------------------------------------------------------------------
// C05

func runC05(c *Checker) {
	w := c.w
	// ---- WRAP ----
	for _, name := range []string{"(*mailbox.NoiseGrpcConn).ClientHandshake", "(*mailbox.NoiseGrpcConn).ServerHandshake"} {
		fn := mboxFunc(c, name)
		if fn == nil {
			continue
		}
		recv := ssa.Value(fn.Params[0])
		n := 0
		allInstrs(fn, func(in ssa.Instruction) {
			ret, ok := in.(*ssa.Return)
			if !ok || ret.Block().Comment == "recover" {
				return
			}
			for _, v := range expandValues(ret.Results[0]) {
				if isNilConst(v) {
					continue
				}
				n++
				mi, ok := v.(*ssa.MakeInterface)
				okk := ok && unwrapLoadAlloc(mi.X) == recv
				c.decide(okk, "WRAP", name+"|returns the encrypting conn", instrPos(ret), "the net.Conn returned to gRPC is the *NoiseGrpcConn itself",
					"the handshake hands gRPC a connection other than the encrypting wrapper: application data would bypass encryption")
			}
		})
		if n == 0 {
			c.fail("WRAP", name+"|success return", fn.Pos(), "no successful return found")
		}
	}
	for _, m := range []string{"Read", "Write"} {
		fn := w.Func("(*mailbox.NoiseGrpcConn)." + m)
		c.decide(fn != nil && fn.Synthetic == "", "WRAP", "NoiseGrpcConn."+m+" is declared (not promoted from ProxyConn)", token.NoPos,
			"NoiseGrpcConn overrides "+m, "NoiseGrpcConn does not declare "+m+": the embedded ProxyConn's "+m+" would be used (no encryption)")
	}
	c.floor("WRAP", 4)

	// ---- TAINT-WIRE (relay level) ----
	for _, name := range []string{"(*mailbox.NoiseGrpcConn).Write", "(*mailbox.NoiseConn).Write"} {
		fn := mboxFunc(c, name)
		if fn == nil {
			continue
		}
		b := ssa.Value(fn.Params[1])
		okk := true
		var bad string
		var visit func(v ssa.Value, d int)
		seen := map[ssa.Value]bool{}
		visit = func(v ssa.Value, d int) {
			if seen[v] || d > 6 || v.Referrers() == nil {
				return
			}
			seen[v] = true
			for _, r := range *v.Referrers() {
				switch x := r.(type) {
				case *ssa.Call:
					if bi, ok := x.Call.Value.(*ssa.Builtin); ok && (bi.Name() == "len" || bi.Name() == "cap") {
						continue
					}
					if calleeNamed(x, "WriteMessage") {
						continue
					}
					okk = false
					bad = calleeLabel(x.Common())
				case *ssa.Slice:
					visit(x, d+1)
				case *ssa.Phi:
					visit(x, d+1)
				case *ssa.DebugRef, *ssa.BinOp:
				case *ssa.Store:
					if _, ok := x.Addr.(*ssa.Alloc); ok {
						continue
					}
					okk = false
					bad = "a store"
				default:
					okk = false
					bad = fmt.Sprintf("%T", r)
				}
			}
		}
		visit(b, 0)
		c.decide(okk, "TAINT-WIRE", name+"|plaintext only reaches WriteMessage", fn.Pos(), "the caller's buffer is only handed to the record layer for encryption",
			"the application plaintext is handed to "+bad+" instead of only being encrypted")
	}
	// who may call Write on a transport-typed value
	allowedWriters := map[string]bool{
		"(*mailbox.Machine).Flush":                  true,
		"(*mailbox.handshakeState).writeMsgPattern": true,
		"(*mailbox.handshakeState).writeTokens":     true,
	}
	nW := 0
	for _, fn := range w.Funcs {
		if w.pkgShort(fn) != targetMbox {
			continue
		}
		allInstrs(fn, func(in ssa.Instruction) {
			call, ok := in.(*ssa.Call)
			if !ok || !call.Common().IsInvoke() || call.Common().Method.Name() != "Write" {
				return
			}
			sig, ok := call.Common().Method.Type().(*types.Signature)
			if !ok || sig.Params().Len() != 1 || !isByteSlice(sig.Params().At(0).Type()) {
				return // e.g. websocket Write(ctx, type, bytes): handled below
			}
			nW++
			name := fnName(fn)
			// hash.Hash.Write and similar local sinks: receiver created by a call in this function
			org := call.Common().Value
			for {
				if ci, ok := org.(*ssa.ChangeInterface); ok {
					org = ci.X
					continue
				}
				break
			}
			if _, local := org.(*ssa.Call); local {
				c.ok("TAINT-WIRE", name+"|Write on a local object "+typeStr(call.Common().Value.Type()), instrPos(call), "a hash/MAC or buffer created in this function, not a transport")
				return
			}
			c.decide(allowedWriters[name], "TAINT-WIRE", name+"|Write on "+typeStr(call.Common().Value.Type()), instrPos(call),
				"a transport write inside the record layer / handshake writer (arguments are ciphertext by C08/C16)",
				"bytes are written to a transport-typed value outside Machine.Flush and the handshake writer: they bypass the cipher")
		})
	}
	ruleTaintWire(c, "TAINT-WIRE")
	// connKit.Write wraps exactly b
	if fn := mboxFunc(c, "(*mailbox.connKit).Write"); fn != nil {
		b := ssa.Value(fn.Params[1])
		var mk []*ssa.Call
		for _, ci := range findCalls(fn, func(ci ssa.CallInstruction) bool {
			sc := ci.Common().StaticCallee()
			return sc != nil && sc.Name() == "NewMsgData"
		}) {
			mk = append(mk, ci.(*ssa.Call))
		}
		sends := findCalls(fn, func(ci ssa.CallInstruction) bool {
			return ci.Common().IsInvoke() && ci.Common().Method.Name() == "SendControlMsg"
		})
		okk := len(mk) == 1 && len(sends) == 1 && mk[0].Common().Args[1] == b
		if okk {
			arg := sends[0].Common().Args[0]
			if mi, ok := arg.(*ssa.MakeInterface); ok {
				arg = mi.X
			}
			okk = arg == ssa.Value(mk[0]) && !pathExists(sends[0], sends[0], nil)
		}
		c.decide(okk, "FRAME", "connKit.Write|one control message carrying exactly b", fn.Pos(), "NewMsgData(version, b) sent with exactly one SendControlMsg, outside any loop",
			"connKit.Write does not send its argument as exactly one control message")
	}
	for _, tn := range []string{"ClientConn", "ServerConn"} {
		if fn := mboxFunc(c, "(*mailbox."+tn+").SendControlMsg"); fn != nil {
			ser := findCalls(fn, func(ci ssa.CallInstruction) bool {
				return ci.Common().IsInvoke() && ci.Common().Method.Name() == "Serialize"
			})
			snd := findCalls(fn, func(ci ssa.CallInstruction) bool {
				sc := ci.Common().StaticCallee()
				return sc != nil && sc.Name() == "Send" && w.pkgShort(sc) == targetGBN
			})
			okk := len(ser) == 1 && len(snd) == 1
			if okk {
				ex, ok := unwrapLoadAlloc(snd[0].Common().Args[1]).(*ssa.Extract)
				okk = ok && ex.Index == 0 && ex.Tuple == ssa.Value(ser[0].(*ssa.Call)) && !pathExists(snd[0], snd[0], nil)
			}
			c.decide(okk, "FRAME", tn+".SendControlMsg|one Serialize, one gbn Send of those bytes", fn.Pos(), "one control message = one GBN message",
				"SendControlMsg does not send exactly the serialised control message as one GBN message")
		}
		if fn := mboxFunc(c, "(*mailbox."+tn+").ReceiveControlMsg"); fn != nil {
			rcv := findCalls(fn, func(ci ssa.CallInstruction) bool {
				sc := ci.Common().StaticCallee()
				return sc != nil && sc.Name() == "Recv" && w.pkgShort(sc) == targetGBN
			})
			des := findCalls(fn, func(ci ssa.CallInstruction) bool {
				return ci.Common().IsInvoke() && ci.Common().Method.Name() == "Deserialize"
			})
			okk := len(rcv) == 1 && len(des) == 1
			if okk {
				ex, ok := unwrapLoadAlloc(des[0].Common().Args[0]).(*ssa.Extract)
				okk = ok && ex.Index == 0 && ex.Tuple == ssa.Value(rcv[0].(*ssa.Call))
				e, _ := errCheckedAndReturned(rcv[0].(*ssa.Call), 1)
				okk = okk && e
			}
			c.decide(okk, "FRAME", tn+".ReceiveControlMsg|one gbn Recv, Deserialize of those bytes", fn.Pos(), "one GBN message = one control message",
				"ReceiveControlMsg does not deserialise exactly one received GBN message (or ignores the receive error)")
		}
	}
	c.floor("TAINT-WIRE", 4)
	c.floor("FRAME", 5)
	_ = nW

	// the byte stream handed to gRPC: count/remainder discipline of the Read/Write methods (as C15)
	rg := newRanger(w)
	for _, fn := range ioMethods(w, targetMbox, "Read") {
		checkReadMethod(c, rg, fn)
	}
	for _, fn := range ioMethods(w, targetMbox, "Write") {
		checkWriteMethod(c, rg, fn)
	}
	c.floor("RDC-1", 6)
	c.floor("RDC-2", 5)
	// the retry loops of the transport callbacks must not wedge on their own mutexes
	ruleLOCKBAL(c, targetMbox)
	ruleRETRY(c)
	ruleCallbackLocks(c, "DUPLEX")
	ruleHandshakeDeadline(c, "WRAP")
	ruleTransport(c, "FRAME", "RETRY", "FRESH")
	ruleDeadlineMapping(c, "WRAP")
	ruleDUPLEX(c)
	// LAYERS: the end-to-end statement is the composition of the layers below; it fails as soon as
	// one of them does. The obligations of the delivery (C01), progress (C06), concurrency (C18),
	// record-layer (C08, C02), framing (C16), stream-contract (C15) and codec (C19) checks are therefore part of this check, under
	// "LAYER/<property>:<rule>" (their own not-decided parts stay not decided here).
	importLayers(c, "C01", "C06", "C18", "C08", "C02", "C16", "C15", "C19", "C12")
}

// ruleLOCKBAL: in package pkg no mutex is acquired while it may already be held by the same
// goroutine (e.g. a retry loop that forgets to unlock before `continue`), and no function returns
// with a mutex it locked still held unless the unlock was deferred.
func ruleLOCKBAL(c *Checker, pkg string) {
	w := c.w
	var funcs []*ssa.Function
	for _, f := range w.Funcs {
		if w.pkgShort(f) == pkg {
			funcs = append(funcs, f)
		}
	}
	n := 0
	for _, fn := range funcs {
		// intra-procedural may-held analysis with deferred unlocks tracked
		in := map[*ssa.BasicBlock]map[*types.Var]bool{}
		if len(fn.Blocks) == 0 {
			continue
		}
		deferred := map[*types.Var]bool{}
		allInstrs(fn, func(i ssa.Instruction) {
			if d, ok := i.(*ssa.Defer); ok {
				if f, acq, _, ok := lockOp(d.Common()); ok && !acq {
					deferred[f] = true
				}
				// `defer func() { mu.Unlock() }()`: an unlock on every path through the deferred literal
				if mc, ok := d.Call.Value.(*ssa.MakeClosure); ok {
					if lit, ok := mc.Fn.(*ssa.Function); ok {
						unl := map[*types.Var]bool{}
						allInstrs(lit, func(x ssa.Instruction) {
							if cl, ok := x.(*ssa.Call); ok {
								if f, acq, _, ok := lockOp(cl.Common()); ok && !acq {
									unl[f] = true
								}
							}
						})
						for f := range unl {
							f := f
							all := true
							allInstrs(lit, func(x ssa.Instruction) {
								if ret, ok := x.(*ssa.Return); ok && pathFromEntry(lit, ret, func(y ssa.Instruction) bool {
									cl, ok := y.(*ssa.Call)
									if !ok {
										return false
									}
									g, acq, _, ok := lockOp(cl.Common())
									return ok && !acq && g == f
								}) {
									all = false
								}
							})
							if all {
								deferred[f] = true
							}
						}
					}
				}
			}
		})
		in[fn.Blocks[0]] = map[*types.Var]bool{}
		work := []*ssa.BasicBlock{fn.Blocks[0]}
		reported := map[ssa.Instruction]bool{}
		visits := map[*ssa.BasicBlock]int{}
		for len(work) > 0 {
			b := work[0]
			work = work[1:]
			visits[b]++
			if visits[b] > 20 {
				continue
			}
			cur := map[*types.Var]bool{}
			for k := range in[b] {
				cur[k] = true
			}
			for _, ins := range b.Instrs {
				switch x := ins.(type) {
				case *ssa.Call:
					if f, acq, _, ok := lockOp(x.Common()); ok {
						n++
						if acq {
							if cur[f] && !reported[ins] {
								reported[ins] = true
								c.fail("LOCKBAL", fmt.Sprintf("%s|re-locks %s", fnName(fn), w.fieldKey(f)), instrPos(ins),
									"a mutex is locked on a path on which this goroutine may still hold it (an unlock is missing on some path, e.g. before a continue): the goroutine deadlocks on itself and everything needing the mutex stalls silently")
							}
							cur[f] = true
						} else {
							delete(cur, f)
						}
					}
				case *ssa.Return:
					for f := range cur {
						if !deferred[f] && !reported[ins] {
							reported[ins] = true
							c.fail("LOCKBAL", fmt.Sprintf("%s|returns holding %s", fnName(fn), w.fieldKey(f)), instrPos(ins),
								"the function can return with a mutex still locked (no deferred unlock)")
						}
					}
				}
			}
			for _, sct := range b.Succs {
				old, ok := in[sct]
				changed := !ok
				if !ok {
					old = map[*types.Var]bool{}
				}
				for k := range cur {
					if !old[k] {
						old[k] = true
						changed = true
					}
				}
				in[sct] = old
				if changed {
					work = append(work, sct)
				}
			}
		}
	}
	c.ok("LOCKBAL", pkg+"|lock/unlock balance", token.NoPos, fmt.Sprintf("%d mutex operations in %d functions examined: no re-lock on a path that may still hold the mutex, no return with a mutex held", n, len(funcs)))
	c.floor("LOCKBAL", 1)
}

// ---------------------------------------------------------------------------
// C11

func runC11(c *Checker) {
	ruleAcceptDial(c)
	ruleC11Rest(c)
	// "a fresh working connection is handed out" also needs the relay side of a (re)connect to
	// recover: the mailboxes are re-created and the streams re-opened on every attempt (RETRY, as C05)
	ruleRETRY(c)
	ruleAcceptRetryable(c)
	ruleTransport(c, "FRESH", "RETRY", "FRESH")
	// ... and the per-direction mutexes of a connection being released: Refresh takes them, so a
	// callback that returned holding one blocks the next Accept/Dial for ever (LOCKBAL, as C05)
	ruleLOCKBAL(c, targetMbox)
	// the next connection is handed out only after the old one is done (Done() closes at the end of
	// Close): a Close that can hang - a callback that ignores the context gbn cancels, an
	// unbounded wait - means no fresh connection ever again (C12, imported)
	importLayers(c, "C12")
}

// ruleAcceptRetryable: a failed attempt to set up the next connection must not end the listener.
// grpc leaves its accept loop on any error that does not say Temporary() == true, so (a) the
// error of the connection constructors is handed out wrapped in *temporaryError and (b)
// temporaryError.Temporary is the constant true.
func ruleAcceptRetryable(c *Checker) {
	w := c.w
	acc := mboxFunc(c, "(*mailbox.Server).Accept")
	tmp := mboxFunc(c, "(*mailbox.temporaryError).Temporary")
	if acc == nil || tmp == nil {
		return
	}
	bad := ""
	n := 0
	allInstrs(tmp, func(in ssa.Instruction) {
		ret, ok := in.(*ssa.Return)
		if !ok || ret.Block().Comment == "recover" {
			return
		}
		n++
		for _, v := range expandValues(ret.Results[0]) {
			k, isK := v.(*ssa.Const)
			if !isK || k.Value == nil || k.Value.ExactString() != "true" {
				bad = w.canonFB(v)
			}
		}
	})
	c.decide(bad == "" && n > 0, "EXCL", "temporaryError.Temporary|always true", tmp.Pos(), "returns the constant true",
		"temporaryError.Temporary can return "+bad+": grpc treats such an Accept error as permanent and stops serving - no connection is ever handed out again")
	// (a)
	for _, call := range findCalls(acc, func(ci ssa.CallInstruction) bool {
		sc := ci.Common().StaticCallee()
		return sc != nil && (sc.Name() == "NewServerConn" || sc.Name() == "RefreshServerConn") && w.pkgShort(sc) == targetMbox
	}) {
		cv, _ := call.(ssa.Value)
		if cv == nil {
			continue
		}
		var errv ssa.Value
		for _, r := range *cv.Referrers() {
			if ex, ok := r.(*ssa.Extract); ok && ex.Index == 1 {
				errv = ex
			}
		}
		if errv == nil {
			c.fail("EXCL", "Accept|error of "+calleeLabel(call.Common())+" is temporary", instrPos(call), "the constructor's error is not looked at")
			continue
		}
		badRet := ""
		nLeg := 0
		allInstrs(acc, func(in ssa.Instruction) {
			ret, ok := in.(*ssa.Return)
			if !ok || ret.Block().Comment == "recover" {
				return
			}
			if !hasFact(ret.Block(), func(f Fact) bool { return factRel(f, isCarrierOf(errv), isNilConst) == "!=" }) {
				return
			}
			nLeg++
			for _, v := range expandValues(ret.Results[len(ret.Results)-1]) {
				mi, ok := v.(*ssa.MakeInterface)
				okk := false
				if ok {
					if nn := namedOf(deref(mi.X.Type())); nn != nil && nn.Obj().Name() == "temporaryError" {
						okk = true
					}
				}
				if !okk {
					badRet = w.pos(instrPos(ret))
				}
			}
		})
		if badRet != "" || nLeg == 0 {
			// the same question asked per path (the error may be wrapped first and returned after a
			// second test of a result variable): from the non-nil edge of every test of the constructor's
			// error, every path ends in a return of a *temporaryError
			isCar := isCarrierOf(errv)
			nTests, okAll := 0, true
			allInstrs(acc, func(in ssa.Instruction) {
				iff, ok := in.(*ssa.If)
				if !ok {
					return
				}
				bo, ok := iff.Cond.(*ssa.BinOp)
				if !ok || (bo.Op != token.NEQ && bo.Op != token.EQL) || !isNilConst(bo.Y) || !isCar(bo.X) {
					return
				}
				nTests++
				leg := iff.Block().Succs[0]
				if bo.Op == token.EQL {
					leg = iff.Block().Succs[1]
				}
				if !allPathsReturn(iff.Block(), leg, bo.X, func(ret *ssa.Return, resolve func(ssa.Value) ssa.Value, _ map[ssa.Value]bool) bool {
					v := resolve(ret.Results[len(ret.Results)-1])
					mi, ok := v.(*ssa.MakeInterface)
					if !ok {
						return false
					}
					nn := namedOf(deref(mi.X.Type()))
					return nn != nil && nn.Obj().Name() == "temporaryError"
				}) {
					okAll = false
				}
			})
			if nTests > 0 && okAll {
				badRet, nLeg = "", 1
			}
		}
		c.decide(badRet == "" && nLeg > 0, "EXCL", "Accept|error of "+calleeLabel(call.Common())+" is temporary", instrPos(call), "returned wrapped in *temporaryError",
			"Accept hands out the error of "+calleeLabel(call.Common())+" at "+badRet+" without the temporaryError wrapper: one failed connection attempt ends the grpc server")
	}
}

// ruleAcceptDial: EXCL and the SIDFRESH obligations of Server.Accept / Client.Dial
// (also run, with EXCL muted, for C17: both parties derive the rendezvous from the
// current secret at the moment they reconnect).
func ruleAcceptDial(c *Checker) {
	w := c.w
	type side struct {
		fnName, connField, sidField, newCtor, refresh, closer string
		owner                                                 string
	}
	sides := []side{
		{"(*mailbox.Server).Accept", "mailbox.Server.mailboxConn", "mailbox.Server.sid", "NewServerConn", "RefreshServerConn", "Stop", "Server"},
		{"(*mailbox.Client).Dial", "mailbox.Client.mailboxConn", "mailbox.Client.sid", "NewClientConn", "RefreshClientConn", "Close", "Client"},
	}
	for _, sd := range sides {
		fn := mboxFunc(c, sd.fnName)
		fConn := w.Field(sd.connField)
		fSid := w.Field(sd.sidField)
		if fn == nil || fConn == nil || fSid == nil {
			c.anchorFail(sd.connField)
			continue
		}
		name := fnName(fn)
		isConnNonNil := func(f Fact, want bool) bool {
			bo, ok := f.Cond.(*ssa.BinOp)
			if !ok || !isNilConst(bo.Y) || !isLoadOfField(bo.X, fConn) {
				return false
			}
			nonNil := (bo.Op == token.NEQ && f.Val) || (bo.Op == token.EQL && !f.Val)
			return nonNil == want
		}
		// ---- EXCL ----
		var waits []ssa.Instruction
		isDoneOfConn := func(v ssa.Value) bool {
			call, ok := unwrapLoadAlloc(v).(*ssa.Call)
			if !ok {
				return false
			}
			sc := call.Common().StaticCallee()
			return sc != nil && sc.Name() == "Done" && len(call.Common().Args) == 1 && isLoadOfField(call.Common().Args[0], fConn)
		}
		type waitLeg struct {
			in   ssa.Instruction
			body *ssa.BasicBlock
			idx  int
		}
		var legs []waitLeg
		allInstrs(fn, func(in ssa.Instruction) {
			switch x := in.(type) {
			case *ssa.UnOp:
				if x.Op == token.ARROW && isDoneOfConn(x.X) {
					waits = append(waits, in)
					legs = append(legs, waitLeg{in, nil, -1})
				}
			case *ssa.Select:
				if !x.Blocking {
					return
				}
				cases, _ := w.selectCases(x)
				for _, sc := range cases {
					if !sc.IsSend && isDoneOfConn(sc.Chan) {
						waits = append(waits, in)
						legs = append(legs, waitLeg{in, sc.Body, sc.Idx})
					}
				}
			}
		})
		// the first nil test of the connection field
		var firstIf *ssa.If
		for _, b := range fn.Blocks {
			if iff, ok := b.Instrs[len(b.Instrs)-1].(*ssa.If); ok {
				if bo, ok := iff.Cond.(*ssa.BinOp); ok && isNilConst(bo.Y) && isLoadOfField(bo.X, fConn) && bo.Op == token.NEQ {
					if firstIf == nil || b.Dominates(firstIf.Block()) {
						firstIf = iff
					}
				}
			}
		}
		okExcl := firstIf != nil && len(waits) > 0
		why := "no wait on the previous connection's Done() found"
		if okExcl {
			// from the non-nil leg every path to a successful return passes the Done() case
			start := firstIf.Block().Succs[0]
			// for a select: the other cases must not continue to a successful return
			var succRet *ssa.Return
			seen := map[*ssa.BasicBlock]bool{}
			var walk func(b *ssa.BasicBlock, from int) bool
			walk = func(b *ssa.BasicBlock, from int) bool {
				for i := from; i < len(b.Instrs); i++ {
					in := b.Instrs[i]
					for _, lg := range legs {
						if in == lg.in {
							if lg.body == nil {
								return false // bare receive: the path continues only after the wait
							}
							// select: continue only through the non-Done cases
							sel := in.(*ssa.Select)
							cases, _ := w.selectCases(sel)
							for _, sc := range cases {
								if sc.Idx == lg.idx || sc.Body == nil {
									continue
								}
								// (a case with an empty body shares the join block with the Done case: the path exists)
								if seen[sc.Body] {
									continue
								}
								seen[sc.Body] = true
								if walk(sc.Body, 0) {
									return true
								}
							}
							return false
						}
					}
					if ret, ok := in.(*ssa.Return); ok {
						for _, v := range expandValues(ret.Results[len(ret.Results)-1]) {
							if isNilConst(v) {
								succRet = ret
								return true
							}
						}
					}
				}
				for _, s := range b.Succs {
					if seen[s] || !edgeFeasible(b, s) {
						continue
					}
					seen[s] = true
					if walk(s, 0) {
						return true
					}
				}
				return false
			}
			seen[start] = true
			if walk(start, 0) {
				okExcl = false
				why = "a path from 'a previous connection exists' to the successful return at " + w.pos(instrPos(succRet)) + " does not wait for that connection's Done()"
			}
		}
		c.decide(okExcl, "EXCL", name+"|waits for the previous connection", fn.Pos(), "every path that had a previous connection passes a receive on its Done() before handing out a connection", why)
		// Done() returns the quit field
		tn := map[string]string{"Server": "ServerConn", "Client": "ClientConn"}[sd.owner]
		if done := mboxFunc(c, "(*mailbox."+tn+").Done"); done != nil {
			okDone := false
			allInstrs(done, func(in ssa.Instruction) {
				if ret, ok := in.(*ssa.Return); ok {
					v := unwrapLoadAlloc(ret.Results[0])
					if ct, ok := v.(*ssa.ChangeType); ok {
						v = ct.X
					}
					if f := chanField(v); f != nil && f.Name() == "quit" {
						okDone = true
					}
				}
			})
			c.decide(okDone, "EXCL", tn+".Done|returns quit", done.Pos(), "Done() is the quit channel", "Done() does not return the quit channel that Close closes")
		}
		if cl := mboxFunc(c, "(*mailbox."+tn+").Close"); cl != nil {
			body := onceBody(c, "EXCL", cl)
			if body != nil {
				cq := findCalls(body, func(ci ssa.CallInstruction) bool {
					if !isBuiltinCall(ci, "close") {
						return false
					}
					f := fieldOfValue(ci.Common().Args[0])
					return f != nil && f.Name() == "quit"
				})
				uncond := false
				for _, q := range cq {
					if len(factsAt(q.Block())) == 0 {
						uncond = true
					}
				}
				if uncond {
					allInstrs(body, func(in ssa.Instruction) {
						ret, ok := in.(*ssa.Return)
						if !ok || ret.Block().Comment == "recover" {
							return
						}
						if pathFromEntry(body, ret, func(x ssa.Instruction) bool {
							for _, q := range cq {
								if x == ssa.Instruction(q) {
									return true
								}
							}
							return false
						}) {
							uncond = false // an early return skips it
						}
					})
				}
				c.decide(uncond, "EXCL", tn+".Close|closes quit on every path", body.Pos(), "close(quit) unconditionally in the once body", "Close does not close quit on every path: Accept/Dial would wait forever")
				// Done() must not fire before the connection has released what it holds: nothing that
				// closes the gbn connection or a relay stream/socket may come after close(quit)
				releases := findCalls(body, func(ci ssa.CallInstruction) bool {
					cc := ci.Common()
					name := ""
					if cc.IsInvoke() {
						name = cc.Method.Name()
					} else if sc := cc.StaticCallee(); sc != nil {
						name = sc.Name()
					}
					return name == "Close" || name == "CloseSend" || name == "CloseReceive"
				})
				late := ""
				for _, q := range cq {
					for _, r := range releases {
						if pathExists(q, r, nil) {
							late = calleeLabel(r.Common()) + " at " + w.pos(instrPos(r))
						}
					}
				}
				c.decide(late == "" && len(releases) >= 3, "EXCL", tn+".Close|quit is closed after the gbn connection and both streams are released", body.Pos(),
					fmt.Sprintf("%d release calls, none reachable after close(quit)", len(releases)),
					"Done() fires before the connection is fully released ("+late+" runs after close(quit)): Accept/Dial hand out the next connection while the old one still holds its relay streams")
			}
		}

		// ---- SIDFRESH ----
		sidCalls := findCalls(fn, func(ci ssa.CallInstruction) bool {
			sc := ci.Common().StaticCallee()
			return sc != nil && sc.Name() == "SID" && sc.Signature.Recv() != nil
		})
		ctor := findCalls(fn, func(ci ssa.CallInstruction) bool {
			sc := ci.Common().StaticCallee()
			return sc != nil && sc.Name() == sd.newCtor
		})
		refresh := findCalls(fn, func(ci ssa.CallInstruction) bool {
			sc := ci.Common().StaticCallee()
			return sc != nil && sc.Name() == sd.refresh
		})
		okSID := len(sidCalls) == 1 && len(ctor) == 1 && len(refresh) == 1
		if okSID {
			sidCall := sidCalls[0].(*ssa.Call)
			okSID = instrDominates(sidCall, ctor[0]) && instrDominates(sidCall, refresh[0])
			for _, wi := range waits {
				if pathExists(sidCall, wi, nil) {
					okSID = false // the SID must be computed after the wait
				}
			}
			e, _ := errCheckedAndReturned(sidCall, 1)
			okSID = okSID && e
		}
		c.decide(okSID, "SIDFRESH", name+"|SID() recomputed on every call, after the wait", fn.Pos(), "one connData.SID() call that dominates both constructors and is never followed by the wait", "the rendezvous SID is not recomputed after waiting for the previous connection: a post-pairing switch would be missed")
		if len(sidCalls) == 1 && len(ctor) == 1 {
			sidCall := sidCalls[0].(*ssa.Call)
			// the sid argument of the constructor
			var sidArg ssa.Value
			for _, a := range ctor[0].Common().Args {
				if n, ok := arrayLen(a.Type()); ok && n == 64 {
					sidArg = a
				}
			}
			fresh := false
			if sidArg != nil {
				v := unwrapLoadAlloc(sidArg)
				if ex, ok := v.(*ssa.Extract); ok && ex.Tuple == ssa.Value(sidCall) && ex.Index == 0 {
					fresh = true
				}
				// load of a local that holds extract 0
				if u, ok := v.(*ssa.UnOp); ok && u.Op == token.MUL {
					if al, ok := u.X.(*ssa.Alloc); ok {
						for _, sv := range localStores(al) {
							if ex, ok := sv.(*ssa.Extract); ok && ex.Tuple == ssa.Value(sidCall) && ex.Index == 0 {
								fresh = true
							}
						}
					}
				}
				// load of the sid field after a dominating store of the fresh value
				if isLoadOfField(v, fSid) {
					for _, st := range w.Stores(fSid) {
						if st.Parent() != fn || !instrDominates(st, ctor[0]) {
							continue
						}
						for _, x := range expandValues(st.Val) {
							if ex, ok := x.(*ssa.Extract); ok && ex.Tuple == ssa.Value(sidCall) && ex.Index == 0 {
								fresh = true
							}
						}
					}
				}
			}
			c.decide(fresh, "SIDFRESH", name+"|constructor gets the fresh SID", instrPos(ctor[0]), "the sid handed to "+sd.newCtor+" is the value just computed", "the new connection is created with a stale SID")
		}
		// the connection that is handed out is the one that is remembered: every success return returns
		// the mailboxConn field, or a value that a dominating store has put there. Otherwise the next
		// Accept/Dial waits on an older (already closed) connection, i.e. does not wait at all.
		{
			bad := ""
			allInstrs(fn, func(in ssa.Instruction) {
				ret, ok := in.(*ssa.Return)
				if !ok || bad != "" || len(ret.Results) < 2 || ret.Block().Comment == "recover" {
					return
				}
				succ := false
				for _, e := range expandValues(ret.Results[len(ret.Results)-1]) {
					if isNilConst(e) {
						succ = true
					}
				}
				if !succ {
					return
				}
				for _, v := range expandValues(ret.Results[0]) {
					if mi, ok := v.(*ssa.MakeInterface); ok {
						v = unwrapLoadAlloc(mi.X)
					}
					if isNilConst(v) {
						continue
					}
					if isLoadOfField(v, fConn) {
						continue
					}
					stored := false
					for _, st := range w.Stores(fConn) {
						if st.Parent() == fn && unwrapLoadAlloc(st.Val) == v && instrDominates(st, ret) {
							stored = true
						}
					}
					if !stored {
						bad = w.pos(instrPos(ret))
					}
				}
			})
			c.decide(bad == "", "EXCL", name+"|the connection handed out is the one remembered", fn.Pos(), "every success return hands out the value held in mailboxConn",
				"the connection returned at "+bad+" is not stored in mailboxConn: the next call waits on an older, already closed connection and hands out a second live one")
		}
		// on 'sid changed && previous exists': closer called and field nilled; constructor under conn == nil, refresh under conn != nil
		changedLeg := func(b *ssa.BasicBlock) bool {
			eq := hasFact(b, func(f Fact) bool {
				call, ok := f.Cond.(*ssa.Call)
				return ok && !f.Val && staticCalleeIs(call.Common(), "bytes", "", "Equal")
			})
			return eq && hasFact(b, func(f Fact) bool { return isConnNonNil(f, true) })
		}
		// ... and 'changed' compares the remembered SID with the fresh one, whole
		for _, ci := range findCalls(fn, func(ci ssa.CallInstruction) bool { return staticCalleeIs(ci.Common(), "bytes", "", "Equal") }) {
			nField, nWhole := 0, 0
			for _, a := range ci.Common().Args {
				sl, ok := a.(*ssa.Slice)
				if !ok {
					continue
				}
				if sl.Low == nil && sl.High == nil && sl.Max == nil {
					if at, ok := deref(sl.X.Type()).Underlying().(*types.Array); ok && at.Len() == 64 {
						nWhole++
					}
				}
				if fa, ok := sl.X.(*ssa.FieldAddr); ok && structFieldOf(fa).Name() == "sid" {
					nField++
				}
			}
			c.decide(nWhole == 2 && nField == 1, "SIDFRESH", name+"|the remembered and the fresh SID are compared whole", instrPos(ci), "bytes.Equal(s.sid[:], sid[:]) over all 64 bytes",
				"the 'SID changed' test does not compare the remembered SID with the fresh one over all 64 bytes")
		}
		okTear := false
		for _, ci := range findCalls(fn, func(ci ssa.CallInstruction) bool {
			sc := ci.Common().StaticCallee()
			return sc != nil && sc.Name() == sd.closer && len(ci.Common().Args) == 1 && isLoadOfField(ci.Common().Args[0], fConn)
		}) {
			if !changedLeg(ci.Block()) {
				continue
			}
			for _, st := range w.Stores(fConn) {
				if st.Parent() == fn && isNilConst(st.Val) && instrDominates(ci, st) && instrDominates(st, ctor0(ctor)) == false {
					// the nil store must be on every path from the closer on: no return (e.g. on an error of
					// the closer, which is not retryable) and no Refresh before the old connection is forgotten
					isNil := func(in ssa.Instruction) bool { return in == ssa.Instruction(st) }
					if pathToReturn(ci, func(*ssa.Return) bool { return true }, isNil) != nil {
						continue
					}
					skipped := false
					for _, rf := range refresh {
						if pathExists(ci, rf, isNil) {
							skipped = true
						}
					}
					if !skipped {
						okTear = true
					}
				}
			}
		}
		c.decide(okTear, "SIDFRESH", name+"|changed SID tears the old connection down", fn.Pos(), "on 'SID changed and a previous connection exists' the old connection is "+sd.closer+"()ed and forgotten",
			"when the SID changes the old connection is not torn down and forgotten: the refreshed connection keeps using the old mailboxes")
		if len(ctor) == 1 && len(refresh) == 1 {
			c.decide(hasFact(ctor[0].Block(), func(f Fact) bool { return isConnNonNil(f, false) }), "SIDFRESH", name+"|New constructor only without a previous connection", instrPos(ctor[0]), "under mailboxConn == nil", "the New constructor runs although a previous connection exists")
			c.decide(hasFact(refresh[0].Block(), func(f Fact) bool { return isConnNonNil(f, true) }), "SIDFRESH", name+"|Refresh only with a previous connection", instrPos(refresh[0]), "under mailboxConn != nil", "Refresh runs without a previous connection")
		}
	}
}

func ruleC11Rest(c *Checker) {
	w := c.w
	// ---- FRESH: the connection handed out after a close carries no per-connection state of the closed one ----
	for _, pr := range [][3]string{{"RefreshServerConn", "ServerConn", "NewServerConn"}, {"RefreshClientConn", "ClientConn", "NewClientConn"}} {
		fn := w.Func("mailbox." + pr[0])
		if fn == nil {
			c.anchorFail("mailbox." + pr[0])
			continue
		}
		var old ssa.Value
		for _, p := range fn.Params {
			if isNamedType(derefType(p.Type()), pr[1]) {
				old = p
			}
		}
		// the returned connection is a fresh allocation
		var fresh *ssa.Alloc
		okRet := old != nil
		allInstrs(fn, func(in ssa.Instruction) {
			ret, ok := in.(*ssa.Return)
			if !ok {
				return
			}
			for _, v := range expandValues(ret.Results[0]) {
				if isNilConst(v) {
					continue
				}
				al, ok := v.(*ssa.Alloc)
				if !ok || !al.Heap || !isNamedType(derefType(al.Type()), pr[1]) || (fresh != nil && fresh != al) {
					okRet = false
					continue
				}
				fresh = al
			}
		})
		okRet = okRet && fresh != nil
		c.decide(okRet, "FRESH", pr[0]+"|returns a new connection object", fn.Pos(), "the refreshed connection is a fresh "+pr[1]+" allocation", "the refreshed connection is not a new object: the closed connection (closed quit channel, used closeOnce) is handed out again")
		if !okRet {
			continue
		}
		// its connKit is a fresh allocation too, and neither object is filled by a whole-struct copy
		fKit := w.Field("mailbox." + pr[1] + ".connKit")
		var kit *ssa.Alloc
		okKit := fKit != nil
		nKit := 0
		if fKit != nil {
			for _, st := range w.Stores(fKit) {
				if st.Parent() != fn {
					continue
				}
				nKit++
				al, ok := st.Val.(*ssa.Alloc)
				if !ok || !isNamedType(derefType(al.Type()), "connKit") || rootAlloc(st.Addr) != fresh {
					okKit = false
					continue
				}
				kit = al
			}
		}
		okKit = okKit && nKit == 1 && kit != nil
		whole := ""
		allInstrs(fn, func(in ssa.Instruction) {
			st, ok := in.(*ssa.Store)
			if !ok {
				return
			}
			if al, ok := st.Addr.(*ssa.Alloc); ok && (al == fresh || al == kit) {
				whole = w.pos(st.Pos())
			}
		})
		c.decide(okKit && whole == "", "FRESH", pr[0]+"|connKit re-created field by field", fn.Pos(), "the new connection gets a new connKit; neither is a struct copy of the previous one",
			"the refreshed connection's connKit is shared with or copied wholesale from the closed connection"+map[bool]string{true: " (struct copy at " + whole + ")", false: ""}[whole != ""]+": buffered unread bytes and deadlines of the closed connection leak into the new one")
		if !okKit {
			continue
		}
		// per-connection state: never taken from the previous connection
		stateful := map[string]string{
			"connKit.recvBuffer": "unset", "connKit.readDeadline": "unset", "connKit.writeDeadline": "unset",
			pr[1] + ".closeOnce": "unset", pr[1] + ".quit": "makechan", pr[1] + ".gbnConn": "ctor", "connKit.impl": "self",
		}
		var keys []string
		for k := range stateful {
			keys = append(keys, k)
		}
		sort.Strings(keys)
		for _, k := range keys {
			f := w.Field("mailbox." + k)
			if f == nil {
				c.anchorFail("mailbox." + k)
				continue
			}
			okF, why := true, ""
			n := 0
			for _, st := range w.Stores(f) {
				if st.Parent() != fn {
					continue
				}
				if ra := rootAlloc(st.Addr); ra != fresh && ra != kit {
					continue
				}
				n++
				switch stateful[k] {
				case "unset":
					okF, why = false, "is assigned"
				case "makechan":
					if _, ok := st.Val.(*ssa.MakeChan); !ok {
						if ct, ok2 := st.Val.(*ssa.ChangeType); !ok2 || !isMakeChan(ct.X) {
							okF, why = false, "is not a new channel"
						}
					}
				case "self":
					okSelf := false
					for _, v := range expandValues(st.Val) {
						if mi, ok := v.(*ssa.MakeInterface); ok && mi.X == ssa.Value(fresh) {
							okSelf = true
						}
					}
					if !okSelf {
						okF, why = false, "does not point at the new connection"
					}
				case "ctor":
					okC := false
					for _, v := range expandValues(st.Val) {
						if ex, ok := v.(*ssa.Extract); ok {
							if call, ok := ex.Tuple.(*ssa.Call); ok {
								if sc := call.Common().StaticCallee(); sc != nil && sc.Pkg != nil && sc.Pkg.Pkg.Path() == gbnPath && sc.Name() == pr[2] {
									okC = true
								}
							}
						}
					}
					if !okC {
						okF, why = false, "is not the result of gbn."+pr[2]
					}
				}
			}
			if stateful[k] != "unset" && n == 0 {
				okF, why = false, "is never set"
			}
			c.decide(okF, "FRESH", pr[0]+"|"+k+" is per-connection state", fn.Pos(), map[string]string{"unset": "left at its zero value", "makechan": "a new channel", "self": "the new connection", "ctor": "a new gbn connection"}[stateful[k]],
				k+" of the refreshed connection "+why+": state of the closed connection is carried into the connection handed out next")
		}
	}
	ruleRemoteKey(c)
	rulePublishGuard(c)
	c.floor("EXCL", 10)
	c.floor("SIDFRESH", 20)
	c.floor("FRESH", 18)
}

func ctor0(cs []ssa.CallInstruction) ssa.Instruction {
	if len(cs) == 0 {
		return nil
	}
	return cs[0]
}

// ---------------------------------------------------------------------------
// C17

func runC17(c *Checker) {
	w := c.w
	p := w.Pkgs[targetMbox]
	info := p.TypesInfo
	// ---- CONST ----
	nw, nb := w.Const("mailbox.NumPassphraseWords"), w.Const("mailbox.NumPassphraseEntropyBytes")
	var bpw *types.Const
	for _, imp := range p.Types.Imports() {
		if strings.HasSuffix(imp.Path(), "lnd/aezeed") {
			bpw, _ = imp.Scope().Lookup("BitsPerWord").(*types.Const)
		}
	}
	if nw == nil || nb == nil || bpw == nil {
		c.anchorFail("NumPassphraseWords / NumPassphraseEntropyBytes / aezeed.BitsPerWord")
		return
	}
	words, _ := constant.Int64Val(constant.ToInt(nw.Val()))
	nbytes, _ := constant.Int64Val(constant.ToInt(nb.Val()))
	bits, _ := constant.Int64Val(constant.ToInt(bpw.Val()))
	c.decide(nbytes*8 >= words*bits && nbytes == (words*bits+7)/8, "CONST", "entropy bytes = ceil(words * bits / 8)", token.NoPos,
		fmt.Sprintf("%d bytes = ceil(%d words * %d bits / 8)", nbytes, words, bits), fmt.Sprintf("%d entropy bytes do not match %d words of %d bits: phrase and entropy are not the same 110 bits", nbytes, words, bits))
	c.floor("CONST", 1)

	// ---- CODEC-SIB ----
	usesConst := func(fd *ast.FuncDecl, method string, argIdx int, want *types.Const) (bool, string) {
		found, okk, got := false, false, ""
		ast.Inspect(fd.Body, func(n ast.Node) bool {
			call, ok := n.(*ast.CallExpr)
			if !ok {
				return true
			}
			sel, ok := call.Fun.(*ast.SelectorExpr)
			if !ok || sel.Sel.Name != method || argIdx >= len(call.Args) {
				return true
			}
			found = true
			arg := call.Args[argIdx]
			got = w.nodeText(arg)
			var id *ast.Ident
			switch a := arg.(type) {
			case *ast.Ident:
				id = a
			case *ast.SelectorExpr:
				id = a.Sel
			}
			if id != nil && info.Uses[id] == types.Object(want) {
				okk = true
			}
			return true
		})
		return found && okk, got
	}
	e2m := w.funcDecl(targetMbox, "", "PassphraseEntropyToMnemonic")
	m2e := w.funcDecl(targetMbox, "", "PassphraseMnemonicToEntropy")
	npe := w.funcDecl(targetMbox, "", "NewPassphraseEntropy")
	if e2m == nil || m2e == nil || npe == nil {
		c.anchorFail("PassphraseEntropyToMnemonic / PassphraseMnemonicToEntropy / NewPassphraseEntropy")
		return
	}
	ok1, g1 := usesConst(e2m, "ReadBits", 0, bpw)
	c.decide(ok1, "CODEC-SIB", "EntropyToMnemonic|ReadBits(aezeed.BitsPerWord)", e2m.Pos(), "reads aezeed.BitsPerWord bits per word", "the reader's word width is "+g1+", not the constant aezeed.BitsPerWord")
	ok2, g2 := usesConst(m2e, "WriteBits", 1, bpw)
	c.decide(ok2, "CODEC-SIB", "MnemonicToEntropy|WriteBits(_, aezeed.BitsPerWord)", m2e.Pos(), "writes aezeed.BitsPerWord bits per word", "the writer's word width is "+g2+", not the constant aezeed.BitsPerWord")
	ok3, g3 := usesConst(m2e, "NewBStreamWriter", 0, nb)
	c.decide(ok3, "CODEC-SIB", "MnemonicToEntropy|writer sized by NumPassphraseEntropyBytes", m2e.Pos(), "the bit writer holds NumPassphraseEntropyBytes", "the bit writer is sized by "+g3)
	// tables and loop bounds
	refs := func(fd *ast.FuncDecl, name string) bool {
		found := false
		ast.Inspect(fd.Body, func(n ast.Node) bool {
			if sel, ok := n.(*ast.SelectorExpr); ok && sel.Sel.Name == name {
				if obj := info.Uses[sel.Sel]; obj != nil && obj.Pkg() != nil && strings.HasSuffix(obj.Pkg().Path(), "lnd/aezeed") {
					found = true
				}
			}
			return true
		})
		return found
	}
	c.decide(refs(e2m, "DefaultWordList") && refs(m2e, "ReverseWordMap"), "CODEC-SIB", "paired word tables", e2m.Pos(), "DefaultWordList (entropy->words) and ReverseWordMap (words->entropy) of the same package", "the two directions do not use aezeed's paired word tables")
	// shape of the two loops over the SSA: word i of the phrase <-> the i-th group of bits, every word
	// written, the whole entropy read / the whole bit stream copied to the start of the result
	if e2mF, m2eF := w.Func("mailbox.PassphraseEntropyToMnemonic"), w.Func("mailbox.PassphraseMnemonicToEntropy"); e2mF != nil && m2eF != nil {
		// entropy -> words: each ReadBits result indexes the word list and lands at passphrase[i] with i
		// the loop counter of the ReadBits loop; the reader is over the whole entropy
		okStore, okReader := false, false
		allInstrs(e2mF, func(in ssa.Instruction) {
			switch x := in.(type) {
			case *ssa.Store:
				ia, ok := x.Addr.(*ssa.IndexAddr)
				if !ok {
					return
				}
				if _, isStr := x.Val.Type().Underlying().(*types.Basic); !isStr {
					return
				}
				// value: DefaultWordList[index] with index from ReadBits
				fromList := false
				if u, ok := unwrapLoadAlloc(x.Val).(*ssa.UnOp); ok && u.Op == token.MUL {
					if ia2, ok := u.X.(*ssa.IndexAddr); ok {
						if ex, ok := unwrapLoadAlloc(ia2.Index).(*ssa.Extract); ok {
							if call, ok := ex.Tuple.(*ssa.Call); ok && calleeNameIs(call, "ReadBits") {
								fromList = true
							}
						}
					}
				}
				if idx, ok := x.Val.(*ssa.Index); ok {
					if ex, ok := unwrapLoadAlloc(idx.Index).(*ssa.Extract); ok {
						if call, ok := ex.Tuple.(*ssa.Call); ok && calleeNameIs(call, "ReadBits") {
							fromList = true
						}
					}
				}
				// position: the loop counter itself (a phi starting at 0 stepping by 1)
				phi, isPhi := unwrapLoadAlloc(ia.Index).(*ssa.Phi)
				counter := false
				if isPhi {
					for _, e := range phi.Edges {
						if k, ok := intConst(e); ok && k == 0 {
							counter = true
						}
					}
				}
				if fromList && counter {
					okStore = true
				}
			case *ssa.Call:
				if calleeNameIs(x, "NewBStreamReader") {
					if sl, ok := x.Common().Args[0].(*ssa.Slice); ok && sl.Low == nil && sl.High == nil {
						okReader = true
					}
				}
			}
		})
		c.decide(okStore && okReader, "CODEC-SIB", "EntropyToMnemonic|word i is the i-th bit group of the whole entropy", e2mF.Pos(), "passphrase[i] = DefaultWordList[ReadBits(...)] with i the loop counter; reader over entropy[:]",
			"the words are not stored in reading order or the reader does not cover the whole entropy: the phrase typed by the client yields another entropy than the server's")
		ruleMnemonicTotal(c, e2mF)
		// words -> entropy: WriteBits in the body of the range loop, unconditionally, index from
		// ReverseWordMap[word i]; result = copy(entropy[:], writer.Bytes())
		okWrite, okCopy := false, false
		allInstrs(m2eF, func(in ssa.Instruction) {
			call, ok := in.(*ssa.Call)
			if !ok {
				return
			}
			if calleeNameIs(call, "WriteBits") {
				// the only facts on the way are the loop condition
				uncond := true
				for _, f := range factsAt(call.Block()) {
					if bo, ok := f.Cond.(*ssa.BinOp); ok && bo.Op == token.LSS {
						continue
					}
					uncond = false
				}
				// the word is passphrase[loop index]
				fromWord := false
				v := unwrapLoadAlloc(call.Common().Args[1])
				if cv, ok := v.(*ssa.Convert); ok {
					v = unwrapLoadAlloc(cv.X)
				}
				if lk, ok := v.(*ssa.Lookup); ok {
					if ix, ok := unwrapLoadAlloc(lk.Index).(*ssa.Index); ok && ix.X == ssa.Value(m2eF.Params[0]) {
						fromWord = true
					}
					if u, ok := unwrapLoadAlloc(lk.Index).(*ssa.UnOp); ok {
						if ia, ok := u.X.(*ssa.IndexAddr); ok {
							_ = ia
							fromWord = true
						}
					}
				}
				if uncond && fromWord && pathExists(call, call, nil) {
					okWrite = true
				}
			}
			if b, ok := call.Call.Value.(*ssa.Builtin); ok && b.Name() == "copy" {
				dst, ok1 := call.Call.Args[0].(*ssa.Slice)
				src, ok2 := call.Call.Args[1].(*ssa.Call)
				if ok1 && ok2 && dst.Low == nil && dst.High == nil && calleeNameIs(src, "Bytes") {
					okCopy = true
				}
			}
		})
		c.decide(okWrite && okCopy, "CODEC-SIB", "MnemonicToEntropy|every word written in order, stream copied to the start", m2eF.Pos(), "WriteBits(ReverseWordMap[word i]) unconditionally in the loop; copy(entropy[:], Bytes())",
			"a word can be skipped, or the bit stream is not copied to the start of the entropy: client and server derive different entropies from the same phrase")
	}
	loopBound := false
	ast.Inspect(e2m.Body, func(n ast.Node) bool {
		if fs, ok := n.(*ast.ForStmt); ok {
			if be, ok := fs.Cond.(*ast.BinaryExpr); ok {
				// i < NumPassphraseWords, written either way round
				if id, ok := be.Y.(*ast.Ident); ok && info.Uses[id] == types.Object(nw) && be.Op == token.LSS {
					loopBound = true
				}
				if id, ok := be.X.(*ast.Ident); ok && info.Uses[id] == types.Object(nw) && be.Op == token.GTR {
					loopBound = true
				}
			}
		}
		return true
	})
	// types: [NumPassphraseWords]string and [NumPassphraseEntropyBytes]byte in both signatures
	sigOK := func(name string) bool {
		fn := w.Func("mailbox." + name)
		if fn == nil {
			return false
		}
		has := func(t *types.Tuple, n int64) bool {
			for i := 0; i < t.Len(); i++ {
				if l, ok := arrayLen(t.At(i).Type()); ok && l == n {
					return true
				}
			}
			return false
		}
		s := fn.Signature
		return (has(s.Params(), words) || has(s.Results(), words)) && (has(s.Params(), nbytes) || has(s.Results(), nbytes))
	}
	c.decide(loopBound && sigOK("PassphraseEntropyToMnemonic") && sigOK("PassphraseMnemonicToEntropy"), "CODEC-SIB", "both directions process NumPassphraseWords words and NumPassphraseEntropyBytes bytes", e2m.Pos(),
		"loop bound and array types are tied to the two constants", "the codec's word count / byte count is not tied to NumPassphraseWords / NumPassphraseEntropyBytes in both directions")
	// NewPassphraseEntropy: round trip normalisation
	if fn := w.Func("mailbox.NewPassphraseEntropy"); fn != nil {
		a := findCalls(fn, func(ci ssa.CallInstruction) bool { return calleeNameIsCI(ci, "PassphraseEntropyToMnemonic") })
		b := findCalls(fn, func(ci ssa.CallInstruction) bool { return calleeNameIsCI(ci, "PassphraseMnemonicToEntropy") })
		okk := len(a) == 1 && len(b) == 1 && instrDominates(a[0], b[0])
		if okk {
			// MnemonicToEntropy gets the words produced by EntropyToMnemonic; its result is returned
			arg := unwrapLoadAlloc(b[0].Common().Args[0])
			fromA := false
			for _, v := range expandValues(arg) {
				if ex, ok := v.(*ssa.Extract); ok && ex.Tuple == ssa.Value(a[0].(*ssa.Call)) {
					fromA = true
				}
			}
			ret := false
			allInstrs(fn, func(in ssa.Instruction) {
				if r, ok := in.(*ssa.Return); ok && instrDominates(b[0], r) {
					for _, v := range expandValues(r.Results[1]) {
						if v == ssa.Value(b[0].(*ssa.Call)) {
							ret = true
						}
					}
				}
			})
			okk = fromA && ret
		}
		c.decide(okk, "CODEC-SIB", "NewPassphraseEntropy|normalises by the round trip", fn.Pos(), "returns MnemonicToEntropy(EntropyToMnemonic(random))", "the generated entropy is not normalised through the mnemonic: the unused low bits make server and client derive different secrets")
	}
	// the phrase a user types in reaches the decoder word by word: it is cut at every separator
	// (strings.Split / strings.Fields over the whole phrase, no bounded SplitN that leaves a tail
	// glued to the last word - an unknown word silently decodes as index 0) and the pieces are copied
	// into the word array in order
	if fn := w.Func("mailbox.NewClientWebsocketConn"); fn != nil && len(fn.Params) >= 2 {
		phrase := ssa.Value(fn.Params[1])
		var split *ssa.Call
		bad := ""
		allInstrs(fn, func(in ssa.Instruction) {
			call, ok := in.(*ssa.Call)
			if !ok {
				return
			}
			sc := call.Common().StaticCallee()
			if sc == nil || sc.Pkg == nil || sc.Pkg.Pkg.Path() != "strings" || len(call.Common().Args) == 0 || call.Common().Args[0] != phrase {
				return
			}
			switch sc.Name() {
			case "Split", "Fields":
				split = call
			default:
				bad = "strings." + sc.Name()
			}
		})
		copied := false
		if split != nil {
			for _, r := range *split.Referrers() {
				if cp, ok := r.(*ssa.Call); ok && isBuiltinCall(cp, "copy") && cp.Call.Args[1] == ssa.Value(split) {
					copied = true
				}
			}
		}
		c.decide(split != nil && bad == "" && copied, "CODEC-SIB", "NewClientWebsocketConn|the pairing phrase is cut at every separator", fn.Pos(), "copy(words[:], strings.Split(phrase, sep))",
			"the pairing phrase is not split into words at every separator ("+bad+"): text after the last word stays glued to it, decodes as word index 0, and the client derives another SID than the server")
	} else {
		c.anchorFail("mailbox.NewClientWebsocketConn")
	}
	c.floor("CODEC-SIB", 9)

	// ---- SIDDIR ----
	getSID := mboxFunc(c, "mailbox.GetSID")
	if getSID == nil {
		return
	}
	flagOf := func(ctorName, field string) (bool, bool) {
		fn := w.Func("mailbox." + ctorName)
		f := w.Field("mailbox.connKit." + field)
		if fn == nil || f == nil {
			return false, false
		}
		for _, st := range w.Stores(f) {
			if st.Parent() != fn {
				continue
			}
			for _, v := range expandValues(st.Val) {
				if call, ok := v.(*ssa.Call); ok && call.Common().StaticCallee() == getSID {
					if k, ok := call.Common().Args[1].(*ssa.Const); ok && k.Value != nil && k.Value.Kind() == constant.Bool {
						return constant.BoolVal(k.Value), true
					}
				}
			}
		}
		return false, false
	}
	cr, ok1a := flagOf("NewClientConn", "receiveSID")
	cs, ok2a := flagOf("NewClientConn", "sendSID")
	sr, ok3a := flagOf("NewServerConn", "receiveSID")
	ss, ok4a := flagOf("NewServerConn", "sendSID")
	allOK := ok1a && ok2a && ok3a && ok4a
	c.decide(allOK && cr != cs, "SIDDIR", "client|receive and send streams differ", token.NoPos, "client receive/send flags are complementary", "the client uses one stream for both directions")
	c.decide(allOK && sr != ss, "SIDDIR", "server|receive and send streams differ", token.NoPos, "server receive/send flags are complementary", "the server uses one stream for both directions")
	c.decide(allOK && cs == sr && cr == ss, "SIDDIR", "client.send = server.receive and client.receive = server.send", token.NoPos, "the directions are mirrored", "client and server do not meet: the client's send stream is not the server's receive stream")
	// the mailboxInfo of the client transport uses the same two values
	if fn := w.Func("mailbox.NewClientConn"); fn != nil {
		okInfo := true
		for _, pr := range [][2]string{{"recvSID", "receiveSID"}, {"sendSID", "sendSID"}} {
			fi := w.Field("mailbox.mailboxInfo." + pr[0])
			fk := w.Field("mailbox.connKit." + pr[1])
			var vi, vk ssa.Value
			if fi != nil {
				for _, st := range w.Stores(fi) {
					if st.Parent() == fn {
						if sl, ok := st.Val.(*ssa.Slice); ok {
							vi = sl.X
						}
					}
				}
			}
			if fk != nil {
				for _, st := range w.Stores(fk) {
					if st.Parent() == fn {
						if u, ok := st.Val.(*ssa.UnOp); ok {
							vk = u.X
						}
					}
				}
			}
			if vi == nil || vk == nil || vi != vk {
				okInfo = false
			}
		}
		c.decide(okInfo, "SIDDIR", "client|transport and connKit use the same stream IDs", fn.Pos(), "mailboxInfo.recvSID/sendSID are the connKit's receiveSID/sendSID", "the client's transport is configured with other stream IDs than the connection reports/uses for sending")
	}
	ruleStreamDirection(c)
	// Refresh copies both unchanged
	for _, pr := range [][2]string{{"RefreshClientConn", "ClientConn"}, {"RefreshServerConn", "ServerConn"}} {
		fn := w.Func("mailbox." + pr[0])
		if fn == nil {
			c.anchorFail("mailbox." + pr[0])
			continue
		}
		okk := true
		// a whole-struct copy of the previous connKit carries both IDs as well
		wholeCopy := false
		allInstrs(fn, func(in ssa.Instruction) {
			if st, ok := in.(*ssa.Store); ok && isNamedType(st.Val.Type(), "connKit") {
				if u, ok := st.Val.(*ssa.UnOp); ok && u.Op == token.MUL {
					wholeCopy = true
				}
			}
		})
		for _, fld := range []string{"receiveSID", "sendSID"} {
			f := w.Field("mailbox.connKit." + fld)
			found, other := false, false
			for _, st := range w.Stores(f) {
				if st.Parent() == fn {
					if isLoadOfField(st.Val, f) {
						found = true
					} else {
						other = true
					}
				}
			}
			okk = okk && (found || (wholeCopy && !other))
		}
		c.decide(okk, "SIDDIR", pr[0]+"|stream IDs carried over", fn.Pos(), "receiveSID and sendSID are copied from the previous connection", "a refreshed connection does not keep both stream IDs")
	}
	// GetSID: identity on one leg, XOR non-zero const on the other
	okID, okXor := false, false
	var xk int64
	allInstrs(getSID, func(in ssa.Instruction) {
		switch x := in.(type) {
		case *ssa.Return:
			v := x.Results[0]
			if u, ok := v.(*ssa.UnOp); ok && u.Op == token.MUL {
				if al, ok := u.X.(*ssa.Alloc); ok {
					st := localStores(al)
					if len(st) == 1 {
						v = st[0]
					}
				}
			}
			if v == ssa.Value(getSID.Params[0]) {
				okID = hasFact(x.Block(), func(f Fact) bool { return f.Cond == ssa.Value(getSID.Params[1]) })
			}
		case *ssa.BinOp:
			if x.Op == token.XOR {
				if k, ok := intConst(x.Y); ok && k != 0 {
					xk = k
					okXor = true
				}
			}
		}
	})
	// the flipped direction is the whole SID with exactly one XOR applied: one XOR store in the function
	// (two would cancel), into an array that was filled by a full copy of the input (or is the by-value
	// parameter itself), and that array is what the leg returns
	{
		nXor := 0
		var xorInto ssa.Value
		allInstrs(getSID, func(in ssa.Instruction) {
			st, ok := in.(*ssa.Store)
			if !ok {
				return
			}
			if bo, ok := st.Val.(*ssa.BinOp); ok && bo.Op == token.XOR {
				nXor++
				if ia, ok := st.Addr.(*ssa.IndexAddr); ok {
					xorInto = ia.X
				}
			}
		})
		full := false
		if al, ok := xorInto.(*ssa.Alloc); ok {
			// param spilled to a local (by-value array parameter) or a local filled by copy(dst[:], sid[:])
			for _, r := range *al.Referrers() {
				if st, ok := r.(*ssa.Store); ok && st.Addr == ssa.Value(al) && st.Val == ssa.Value(getSID.Params[0]) {
					full = true
				}
				if sl, ok := r.(*ssa.Slice); ok && sl.Low == nil && sl.High == nil {
					for _, r2 := range *sl.Referrers() {
						if call, ok := r2.(*ssa.Call); ok {
							if b, ok := call.Call.Value.(*ssa.Builtin); ok && b.Name() == "copy" && call.Call.Args[0] == ssa.Value(sl) {
								if src, ok := call.Call.Args[1].(*ssa.Slice); ok && src.Low == nil && src.High == nil {
									if sa, ok := src.X.(*ssa.Alloc); ok {
										for _, r3 := range *sa.Referrers() {
											if st, ok := r3.(*ssa.Store); ok && st.Val == ssa.Value(getSID.Params[0]) {
												full = true
											}
										}
									}
								}
							}
						}
					}
				}
			}
		}
		c.decide(nXor == 1 && full, "SIDDIR", "GetSID|exactly one XOR on a full copy of the SID", getSID.Pos(), "one XOR store into an array that holds the whole input SID",
			fmt.Sprintf("the flipped direction is not 'the whole SID with one bit pattern XORed once' (XOR stores: %d, full copy of the input: %v): the two directions can coincide or the ID loses entropy", nXor, full))
	}
	c.decide(okID && okXor, "SIDDIR", "GetSID|identity on one direction, XOR with a non-zero constant on the other", getSID.Pos(), fmt.Sprintf("one direction keeps the SID, the other flips bits (^%#x)", xk),
		"GetSID does not map the two directions to two different stream IDs")
	// ConnData.SID: sole producer, SHA-512 of the whole secret
	sidFn := mboxFunc(c, "(*mailbox.ConnData).SID")
	if sidFn != nil {
		okHash := false
		fPE := w.Field("mailbox.ConnData.passphraseEntropy")
		allInstrs(sidFn, func(in ssa.Instruction) {
			ret, ok := in.(*ssa.Return)
			if !ok || ret.Block().Comment == "recover" {
				return
			}
			for _, v := range expandValues(ret.Results[0]) {
				call, ok := v.(*ssa.Call)
				if !ok || !staticCalleeIs(call.Common(), "sha512", "", "Sum512") {
					continue
				}
				okAll := true
				n := 0
				for _, a := range expandValues(call.Common().Args[0]) {
					n++
					if isLoadOfField(a, fPE) {
						continue
					}
					if ex, ok := a.(*ssa.Extract); ok {
						if hc, ok := ex.Tuple.(*ssa.Call); ok && calleeNameIs(hc, "hmac256") {
							// keyed by the ECDH output of remote and local key
							if hasOrigin(hc.Common().Args[0], "ecdh") {
								continue
							}
						}
					}
					okAll = false
				}
				if okAll && n >= 2 {
					okHash = true
				}
			}
		})
		c.decide(okHash, "SIDDIR", "ConnData.SID|SHA-512 of the whole secret", sidFn.Pos(), "sha512.Sum512(passphrase entropy | HMAC(ECDH(remote, local)))", "the SID is not the SHA-512 of the whole passphrase entropy / of the HMAC of the ECDH output")
		// ... computed from the stored secret at every call: a success return never hands out a value
		// that was not hashed in this invocation (a remembered SID can outlive a change of the secret)
		stale := ""
		allInstrs(sidFn, func(in ssa.Instruction) {
			ret, ok := in.(*ssa.Return)
			if !ok || ret.Block().Comment == "recover" || len(ret.Results) < 2 {
				return
			}
			succ := false
			for _, e := range expandValues(ret.Results[1]) {
				if isNilConst(e) {
					succ = true
				}
			}
			if !succ {
				return
			}
			for _, v := range expandValues(ret.Results[0]) {
				if call, ok := v.(*ssa.Call); ok && staticCalleeIs(call.Common(), "sha512", "", "Sum512") {
					continue
				}
				if k, ok := v.(*ssa.Const); ok && k.Value == nil {
					continue // zero value on the error legs that share the return
				}
				stale = w.canonFB(v) + " at " + w.pos(instrPos(ret))
			}
		})
		// no error on the way to the SID is dropped: a failed ECDH (locked wallet, remote signer down)
		// must fail SID(), not yield the hash of an all-zero secret - a rendezvous everybody can compute
		{
			bad := ""
			n := 0
			allInstrs(sidFn, func(in ssa.Instruction) {
				call, ok := in.(*ssa.Call)
				if !ok {
					return
				}
				tup, ok := call.Type().(*types.Tuple)
				if !ok || tup.Len() < 2 || !isErrorType(tup.At(tup.Len()-1).Type()) {
					return
				}
				n++
				if e, why := errCheckedAndReturned(call, tup.Len()-1); !e {
					bad = calleeLabel(call.Common()) + ": " + why
				}
			})
			c.decide(bad == "" && n >= 2, "SIDDIR", "ConnData.SID|every error on the way is returned", sidFn.Pos(), fmt.Sprintf("%d fallible steps (ECDH, HMAC), each error tested and returned", n),
				"ConnData.SID drops an error ("+bad+"): a failed step yields the hash of an empty secret instead of an error - a session identifier that depends on no secret and is the same for everybody")
		}
		c.decide(stale == "", "SIDDIR", "ConnData.SID|recomputed at every call", sidFn.Pos(), "every successful return carries a hash computed in this invocation",
			"SID() can return "+stale+", a value not derived from the currently stored secret in this call: after the secret changes (pairing) the two sides can disagree on the rendezvous")
		// the sid stored in Server/Client comes from SID()
		for _, fk := range []string{"mailbox.Server.sid", "mailbox.Client.sid"} {
			f := w.Field(fk)
			if f == nil {
				c.anchorFail(fk)
				continue
			}
			for _, st := range w.Stores(f) {
				okk := false
				for _, v := range expandValues(st.Val) {
					if ex, ok := v.(*ssa.Extract); ok {
						if call, ok := ex.Tuple.(*ssa.Call); ok && call.Common().StaticCallee() == sidFn {
							okk = true
						}
					}
				}
				c.decide(okk, "SIDDIR", fk+"|from ConnData.SID in "+fnName(st.Parent()), instrPos(st), "the session ID comes from ConnData.SID()", "the session ID is not derived by ConnData.SID()")
			}
		}
	}
	c.floor("SIDDIR", 12)
	// both parties take the rendezvous from the *current* secret when they reconnect
	c.mute = map[string]bool{"EXCL": true}
	ruleAcceptDial(c)
	c.mute = nil
	ruleRemoteKey(c)
	rulePublishGuard(c)
	c.floor("SIDFRESH", 8)
}

func calleeNameIsCI(ci ssa.CallInstruction, name string) bool {
	sc := ci.Common().StaticCallee()
	return sc != nil && sc.Name() == name
}

// isNamedType reports whether t is the named type `name` (any package of the targets).
func isNamedType(t types.Type, name string) bool {
	n := namedOf(t)
	return n != nil && n.Obj().Name() == name
}

func derefType(t types.Type) types.Type { return deref(t) }

// rootAlloc follows FieldAddr chains (through loads of pointer fields are NOT followed)
// to the allocation an address lies in.
func rootAlloc(v ssa.Value) *ssa.Alloc {
	for {
		switch x := v.(type) {
		case *ssa.FieldAddr:
			v = x.X
		case *ssa.Alloc:
			return x
		default:
			return nil
		}
	}
}

func isMakeChan(v ssa.Value) bool { _, ok := v.(*ssa.MakeChan); return ok }

// ruleRemoteKey: the stored remote static key selects the rendezvous and the pattern on both
// sides (shared by C11 and C17).
func ruleRemoteKey(c *Checker) {
	w := c.w
	// who may write the state that selects the rendezvous: the remote key (constructor and SetRemote),
	// the remembered SID and the current connection (Accept / Dial only)
	for _, wr := range []struct {
		field   string
		writers []string
	}{
		{"mailbox.ConnData.remoteKey", []string{"mailbox.NewConnData", "(*mailbox.ConnData).SetRemote"}},
		{"mailbox.ConnData.passphraseEntropy", []string{"mailbox.NewConnData"}},
		{"mailbox.ConnData.localKey", []string{"mailbox.NewConnData"}},
		{"mailbox.Server.sid", []string{"mailbox.NewServer", "(*mailbox.Server).Accept"}},
		{"mailbox.Client.sid", []string{"mailbox.NewClient", "(*mailbox.Client).Dial"}},
		{"mailbox.Server.mailboxConn", []string{"(*mailbox.Server).Accept"}},
		{"mailbox.Client.mailboxConn", []string{"(*mailbox.Client).Dial"}},
	} {
		f := w.Field(wr.field)
		if f == nil {
			c.anchorFail(wr.field)
			continue
		}
		bad := ""
		for _, st := range w.Stores(f) {
			top := st.Parent()
			for top.Parent() != nil {
				top = top.Parent()
			}
			okk := false
			for _, n := range wr.writers {
				if fnName(top) == n {
					okk = true
				}
			}
			if !okk {
				bad = fnName(st.Parent()) + " at " + w.pos(instrPos(st))
			}
		}
		c.decide(bad == "", "SIDFRESH", "writers|"+wr.field, token.NoPos, "written only by "+strings.Join(wr.writers, ", "),
			wr.field+" is also written by "+bad+": the secret / rendezvous state can change outside the pairing and reconnect logic")
	}
	// ConnData.SID and HandshakePattern branch on remoteKey != nil; SetRemote stores it
	fRK := w.Field("mailbox.ConnData.remoteKey")
	if fRK == nil {
		c.anchorFail("mailbox.ConnData.remoteKey")
	} else {
		for _, n := range []string{"(*mailbox.ConnData).SID", "(*mailbox.ConnData).HandshakePattern"} {
			fn := mboxFunc(c, n)
			if fn == nil {
				continue
			}
			okk := false
			allInstrs(fn, func(in ssa.Instruction) {
				if iff, ok := in.(*ssa.If); ok {
					if bo, ok := iff.Cond.(*ssa.BinOp); ok && isNilConst(bo.Y) && isLoadOfField(bo.X, fRK) {
						okk = true
					}
				}
			})
			c.decide(okk, "SIDFRESH", n+"|branches on remoteKey", fn.Pos(), "decides on remoteKey != nil", n+" does not depend on the presence of the remote key: SID and pattern can disagree after pairing")
		}
		ruleConnDataSetters(c, "SIDFRESH", false)
		rulePatternSource(c, "SIDFRESH")
		ruleConnDataFidelity(c, "SIDFRESH")
	}
}

// rulePublishGuard: DoHandshake publishes the remote static key exactly when the *negotiated*
// version is >= 2 (as C04 PUBLISH), and nothing can fail between split and that publication.
func rulePublishGuard(c *Checker) {
	w := c.w
	dh := mboxFunc(c, "(*mailbox.Machine).DoHandshake")
	if dh == nil {
		return
	}
	fVer := w.Field("mailbox.handshakeState.version")
	hv2 := w.Const("mailbox.HandshakeVersion2")
	calls := findCalls(dh, func(ci ssa.CallInstruction) bool {
		return ci.Common().IsInvoke() && ci.Common().Method.Name() == "SetRemote"
	})
	okk := len(calls) == 1 && fVer != nil && hv2 != nil
	if okk {
		v2, _ := constant.Int64Val(constant.ToInt(hv2.Val()))
		isVer := func(v ssa.Value) bool { return isLoadOfField(v, fVer) }
		okk = hasFact(calls[0].Block(), func(f Fact) bool {
			return factRel(f, isVer, func(v ssa.Value) bool { k, ok := intConst(v); return ok && k == v2 }) == ">=" ||
				factRel(f, isVer, func(v ssa.Value) bool { k, ok := intConst(v); return ok && k == v2-1 }) == ">"
		})
	}
	rulePublishOrder(c, "SIDFRESH")
	c.decide(okk, "SIDFRESH", "DoHandshake|SetRemote for version >= 2", dh.Pos(), "both parties publish the remote static key when the negotiated version is >= 2", "the remote key is not published exactly for the negotiated version >= 2: the two sides move to different rendezvous points")
}

// ruleConnDataSetters: ConnData.SetRemote (and, with auth, SetAuthData) store their argument on
// every successful return and on none of the failing ones.
func ruleConnDataSetters(c *Checker, rule string, auth bool) {
	w := c.w
	type setter struct{ fn, field, what string }
	sets := []setter{{"(*mailbox.ConnData).SetRemote", "mailbox.ConnData.remoteKey", "remote key"}}
	if auth {
		sets = append(sets, setter{"(*mailbox.ConnData).SetAuthData", "mailbox.ConnData.authData", "auth data"})
	}
	for _, sd := range sets {
		sr := mboxFunc(c, sd.fn)
		f := w.Field(sd.field)
		if sr == nil || f == nil {
			if f == nil {
				c.anchorFail(sd.field)
			}
			continue
		}
		short := strings.TrimPrefix(sd.fn, "(*mailbox.")
		short = strings.Replace(short, ").", ".", 1)
		var stores []*ssa.Store
		for _, st := range w.Stores(f) {
			if st.Parent() == sr && unwrapLoadAlloc(st.Val) == ssa.Value(sr.Params[1]) {
				stores = append(stores, st)
			}
		}
		c.decide(len(stores) > 0, rule, short+"|stores the "+sd.what, sr.Pos(), sd.field+" = argument", short+" does not store the "+sd.what+": the post-pairing switch never happens / the payload is lost")
		// ... and only when it reports success: a rejected key (callback error, the handshake aborts)
		// must not switch this side to the key-derived rendezvous while the peer stays on the passphrase
		bad := ""
		for _, st := range w.Stores(f) {
			if st.Parent() != sr {
				continue
			}
			if r := pathToReturn(st, func(ret *ssa.Return) bool {
				for _, v := range expandValues(ret.Results[len(ret.Results)-1]) {
					if !isNilConst(v) {
						return true
					}
				}
				return false
			}, nil); r != nil {
				bad = w.pos(instrPos(r))
			}
		}
		c.decide(bad == "", rule, short+"|kept only on success", sr.Pos(), "no error return is reachable after the store",
			short+" can fail (return at "+bad+") after it has already stored the "+sd.what+": the handshake aborts but this side has moved on (key-derived SID and KK pattern / payload), the peer has not")
		// ... and always when it reports success: a successful return that has not passed the store
		// ("the key is already known") leaves this side with another identity than the one the
		// handshake just authenticated
		bad = ""
		allInstrs(sr, func(in ssa.Instruction) {
			ret, ok := in.(*ssa.Return)
			if !ok || ret.Block().Comment == "recover" {
				return
			}
			canSucceed := false
			for _, v := range expandValues(ret.Results[len(ret.Results)-1]) {
				if isNilConst(v) {
					canSucceed = true
				}
			}
			if !canSucceed {
				return
			}
			if pathFromEntry(sr, ret, func(x ssa.Instruction) bool {
				for _, st := range stores {
					if x == ssa.Instruction(st) {
						return true
					}
				}
				return false
			}) {
				bad = w.pos(instrPos(ret))
			}
		})
		c.decide(bad == "" && len(stores) > 0, rule, short+"|every successful return has stored the "+sd.what, sr.Pos(), "no nil-error return is reachable without passing the store",
			short+" can report success (return at "+bad+") without having stored the "+sd.what+" it was given: the two parties proceed with different views of the peer identity / payload")
	}
}

// importLayers runs the checks of other properties on the same world and records their
// obligations in c under the rule name LAYER/<id>:<rule>.
// verifDirGlobal is the verification directory (for the known-findings file); set by main.
var verifDirGlobal = "/verif"

func importLayers(c *Checker, ids ...string) {
	if c.nested {
		return
	}
	// a recorded known finding of an imported property is reported under that property only
	known, _ := loadKnown(filepath.Join(verifDirGlobal, "KNOWN_FINDINGS.txt"))
	isKnown := func(id, rule, key string) bool {
		for _, k := range known {
			if k.Kind == "known" && k.Prop == id && k.Rule == rule && k.Key == key {
				return true
			}
		}
		return false
	}
	n := 0
	for _, id := range ids {
		pr := registry[id]
		if pr == nil {
			c.anchorFail("check " + id)
			continue
		}
		sub := newChecker(c.w, id, c.Tier)
		sub.nested = true
		func() {
			defer func() {
				if r := recover(); r != nil {
					sub.fail("CHECKER-PANIC", fmt.Sprint(r), 0, "the imported check panicked")
				}
			}()
			pr.run(sub)
		}()
		sub.applyFloors()
		for _, o := range sub.Obls {
			if o.Verdict != vOK && isKnown(id, o.Rule, o.Key) {
				c.note("imported %s: the recorded known finding %s %s is reported under %s only", id, o.Rule, o.Key, id)
				continue
			}
			c.Obls = append(c.Obls, Obligation{Rule: "LAYER/" + id + ":" + o.Rule, Key: o.Key, Pos: o.Pos, Verdict: o.Verdict, Detail: o.Detail})
			n++
		}
	}
	if n < 10*len(ids) {
		c.fail("LAYER", "imported obligations", 0, fmt.Sprintf("only %d obligations imported from %v", n, ids))
	}
}

// ruleStreamDirection: the code that talks to the relay uses the stream ID of its own direction.
// A function is on the receive side when it calls a receive API of the relay client
// (RecvStream / Recv on a hashmailrpc stream, ClientConnTransport.Receive / ConnectReceive) and on
// the send side when it calls a send API (SendStream / Send, ClientConnTransport.Send /
// ConnectSend); a receive-side function never reads the send stream ID and vice versa. (GetSID
// and the constructors give the two IDs their values; this is about where they are used.)
func ruleStreamDirection(c *Checker) {
	w := c.w
	side := func(fn *ssa.Function) (recv, send bool) {
		allInstrs(fn, func(in ssa.Instruction) {
			ci, ok := in.(ssa.CallInstruction)
			if !ok || !ci.Common().IsInvoke() {
				return
			}
			m := ci.Common().Method
			n := namedOf(ci.Common().Value.Type())
			if n == nil || n.Obj().Pkg() == nil {
				return
			}
			pkg, tn := n.Obj().Pkg().Path(), n.Obj().Name()
			relay := strings.HasSuffix(pkg, "/hashmailrpc") || (strings.HasSuffix(pkg, "/mailbox") && tn == "ClientConnTransport")
			if !relay {
				return
			}
			switch m.Name() {
			case "RecvStream", "Recv", "Receive", "ConnectReceive":
				recv = true
			case "SendStream", "Send", "ConnectSend":
				send = true
			}
		})
		return
	}
	isRecvField := func(f *types.Var) bool { return f != nil && (f.Name() == "receiveSID" || f.Name() == "recvSID") }
	isSendField := func(f *types.Var) bool { return f != nil && f.Name() == "sendSID" }
	n := 0
	for _, fn := range w.Funcs {
		if w.pkgShort(fn) != targetMbox || strings.HasSuffix(w.Fset.Position(fn.Pos()).Filename, "_test.go") {
			continue
		}
		r, sd := side(fn)
		// the implementations of the client transport interface are on the side their slot says
		if fn.Signature.Recv() != nil {
			if tr := w.Named("mailbox.ClientConnTransport"); tr != nil {
				if iface, ok := tr.Underlying().(*types.Interface); ok && types.Implements(fn.Signature.Recv().Type(), iface) {
					switch fn.Name() {
					case "ConnectReceive", "Recv", "CloseReceive", "ReceiveConnected":
						r, sd = true, false
					case "ConnectSend", "Send", "CloseSend", "SendConnected":
						r, sd = false, true
					}
				}
			}
		}
		if r == sd {
			continue // neither, or a function that drives both directions (constructors)
		}
		bad := ""
		allInstrs(fn, func(in ssa.Instruction) {
			fa, ok := in.(*ssa.FieldAddr)
			if !ok {
				return
			}
			f := structFieldOf(fa)
			if (r && isSendField(f)) || (sd && isRecvField(f)) {
				bad = f.Name() + " at " + w.pos(instrPos(fa))
			}
		})
		n++
		dir := map[bool]string{true: "receive", false: "send"}[r]
		c.decide(bad == "", "SIDDIR", fnName(fn)+"|"+dir+" side uses its own stream ID", fn.Pos(), "no access to the other direction's stream ID",
			fnName(fn)+" talks to the relay on the "+dir+" side but uses "+bad+": the two directions share a stream / the peer listens elsewhere")
	}
	c.decide(n >= 6, "SIDDIR", "stream direction sites", token.NoPos, fmt.Sprintf("%d relay-facing functions classified", n), fmt.Sprintf("only %d relay-facing functions found (server: recvFromStream, sendToStream, createReceiveMailBox, createSendMailBox; client transports)", n))
}
