package main

import (
	"fmt"
	"go/token"
	"go/types"
	"sort"
	"strings"

	"golang.org/x/tools/go/ssa"
)

// ---------------------------------------------------------------------------
// C19: wire codecs round-trip. The writer layout of every Serialize and the
// reader layout of every Deserialize are extracted from the SSA of the current
// tree and compared field by field.

func init() {
	register("C19",
		"CODEC: for the six GBN packet types and the mailbox MsgData control message the byte layout the writer emits (every success path of Serialize: constant bytes, field bytes, bool encodings, big-endian length prefixes, payload) and the layout the reader consumes (per returned message: tag test, length guard, per-field source expression over the input) are extracted from the SSA and must agree: same tag constant, every field read at the offset where it is written, bool decoding inverts the writer's two constants, the length guard equals the fixed header size, the payload is the rest / the length-prefixed range, all Message implementations covered both ways and tags pairwise distinct; every return of the two readers depends only on tag tests and 'input too short' guards (the reader refuses nothing the writer can emit and has no value-dependent branches). Agreement implies decode(encode(v)) == v for all field values and that encode(decode(b)) decodes to the same value again (bools are canonicalised, trailing bytes ignored). CODEC error used: at every Serialize/Deserialize call of gbn and mailbox the error result is tested, returned or passed on. Not decided: behaviour of bytes.Buffer / encoding/binary themselves.",
		[]string{"bytes.Buffer.Write/WriteByte append exactly their argument and do not fail; binary.BigEndian.PutUint32/Uint32 are inverse on 4 bytes"},
		runC19)
}

type wElem struct {
	Kind  string // byte | lenprefix | bytes
	Const *int64
	Field string // field name for byte/bytes, or field whose len is written
	Width int    // for lenprefix: bytes
	Conv  string
}

func (e wElem) String() string {
	switch e.Kind {
	case "byte":
		if e.Const != nil {
			return fmt.Sprintf("byte(%d)", *e.Const)
		}
		return "byte(field " + e.Field + ")"
	case "lenprefix":
		return fmt.Sprintf("u%dbe(len(field %s))", e.Width*8, e.Field)
	case "bytes":
		return "bytes(field " + e.Field + ")"
	}
	return "?"
}

type wCond struct {
	Desc string
	Val  bool
}

type wPath struct {
	Conds []wCond
	Elems []wElem
}

// describeVal renders a value read from the receiver of a Serialize method.
func describeVal(v ssa.Value, recv ssa.Value) (kind string, field string, k *int64) {
	v = unwrapLoadAlloc(v)
	for {
		switch x := v.(type) {
		case *ssa.Convert:
			v = x.X
			continue
		case *ssa.ChangeType:
			v = x.X
			continue
		}
		break
	}
	if c, ok := intConst(v); ok {
		return "const", "", &c
	}
	if u, ok := v.(*ssa.UnOp); ok && u.Op == token.MUL {
		if fa, ok := u.X.(*ssa.FieldAddr); ok && fa.X == recv {
			return "field", structFieldOf(fa).Name(), nil
		}
	}
	if call, ok := v.(*ssa.Call); ok {
		if b, ok := call.Call.Value.(*ssa.Builtin); ok && b.Name() == "len" {
			kk, f, _ := describeVal(call.Call.Args[0], recv)
			if kk == "field" {
				return "len", f, nil
			}
		}
	}
	return "", "", nil
}

// extractWriter enumerates the success paths of a Serialize method.
func extractWriter(w *World, fn *ssa.Function) ([]wPath, string) {
	if len(fn.Params) < 1 {
		return nil, "no receiver"
	}
	recv := ssa.Value(fn.Params[0])
	var buf ssa.Value
	allInstrs(fn, func(in ssa.Instruction) {
		if a, ok := in.(*ssa.Alloc); ok && namedOf(a.Type()) != nil && namedOf(a.Type()).Obj().Name() == "Buffer" && buf == nil {
			buf = a
		}
	})
	if buf == nil {
		return nil, "no bytes.Buffer found (unrecognised writer idiom)"
	}
	var paths []wPath
	var problem string
	type arrState map[ssa.Value]wElem // array alloc -> pending PutUintNN content
	type phiEnv map[*ssa.Phi]ssa.Value
	var walk func(b *ssa.BasicBlock, idx int, cur wPath, arrs arrState, visited map[*ssa.BasicBlock]int, from *ssa.BasicBlock, env phiEnv)
	walk = func(b *ssa.BasicBlock, idx int, cur wPath, arrs arrState, visited map[*ssa.BasicBlock]int, from *ssa.BasicBlock, env phiEnv) {
		// the walk is per path, so a phi has one definite value: the edge of the block we came from
		// (`v := FALSE; if m.Flag { v = TRUE }; buf.WriteByte(v)`)
		if from != nil && idx == 0 {
			ne := phiEnv{}
			for k, v := range env {
				ne[k] = v
			}
			for pi, pb := range b.Preds {
				if pb != from {
					continue
				}
				for _, in := range b.Instrs {
					phi, ok := in.(*ssa.Phi)
					if !ok {
						break
					}
					v := phi.Edges[pi]
					if p2, ok := v.(*ssa.Phi); ok {
						if r, ok := env[p2]; ok {
							v = r
						}
					}
					ne[phi] = v
				}
				break
			}
			env = ne
		}
		resolve := func(v ssa.Value) ssa.Value {
			if phi, ok := v.(*ssa.Phi); ok {
				if r, ok := env[phi]; ok {
					return r
				}
			}
			return v
		}
		if problem != "" || len(paths) > 64 {
			return
		}
		if visited[b] > 1 {
			problem = "loop in serializer"
			return
		}
		visited[b]++
		defer func() { visited[b]-- }()
		errVals := map[ssa.Value]bool{}
		for i := idx; i < len(b.Instrs); i++ {
			switch in := b.Instrs[i].(type) {
			case *ssa.Call:
				cc := in.Common()
				sc := cc.StaticCallee()
				switch {
				case sc != nil && isMethod(sc, "bytes", "Buffer", "WriteByte") && cc.Args[0] == buf:
					kind, f, k := describeVal(resolve(cc.Args[1]), recv)
					switch kind {
					case "const":
						cur.Elems = append(cur.Elems, wElem{Kind: "byte", Const: k})
					case "field":
						cur.Elems = append(cur.Elems, wElem{Kind: "byte", Field: f})
					default:
						problem = "WriteByte of an unrecognised value at " + w.pos(in.Pos())
						return
					}
				case sc != nil && isMethod(sc, "bytes", "Buffer", "Write") && cc.Args[0] == buf:
					arg := cc.Args[1]
					if sl, ok := arg.(*ssa.Slice); ok && sl.Low == nil && sl.High == nil {
						if e, ok := arrs[sl.X]; ok {
							cur.Elems = append(cur.Elems, e)
							break
						}
					}
					kind, f, _ := describeVal(arg, recv)
					if kind == "field" {
						cur.Elems = append(cur.Elems, wElem{Kind: "bytes", Field: f})
					} else {
						problem = "Write of an unrecognised value at " + w.pos(in.Pos())
						return
					}
				case sc != nil && sc.Pkg != nil && sc.Pkg.Pkg.Path() == "encoding/binary" && strings.HasPrefix(sc.Name(), "PutUint"):
					width := map[string]int{"PutUint16": 2, "PutUint32": 4, "PutUint64": 8}[sc.Name()]
					big := strings.Contains(strings.ToLower(typeStr(sc.Signature.Recv().Type())), "bigendian")
					dst, val := cc.Args[1], cc.Args[2]
					sl, ok := dst.(*ssa.Slice)
					kind, f, _ := describeVal(val, recv)
					if !ok || kind != "len" || !big || width == 0 {
						problem = "unrecognised PutUint at " + w.pos(in.Pos())
						return
					}
					// the length is written as it is: no conversion on the way is narrower than the prefix
					if nb := narrowestConv(val); nb > 0 && nb < width {
						problem = fmt.Sprintf("the %d-byte length prefix is computed through a %d-byte integer (lengths >= 2^%d wrap) at %s", width, nb, 8*nb, w.pos(in.Pos()))
						return
					}
					if n, ok := arrayLen(sl.X.Type()); !ok || int(n) != width || sl.Low != nil || sl.High != nil {
						problem = "PutUint destination is not a whole array of the right width at " + w.pos(in.Pos())
						return
					}
					na := arrState{}
					for k, v := range arrs {
						na[k] = v
					}
					na[sl.X] = wElem{Kind: "lenprefix", Field: f, Width: width}
					arrs = na
				case sc != nil && isMethod(sc, "bytes", "Buffer", "Bytes"):
				default:
					// any other call that receives the buffer is unknown
					for _, a := range cc.Args {
						if a == buf {
							problem = "buffer passed to unrecognised call " + calleeLabel(cc) + " at " + w.pos(in.Pos())
							return
						}
					}
				}
			case *ssa.Return:
				if len(in.Results) != 2 {
					problem = "unexpected result arity"
					return
				}
				if !isNilConst(in.Results[1]) {
					return // error path
				}
				call, ok := in.Results[0].(*ssa.Call)
				if !ok || call.Common().StaticCallee() == nil || !isMethod(call.Common().StaticCallee(), "bytes", "Buffer", "Bytes") {
					problem = "success return does not return buf.Bytes() at " + w.pos(in.Pos())
					return
				}
				cp := wPath{Conds: append([]wCond{}, cur.Conds...), Elems: append([]wElem{}, cur.Elems...)}
				paths = append(paths, cp)
				return
			case *ssa.If:
				// err != nil on a buffer write result: only the nil leg is a success path
				if bo, ok := in.Cond.(*ssa.BinOp); ok && (bo.Op == token.NEQ || bo.Op == token.EQL) && isNilConst(bo.Y) && isErrorOfBufferWrite(bo.X, buf) {
					if bo.Op == token.NEQ {
						walk(b.Succs[1], 0, cur, arrs, visited, b, env)
					} else {
						walk(b.Succs[0], 0, cur, arrs, visited, b, env)
					}
					return
				}
				desc := condDesc(w, in.Cond, recv)
				if desc == "" {
					problem = "unrecognised branch condition at " + w.pos(instrPos(in))
					return
				}
				for leg, val := range []bool{true, false} {
					nc := wPath{Conds: append(append([]wCond{}, cur.Conds...), wCond{desc, val}), Elems: append([]wElem{}, cur.Elems...)}
					walk(b.Succs[leg], 0, nc, arrs, visited, b, env)
				}
				return
			case *ssa.Jump:
				walk(b.Succs[0], 0, cur, arrs, visited, b, env)
				return
			}
		}
		_ = errVals
	}
	walk(fn.Blocks[0], 0, wPath{}, arrState{}, map[*ssa.BasicBlock]int{}, nil, phiEnv{})
	if problem != "" {
		return nil, problem
	}
	if len(paths) == 0 {
		return nil, "no success path"
	}
	return paths, ""
}

func isErrorOfBufferWrite(v ssa.Value, buf ssa.Value) bool {
	var call *ssa.Call
	switch x := v.(type) {
	case *ssa.Call:
		call = x
	case *ssa.Extract:
		call, _ = x.Tuple.(*ssa.Call)
	}
	if call == nil {
		return false
	}
	sc := call.Common().StaticCallee()
	return sc != nil && (isMethod(sc, "bytes", "Buffer", "WriteByte") || isMethod(sc, "bytes", "Buffer", "Write")) && call.Common().Args[0] == buf
}

// condDesc describes branch conditions on receiver fields: a bool field, or
// len(field) > 0 (possibly through a conversion).
func condDesc(w *World, cond ssa.Value, recv ssa.Value) string {
	f := normFact(Fact{cond, true})
	neg := !f.Val
	kind, fld, _ := describeVal(f.Cond, recv)
	if kind == "field" {
		if neg {
			return "!field:" + fld
		}
		return "field:" + fld
	}
	if bo, ok := f.Cond.(*ssa.BinOp); ok {
		kx, fx, _ := describeVal(bo.X, recv)
		if c, ok := intConst(bo.Y); ok && c == 0 && kx == "len" && !neg {
			switch bo.Op {
			case token.GTR, token.NEQ:
				return "len(field:" + fx + ")>0"
			}
		}
	}
	return ""
}

// layout is the normal form of a writer: fixed elements, bool encodings.
type layoutElem struct {
	Off       int // byte offset; -1 if after a variable-length element
	Kind      string
	Const     int64
	Field     string
	TrueByte  int64
	FalseByte int64
	Width     int
	OnlyIf    string // element emitted only under this condition
}

func (e layoutElem) String() string {
	s := ""
	switch e.Kind {
	case "const":
		s = fmt.Sprintf("@%d const %d", e.Off, e.Const)
	case "byte":
		s = fmt.Sprintf("@%d byte %s", e.Off, e.Field)
	case "bool":
		s = fmt.Sprintf("@%d bool %s {true:%d,false:%d}", e.Off, e.Field, e.TrueByte, e.FalseByte)
	case "lenprefix":
		s = fmt.Sprintf("@%d u%dbe len(%s)", e.Off, e.Width*8, e.Field)
	case "bytes":
		s = fmt.Sprintf("@%d bytes %s", e.Off, e.Field)
	}
	if e.OnlyIf != "" {
		s += " if " + e.OnlyIf
	}
	return s
}

// normaliseWriter merges the success paths into one layout.
func normaliseWriter(paths []wPath) ([]layoutElem, string) {
	// conditional payload: "len(field:X)>0" true emits bytes(X), false emits nothing: normalise to unconditional
	norm := func(p wPath) wPath {
		out := wPath{}
		skipCond := map[string]bool{}
		for _, c := range p.Conds {
			if strings.HasPrefix(c.Desc, "len(field:") {
				skipCond[c.Desc] = true
				if !c.Val {
					fld := strings.TrimSuffix(strings.TrimPrefix(c.Desc, "len(field:"), ")>0")
					p.Elems = append(append([]wElem{}, p.Elems...), wElem{Kind: "bytes", Field: fld, Conv: "empty"})
				}
				continue
			}
			out.Conds = append(out.Conds, c)
		}
		out.Elems = p.Elems
		return out
	}
	var ps []wPath
	for _, p := range paths {
		ps = append(ps, norm(p))
	}
	n := len(ps[0].Elems)
	for _, p := range ps {
		if len(p.Elems) != n {
			return nil, "success paths emit different numbers of elements"
		}
	}
	var out []layoutElem
	off := 0
	for i := 0; i < n; i++ {
		first := ps[0].Elems[i]
		same := true
		for _, p := range ps {
			if p.Elems[i].String() != first.String() {
				same = false
			}
		}
		le := layoutElem{Off: off}
		if same {
			switch first.Kind {
			case "byte":
				if first.Const != nil {
					le.Kind, le.Const = "const", *first.Const
				} else {
					le.Kind, le.Field = "byte", first.Field
				}
				if off >= 0 {
					off++
				}
			case "lenprefix":
				le.Kind, le.Field, le.Width = "lenprefix", first.Field, first.Width
				if off >= 0 {
					off += first.Width
				}
			case "bytes":
				le.Kind, le.Field = "bytes", first.Field
				off = -1
			}
			out = append(out, le)
			continue
		}
		// differs: must be const bytes determined by exactly one bool field condition
		type tv struct{ t, f map[int64]bool }
		byField := map[string]*tv{}
		for _, p := range ps {
			e := p.Elems[i]
			if e.Kind != "byte" || e.Const == nil {
				return nil, fmt.Sprintf("element %d varies between paths but is not a constant byte", i)
			}
			for _, c := range p.Conds {
				if !strings.HasPrefix(c.Desc, "field:") {
					return nil, "unrecognised path condition " + c.Desc
				}
				f := strings.TrimPrefix(c.Desc, "field:")
				if byField[f] == nil {
					byField[f] = &tv{map[int64]bool{}, map[int64]bool{}}
				}
				if c.Val {
					byField[f].t[*e.Const] = true
				} else {
					byField[f].f[*e.Const] = true
				}
			}
		}
		found := ""
		var names []string
		for f := range byField {
			names = append(names, f)
		}
		sort.Strings(names)
		for _, f := range names {
			v := byField[f]
			if len(v.t) == 1 && len(v.f) == 1 {
				var tb, fb int64
				for k := range v.t {
					tb = k
				}
				for k := range v.f {
					fb = k
				}
				if tb != fb {
					if found != "" {
						return nil, fmt.Sprintf("element %d is determined by more than one field", i)
					}
					found = f
					le.Kind, le.Field, le.TrueByte, le.FalseByte = "bool", f, tb, fb
				}
			}
		}
		if found == "" {
			return nil, fmt.Sprintf("element %d varies between paths in a way no single bool field explains", i)
		}
		if off >= 0 {
			off++
		}
		out = append(out, le)
	}
	return out, ""
}

// ---------------------------------------------------------------------------
// reader side

type rField struct {
	Field string
	Kind  string // byte | booleq | rest | range
	Off   int
	Const int64  // for booleq
	LenAt [2]int // for range: length prefix bytes [lo,hi)
	Width int
	Cond  string
}

func (f rField) String() string {
	switch f.Kind {
	case "byte":
		return fmt.Sprintf("%s = b[%d]", f.Field, f.Off)
	case "booleq":
		return fmt.Sprintf("%s = b[%d] == %d", f.Field, f.Off, f.Const)
	case "rest":
		return fmt.Sprintf("%s = b[%d:]", f.Field, f.Off)
	case "range":
		return fmt.Sprintf("%s = b[%d:%d+u%dbe(b[%d:%d])]", f.Field, f.Off, f.Off, f.Width*8, f.LenAt[0], f.LenAt[1])
	}
	return f.Field + " = ?"
}

type rCase struct {
	Type   *types.Named
	Tag    *int64
	MinLen int64
	Fields []rField
	Pos    token.Pos
	Bad    string
}

// inputByte: v == load(&b[k]) for the input parameter b.
func inputByteAt(v ssa.Value, b ssa.Value) (int, bool) {
	u, ok := unwrapLoadAlloc(v).(*ssa.UnOp)
	if !ok || u.Op != token.MUL {
		return 0, false
	}
	ia, ok := u.X.(*ssa.IndexAddr)
	if !ok || ia.X != b {
		return 0, false
	}
	k, ok := intConst(ia.Index)
	return int(k), ok
}

func describeReaderVal(w *World, v ssa.Value, b ssa.Value) (rField, bool) {
	v = unwrapLoadAlloc(v)
	if k, ok := inputByteAt(v, b); ok {
		return rField{Kind: "byte", Off: k}, true
	}
	if bo, ok := v.(*ssa.BinOp); ok && bo.Op == token.EQL {
		if k, ok := inputByteAt(bo.X, b); ok {
			if c, ok := intConst(bo.Y); ok {
				return rField{Kind: "booleq", Off: k, Const: c}, true
			}
		}
		if k, ok := inputByteAt(bo.Y, b); ok {
			if c, ok := intConst(bo.X); ok {
				return rField{Kind: "booleq", Off: k, Const: c}, true
			}
		}
	}
	if sl, ok := v.(*ssa.Slice); ok && sl.X == b && sl.Max == nil {
		lo := 0
		if sl.Low != nil {
			k, ok := intConst(sl.Low)
			if !ok {
				return rField{}, false
			}
			lo = int(k)
		}
		if sl.High == nil {
			return rField{Kind: "rest", Off: lo}, true
		}
		// high = lo + int(UintNN(b[x:y]))
		if add, ok := sl.High.(*ssa.BinOp); ok && add.Op == token.ADD {
			for _, pr := range [][2]ssa.Value{{add.X, add.Y}, {add.Y, add.X}} {
				k, ok := intConst(pr[0])
				if !ok || int(k) != lo {
					continue
				}
				if at, width, ok := uintOfInput(pr[1], b); ok {
					return rField{Kind: "range", Off: lo, LenAt: at, Width: width}, true
				}
			}
		}
	}
	return rField{}, false
}

// uintOfInput: v == conv(binary.BigEndian.UintNN(b[x:y]))
func uintOfInput(v ssa.Value, b ssa.Value) ([2]int, int, bool) {
	for {
		switch x := v.(type) {
		case *ssa.Convert:
			v = x.X
			continue
		case *ssa.ChangeType:
			v = x.X
			continue
		}
		break
	}
	call, ok := v.(*ssa.Call)
	if !ok {
		return [2]int{}, 0, false
	}
	sc := call.Common().StaticCallee()
	if sc == nil || sc.Pkg == nil || sc.Pkg.Pkg.Path() != "encoding/binary" || sc.Signature.Recv() == nil {
		return [2]int{}, 0, false
	}
	if !strings.Contains(strings.ToLower(typeStr(sc.Signature.Recv().Type())), "bigendian") {
		return [2]int{}, 0, false
	}
	width := map[string]int{"Uint16": 2, "Uint32": 4, "Uint64": 8}[sc.Name()]
	if width == 0 {
		return [2]int{}, 0, false
	}
	sl, ok := call.Common().Args[1].(*ssa.Slice)
	if !ok || sl.X != b || sl.Low == nil || sl.High == nil {
		return [2]int{}, 0, false
	}
	lo, ok1 := intConst(sl.Low)
	hi, ok2 := intConst(sl.High)
	if !ok1 || !ok2 || int(hi-lo) != width {
		return [2]int{}, 0, false
	}
	return [2]int{int(lo), int(hi)}, width, true
}

// extractGBNReader analyses gbn.Deserialize.
func extractGBNReader(c *Checker, rg *Ranger, fn *ssa.Function) []rCase {
	w := c.w
	b := ssa.Value(fn.Params[0])
	var cases []rCase
	allInstrs(fn, func(in ssa.Instruction) {
		ret, ok := in.(*ssa.Return)
		if !ok || len(ret.Results) != 2 || !isNilConst(ret.Results[1]) {
			return
		}
		mi, ok := ret.Results[0].(*ssa.MakeInterface)
		if !ok {
			cases = append(cases, rCase{Pos: instrPos(ret), Bad: "success return of an unrecognised value"})
			return
		}
		al, ok := mi.X.(*ssa.Alloc)
		nt := namedOf(mi.X.Type())
		if !ok || nt == nil {
			cases = append(cases, rCase{Pos: instrPos(ret), Bad: "returned message is not a fresh struct"})
			return
		}
		rc := rCase{Type: nt, Pos: instrPos(ret)}
		facts := factsAt(ret.Block())
		for _, f := range facts {
			bo, ok := f.Cond.(*ssa.BinOp)
			if !ok || bo.Op != token.EQL || !f.Val {
				continue
			}
			if k, ok := inputByteAt(bo.X, b); ok && k == 0 {
				if cst, ok := intConst(bo.Y); ok {
					v := cst
					rc.Tag = &v
				}
			}
		}
		rc.MinLen = rg.minLen(b, facts)
		for _, r := range *al.Referrers() {
			fa, ok := r.(*ssa.FieldAddr)
			if !ok {
				continue
			}
			for _, r2 := range *fa.Referrers() {
				st, ok := r2.(*ssa.Store)
				if !ok || st.Addr != fa {
					continue
				}
				rf, ok := describeReaderVal(w, st.Val, b)
				rf.Field = structFieldOf(fa).Name()
				if !ok {
					rf.Kind = "?"
					rc.Bad = "field " + rf.Field + " is decoded from an unrecognised expression " + w.canonFB(st.Val)
				}
				rc.Fields = append(rc.Fields, rf)
			}
		}
		cases = append(cases, rc)
	})
	return cases
}

func runC19(c *Checker) {
	w := c.w
	rg := newRanger(w)
	ruleCodecErrUsed(c)

	// ---- gbn packets ----
	msgIface := w.Named("gbn.Message")
	deser := w.Func("gbn.Deserialize")
	if msgIface == nil || deser == nil {
		c.anchorFail("gbn.Message / gbn.Deserialize")
		return
	}
	iface := msgIface.Underlying().(*types.Interface)
	// all Message implementations in gbn
	var impls []*types.Named
	sc := w.Pkgs[targetGBN].Types.Scope()
	for _, name := range sc.Names() {
		tn, ok := sc.Lookup(name).(*types.TypeName)
		if !ok || tn.IsAlias() {
			continue
		}
		nt, ok := tn.Type().(*types.Named)
		if !ok || types.IsInterface(nt) {
			continue
		}
		if types.Implements(types.NewPointer(nt), iface) || types.Implements(nt, iface) {
			impls = append(impls, nt)
		}
	}
	writers := map[string][]layoutElem{}
	for _, nt := range impls {
		name := nt.Obj().Name()
		fn := w.Func("(*gbn." + name + ").Serialize")
		if fn == nil {
			fn = w.Func("(gbn." + name + ").Serialize")
		}
		if fn == nil {
			c.anchorFail("Serialize of gbn." + name)
			continue
		}
		paths, prob := extractWriter(w, fn)
		if prob != "" {
			c.undecided("CODEC", "writer|gbn."+name, fn.Pos(), "writer layout not extractable: "+prob)
			continue
		}
		lay, prob := normaliseWriter(paths)
		if prob != "" {
			c.undecided("CODEC", "writer|gbn."+name, fn.Pos(), "writer layout not normalisable: "+prob)
			continue
		}
		writers[name] = lay
		var ss []string
		for _, e := range lay {
			ss = append(ss, e.String())
		}
		c.ok("CODEC", "writer|gbn."+name, fn.Pos(), fmt.Sprintf("%d success paths; layout: %s", len(paths), strings.Join(ss, "; ")))
	}
	cases := extractGBNReader(c, rg, deser)
	readers := map[string]rCase{}
	tags := map[int64]string{}
	for _, rc := range cases {
		if rc.Type == nil {
			c.undecided("CODEC", "reader|gbn.Deserialize|?", rc.Pos, rc.Bad)
			continue
		}
		name := rc.Type.Obj().Name()
		if _, dup := readers[name]; dup {
			c.fail("CODEC", "reader|gbn."+name+"|dup", rc.Pos, "two success returns produce the same message type")
		}
		readers[name] = rc
	}
	for _, nt := range impls {
		name := nt.Obj().Name()
		lay, okw := writers[name]
		rc, okr := readers[name]
		if !okr {
			c.fail("CODEC", "reader|gbn."+name, deser.Pos(), "Message implementation has no case in gbn.Deserialize: the peer can send it but we can never decode it")
			continue
		}
		if !okw {
			continue
		}
		compareGBN(c, name, nt, lay, rc, tags)
	}
	for name, rc := range readers {
		found := false
		for _, nt := range impls {
			if nt.Obj().Name() == name {
				found = true
			}
		}
		if !found {
			c.fail("CODEC", "reader|gbn."+name, rc.Pos, "Deserialize returns a type that is not a Message implementation with a Serialize method")
		}
	}
	ruleCodecRejects(c, deser, ssa.Value(deser.Params[0]), "gbn.Deserialize")
	if des := w.Func("(*mailbox.MsgData).Deserialize"); des != nil {
		ruleCodecRejects(c, des, ssa.Value(des.Params[1]), "mailbox.MsgData.Deserialize")
	}
	// default / short input: all other returns carry a non-nil error (type-level: result 0 nil)
	c.floor("CODEC", 6*3)

	// ---- mailbox MsgData ----
	compareMsgData(c, rg)
}

func compareGBN(c *Checker, name string, nt *types.Named, lay []layoutElem, rc rCase, tags map[int64]string) {
	pos := rc.Pos
	key := func(s string) string { return "gbn." + name + "|" + s }
	if rc.Bad != "" {
		c.undecided("CODEC", key("reader"), pos, rc.Bad)
		return
	}
	// tag
	if len(lay) == 0 || lay[0].Kind != "const" || lay[0].Off != 0 {
		c.fail("CODEC", key("tag"), pos, "writer does not start with a constant type byte")
		return
	}
	if rc.Tag == nil {
		c.fail("CODEC", key("tag"), pos, "reader case is not guarded by a test of b[0] against a constant")
		return
	}
	c.decide(*rc.Tag == lay[0].Const, "CODEC", key("tag"), pos,
		fmt.Sprintf("type byte %d written and tested", lay[0].Const),
		fmt.Sprintf("writer emits type byte %d but the reader case for %s tests %d", lay[0].Const, name, *rc.Tag))
	if other, dup := tags[lay[0].Const]; dup {
		c.fail("CODEC", key("tag-unique"), pos, fmt.Sprintf("type byte %d is also used by %s", lay[0].Const, other))
	} else {
		tags[lay[0].Const] = name
		c.ok("CODEC", key("tag-unique"), pos, "type byte is unique among the message types")
	}
	// fixed header size and guard
	fixed := 0
	for _, e := range lay {
		switch e.Kind {
		case "const", "byte", "bool":
			fixed = e.Off + 1
		}
	}
	c.decide(rc.MinLen == int64(fixed), "CODEC", key("guard"), pos,
		fmt.Sprintf("length guard %d equals the fixed header size", rc.MinLen),
		fmt.Sprintf("reader accepts inputs of length >= %d but the fixed header the writer emits is %d bytes", rc.MinLen, fixed))
	// fields
	st := nt.Underlying().(*types.Struct)
	rf := map[string]rField{}
	for _, f := range rc.Fields {
		rf[f.Field] = f
	}
	wf := map[string]layoutElem{}
	for _, e := range lay {
		if e.Field != "" {
			if _, dup := wf[e.Field]; dup {
				c.fail("CODEC", key("field|"+e.Field), pos, "field written twice")
			}
			wf[e.Field] = e
		}
	}
	for i := 0; i < st.NumFields(); i++ {
		fname := st.Field(i).Name()
		we, okw := wf[fname]
		re, okr := rf[fname]
		k := key("field|" + fname)
		switch {
		case !okw && !okr:
			c.fail("CODEC", k, pos, "field is neither written nor read: it cannot round-trip")
		case !okw:
			c.fail("CODEC", k, pos, "field is read ("+re.String()+") but never written")
		case !okr:
			c.fail("CODEC", k, pos, "field is written ("+we.String()+") but never read")
		default:
			okk, why := false, ""
			switch we.Kind {
			case "byte":
				okk = re.Kind == "byte" && re.Off == we.Off
			case "bool":
				okk = re.Kind == "booleq" && re.Off == we.Off && re.Const == we.TrueByte && we.FalseByte != we.TrueByte
				if re.Kind == "booleq" && re.Off == we.Off && re.Const != we.TrueByte {
					why = fmt.Sprintf(" (reader compares with %d, writer encodes true as %d)", re.Const, we.TrueByte)
				}
			case "bytes":
				okk = re.Kind == "rest" && we.Off >= 0 && re.Off == we.Off && we.Off == fixed
			}
			c.decide(okk, "CODEC", k, pos, "written as "+we.String()+", read as "+re.String(),
				"writer and reader disagree: written as "+we.String()+", read as "+re.String()+why)
		}
	}
	for _, f := range rc.Fields {
		found := false
		for i := 0; i < st.NumFields(); i++ {
			if st.Field(i).Name() == f.Field {
				found = true
			}
		}
		if !found {
			c.fail("CODEC", key("field|"+f.Field), pos, "reader sets an unknown field")
		}
	}
}

// compareMsgData checks (*MsgData).Serialize against (*MsgData).Deserialize.
func compareMsgData(c *Checker, rg *Ranger) {
	w := c.w
	ser := w.Func("(*mailbox.MsgData).Serialize")
	des := w.Func("(*mailbox.MsgData).Deserialize")
	if ser == nil || des == nil {
		c.anchorFail("(*mailbox.MsgData).Serialize/Deserialize")
		return
	}
	paths, prob := extractWriter(w, ser)
	if prob != "" {
		c.undecided("CODEC", "writer|mailbox.MsgData", ser.Pos(), "writer layout not extractable: "+prob)
		return
	}
	lay, prob := normaliseWriter(paths)
	if prob != "" {
		c.undecided("CODEC", "writer|mailbox.MsgData", ser.Pos(), "writer layout not normalisable: "+prob)
		return
	}
	var ss []string
	for _, e := range lay {
		ss = append(ss, e.String())
	}
	c.ok("CODEC", "writer|mailbox.MsgData", ser.Pos(), fmt.Sprintf("%d success paths; layout: %s", len(paths), strings.Join(ss, "; ")))

	// reader: the single nil return; stores to receiver fields
	recv, b := ssa.Value(des.Params[0]), ssa.Value(des.Params[1])
	var rets []*ssa.Return
	allInstrs(des, func(in ssa.Instruction) {
		if r, ok := in.(*ssa.Return); ok && len(r.Results) == 1 && isNilConst(r.Results[0]) {
			rets = append(rets, r)
		}
	})
	if len(rets) != 1 {
		c.undecided("CODEC", "reader|mailbox.MsgData", des.Pos(), fmt.Sprintf("%d success returns (expected 1)", len(rets)))
		return
	}
	ret := rets[0]
	facts := factsAt(ret.Block())
	min := rg.minLen(b, facts)
	rf := map[string]rField{}
	var lenGuard *rField
	allInstrs(des, func(in ssa.Instruction) {
		st, ok := in.(*ssa.Store)
		if !ok {
			return
		}
		fa, ok := st.Addr.(*ssa.FieldAddr)
		if !ok || fa.X != recv {
			return
		}
		f, ok := describeReaderVal(w, st.Val, b)
		f.Field = structFieldOf(fa).Name()
		if !ok {
			f.Kind = "?"
		}
		// condition under which the store happens
		for _, ft := range factsAt(st.Block()) {
			if bo, ok := ft.Cond.(*ssa.BinOp); ok && ft.Val && (bo.Op == token.GTR || bo.Op == token.NEQ) {
				if _, _, ok := uintOfInput(bo.X, b); ok {
					if k, ok := intConst(bo.Y); ok && k == 0 {
						f.Cond = "len>0"
					}
				}
			}
		}
		// the store must dominate the success return or be under the len>0 condition only
		if !st.Block().Dominates(ret.Block()) && f.Cond == "" {
			f.Kind = "?"
		}
		rf[f.Field] = f
		if f.Kind == "range" {
			ff := f
			lenGuard = &ff
		}
	})
	// guard len(b) >= off + prefix value
	guardOK := false
	if lenGuard != nil {
		for _, ft := range facts {
			bo, ok := ft.Cond.(*ssa.BinOp)
			if !ok || ft.Val || bo.Op != token.LSS {
				continue
			}
			call, ok := bo.X.(*ssa.Call)
			if !ok {
				continue
			}
			if bi, ok := call.Call.Value.(*ssa.Builtin); !ok || bi.Name() != "len" || call.Call.Args[0] != b {
				continue
			}
			if add, ok := bo.Y.(*ssa.BinOp); ok && add.Op == token.ADD {
				for _, pr := range [][2]ssa.Value{{add.X, add.Y}, {add.Y, add.X}} {
					k, ok := intConst(pr[0])
					if !ok || int(k) != lenGuard.Off {
						continue
					}
					if at, _, ok := uintOfInput(pr[1], b); ok && at == lenGuard.LenAt {
						guardOK = true
					}
				}
			}
		}
	}
	pos := des.Pos()
	key := func(s string) string { return "mailbox.MsgData|" + s }
	// compare
	var wVersion, wLen, wPayload *layoutElem
	for i := range lay {
		e := &lay[i]
		switch {
		case e.Kind == "byte" && e.Off == 0:
			wVersion = e
		case e.Kind == "lenprefix":
			wLen = e
		case e.Kind == "bytes":
			wPayload = e
		}
	}
	if wVersion == nil || wLen == nil || wPayload == nil || len(lay) != 3 {
		c.fail("CODEC", key("shape"), ser.Pos(), "writer layout is not [version byte][length prefix][payload]: "+strings.Join(ss, "; "))
		return
	}
	c.ok("CODEC", key("shape"), ser.Pos(), "writer layout is [version byte][length prefix][payload]")
	rv, okv := rf[wVersion.Field]
	c.decide(okv && rv.Kind == "byte" && rv.Off == 0, "CODEC", key("field|"+wVersion.Field), pos,
		"version written at offset 0 and read from b[0]", "version byte is written at offset 0 but read as "+rv.String())
	rp, okp := rf[wPayload.Field]
	fixed := wLen.Off + wLen.Width
	okRange := okp && rp.Kind == "range" && rp.Off == fixed && rp.LenAt == [2]int{wLen.Off, wLen.Off + wLen.Width} && rp.Width == wLen.Width && wLen.Field == wPayload.Field
	c.decide(okRange, "CODEC", key("field|"+wPayload.Field), pos,
		fmt.Sprintf("payload written after a %d-byte big-endian length at offset %d and read as %s", wLen.Width, wLen.Off, rp.String()),
		fmt.Sprintf("length prefix/payload disagree: writer %s; %s, reader %s", wLen.String(), wPayload.String(), rp.String()))
	c.decide(min == int64(fixed), "CODEC", key("guard"), pos,
		fmt.Sprintf("base length guard %d equals the fixed header size", min),
		fmt.Sprintf("reader requires %d bytes but the fixed header is %d bytes", min, fixed))
	c.decide(guardOK, "CODEC", key("guard-payload"), pos,
		"success is dominated by !(len(b) < header + announced length)",
		"no dominating guard ties len(b) to header size + announced payload length")
	// every struct field covered
	nt := w.Named("mailbox.MsgData")
	if nt != nil {
		st := nt.Underlying().(*types.Struct)
		for i := 0; i < st.NumFields(); i++ {
			n := st.Field(i).Name()
			if n != wVersion.Field && n != wPayload.Field {
				c.fail("CODEC", key("field|"+n), pos, "field is not covered by the codec")
			}
		}
	}
}

// ruleCodecRejects: the reader accepts everything the writer can emit. Every return of a
// Deserialize function may depend only on (1) tests of the tag byte b[0] against constants
// and (2) comparisons of len(b) with a constant or with constant + announced length; a
// rejecting return must be decided by "input too short" or by the tag. Any other condition
// (a bound on a field value, on the announced length, on the input size from above) makes
// some serialisable message undecodable or decodable differently.
func ruleCodecRejects(c *Checker, fn *ssa.Function, b ssa.Value, label string) {
	w := c.w
	isLenB := func(v ssa.Value) bool {
		call, ok := v.(*ssa.Call)
		if !ok {
			return false
		}
		bi, ok := call.Call.Value.(*ssa.Builtin)
		return ok && bi.Name() == "len" && len(call.Call.Args) == 1 && call.Call.Args[0] == b
	}
	isBound := func(v ssa.Value) bool {
		if _, ok := intConst(v); ok {
			return true
		}
		if add, ok := v.(*ssa.BinOp); ok && add.Op == token.ADD {
			for _, pr := range [][2]ssa.Value{{add.X, add.Y}, {add.Y, add.X}} {
				if _, ok := intConst(pr[0]); !ok {
					continue
				}
				if _, _, ok := uintOfInput(pr[1], b); ok {
					return true
				}
			}
		}
		return false
	}
	// classify: "tag", "short" (holds when the input is too short), "long-enough", or ""
	classify := func(f Fact) string {
		bo, ok := f.Cond.(*ssa.BinOp)
		if !ok {
			return ""
		}
		if k, ok := inputByteAt(bo.X, b); ok && k == 0 && (bo.Op == token.EQL || bo.Op == token.NEQ) {
			if _, ok := intConst(bo.Y); ok {
				return "tag"
			}
		}
		if k, ok := inputByteAt(bo.Y, b); ok && k == 0 && (bo.Op == token.EQL || bo.Op == token.NEQ) {
			if _, ok := intConst(bo.X); ok {
				return "tag"
			}
		}
		op, val := bo.Op, f.Val
		var lenLeft bool
		switch {
		case isLenB(bo.X) && isBound(bo.Y):
			lenLeft = true
		case isLenB(bo.Y) && isBound(bo.X):
			lenLeft = false
		default:
			return ""
		}
		if !lenLeft {
			switch op {
			case token.LSS:
				op = token.GTR
			case token.LEQ:
				op = token.GEQ
			case token.GTR:
				op = token.LSS
			case token.GEQ:
				op = token.LEQ
			}
		}
		// "short" when the established relation bounds len(b) from above
		switch op {
		case token.LSS, token.LEQ:
			if val {
				return "short"
			}
			return "long-enough"
		case token.GTR, token.GEQ:
			if val {
				return "long-enough"
			}
			return "short"
		case token.EQL:
			if k, ok := intConst(bo.Y); ok && k == 0 && lenLeft {
				if val {
					return "short"
				}
				return "long-enough"
			}
		case token.NEQ:
			if k, ok := intConst(bo.Y); ok && k == 0 && lenLeft {
				if val {
					return "long-enough"
				}
				return "short"
			}
		}
		return ""
	}
	n := 0
	allInstrs(fn, func(in ssa.Instruction) {
		ret, ok := in.(*ssa.Return)
		if !ok || len(ret.Results) == 0 {
			return
		}
		n++
		isErr := !isNilConst(ret.Results[len(ret.Results)-1])
		facts := factsAt(ret.Block())
		kind := map[bool]string{true: "reject", false: "accept"}[isErr]
		key := fmt.Sprintf("%s|%s-%d depends only on tag and input length", label, kind, n)
		bad := ""
		for _, f := range facts {
			if classify(f) == "" {
				bad = "depends on " + w.canonFB(f.Cond) + fmt.Sprintf(" (=%v)", f.Val)
				break
			}
		}
		if bad == "" && isErr {
			if len(facts) == 0 {
				bad = "is unconditional"
			} else if k := classify(facts[0]); k != "short" && k != "tag" {
				bad = "is decided by " + w.canonFB(facts[0].Cond) + fmt.Sprintf(" (=%v)", facts[0].Val) + ", which is neither 'input too short' nor a tag test"
			}
		}
		if bad == "" && !isErr {
			for _, f := range facts {
				if classify(f) == "short" {
					bad = "is taken for an input that is too short: " + w.canonFB(f.Cond)
				}
			}
		}
		c.decide(bad == "", "CODEC", key, instrPos(ret), "decided by tag tests and 'input too short' guards only",
			"this "+kind+" return of the reader "+bad+": the reader's accepted language differs from what the writer emits (a serialisable message is refused or read differently)")
	})
}

// narrowestConv returns the size in bytes of the narrowest integer type a value passes
// through on its chain of conversions (0 if there is no sized integer conversion).
func narrowestConv(v ssa.Value) int {
	min := 0
	for i := 0; i < 8; i++ {
		v = unwrapLoadAlloc(v)
		cv, ok := v.(*ssa.Convert)
		if !ok {
			break
		}
		if b, ok := cv.Type().Underlying().(*types.Basic); ok {
			sz := 0
			switch b.Kind() {
			case types.Uint8, types.Int8:
				sz = 1
			case types.Uint16, types.Int16:
				sz = 2
			case types.Uint32, types.Int32:
				sz = 4
			case types.Uint64, types.Int64, types.Int, types.Uint:
				sz = 8
			}
			if sz > 0 && (min == 0 || sz < min) {
				min = sz
			}
		}
		v = cv.X
	}
	return min
}

// ruleCodecErrUsed: "malformed inputs are rejected" only helps if the rejection is looked at: at
// every call of a Serialize/Deserialize function or method of the two packages the error result
// is used (tested, returned or passed on) - never dropped.
func ruleCodecErrUsed(c *Checker) {
	w := c.w
	n := 0
	for _, fn := range w.Funcs {
		ps := w.pkgShort(fn)
		if (ps != targetMbox && ps != targetGBN) || strings.HasSuffix(w.Fset.Position(fn.Pos()).Filename, "_test.go") {
			continue
		}
		allInstrs(fn, func(in ssa.Instruction) {
			call, ok := in.(*ssa.Call)
			if !ok {
				return
			}
			cc := call.Common()
			name := ""
			var sig *types.Signature
			if cc.IsInvoke() {
				name = cc.Method.Name()
				sig, _ = cc.Method.Type().(*types.Signature)
				if nn := namedOf(cc.Value.Type()); nn == nil || nn.Obj().Pkg() == nil || !(strings.HasSuffix(nn.Obj().Pkg().Path(), "/mailbox") || strings.HasSuffix(nn.Obj().Pkg().Path(), "/gbn")) {
					return
				}
			} else if sc := cc.StaticCallee(); sc != nil {
				name = sc.Name()
				sig = sc.Signature
				if p := w.pkgShort(sc); p != targetMbox && p != targetGBN {
					return
				}
			}
			if (name != "Serialize" && name != "Deserialize") || sig == nil || sig.Results().Len() == 0 {
				return
			}
			last := sig.Results().Len() - 1
			if !types.Identical(sig.Results().At(last).Type(), types.Universe.Lookup("error").Type()) {
				return
			}
			n++
			used := false
			refs := call.Referrers()
			if refs != nil {
				for _, r := range *refs {
					if _, isDbg := r.(*ssa.DebugRef); isDbg {
						continue
					}
					if sig.Results().Len() == 1 {
						used = true
						continue
					}
					if ex, ok := r.(*ssa.Extract); ok && ex.Index == last {
						for _, r2 := range *ex.Referrers() {
							if _, isDbg := r2.(*ssa.DebugRef); !isDbg {
								used = true
							}
						}
					}
				}
			}
			c.decide(used, "CODEC", "error used|"+fnName(fn)+"|"+calleeLabel(cc), instrPos(call), "the codec's error result is looked at",
				"the error of "+calleeLabel(cc)+" is dropped in "+fnName(fn)+": a malformed message is treated as a valid (empty or partial) one")
		})
	}
	c.decide(n >= 8, "CODEC", "error used|sites", token.NoPos, fmt.Sprintf("%d codec call sites", n), fmt.Sprintf("only %d Serialize/Deserialize call sites found", n))
}
