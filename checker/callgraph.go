package main

import (
	"go/token"
	"go/types"
	"strings"

	"golang.org/x/tools/go/ssa"
)

// CallGraph is a field/type-based call resolution restricted to the target
// packages (callees outside the targets are reported as external labels).
type CallGraph struct {
	w *World
	// callees of each call instruction (target functions only)
	callees map[ssa.CallInstruction][]*ssa.Function
	// callers of each target function
	callers map[*ssa.Function][]CallSite
	// addrTaken marks functions used as values
	addrTaken map[*ssa.Function]bool
	// funcsBySig indexes address-taken functions by signature string
	funcsBySig map[string][]*ssa.Function
	// fieldFuncs: functions stored into func-typed struct fields
	fieldFuncs map[*types.Var][]*ssa.Function
	// unresolved dynamic calls (no candidate found)
	unresolved []ssa.CallInstruction
}

// boundTarget resolves a synthetic bound-method / thunk wrapper to the wrapped
// source function.
func (w *World) boundTarget(f *ssa.Function) *ssa.Function {
	if f == nil {
		return nil
	}
	if f.Synthetic == "" || strings.HasPrefix(f.Synthetic, "package init") {
		return f
	}
	var tgt *ssa.Function
	for _, b := range f.Blocks {
		for _, in := range b.Instrs {
			if c, ok := in.(ssa.CallInstruction); ok {
				if sc := c.Common().StaticCallee(); sc != nil {
					tgt = sc
				}
			}
		}
	}
	if tgt != nil && tgt != f {
		return w.boundTarget(tgt)
	}
	return nil
}

// funcValue resolves v to the function it denotes if it is a function literal,
// a named function, or a closure over one.
func (w *World) funcValue(v ssa.Value) *ssa.Function {
	switch v := v.(type) {
	case *ssa.Function:
		return w.boundTarget(v)
	case *ssa.MakeClosure:
		if f, ok := v.Fn.(*ssa.Function); ok {
			return w.boundTarget(f)
		}
	case *ssa.ChangeType:
		return w.funcValue(v.X)
	case *ssa.MakeInterface:
		return w.funcValue(v.X)
	}
	return nil
}

func sigKey(t types.Type) string {
	s, ok := t.Underlying().(*types.Signature)
	if !ok {
		return ""
	}
	// ignore receiver
	return types.TypeString(types.NewSignatureType(nil, nil, nil, s.Params(), s.Results(), s.Variadic()), nil)
}

// CG builds (once) and returns the call graph.
func (w *World) CG() *CallGraph {
	if w.cg != nil {
		return w.cg
	}
	g := &CallGraph{
		w:          w,
		callees:    map[ssa.CallInstruction][]*ssa.Function{},
		callers:    map[*ssa.Function][]CallSite{},
		addrTaken:  map[*ssa.Function]bool{},
		funcsBySig: map[string][]*ssa.Function{},
		fieldFuncs: map[*types.Var][]*ssa.Function{},
	}
	w.cg = g
	// pass 1: address-taken functions and field-stored functions
	for _, f := range w.Funcs {
		allInstrs(f, func(in ssa.Instruction) {
			ops := in.Operands(nil)
			var callVal ssa.Value
			if c, ok := in.(ssa.CallInstruction); ok && !c.Common().IsInvoke() {
				callVal = c.Common().Value
			}
			for _, op := range ops {
				if *op == nil {
					continue
				}
				if *op == callVal {
					// callee position: not a value use (closures are judged by their referrers below)
					isArg := false
					if c, ok := in.(ssa.CallInstruction); ok {
						for _, a := range c.Common().Args {
							if a == *op {
								isArg = true
							}
						}
					}
					if !isArg {
						continue
					}
				}
				if fv := w.funcValue(*op); fv != nil && w.inTargets(fv) {
					if _, isCl := in.(*ssa.MakeClosure); isCl && *op == in.(*ssa.MakeClosure).Fn {
						// the MakeClosure instruction itself references its Fn;
						// whether the closure value escapes is seen at its uses
						continue
					}
					g.addrTaken[fv] = true
				}
			}
			if st, ok := in.(*ssa.Store); ok {
				if fa, ok := st.Addr.(*ssa.FieldAddr); ok {
					if fv := w.funcValue(st.Val); fv != nil {
						fld := structFieldOf(fa)
						g.fieldFuncs[fld] = appendUniqueFn(g.fieldFuncs[fld], fv)
					}
				}
			}
		})
	}
	// a closure created by MakeClosure is address-taken unless its only use is
	// as the callee of a call / go / defer
	for _, f := range w.Funcs {
		allInstrs(f, func(in ssa.Instruction) {
			mc, ok := in.(*ssa.MakeClosure)
			if !ok {
				return
			}
			fn := w.funcValue(mc)
			if fn == nil {
				return
			}
			for _, r := range *mc.Referrers() {
				if c, ok := r.(ssa.CallInstruction); ok && c.Common().Value == mc {
					uses := 0
					for _, a := range c.Common().Args {
						if a == mc {
							uses++
						}
					}
					if uses == 0 {
						continue
					}
				}
				g.addrTaken[fn] = true
			}
		})
	}
	for f := range g.addrTaken {
		k := sigKey(f.Signature)
		g.funcsBySig[k] = appendUniqueFn(g.funcsBySig[k], f)
	}
	// pass 2: resolve calls
	for _, f := range w.Funcs {
		allInstrs(f, func(in ssa.Instruction) {
			c, ok := in.(ssa.CallInstruction)
			if !ok {
				return
			}
			cs := g.resolve(c)
			g.callees[c] = cs
			for _, callee := range cs {
				g.callers[callee] = append(g.callers[callee], CallSite{Caller: f, Instr: c})
			}
		})
	}
	return g
}

func appendUniqueFn(s []*ssa.Function, f *ssa.Function) []*ssa.Function {
	for _, x := range s {
		if x == f {
			return s
		}
	}
	return append(s, f)
}

func (g *CallGraph) resolve(c ssa.CallInstruction) []*ssa.Function {
	w := g.w
	cc := c.Common()
	var out []*ssa.Function
	add := func(f *ssa.Function) {
		if f != nil && f.Blocks != nil && w.inTargets(f) {
			out = appendUniqueFn(out, f)
		}
	}
	if cc.IsInvoke() {
		// CHA over target types
		iface, _ := cc.Value.Type().Underlying().(*types.Interface)
		if iface != nil {
			for _, sp := range w.SSA {
				for _, m := range sp.Members {
					tm, ok := m.(*ssa.Type)
					if !ok {
						continue
					}
					for _, t := range []types.Type{tm.Type(), types.NewPointer(tm.Type())} {
						if types.IsInterface(t) {
							continue
						}
						if !types.Implements(t, iface) {
							continue
						}
						sel := w.Prog.MethodSets.MethodSet(t).Lookup(cc.Method.Pkg(), cc.Method.Name())
						if sel == nil {
							continue
						}
						add(w.boundTarget(w.Prog.MethodValue(sel)))
					}
				}
			}
		}
		return out
	}
	if sc := cc.StaticCallee(); sc != nil {
		add(w.boundTarget(sc))
		// sync.Once.Do(f): f is called here
		if isMethod(sc, "sync", "Once", "Do") && len(cc.Args) == 2 {
			for _, f := range g.valueFuncs(cc.Args[1], 0) {
				add(f)
			}
		}
		return out
	}
	if _, ok := cc.Value.(*ssa.Builtin); ok {
		return nil
	}
	cands := g.valueFuncs(cc.Value, 0)
	for _, f := range cands {
		add(f)
	}
	if len(cands) == 0 {
		g.unresolved = append(g.unresolved, c)
	}
	return out
}

// valueFuncs resolves a func-typed value to the target functions it may denote.
func (g *CallGraph) valueFuncs(v ssa.Value, depth int) []*ssa.Function {
	w := g.w
	if depth > 6 {
		return g.funcsBySig[sigKey(v.Type())]
	}
	if f := w.funcValue(v); f != nil {
		return []*ssa.Function{f}
	}
	switch v := v.(type) {
	case *ssa.UnOp:
		if v.Op == token.MUL {
			if fa, ok := v.X.(*ssa.FieldAddr); ok {
				fld := structFieldOf(fa)
				if fs := g.fieldFuncs[fld]; len(fs) > 0 {
					// a field may also be assigned from a parameter: add type-based candidates
					// only when some store is not a known function
					if g.fieldHasUnknownStore(fld) {
						return unionFns(fs, g.funcsBySig[sigKey(v.Type())])
					}
					return fs
				}
				return g.funcsBySig[sigKey(v.Type())]
			}
			if al, ok := v.X.(*ssa.Alloc); ok {
				var out []*ssa.Function
				for _, r := range *al.Referrers() {
					if st, ok := r.(*ssa.Store); ok && st.Addr == al {
						out = unionFns(out, g.valueFuncs(st.Val, depth+1))
					}
				}
				if len(out) > 0 {
					return out
				}
			}
		}
	case *ssa.Phi:
		var out []*ssa.Function
		for _, e := range v.Edges {
			if k, ok := e.(*ssa.Const); ok && k.Value == nil {
				continue
			}
			out = unionFns(out, g.valueFuncs(e, depth+1))
		}
		return out
	case *ssa.Field:
		fld := structFieldOf(v)
		if fs := g.fieldFuncs[fld]; len(fs) > 0 && !g.fieldHasUnknownStore(fld) {
			return fs
		}
	}
	return g.funcsBySig[sigKey(v.Type())]
}

func (g *CallGraph) fieldHasUnknownStore(fld *types.Var) bool {
	for _, st := range g.w.Stores(fld) {
		if isNilConst(st.Val) {
			continue
		}
		if g.w.funcValue(st.Val) == nil {
			return true
		}
	}
	return false
}

func unionFns(a, b []*ssa.Function) []*ssa.Function {
	for _, f := range b {
		a = appendUniqueFn(a, f)
	}
	return a
}

// isMethod: fn is method `name` of named type pkg.typ (pointer or value receiver).
func isMethod(fn *ssa.Function, pkg, typ, name string) bool {
	if fn == nil || fn.Name() != name || fn.Signature.Recv() == nil {
		return false
	}
	n := namedOf(fn.Signature.Recv().Type())
	if n == nil || n.Obj().Name() != typ || n.Obj().Pkg() == nil {
		return false
	}
	return n.Obj().Pkg().Path() == pkg || n.Obj().Pkg().Name() == pkg
}

// isPkgFunc: fn is the package-level function pkgpath.name.
func isPkgFunc(fn *ssa.Function, pkgPath, name string) bool {
	if fn == nil || fn.Name() != name || fn.Signature.Recv() != nil || fn.Pkg == nil {
		return false
	}
	return fn.Pkg.Pkg.Path() == pkgPath
}

// Callees returns the resolved target callees of a call instruction.
func (w *World) Callees(c ssa.CallInstruction) []*ssa.Function { return w.CG().callees[c] }

// CallersOf returns the call sites of fn and whether that list is closed, i.e.
// fn is never used as a value, is not exported API, and is not reachable
// through an interface.
func (w *World) CallersOf(fn *ssa.Function) ([]CallSite, bool) {
	g := w.CG()
	closed := !g.addrTaken[fn]
	if fn.Object() != nil && fn.Object().Exported() {
		closed = false
	}
	if fn.Signature.Recv() != nil && fn.Object() != nil {
		// methods may be called through interfaces; treat exported ones as open
		if fn.Object().Exported() {
			closed = false
		}
	}
	if fn.Parent() != nil {
		// closures: closed iff not address-taken
	}
	return g.callers[fn], closed
}

// Reachable returns the target functions reachable from the roots through
// calls, go and defer statements.
func (w *World) Reachable(roots ...*ssa.Function) map[*ssa.Function]bool {
	return w.reachable(true, roots...)
}

// ReachableSameGoroutine is Reachable without following go statements.
func (w *World) ReachableSameGoroutine(roots ...*ssa.Function) map[*ssa.Function]bool {
	return w.reachable(false, roots...)
}

// ReachableWithin is ReachableSameGoroutine restricted to functions accepted by keep
// (calls leaving the kept set are not followed).
func (w *World) ReachableWithin(keep func(*ssa.Function) bool, roots ...*ssa.Function) map[*ssa.Function]bool {
	g := w.CG()
	seen := map[*ssa.Function]bool{}
	var work []*ssa.Function
	for _, r := range roots {
		if r != nil && !seen[r] && keep(r) {
			seen[r] = true
			work = append(work, r)
		}
	}
	for len(work) > 0 {
		f := work[len(work)-1]
		work = work[:len(work)-1]
		allInstrs(f, func(in ssa.Instruction) {
			c, ok := in.(ssa.CallInstruction)
			if !ok {
				return
			}
			if _, isGo := in.(*ssa.Go); isGo {
				return
			}
			for _, callee := range g.callees[c] {
				if !seen[callee] && keep(callee) {
					seen[callee] = true
					work = append(work, callee)
				}
			}
		})
	}
	return seen
}

func (w *World) reachable(followGo bool, roots ...*ssa.Function) map[*ssa.Function]bool {
	g := w.CG()
	seen := map[*ssa.Function]bool{}
	var work []*ssa.Function
	for _, r := range roots {
		if r != nil && !seen[r] {
			seen[r] = true
			work = append(work, r)
		}
	}
	for len(work) > 0 {
		f := work[len(work)-1]
		work = work[:len(work)-1]
		allInstrs(f, func(in ssa.Instruction) {
			if c, ok := in.(ssa.CallInstruction); ok {
				if _, isGo := in.(*ssa.Go); isGo && !followGo {
					return
				}
				for _, callee := range g.callees[c] {
					if !seen[callee] {
						seen[callee] = true
						work = append(work, callee)
					}
				}
			}
		})
	}
	return seen
}

// staticCalleeIs reports whether the call statically targets a function or
// method identified by (package name or path, optional receiver type, name).
func staticCalleeIs(c *ssa.CallCommon, pkg, recv, name string) bool {
	if c.IsInvoke() {
		if c.Method.Name() != name {
			return false
		}
		n := namedOf(c.Value.Type())
		if n == nil || n.Obj().Pkg() == nil {
			return false
		}
		return recv != "" && n.Obj().Name() == recv && (n.Obj().Pkg().Path() == pkg || n.Obj().Pkg().Name() == pkg)
	}
	sc := c.StaticCallee()
	if sc == nil {
		return false
	}
	if recv == "" {
		return sc.Name() == name && sc.Signature.Recv() == nil && sc.Pkg != nil && (sc.Pkg.Pkg.Path() == pkg || sc.Pkg.Pkg.Name() == pkg)
	}
	return isMethod(sc, pkg, recv, name)
}

// ---------------------------------------------------------------------------
// Effective calls: a call to a target as seen from a function fn, looking through one level
// of local closures and small same-package helpers (the usual "extract function" refactoring).

// effCall is one call to a target function reachable from fn: directly (Inner == Site) or
// inside a helper that fn calls at Site. Args are the target's arguments expressed in fn's
// values where the helper passes one of its own parameters through (nil when not expressible).
type effCall struct {
	Site   ssa.CallInstruction // the call instruction in fn
	Inner  ssa.CallInstruction // the call to the target (in fn or in the helper)
	Helper *ssa.Function       // nil for a direct call
	Args   []ssa.Value
}

// effectiveCalls lists the calls to functions accepted by isTarget from fn.
func (w *World) effectiveCalls(fn *ssa.Function, isTarget func(ssa.CallInstruction) bool) []effCall {
	var out []effCall
	allInstrs(fn, func(in ssa.Instruction) {
		ci, ok := in.(ssa.CallInstruction)
		if !ok {
			return
		}
		if _, isGo := in.(*ssa.Go); isGo {
			return
		}
		if isTarget(ci) {
			out = append(out, effCall{Site: ci, Inner: ci, Args: append([]ssa.Value{}, ci.Common().Args...)})
			return
		}
		// a helper: closure defined in fn, or a static callee of the same package
		var h *ssa.Function
		if mc, ok := unwrapLoadAlloc(ci.Common().Value).(*ssa.MakeClosure); ok {
			h, _ = mc.Fn.(*ssa.Function)
		} else if sc := ci.Common().StaticCallee(); sc != nil && sc.Pkg == fn.Pkg && len(sc.Blocks) > 0 {
			h = sc
		}
		if h == nil || h == fn {
			return
		}
		nIn := 0
		for _, b := range h.Blocks {
			nIn += len(b.Instrs)
		}
		if nIn > 120 {
			return
		}
		allInstrs(h, func(i2 ssa.Instruction) {
			c2, ok := i2.(ssa.CallInstruction)
			if !ok || !isTarget(c2) {
				return
			}
			args := make([]ssa.Value, len(c2.Common().Args))
			for k, a := range c2.Common().Args {
				a = unwrapLoadAlloc(a)
				if mi, ok := a.(*ssa.MakeInterface); ok {
					a = unwrapLoadAlloc(mi.X)
				}
				for pi, p := range h.Params {
					if a == ssa.Value(p) && pi < len(ci.Common().Args) {
						// closures called by value: Args align with Params; static calls too
						args[k] = ci.Common().Args[pi]
					}
				}
			}
			out = append(out, effCall{Site: ci, Inner: c2, Helper: h, Args: args})
		})
	})
	return out
}

// effDominates: a is executed before b on every path (sites in fn; inside one helper, the
// helper's own dominance).
func effDominates(a, b effCall) bool {
	if a.Site != b.Site {
		return instrDominates(a.Site, b.Site)
	}
	if a.Helper != nil && a.Helper == b.Helper {
		return instrDominates(a.Inner, b.Inner)
	}
	return a.Helper == nil && b.Helper == nil && instrDominates(a.Inner, b.Inner)
}
