package main

import (
	"bytes"
	"fmt"
	"go/ast"
	"go/constant"
	"go/printer"
	"go/token"
	"go/types"
	"strings"

	"golang.org/x/tools/go/ssa"
)

// ---------------------------------------------------------------------------
// C08 (nonces, rotation, no plaintext on the wire) and C02 (stream integrity):
// structural rules over mailbox/noise.go.

func init() {
	register("C08",
		"NONCE: cipherState.nonce is written only by the deferred closures of Encrypt/Decrypt (exactly +1, in a defer, hence on every exit) and by InitializeKey (=0, together with a new secretKey and cipher, so a nonce never restarts under the same key); AEAD Seal/Open are called only from Encrypt/Decrypt with a nonce buffer filled from cipherState.nonce; rotateKey derives the next key from an HKDF keyed by the old key and re-initialises with it. ROT-SIB: the deferred closures of Encrypt and Decrypt are structurally identical (same increment, same comparison against keyRotationInterval, same rotateKey call), so both ends rotate at the same record count. KEYSEP (as C02/C04): split() gives the two directions different keys from one HKDF expansion, mirrored between the roles. PAIR: every successful return of ReadHeader/ReadBody has passed its Decrypt and of WriteMessage both Encrypts; WriteMessage encrypts exactly twice with sendCipher (2-byte header, body) and ReadHeader/ReadBody decrypt exactly once each with recvCipher; no other function uses the transport ciphers; every Encrypt output of WriteMessage is stored into the pending record on every path to a return (a refused or failed write never consumes a nonce); encHeaderSize = lengthHeaderSize + macSize. TAINT-WIRE: everything written to a transport writer or to the handshake act buffer is an Encrypt/EncryptAndHash result, the cleartext version byte, or a public/masked ephemeral key; the pending-record slices only ever hold Encrypt results. DUPLEX (as C05): the read path and the write path of Machine touch disjoint fields and Encrypt seals into a fresh buffer, so a pending record is never overwritten by an incoming one. NONCE aead-result: every return of Encrypt/Decrypt has passed Seal/Open and hands out that call's output (no pass-through leg for an unkeyed cipher). PAIR also: every successful return of ReadMessage has passed ReadHeader and ReadBody and the reader is handed to nothing else. KEYSEP also: split expands with the chaining key as the HKDF key and empty input. NONCE also: InitializeKey is called from the key schedule only. KEYSEP also: no production code configures an ephemeral key generator (default btcec.NewPrivateKey, assigned once). The framing obligations of C16 are imported as LAYER/C16. NARROW: no +, -, *, << in package mailbox is evaluated in an 8/16-bit integer type unless the operand ranges prove it cannot wrap (record lengths near the maximum). NONCE also: the ratchet starts from the key in use - secretKey has one store, of InitializeKey's key parameter, and rotateKey's HKDF input key is that field. The obligations of C15 (stream adapters on top of ReadMessage: counts, retained tails, session reset, guard table) are imported. Not decided: that ciphertexts differ (cryptographic), decryption 'to exactly what was written' as a property of streams (follows from ROT-SIB + PAIR + the AEAD).",
		[]string{"ChaCha20-Poly1305 is a secure AEAD; HKDF-SHA256 is a PRF; binary.LittleEndian.PutUint64 writes its argument"},
		runC08)
	register("C02",
		"AUTHERR: every call in mailbox whose callee (transitively) reaches cipherState.Decrypt has its error result tested and returned (or passed straight through), and the error legs of DecryptAndHash/ReadHeader/ReadMessage return zero data - a MAC failure can never be ignored or its plaintext used. NONCE-wire: the AEAD nonce is an implicit counter read from cipherState.nonce, whose only writers are +1 and =0 (nothing read from the wire can reach it), so replayed, reordered, dropped or duplicated records fail authentication. KEYSEP: in Machine.split the send and receive keys are two distinct successive reads of one HKDF reader, the order of the reads is reversed between the initiator and responder legs, sendCipher is initialised from the send key and recvCipher from the receive key (no reflection of a party's own records). Not decided: the cryptographic argument itself and 'prefix' as a property of histories.",
		[]string{"ChaCha20-Poly1305 Open fails on any modification of ciphertext, nonce or associated data"},
		runC02)
}

func mboxFunc(c *Checker, name string) *ssa.Function {
	fn := c.w.Func(name)
	if fn == nil {
		c.anchorFail(name)
	}
	return fn
}

// reachesFn: f (transitively, same goroutine, within mailbox) calls target.
func reachesFn(w *World, f, target *ssa.Function) bool {
	if f == target {
		return true
	}
	return w.ReachableWithin(func(x *ssa.Function) bool { return w.pkgShort(x) == targetMbox }, f)[target]
}

// funcLitSource prints the source of a closure body (format-insensitive).
func funcSource(w *World, fn *ssa.Function) string {
	syn := fn.Syntax()
	if syn == nil {
		return ""
	}
	var body ast.Node
	switch s := syn.(type) {
	case *ast.FuncLit:
		body = s.Body
	case *ast.FuncDecl:
		body = s.Body
	}
	if body == nil {
		return ""
	}
	var buf bytes.Buffer
	_ = printer.Fprint(&buf, w.Fset, body)
	// normalise whitespace
	return strings.Join(strings.Fields(buf.String()), " ")
}

func runC08(c *Checker) {
	// "keeps decrypting to exactly what was written" needs the record to reach the peer byte-exact
	// whatever the writer does (partial writes, retries): the framing/flush obligations of C16
	importLayers(c, "C16")
	// ... and what the reader is handed is what was decrypted: the stream adapters on top of
	// ReadMessage (retained tails, counts, session reset - C15) must not drop or repeat plaintext
	importLayers(c, "C15")
	ruleNARROW(c)
	w := c.w
	enc := mboxFunc(c, "(*mailbox.cipherState).Encrypt")
	dec := mboxFunc(c, "(*mailbox.cipherState).Decrypt")
	initKey := mboxFunc(c, "(*mailbox.cipherState).InitializeKey")
	rot := mboxFunc(c, "(*mailbox.cipherState).rotateKey")
	wm := mboxFunc(c, "(*mailbox.Machine).WriteMessage")
	rh := mboxFunc(c, "(*mailbox.Machine).ReadHeader")
	rb := mboxFunc(c, "(*mailbox.Machine).ReadBody")
	fNonce := w.Field("mailbox.cipherState.nonce")
	fKey := w.Field("mailbox.cipherState.secretKey")
	fCipher := w.Field("mailbox.cipherState.cipher")
	fSalt := w.Field("mailbox.cipherState.salt")
	fSendC := w.Field("mailbox.Machine.sendCipher")
	fRecvC := w.Field("mailbox.Machine.recvCipher")
	if enc == nil || dec == nil || initKey == nil || rot == nil || wm == nil || rh == nil || rb == nil || fNonce == nil || fKey == nil || fCipher == nil || fSalt == nil || fSendC == nil || fRecvC == nil {
		if fNonce == nil || fKey == nil {
			c.anchorFail("mailbox.cipherState fields")
		}
		return
	}
	ruleNONCE(c, "NONCE", enc, dec, initKey, rot, fNonce, fKey, fCipher, fSalt)

	// ---- ROT-SIB ----
	closureOf := func(fn *ssa.Function) *ssa.Function {
		var cl *ssa.Function
		allInstrs(fn, func(in ssa.Instruction) {
			if d, ok := in.(*ssa.Defer); ok && d.Block() == fn.Blocks[0] {
				if f := w.funcValue(d.Common().Value); f != nil && f.Parent() == fn {
					cl = f
				} else if sc := d.Common().StaticCallee(); sc != nil && cl == nil && deferredOnlyFrom(w, sc, enc, dec) {
					// a shared helper deferred by both (trivially identical logic)
					cl = sc
				}
			}
		})
		return cl
	}
	ce, cd := closureOf(enc), closureOf(dec)
	if ce == nil || cd == nil {
		c.fail("ROT-SIB", "deferred closures", enc.Pos(), "Encrypt/Decrypt do not both defer a closure in their entry block")
	} else {
		se, sd := funcSource(w, ce), funcSource(w, cd)
		c.decide(se != "" && (se == sd || ce == cd), "ROT-SIB", "Encrypt$defer == Decrypt$defer", ce.Pos(), "the two deferred closures are structurally identical: "+se,
			"the nonce/rotation logic of Encrypt and Decrypt differs: sender and receiver rotate keys at different record counts. Encrypt: "+se+" | Decrypt: "+sd)
		kri := w.Const("mailbox.keyRotationInterval")
		for i, cl := range []*ssa.Function{ce, cd} {
			owner := []*ssa.Function{enc, dec}[i]
			okCmp, okRot := false, false
			allInstrs(cl, func(in ssa.Instruction) {
				if iff, ok := in.(*ssa.If); ok {
					if bo, ok := iff.Cond.(*ssa.BinOp); ok && bo.Op == token.EQL && isLoadOfField(bo.X, fNonce) {
						if k, ok := bo.Y.(*ssa.Const); ok && kri != nil && constant.Compare(k.Value, token.EQL, constant.ToInt(kri.Val())) {
							okCmp = true
							for _, ci := range findCalls(cl, func(ci ssa.CallInstruction) bool { return ci.Common().StaticCallee() == rot }) {
								if ci.Block() == iff.Block().Succs[0] {
									okRot = true
								}
							}
						}
					}
				}
			})
			c.decide(okCmp && okRot, "ROT-SIB", owner.Name()+" deferred|rotate when nonce == keyRotationInterval", cl.Pos(), "rotateKey on nonce == keyRotationInterval", "key rotation is not triggered exactly at nonce == keyRotationInterval")
		}
	}
	c.floor("ROT-SIB", 3)

	// ---- PAIR ----
	usesOf := func(method *ssa.Function, cipherField *types.Var) map[*ssa.Function]int {
		out := map[*ssa.Function]int{}
		for _, fn := range w.Funcs {
			if w.pkgShort(fn) != targetMbox {
				continue
			}
			for _, ci := range findCalls(fn, func(ci ssa.CallInstruction) bool { return ci.Common().StaticCallee() == method }) {
				if fa, ok := ci.Common().Args[0].(*ssa.FieldAddr); ok && structFieldOf(fa) == cipherField {
					out[fn]++
				}
			}
		}
		return out
	}
	sendEnc := usesOf(enc, fSendC)
	c.decide(len(sendEnc) == 1 && sendEnc[wm] == 2, "PAIR", "sendCipher.Encrypt|2x in WriteMessage only", wm.Pos(), "two encryptions per record (header, body), nowhere else",
		fmt.Sprintf("sendCipher.Encrypt is used %v: sender and receiver counters diverge", describeUses(sendEnc)))
	recvDec := usesOf(dec, fRecvC)
	c.decide(len(recvDec) == 2 && recvDec[rh] == 1 && recvDec[rb] == 1, "PAIR", "recvCipher.Decrypt|1x ReadHeader + 1x ReadBody only", rh.Pos(), "two decryptions per record, nowhere else",
		fmt.Sprintf("recvCipher.Decrypt is used %v: sender and receiver counters diverge", describeUses(recvDec)))
	for name, m := range map[string]map[*ssa.Function]int{"sendCipher.Decrypt": usesOf(dec, fSendC), "recvCipher.Encrypt": usesOf(enc, fRecvC)} {
		c.decide(len(m) == 0, "PAIR", name+"|unused", wm.Pos(), "never used in the wrong direction", name+" is used: a cipher state advances in the wrong direction")
	}
	// ... on every path: a successful return of ReadHeader / ReadBody has passed its Decrypt and a
	// successful return of WriteMessage both Encrypts (a shortcut for a special size - e.g. an empty
	// body - leaves one side's counter behind the other's, and skips the tag check)
	for _, pr := range []struct {
		fn   *ssa.Function
		prim *ssa.Function
		want int
	}{{rh, dec, 1}, {rb, dec, 1}, {wm, enc, 2}} {
		calls := findCalls(pr.fn, func(ci ssa.CallInstruction) bool { return ci.Common().StaticCallee() == pr.prim })
		bad := ""
		for _, call := range calls {
			allInstrs(pr.fn, func(in ssa.Instruction) {
				ret, ok := in.(*ssa.Return)
				if !ok || bad != "" || ret.Block().Comment == "recover" {
					return
				}
				succ := false
				for _, v := range expandValues(ret.Results[len(ret.Results)-1]) {
					if isNilConst(v) {
						succ = true
					}
				}
				if succ && pathFromEntry(pr.fn, ret, func(i2 ssa.Instruction) bool { return i2 == ssa.Instruction(call) }) {
					bad = w.pos(instrPos(ret))
				}
			})
		}
		c.decide(bad == "" && len(calls) == pr.want, "PAIR", pr.fn.Name()+"|every successful return has passed "+pr.prim.Name(), pr.fn.Pos(),
			fmt.Sprintf("%d %s call(s), none skippable on a success path", len(calls), pr.prim.Name()),
			pr.fn.Name()+" can succeed at "+bad+" without having called "+pr.prim.Name()+": the nonce counters of the two ends diverge (every later record fails) and a tag goes unchecked")
	}
	// ... and ReadMessage is exactly header-then-body: every successful return has passed ReadHeader
	// and ReadBody, and nothing else in it consumes the transport (a leg that reads a record's bytes
	// itself - "an empty body needs no decryption" - skips a Decrypt just the same)
	if rm := mboxFunc(c, "(*mailbox.Machine).ReadMessage"); rm != nil {
		for _, sub := range []*ssa.Function{rh, rb} {
			calls := findCalls(rm, func(ci ssa.CallInstruction) bool { return ci.Common().StaticCallee() == sub })
			bad := ""
			allInstrs(rm, func(in ssa.Instruction) {
				ret, ok := in.(*ssa.Return)
				if !ok || bad != "" || ret.Block().Comment == "recover" {
					return
				}
				succ := false
				for _, v := range expandValues(ret.Results[len(ret.Results)-1]) {
					if isNilConst(v) {
						succ = true
					}
					if ex, isEx := v.(*ssa.Extract); isEx {
						if call, isCall := ex.Tuple.(*ssa.Call); isCall && call.Common().StaticCallee() == rb {
							succ = true // the pass-through of ReadBody's error may be nil
						}
					}
				}
				if succ && pathFromEntry(rm, ret, func(i2 ssa.Instruction) bool {
					for _, cl := range calls {
						if i2 == ssa.Instruction(cl) {
							return true
						}
					}
					return false
				}) {
					bad = w.pos(instrPos(ret))
				}
			})
			c.decide(bad == "" && len(calls) == 1, "PAIR", "ReadMessage|every successful return has passed "+sub.Name(), rm.Pos(), "one "+sub.Name()+" call, not skippable on a success path",
				"ReadMessage can succeed at "+bad+" without "+sub.Name()+": a record (or part of one) is consumed without being decrypted, the receive nonce falls behind the sender's")
		}
		other := ""
		rdr := ssa.Value(rm.Params[1])
		for _, ref := range *rdr.Referrers() {
			ci, ok := ref.(ssa.CallInstruction)
			if !ok {
				if _, isDbg := ref.(*ssa.DebugRef); !isDbg {
					other = fmt.Sprintf("%T at %s", ref, w.pos(instrPos(ref)))
				}
				continue
			}
			if sc := ci.Common().StaticCallee(); sc != rh && sc != rb {
				other = calleeLabel(ci.Common()) + " at " + w.pos(instrPos(ci))
			}
		}
		c.decide(other == "", "PAIR", "ReadMessage|the transport is consumed through ReadHeader/ReadBody only", rm.Pos(), "the reader is handed to ReadHeader and ReadBody and nothing else",
			"ReadMessage uses the transport reader directly ("+other+"): bytes of a record are consumed outside the decrypting functions")
	}
	// every record encrypted by WriteMessage becomes the pending record: no exit after an
	// Encrypt (which has advanced the nonce) that leaves its output unsent
	{
		fH, fB := w.Field("mailbox.Machine.nextHeaderSend"), w.Field("mailbox.Machine.nextBodySend")
		if fH == nil || fB == nil {
			c.anchorFail("mailbox.Machine.nextHeaderSend/nextBodySend")
		} else {
			n := 0
			for _, ci := range findCalls(wm, func(ci ssa.CallInstruction) bool { return ci.Common().StaticCallee() == enc }) {
				call, ok := ci.(*ssa.Call)
				if !ok {
					continue
				}
				n++
				isStore := func(in ssa.Instruction) bool {
					st, ok := in.(*ssa.Store)
					if !ok {
						return false
					}
					f := structFieldOf(st.Addr)
					if f != fH && f != fB {
						return false
					}
					for _, v := range expandValues(st.Val) {
						if unwrapLoadAlloc(v) == ssa.Value(call) {
							return true
						}
					}
					return false
				}
				ret := pathToReturn(call, func(*ssa.Return) bool { return true }, isStore)
				why := ""
				if ret != nil {
					why = "WriteMessage can return at " + w.pos(instrPos(ret)) + " after this Encrypt without queueing its output: the send nonce has advanced for a record the peer never sees, every later record fails to decrypt"
				}
				c.decide(ret == nil, "PAIR", fmt.Sprintf("WriteMessage|encrypt-%d output is queued on every exit", n), instrPos(call), "the ciphertext is stored into the pending record on every path to a return", why)
			}
		}
	}
	// constants
	lh, ms, eh := w.Const("mailbox.lengthHeaderSize"), w.Const("mailbox.macSize"), w.Const("mailbox.encHeaderSize")
	if lh == nil || ms == nil || eh == nil {
		c.anchorFail("mailbox.lengthHeaderSize/macSize/encHeaderSize")
	} else {
		l, _ := constant.Int64Val(lh.Val())
		m, _ := constant.Int64Val(ms.Val())
		e, _ := constant.Int64Val(eh.Val())
		c.decide(e == l+m && l == 2 && m == 16, "PAIR", "const|encHeaderSize = lengthHeaderSize + macSize", token.NoPos, fmt.Sprintf("%d = %d + %d", e, l, m), fmt.Sprintf("header constants disagree: %d vs %d + %d", e, l, m))
	}
	c.floor("PAIR", 13)
	// the two directions use different keys (as C02/C04 KEYSEP): with one key for both, record n of
	// one direction and record n of the other share key and nonce
	ruleKEYSEP(c)
	// the pending record and the receive buffers are separate memory (as C05 DUPLEX): a pending
	// ciphertext that aliases the read side is overwritten before it is flushed
	ruleDUPLEX(c)

	// ---- TAINT-WIRE (machine level) ----
	ruleTaintWire(c, "TAINT-WIRE")
}

func describeUses(m map[*ssa.Function]int) string {
	var s []string
	for f, n := range m {
		s = append(s, fmt.Sprintf("%s x%d", fnName(f), n))
	}
	sortStrings(s)
	return "[" + strings.Join(s, ", ") + "]"
}

// ruleNONCE is shared by C08 and C02.
func ruleNONCE(c *Checker, rule string, enc, dec, initKey, rot *ssa.Function, fNonce, fKey, fCipher, fSalt *types.Var) {
	w := c.w
	// who may write the nonce
	for _, st := range w.Stores(fNonce) {
		fn := st.Parent()
		key := fmt.Sprintf("nonce-writer|%s|%s", fnName(fn), w.canonFB(st.Val))
		switch {
		case fn.Parent() == enc || fn.Parent() == dec:
			// deferred in the entry block of the parent
			deferred := false
			allInstrs(fn.Parent(), func(in ssa.Instruction) {
				if d, ok := in.(*ssa.Defer); ok && d.Block() == fn.Parent().Blocks[0] && w.funcValue(d.Common().Value) == fn {
					deferred = true
				}
			})
			okk := deferred && w.canonFB(st.Val) == "(1+load(mailbox.cipherState.nonce))" && st.Block() == fn.Blocks[0]
			c.decide(okk, rule, key, instrPos(st), "nonce+1, unconditionally, in a closure deferred at the entry of "+fnName(fn.Parent()),
				"the nonce is not incremented by exactly one on every exit of Encrypt/Decrypt: a key/nonce pair can repeat or the two ends lose lock-step")
		case fn != initKey && fn != enc && fn != dec && deferredOnlyFrom(w, fn, enc, dec):
			// a shared helper (e.g. cipherState.advance) whose every call site is a defer at the entry of
			// Encrypt/Decrypt on the same cipher state: equivalent to the two closures
			okk := w.canonFB(st.Val) == "(1+load(mailbox.cipherState.nonce))" && st.Block() == fn.Blocks[0]
			for _, owner := range []*ssa.Function{enc, dec} {
				c.decide(okk, rule, key+"|deferred by "+owner.Name(), instrPos(st), "nonce+1, unconditionally, in a helper that is only ever deferred at the entry of Encrypt/Decrypt",
					"the nonce is not incremented by exactly one on every exit of Encrypt/Decrypt: a key/nonce pair can repeat or the two ends lose lock-step")
			}
		case fn == initKey:
			k, isK := intConst(st.Val)
			resetsKey, resetsCipher := false, false
			onEveryPath := func(s2 *ssa.Store) bool {
				if instrDominates(s2, st) {
					return true
				}
				return pathToReturn(st, func(*ssa.Return) bool { return true }, func(in ssa.Instruction) bool { return in == ssa.Instruction(s2) }) == nil
			}
			for _, s2 := range w.Stores(fKey) {
				if s2.Parent() == fn && onEveryPath(s2) {
					resetsKey = true
				}
			}
			for _, s2 := range w.Stores(fCipher) {
				if s2.Parent() == fn && onEveryPath(s2) {
					resetsCipher = true
				}
			}
			c.decide(isK && k == 0 && resetsKey && resetsCipher, rule, key, instrPos(st), "nonce = 0 together with a new key and cipher", "the nonce restarts without the key and cipher being replaced: key/nonce pairs repeat")
		default:
			c.fail(rule, key, instrPos(st), "cipherState.nonce is written outside the deferred +1 of Encrypt/Decrypt and InitializeKey")
		}
	}
	// InitializeKey resets the counter (presence; the shape of that store is judged above)
	{
		nReset := 0
		for _, st := range w.Stores(fNonce) {
			if st.Parent() == initKey {
				if k, ok := intConst(st.Val); ok && k == 0 && st.Block() == initKey.Blocks[0] {
					nReset++
				}
			}
		}
		c.decide(nReset == 1, rule, "InitializeKey|nonce = 0", initKey.Pos(), "a new key starts at nonce 0, unconditionally",
			"InitializeKey does not reset the nonce: after a rotation the two ends continue from 1000 - harmless only while both do the same; with the initial keys it makes the first record start wherever the handshake cipher stopped")
	}
	ruleKeySchedule(c, rule)
	// Seal/Open call sites
	for _, fn := range w.Funcs {
		if w.pkgShort(fn) != targetMbox {
			continue
		}
		allInstrs(fn, func(in ssa.Instruction) {
			call, ok := in.(*ssa.Call)
			if !ok || !call.Common().IsInvoke() {
				return
			}
			m := call.Common().Method.Name()
			if m != "Seal" && m != "Open" {
				return
			}
			n := namedOf(call.Common().Value.Type())
			if n == nil || n.Obj().Name() != "AEAD" {
				return
			}
			key := fmt.Sprintf("aead-call|%s.%s", fnName(fn), m)
			want := map[string]*ssa.Function{"Seal": enc, "Open": dec}[m]
			if fn != want {
				c.fail(rule, key, instrPos(call), "AEAD."+m+" is called outside "+fnName(want)+": that call bypasses the nonce counter")
				return
			}
			// nonce argument: slice of a local array that was filled by PutUint64(load(nonce))
			nonceArg := call.Common().Args[1]
			okk := false
			if sl, ok := nonceArg.(*ssa.Slice); ok && isLoadOfField(call.Common().Value, fCipher) {
				okk = nonceBufferFilled(fn, sl.X, call, fNonce, fn.Params[0], 0)
			}
			c.decide(okk, rule, key, instrPos(call), "nonce buffer filled from cipherState.nonce, cipher is cipherState.cipher", "the AEAD nonce is not the implicit counter cipherState.nonce (or the cipher is not the state's cipher)")
		})
	}
	// ... and nothing leaves Encrypt/Decrypt that is not the AEAD's output: every return has passed
	// Seal/Open and hands out its result (an "unkeyed cipher passes the bytes through" leg puts
	// plaintext on the wire, or accepts unauthenticated bytes)
	for _, pr := range []struct {
		fn *ssa.Function
		m  string
	}{{enc, "Seal"}, {dec, "Open"}} {
		if pr.fn == nil {
			continue
		}
		var aead []*ssa.Call
		allInstrs(pr.fn, func(in ssa.Instruction) {
			if call, ok := in.(*ssa.Call); ok && call.Common().IsInvoke() && call.Common().Method.Name() == pr.m {
				aead = append(aead, call)
			}
		})
		bad := ""
		allInstrs(pr.fn, func(in ssa.Instruction) {
			ret, ok := in.(*ssa.Return)
			if !ok || ret.Block().Comment == "recover" {
				return
			}
			if pathFromEntry(pr.fn, ret, func(x ssa.Instruction) bool {
				for _, a := range aead {
					if x == ssa.Instruction(a) {
						return true
					}
				}
				return false
			}) {
				bad = "return at " + w.pos(instrPos(ret)) + " reachable without " + pr.m
				return
			}
			for _, v := range expandValues(ret.Results[0]) {
				okv := isNilConst(v)
				for _, a := range aead {
					if v == ssa.Value(a) {
						okv = true
					}
					if ex, isEx := v.(*ssa.Extract); isEx && ex.Tuple == ssa.Value(a) && ex.Index == 0 {
						okv = true
					}
				}
				if !okv {
					bad = "return at " + w.pos(instrPos(ret)) + " hands out " + w.canonFB(v)
				}
			}
		})
		c.decide(bad == "" && len(aead) == 1, rule, "aead-result|"+fnName(pr.fn), pr.fn.Pos(), "every return has passed "+pr.m+" and returns its output",
			fnName(pr.fn)+" can return something that did not go through the AEAD ("+bad+"): plaintext on the wire / unauthenticated bytes accepted")
	}
	// rotateKey
	okHK, okInit := false, false
	allInstrs(rot, func(in ssa.Instruction) {
		call, ok := in.(*ssa.Call)
		if !ok {
			return
		}
		if sc := call.Common().StaticCallee(); sc != nil && sc.Name() == "New" && sc.Pkg != nil && strings.HasSuffix(sc.Pkg.Pkg.Path(), "hkdf") {
			// secret derives from the old key, salt from c.salt
			secret, salt := call.Common().Args[1], call.Common().Args[2]
			sOK := false
			if sl, ok := secret.(*ssa.Slice); ok {
				if al, ok := sl.X.(*ssa.Alloc); ok {
					for _, v := range localStores(al) {
						if isLoadOfField(v, fKey) {
							sOK = true
						}
					}
				}
				if fa, ok := sl.X.(*ssa.FieldAddr); ok && structFieldOf(fa) == fKey {
					sOK = true
				}
			}
			saltOK := false
			if sl, ok := salt.(*ssa.Slice); ok {
				if fa, ok := sl.X.(*ssa.FieldAddr); ok && structFieldOf(fa) == fSalt {
					saltOK = true
				}
			}
			okHK = sOK && saltOK
		}
		if call.Common().StaticCallee() == initKey {
			// argument: load of a local array that an h.Read filled
			if u, ok := call.Common().Args[1].(*ssa.UnOp); ok {
				if al, ok := u.X.(*ssa.Alloc); ok {
					for _, r := range *al.Referrers() {
						if sl, ok := r.(*ssa.Slice); ok {
							for _, rr := range *sl.Referrers() {
								if rc, ok := rr.(*ssa.Call); ok && rc.Common().IsInvoke() && rc.Common().Method.Name() == "Read" && instrDominates(rc, call) {
									okInit = true
								}
							}
						}
					}
				}
			}
		}
	})
	c.decide(okHK && okInit, rule, "rotateKey|next key = HKDF(old key, salt)", rot.Pos(), "the next key is read from an HKDF keyed by the old key and salted by the state's salt, then installed with InitializeKey",
		fmt.Sprintf("rotateKey does not derive and install the next key from the old one (hkdf inputs ok: %v, installs the derived key: %v)", okHK, okInit))
	c.floor(rule, 6)
}

// ruleTaintWire: what reaches a transport writer or the act buffer.
func ruleTaintWire(c *Checker, rule string) {
	w := c.w
	fHdr := w.Field("mailbox.Machine.nextHeaderSend")
	fBody := w.Field("mailbox.Machine.nextBodySend")
	fVersion := w.Field("mailbox.handshakeState.version")
	wm := w.Func("(*mailbox.Machine).WriteMessage")
	fl := w.Func("(*mailbox.Machine).Flush")
	if fHdr == nil || fBody == nil || fVersion == nil || wm == nil || fl == nil {
		c.anchorFail("Machine.nextHeaderSend/nextBodySend/WriteMessage/Flush")
		return
	}
	isEncResult := func(v ssa.Value) bool {
		call, ok := unwrapLoadAlloc(v).(*ssa.Call)
		if !ok || call.Common().StaticCallee() == nil {
			return false
		}
		n := call.Common().StaticCallee().Name()
		return n == "Encrypt" || n == "EncryptAndHash"
	}
	for _, f := range []*types.Var{fHdr, fBody} {
		for _, st := range w.Stores(f) {
			key := fmt.Sprintf("pending|%s|%s|%s", f.Name(), fnName(st.Parent()), w.canonFB(st.Val))
			okk := false
			if st.Parent() == wm && isEncResult(st.Val) {
				okk = true
			}
			if st.Parent() == fl {
				if sl, ok := st.Val.(*ssa.Slice); ok && isLoadOfField(sl.X, f) {
					okk = true
				}
			}
			c.decide(okk, rule, key, instrPos(st), "holds an Encrypt result or its own suffix", "the pending record slice receives something other than ciphertext: "+w.canonFB(st.Val))
		}
	}
	// the plaintext parameter of WriteMessage flows only into Encrypt (and len)
	p := ssa.Value(wm.Params[1])
	for _, r := range *p.Referrers() {
		key := "WriteMessage|plaintext use|" + fmt.Sprintf("%T", r)
		switch x := r.(type) {
		case *ssa.Call:
			if b, ok := x.Call.Value.(*ssa.Builtin); ok && b.Name() == "len" {
				continue
			}
			if sc := x.Common().StaticCallee(); sc != nil && sc.Name() == "Encrypt" {
				c.ok(rule, "WriteMessage|plaintext -> Encrypt", instrPos(x), "the application plaintext is only handed to Encrypt")
				continue
			}
			c.fail(rule, key, instrPos(x), "the application plaintext is passed to "+calleeLabel(x.Common()))
		case *ssa.DebugRef:
		default:
			c.fail(rule, key, instrPos(r.(ssa.Instruction)), "the application plaintext is used other than as Encrypt input")
		}
	}
	// sinks in the handshake writer
	allowed := func(fn *ssa.Function, v ssa.Value, depth int) (bool, string) {
		v = unwrapLoadAlloc(v)
		if isEncResult(v) {
			return true, "EncryptAndHash/Encrypt result"
		}
		// []byte{h.version}
		if sl, ok := v.(*ssa.Slice); ok {
			if al, ok := sl.X.(*ssa.Alloc); ok {
				if n, ok := arrayLen(al.Type()); ok && n == 1 {
					for _, r := range *al.Referrers() {
						if ia, ok := r.(*ssa.IndexAddr); ok {
							for _, rr := range *ia.Referrers() {
								if st, ok := rr.(*ssa.Store); ok && isLoadOfField(st.Val, fVersion) {
									return true, "cleartext version byte"
								}
							}
						}
					}
				}
			}
		}
		// public key serialisation: X.SerializeCompressed() with X a PubKey() of a freshly generated key or an ekeMask result
		if call, ok := v.(*ssa.Call); ok {
			if sc := call.Common().StaticCallee(); sc != nil && sc.Name() == "SerializeCompressed" {
				recv := unwrapLoadAlloc(call.Common().Args[0])
				if u, ok := recv.(*ssa.UnOp); ok && u.Op == token.MUL {
					recv = unwrapLoadAlloc(u.X) // value receiver: *ptr
				}
				if rc, ok := recv.(*ssa.Call); ok {
					if s2 := rc.Common().StaticCallee(); s2 != nil && s2.Name() == "ekeMask" {
						return true, "masked ephemeral public key"
					}
					if s2 := rc.Common().StaticCallee(); s2 != nil && s2.Name() == "PubKey" {
						if ex, ok := unwrapLoadAlloc(rc.Common().Args[0]).(*ssa.Extract); ok {
							if gc, ok := ex.Tuple.(*ssa.Call); ok {
								if f := chanField(gc.Common().Value); f != nil && f.Name() == "ephemeralGen" {
									return true, "fresh ephemeral public key"
								}
							}
						}
					}
				}
			}
		}
		return false, w.canonFB(v)
	}
	nSinks := 0
	for _, name := range []string{"(*mailbox.handshakeState).writeMsgPattern", "(*mailbox.handshakeState).writeTokens"} {
		fn := w.Func(name)
		if fn == nil {
			c.anchorFail(name)
			continue
		}
		allInstrs(fn, func(in ssa.Instruction) {
			call, ok := in.(*ssa.Call)
			if !ok {
				return
			}
			cc := call.Common()
			var arg ssa.Value
			if cc.IsInvoke() && cc.Method.Name() == "Write" {
				arg = cc.Args[0]
			} else if sc := cc.StaticCallee(); sc != nil && isMethod(sc, "bytes", "Buffer", "Write") {
				arg = cc.Args[1]
			}
			if arg == nil {
				return
			}
			nSinks++
			// the final w.Write(buff.Bytes()) of the act buffer
			if bc, ok := unwrapLoadAlloc(arg).(*ssa.Call); ok && bc.Common().StaticCallee() != nil && isMethod(bc.Common().StaticCallee(), "bytes", "Buffer", "Bytes") {
				c.ok(rule, fnName(fn)+"|write of the act buffer", instrPos(call), "the act buffer (whose contents are checked write by write)")
				return
			}
			// local payload writer used to assemble the v0 plaintext: not a wire sink if the buffer is local and only feeds EncryptAndHash
			if sc := cc.StaticCallee(); sc != nil && isMethod(sc, "bytes", "Buffer", "Write") {
				if localAssemblyBuffer(cc.Args[0]) {
					c.ok(rule, fnName(fn)+"|plaintext assembly buffer", instrPos(call), "a local buffer whose bytes are only copied into the plaintext that is then encrypted")
					return
				}
			}
			okk, why := allowed(fn, arg, 0)
			c.decide(okk, rule, fnName(fn)+"|wire write of "+why, instrPos(call), why, "something other than ciphertext, the version byte or a public/masked ephemeral key is written to the wire: "+why)
		})
	}
	// the auth payload is only used as EncryptAndHash input (and len)
	fPay := w.Field("mailbox.handshakeState.payloadToSend")
	if fPay != nil {
		for _, ld := range w.Loads(fPay) {
			v, ok := ld.(ssa.Value)
			if !ok || v.Referrers() == nil {
				continue
			}
			fn := ld.Parent()
			for _, r := range *v.Referrers() {
				switch x := r.(type) {
				case *ssa.Call:
					if b, ok := x.Call.Value.(*ssa.Builtin); ok && b.Name() == "len" {
						continue
					}
					if sc := x.Common().StaticCallee(); sc != nil && (sc.Name() == "EncryptAndHash") {
						c.ok(rule, fnName(fn)+"|auth payload -> EncryptAndHash", instrPos(x), "the auth payload is encrypted")
						continue
					}
					if sc := x.Common().StaticCallee(); sc != nil && isMethod(sc, "bytes", "Buffer", "Write") {
						if localAssemblyBuffer(x.Common().Args[0]) {
							continue
						}
					}
					if sc := x.Common().StaticCallee(); sc != nil && sc.Name() == "newHandshakeState" {
						continue
					}
					c.fail(rule, fnName(fn)+"|auth payload use|"+calleeLabel(x.Common()), instrPos(x), "the auth payload (macaroon) is handed to "+calleeLabel(x.Common())+" without encryption")
				case *ssa.BinOp, *ssa.Phi, *ssa.DebugRef, *ssa.Store, *ssa.MakeInterface:
				default:
				}
			}
		}
	}
	if nSinks == 0 {
		c.fail(rule, "handshake sinks", token.NoPos, "no wire write found in the handshake writer")
	}
	c.floor(rule, 8)
}

// ---------------------------------------------------------------------------
// C02

func runC02(c *Checker) {
	// "a prefix of what was written, or an error" is also a statement about the stream layer on top of
	// the records: counts, retained remainders, pending-record handling (C15, C16) and the lock-step of the
	// two ends' record counters with a tag check on every record (C08 PAIR/NONCE) are part of it
	importLayers(c, "C15", "C16", "C08")
	w := c.w
	enc := mboxFunc(c, "(*mailbox.cipherState).Encrypt")
	dec := mboxFunc(c, "(*mailbox.cipherState).Decrypt")
	initKey := mboxFunc(c, "(*mailbox.cipherState).InitializeKey")
	rot := mboxFunc(c, "(*mailbox.cipherState).rotateKey")
	split := mboxFunc(c, "(*mailbox.Machine).split")
	fNonce := w.Field("mailbox.cipherState.nonce")
	fKey := w.Field("mailbox.cipherState.secretKey")
	fCipher := w.Field("mailbox.cipherState.cipher")
	fSalt := w.Field("mailbox.cipherState.salt")
	fSendC := w.Field("mailbox.Machine.sendCipher")
	fRecvC := w.Field("mailbox.Machine.recvCipher")
	fInit := w.Field("mailbox.handshakeState.initiator")
	if enc == nil || dec == nil || initKey == nil || rot == nil || split == nil || fNonce == nil || fKey == nil || fCipher == nil || fSalt == nil || fSendC == nil || fRecvC == nil || fInit == nil {
		return
	}
	// ---- AUTHERR ----
	n := 0
	for _, fn := range w.Funcs {
		if w.pkgShort(fn) != targetMbox {
			continue
		}
		allInstrs(fn, func(in ssa.Instruction) {
			call, ok := in.(*ssa.Call)
			if !ok {
				return
			}
			sc := call.Common().StaticCallee()
			if sc == nil || !w.inTargets(sc) || !reachesFn(w, sc, dec) {
				return
			}
			sig := sc.Signature
			idx := -1
			for i := 0; i < sig.Results().Len(); i++ {
				if isErrorType(sig.Results().At(i).Type()) {
					idx = i
				}
			}
			if idx < 0 {
				// callers of functions without an error result (DoHandshake returns error; split etc. none)
				return
			}
			n++
			okk, why := errCheckedAndReturned(call, idx)
			key := fmt.Sprintf("%s|%s", fnName(fn), fnName(sc))
			c.decide(okk, "AUTHERR", key, instrPos(call), "error "+why, "a decryption/authentication failure can be ignored: "+why)
		})
	}
	// zero data on the error legs
	for _, name := range []string{"(*mailbox.symmetricState).DecryptAndHash", "(*mailbox.Machine).ReadHeader", "(*mailbox.Machine).ReadMessage", "(*mailbox.Machine).ReadBody"} {
		fn := w.Func(name)
		if fn == nil {
			c.anchorFail(name)
			continue
		}
		okk := true
		allInstrs(fn, func(in ssa.Instruction) {
			ret, ok := in.(*ssa.Return)
			if !ok || len(ret.Results) != 2 {
				return
			}
			errNil := false
			for _, v := range expandValues(ret.Results[1]) {
				if isNilConst(v) {
					errNil = true
				}
			}
			if errNil {
				return
			}
			// pass-through of a callee's (data, err) pair is fine
			if e0, ok := ret.Results[0].(*ssa.Extract); ok {
				if e1, ok := ret.Results[1].(*ssa.Extract); ok && e0.Tuple == e1.Tuple {
					return
				}
			}
			for _, v := range expandValues(ret.Results[0]) {
				k, isC := v.(*ssa.Const)
				if !isC || !(k.Value == nil || constant.Sign(k.Value) == 0) {
					okk = false
				}
			}
		})
		c.decide(okk, "AUTHERR", name+"|zero data with an error", fn.Pos(), "error returns carry no data", "an error return also returns data (unauthenticated plaintext could be used)")
	}
	c.floor("AUTHERR", 8)

	// ---- NONCE-wire ----
	ruleNONCE(c, "NONCE", enc, dec, initKey, rot, fNonce, fKey, fCipher, fSalt)

	ruleKEYSEP(c)
	_ = n
}

// ruleKEYSEP: direction-separated, role-mirrored transport keys (shared by C02 and C04).
func ruleKEYSEP(c *Checker) {
	w := c.w
	split := mboxFunc(c, "(*mailbox.Machine).split")
	fSendC := w.Field("mailbox.Machine.sendCipher")
	fRecvC := w.Field("mailbox.Machine.recvCipher")
	fInit := w.Field("mailbox.handshakeState.initiator")
	if split == nil || fSendC == nil || fRecvC == nil || fInit == nil {
		c.anchorFail("Machine.split / sendCipher / recvCipher / initiator")
		return
	}
	ruleEphemeralFresh(c)
	// ---- KEYSEP ----
	initWithSalt := w.Func("(*mailbox.cipherState).InitializeKeyWithSalt")
	if initWithSalt == nil {
		c.anchorFail("InitializeKeyWithSalt")
		return
	}
	keyAlloc := map[*types.Var]map[*ssa.Alloc]bool{fSendC: {}, fRecvC: {}}
	for _, ci := range findCalls(split, func(ci ssa.CallInstruction) bool { return ci.Common().StaticCallee() == initWithSalt }) {
		fa, ok := ci.Common().Args[0].(*ssa.FieldAddr)
		if !ok {
			continue
		}
		if u, ok := ci.Common().Args[2].(*ssa.UnOp); ok {
			if al, ok := u.X.(*ssa.Alloc); ok && keyAlloc[structFieldOf(fa)] != nil {
				keyAlloc[structFieldOf(fa)][al] = true
			}
		}
	}
	var kSend, kRecv *ssa.Alloc
	if len(keyAlloc[fSendC]) == 1 && len(keyAlloc[fRecvC]) == 1 {
		for a := range keyAlloc[fSendC] {
			kSend = a
		}
		for a := range keyAlloc[fRecvC] {
			kRecv = a
		}
	}
	c.decide(kSend != nil && kRecv != nil && kSend != kRecv, "KEYSEP", "split|distinct key buffers per direction", split.Pos(), "sendCipher and recvCipher are initialised from two different key buffers",
		"sendCipher and recvCipher are initialised from the same key material: a party accepts its own records reflected back")
	if kSend != nil && kRecv != nil && kSend != kRecv {
		// reads per leg
		type rd struct {
			call *ssa.Call
			into *ssa.Alloc
		}
		var reads []rd
		var reader ssa.Value
		sameReader := true
		allInstrs(split, func(in ssa.Instruction) {
			call, ok := in.(*ssa.Call)
			if !ok || !call.Common().IsInvoke() || call.Common().Method.Name() != "Read" {
				return
			}
			if sl, ok := call.Common().Args[0].(*ssa.Slice); ok {
				if al, ok := sl.X.(*ssa.Alloc); ok {
					reads = append(reads, rd{call, al})
					if reader == nil {
						reader = call.Common().Value
					} else if reader != call.Common().Value {
						sameReader = false
					}
				}
			}
		})
		okReader := sameReader && reader != nil
		if okReader {
			rc, ok := reader.(*ssa.Call)
			okReader = ok && rc.Common().StaticCallee() != nil && rc.Common().StaticCallee().Name() == "New"
		}
		c.decide(okReader, "KEYSEP", "split|one HKDF reader", split.Pos(), "both keys are successive reads of one hkdf.New reader", "the two keys do not come from one HKDF expansion")
		legOrder := func(initiator bool) (first, second *ssa.Alloc, n int) {
			var legReads []rd
			for _, r := range reads {
				if hasFact(r.call.Block(), func(f Fact) bool { return isLoadOfField(f.Cond, fInit) && f.Val == initiator }) {
					legReads = append(legReads, r)
				}
			}
			n = len(legReads)
			if n == 2 {
				if instrDominates(legReads[0].call, legReads[1].call) {
					return legReads[0].into, legReads[1].into, n
				}
				if instrDominates(legReads[1].call, legReads[0].call) {
					return legReads[1].into, legReads[0].into, n
				}
			}
			return nil, nil, n
		}
		i1, i2, ni := legOrder(true)
		r1, r2, nr := legOrder(false)
		c.decide(ni == 2 && i1 == kSend && i2 == kRecv, "KEYSEP", "split|initiator: first read is the send key", split.Pos(), "initiator: send key then receive key", "initiator leg does not read send key then receive key")
		c.decide(nr == 2 && r1 == kRecv && r2 == kSend, "KEYSEP", "split|responder: first read is the receive key", split.Pos(), "responder: receive key then send key (mirror image)",
			"responder leg is not the mirror image of the initiator leg: the two sides do not hold complementary keys")
	}
	// every direction on both roles is salted with the chaining key of the finished handshake: the
	// salt feeds the key rotation, so a different salt on one end makes the two ends derive different
	// keys at the first rotation (after 1000 encryptions) although everything before decrypts
	{
		fCK := w.Field("mailbox.symmetricState.chainingKey")
		calls := findCalls(split, func(ci ssa.CallInstruction) bool { return ci.Common().StaticCallee() == initWithSalt })
		okSalt := fCK != nil && len(calls) == 4
		for _, ci := range calls {
			if !isLoadOfField(ci.Common().Args[1], fCK) {
				okSalt = false
			}
		}
		c.decide(okSalt, "KEYSEP", "split|all four cipher states salted with the chaining key", split.Pos(), "InitializeKeyWithSalt(chainingKey, key) for both directions on both roles",
			"not every transport cipher state is salted with the handshake's chaining key: the two ends rotate to different keys")
	}
	// ... and the expansion itself is keyed by the chaining key - the one value of the symmetric state
	// that depends on the DH outputs. (The handshake digest is public: anyone who recorded the
	// handshake can recompute keys derived from it.)
	{
		fCK := w.Field("mailbox.symmetricState.chainingKey")
		okSecret, n := fCK != nil, 0
		for _, ci := range findCalls(split, func(ci ssa.CallInstruction) bool {
			sc := ci.Common().StaticCallee()
			return sc != nil && sc.Name() == "New" && sc.Pkg != nil && strings.HasSuffix(sc.Pkg.Pkg.Path(), "hkdf")
		}) {
			n++
			secretOK := false
			// Noise: HKDF(chaining_key, zerolen) - the chaining key is the HKDF key (the salt argument
			// of x/crypto/hkdf), the input key material is empty
			if sl, ok := ci.Common().Args[2].(*ssa.Slice); ok && sl.Low == nil && sl.High == nil {
				if fa, ok := sl.X.(*ssa.FieldAddr); ok && structFieldOf(fa) == fCK {
					secretOK = true
				}
			}
			if k, ok := ci.Common().Args[1].(*ssa.Const); !ok || k.Value != nil {
				secretOK = false
			}
			if !secretOK {
				okSecret = false
			}
		}
		c.decide(okSecret && n == 1, "KEYSEP", "split|the expansion is keyed by the chaining key", split.Pos(), "hkdf.New(sha256, empty, chainingKey[:], empty) as Noise prescribes",
			"the transport keys are not expanded from the (whole) chaining key: they no longer depend on the DH secrets of the handshake, or on something an observer of the handshake can compute")
	}
	// who may write sendCipher/recvCipher
	for _, f := range []*types.Var{fSendC, fRecvC} {
		for _, fa := range w.FieldAddrs(f) {
			fn := fa.Parent()
			for _, r := range *fa.Referrers() {
				switch x := r.(type) {
				case *ssa.Store:
					if x.Addr == ssa.Value(fa) {
						c.decide(fn == split, "KEYSEP", fmt.Sprintf("%s|written in %s", f.Name(), fnName(fn)), instrPos(x), "transport cipher states are (re)initialised by split only", "a transport cipher state is overwritten outside split")
					}
				case *ssa.Call:
					if sc := x.Common().StaticCallee(); sc != nil && strings.HasPrefix(sc.Name(), "InitializeKey") {
						c.decide(fn == split, "KEYSEP", fmt.Sprintf("%s|keyed in %s", f.Name(), fnName(fn)), instrPos(x), "keyed by split only", "a transport cipher state is re-keyed outside split")
					}
				}
			}
		}
	}
	c.floor("KEYSEP", 7)
}

// localAssemblyBuffer: v is a function-local bytes.Buffer that is never handed out: every
// use is a method call on it, and the result of every Bytes() call is only used as the
// source of a copy (the plaintext assembled for EncryptAndHash). Writes into such a buffer
// are not wire writes. (Recognised by shape, not by the variable's name.)
func localAssemblyBuffer(v ssa.Value) bool {
	al, ok := v.(*ssa.Alloc)
	if !ok || !isNamedType(deref(al.Type()), "Buffer") || al.Referrers() == nil {
		return false
	}
	if nt := namedOf(deref(al.Type())); nt == nil || nt.Obj().Pkg() == nil || nt.Obj().Pkg().Path() != "bytes" {
		return false
	}
	nBytes := 0
	for _, r := range *al.Referrers() {
		call, ok := r.(*ssa.Call)
		if !ok {
			if _, isDbg := r.(*ssa.DebugRef); isDbg {
				continue
			}
			return false
		}
		sc := call.Common().StaticCallee()
		if sc == nil || len(call.Common().Args) == 0 || call.Common().Args[0] != ssa.Value(al) {
			return false
		}
		switch {
		case isMethod(sc, "bytes", "Buffer", "Write"), isMethod(sc, "bytes", "Buffer", "WriteByte"), isMethod(sc, "bytes", "Buffer", "Len"):
		case isMethod(sc, "bytes", "Buffer", "Bytes"):
			nBytes++
			if call.Referrers() == nil {
				return false
			}
			for _, u := range *call.Referrers() {
				cp, ok := u.(*ssa.Call)
				if !ok {
					return false
				}
				bi, ok := cp.Call.Value.(*ssa.Builtin)
				if !ok || bi.Name() != "copy" || cp.Call.Args[1] != ssa.Value(call) {
					return false
				}
			}
		default:
			return false
		}
	}
	return nBytes > 0
}

// deferredOnlyFrom: every call site of helper is a defer statement in the entry block of
// one of the owners, with the owner's receiver as the helper's receiver, and each owner
// has such a defer.
func deferredOnlyFrom(w *World, helper *ssa.Function, owners ...*ssa.Function) bool {
	sites, closed := w.CallersOf(helper)
	if !closed || len(sites) == 0 || helper.Signature.Recv() == nil {
		return false
	}
	seen := map[*ssa.Function]bool{}
	for _, s := range sites {
		d, ok := s.Instr.(*ssa.Defer)
		if !ok {
			return false
		}
		owner := d.Parent()
		isOwner := false
		for _, o := range owners {
			if o == owner {
				isOwner = true
			}
		}
		if !isOwner || d.Block() != owner.Blocks[0] || len(d.Common().Args) == 0 || !sameParam(d.Common().Args[0], owner.Params[0]) {
			return false
		}
		seen[owner] = true
	}
	return len(seen) == len(owners)
}

// nonceBufferFilled: the array at address arr (a local of fn) holds the little-endian
// counter: either fn itself calls PutUint64(arr[k:], load(recv.nonce)) before use, or arr
// is initialised from the result of a helper method called on the same receiver whose
// returned array is filled that way.
func nonceBufferFilled(fn *ssa.Function, arr ssa.Value, use ssa.Instruction, fNonce *types.Var, recv ssa.Value, depth int) bool {
	if depth > 2 {
		return false
	}
	direct := false
	allInstrs(fn, func(i2 ssa.Instruction) {
		pc, ok := i2.(*ssa.Call)
		if !ok || pc.Common().StaticCallee() == nil || pc.Common().StaticCallee().Name() != "PutUint64" {
			return
		}
		dst, ok := pc.Common().Args[1].(*ssa.Slice)
		if !ok || dst.X != arr {
			return
		}
		ld, isLoad := unwrapLoadAlloc(pc.Common().Args[2]).(*ssa.UnOp)
		if !isLoad || ld.Op != token.MUL {
			return
		}
		fa, isFA := ld.X.(*ssa.FieldAddr)
		if !isFA || structFieldOf(fa) != fNonce || !sameParam(fa.X, recv) {
			return
		}
		if use == nil || instrDominates(pc, use) {
			direct = true
		}
	})
	if direct {
		return true
	}
	al, ok := arr.(*ssa.Alloc)
	if !ok {
		return false
	}
	// arr = helper(recv)
	var stores []*ssa.Store
	for _, r := range *al.Referrers() {
		if st, ok := r.(*ssa.Store); ok && st.Addr == ssa.Value(al) {
			stores = append(stores, st)
		}
	}
	if len(stores) != 1 {
		return false
	}
	hc, ok := stores[0].Val.(*ssa.Call)
	if !ok || hc.Common().StaticCallee() == nil || len(hc.Common().Args) == 0 || !sameParam(hc.Common().Args[0], recv) {
		return false
	}
	h := hc.Common().StaticCallee()
	if len(h.Blocks) == 0 || len(h.Params) == 0 {
		return false
	}
	okAll, n := true, 0
	allInstrs(h, func(in ssa.Instruction) {
		ret, ok := in.(*ssa.Return)
		if !ok || len(ret.Results) != 1 {
			return
		}
		n++
		ld, ok := ret.Results[0].(*ssa.UnOp)
		if !ok || ld.Op != token.MUL {
			okAll = false
			return
		}
		if !nonceBufferFilled(h, ld.X, ret, fNonce, h.Params[0], depth+1) {
			okAll = false
		}
	})
	return okAll && n > 0
}

// sameParam: v is the parameter p itself or a load of the cell p was spilled to (go/ssa
// spills a parameter that is captured by a closure; the cell has exactly one store, of p).
func sameParam(v ssa.Value, p ssa.Value) bool {
	if v == p {
		return true
	}
	u, ok := v.(*ssa.UnOp)
	if !ok || u.Op != token.MUL {
		return false
	}
	al, ok := u.X.(*ssa.Alloc)
	if !ok || al.Referrers() == nil {
		return false
	}
	n := 0
	for _, r := range *al.Referrers() {
		if st, ok := r.(*ssa.Store); ok && st.Addr == ssa.Value(al) {
			n++
			if st.Val != p {
				return false
			}
		}
	}
	return n == 1
}

// ruleKeySchedule: who may (re)key a cipher state: InitializeKey is called from the key schedule
// only - InitializeKeyWithSalt (split), rotateKey, mixKey, InitializeSymmetric. A state that keys
// itself on first use (with whatever secretKey holds - all zero after a failed handshake) turns
// "no session keys" into "a key everybody knows".
func ruleKeySchedule(c *Checker, rule string) {
	w := c.w
	initKey := mboxFunc(c, "(*mailbox.cipherState).InitializeKey")
	if initKey == nil {
		return
	}
	{
		allowed := map[string]bool{"InitializeKeyWithSalt": true, "rotateKey": true, "mixKey": true, "InitializeSymmetric": true}
		sites, _ := w.CallersOf(initKey) // cipherState is unexported: all callers are in this package
		bad := ""
		for _, sx := range sites {
			if strings.HasSuffix(w.Fset.Position(instrPos(sx.Instr)).Filename, "_test.go") {
				continue
			}
			top := sx.Caller
			for top.Parent() != nil {
				top = top.Parent()
			}
			if !allowed[top.Name()] {
				bad = fnName(sx.Caller) + " at " + w.pos(instrPos(sx.Instr))
			}
		}
		c.decide(bad == "" && len(sites) >= 4, rule, "InitializeKey|called from the key schedule only", initKey.Pos(), fmt.Sprintf("%d call sites: InitializeKeyWithSalt, rotateKey, mixKey, InitializeSymmetric", len(sites)),
			"InitializeKey is also called from "+bad+": a cipher state can be (re)keyed outside the key schedule - with a stale or all-zero key, and with the nonce reset under a key that was already used")
	}
	// the ratchet: rotateKey derives the next key from the key in use (secretKey) and the salt. The
	// key in use is what InitializeKey was given, stored whole, by InitializeKey alone and never
	// overwritten (a wiped or stale secretKey makes every later epoch a function of the salt only, and
	// both directions start from the same salt)
	fSecret := w.Field("mailbox.cipherState.secretKey")
	rot := mboxFunc(c, "(*mailbox.cipherState).rotateKey")
	if fSecret == nil || rot == nil {
		c.anchorFail("mailbox.cipherState.secretKey / rotateKey")
		return
	}
	badStore, nStore := "", 0
	for _, st := range w.Stores(fSecret) {
		fn := st.Parent()
		if strings.HasSuffix(w.Fset.Position(instrPos(st)).Filename, "_test.go") {
			continue
		}
		nStore++
		if fn != initKey {
			badStore = "written in " + fnName(fn)
			continue
		}
		if p, ok := unwrapLoadAlloc(st.Val).(*ssa.Parameter); !ok || p != initKey.Params[1] {
			badStore = "InitializeKey stores " + w.canonFB(st.Val) + " instead of its key argument"
		}
	}
	// partial writes (element stores, copy into a slice of the field) outside InitializeKey
	for _, fa := range w.FieldAddrs(fSecret) {
		if fa.Parent() == initKey || fa.Parent() == nil {
			continue
		}
		for _, r := range *fa.Referrers() {
			switch r.(type) {
			case *ssa.IndexAddr, *ssa.Slice:
				if fa.Parent() != rot {
					badStore = "secretKey is sliced/indexed in " + fnName(fa.Parent())
				}
			}
		}
	}
	c.decide(badStore == "" && nStore == 1, rule, "secretKey|the key in use is the one InitializeKey was given", initKey.Pos(), "one store: secretKey = key, in InitializeKey",
		"the key the ratchet starts from is not the key in use ("+badStore+fmt.Sprintf("; %d stores", nStore)+"): after the first rotation the keys no longer depend on the handshake secret of their direction")
	usesOld := false
	allInstrs(rot, func(in ssa.Instruction) {
		call, ok := in.(*ssa.Call)
		if !ok || !staticCalleeIs(call.Common(), "golang.org/x/crypto/hkdf", "", "New") || len(call.Common().Args) < 3 {
			return
		}
		if sl, ok := call.Common().Args[1].(*ssa.Slice); ok {
			for _, v := range expandValues(sl.X) {
				if al, ok := v.(*ssa.Alloc); ok {
					for _, sv := range localStores(al) {
						if fieldOfValue(sv) == fSecret {
							usesOld = true
						}
					}
				}
				if fa, ok := v.(*ssa.FieldAddr); ok && structFieldOf(fa) == fSecret {
					usesOld = true
				}
			}
		}
	})
	c.decide(usesOld, rule, "rotateKey|HKDF input key is the key in use", rot.Pos(), "hkdf.New(sha256, secretKey, salt, nil)", "rotateKey does not derive the next key from the key in use")
}

// ruleEphemeralFresh: the transport keys of two sessions between the same two static keys differ
// only through the ephemeral keys, and the nonces restart at 0 in every session: an ephemeral key
// that is used for a second handshake makes the second session accept the recorded records of
// the first. So the generator a machine runs with is the package default - btcec.NewPrivateKey,
// assigned nowhere else - and no production code configures another one (the config field exists
// for the tests' deterministic vectors).
func ruleEphemeralFresh(c *Checker) {
	w := c.w
	fGen := w.Field("mailbox.BrontideMachineConfig.EphemeralGen")
	nbm := mboxFunc(c, "mailbox.NewBrontideMachine")
	if fGen == nil || nbm == nil {
		c.anchorFail("mailbox.BrontideMachineConfig.EphemeralGen / NewBrontideMachine")
		return
	}
	var glob *ssa.Global
	if p := w.Prog.ImportedPackage(w.Pkgs[targetMbox].PkgPath); p != nil {
		glob, _ = p.Members["ephemeralGen"].(*ssa.Global)
	}
	bad := ""
	n := 0
	for _, st := range w.Stores(fGen) {
		if strings.HasSuffix(w.Fset.Position(instrPos(st)).Filename, "_test.go") {
			continue
		}
		n++
		okk := false
		if st.Parent() == nbm {
			if u, ok := st.Val.(*ssa.UnOp); ok && u.Op == token.MUL && glob != nil && u.X == ssa.Value(glob) {
				okk = true
			}
		}
		if !okk {
			bad = fnName(st.Parent()) + " at " + w.pos(instrPos(st))
		}
	}
	c.decide(bad == "", "KEYSEP", "ephemeral|no production code configures an ephemeral key generator", token.NoPos, fmt.Sprintf("%d store(s): the nil default in NewBrontideMachine", n),
		"the ephemeral key generator of a handshake machine is set by "+bad+": unless it returns a new random key on every call, two sessions derive the same transport keys and recorded records of one are accepted in the other")
	// the default generator
	okDef, nSt := glob != nil, 0
	if glob != nil && glob.Referrers() == nil {
		// package-level globals carry no referrer list: scan
		for _, fn := range w.Funcs {
			if w.pkgShort(fn) != targetMbox || strings.HasSuffix(w.Fset.Position(fn.Pos()).Filename, "_test.go") {
				continue
			}
			allInstrs(fn, func(in ssa.Instruction) {
				st, ok := in.(*ssa.Store)
				if !ok || st.Addr != ssa.Value(glob) {
					return
				}
				nSt++
				f, _ := st.Val.(*ssa.Function)
				if f == nil || f.Name() != "NewPrivateKey" || f.Pkg == nil || !strings.Contains(f.Pkg.Pkg.Path(), "btcec") {
					okDef = false
				}
			})
		}
	}
	c.decide(okDef && nSt == 1, "KEYSEP", "ephemeral|the default generator is btcec.NewPrivateKey", token.NoPos, "assigned once, at its declaration",
		fmt.Sprintf("the package's ephemeral key generator is not (only) btcec.NewPrivateKey (%d assignments)", nSt))
}

// ruleNARROW: record and frame lengths travel as uint16/uint8 on the wire, but every computation
// with them is done in int/uint32 - an addition or multiplication carried out in the narrow type
// wraps for the largest legal records (`Uint16(hdr) + macSize` is 0..15 for payloads of
// 65520..65535 bytes). So in package mailbox no +, -, *, << is evaluated in an integer type
// narrower than 32 bits unless the operand ranges prove that it cannot wrap.
func ruleNARROW(c *Checker) {
	w := c.w
	rg := newRanger(w)
	n := 0
	for _, fn := range w.Funcs {
		if w.pkgShort(fn) != targetMbox {
			continue
		}
		n++
		allInstrs(fn, func(in ssa.Instruction) {
			bo, ok := in.(*ssa.BinOp)
			if !ok {
				return
			}
			switch bo.Op {
			case token.ADD, token.SUB, token.MUL, token.SHL:
			default:
				return
			}
			bt, ok := bo.Type().Underlying().(*types.Basic)
			if !ok || bt.Info()&types.IsInteger == 0 {
				return
			}
			switch bt.Kind() {
			case types.Uint8, types.Uint16, types.Int8, types.Int16:
			default:
				return
			}
			full := fullRange(bo.Type())
			x, y := rg.At(bo.X, bo.Block()), rg.At(bo.Y, bo.Block())
			okk := false
			switch bo.Op {
			case token.ADD:
				if hi, fits := addSat(x.hi, y.hi); fits && hi <= full.hi && !x.empty && !y.empty {
					okk = true
				}
			case token.SUB:
				okk = !x.empty && !y.empty && x.lo-y.hi >= full.lo
			case token.MUL:
				if hi, fits := mulSat(x.hi, y.hi); fits && hi <= full.hi && x.lo >= 0 && y.lo >= 0 {
					okk = true
				}
			}
			key := fnName(fn) + "|" + w.canonFB(bo)
			c.decide(okk, "NARROW", key, instrPos(bo), "narrow arithmetic proved in range",
				fmt.Sprintf("arithmetic in %s can wrap (operand ranges %s, %s): a length near the maximum comes out small and the record is cut short", typeStr(bo.Type()), x, y))
		})
	}
	c.decide(n > 50, "NARROW", "mailbox|functions scanned", token.NoPos, fmt.Sprintf("%d functions of package mailbox scanned for arithmetic in 8/16-bit integer types", n), "package mailbox not scanned")
}
