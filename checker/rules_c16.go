package main

import (
	"fmt"
	"go/token"
	"go/types"

	"golang.org/x/tools/go/ssa"
)

// ---------------------------------------------------------------------------
// C16: handshake and record framing do not depend on transport fragmentation.

func init() {
	register("C16",
		"RFULL: in mailbox, no protocol field is read from an io.Reader-typed value with a bare Read call; every transport read of the handshake and of the record layer goes through io.ReadFull/io.ReadAtLeast and its error is tested before the buffer is used (short reads of any granularity therefore cannot change the outcome); the reader handed to readMsgPattern/readTokens/DoHandshake/ReadMessage/ReadHeader/ReadBody is always the caller's own reader parameter or transport field, never a wrapper created on the way (no read-ahead across act or record boundaries). FLUSH: in Machine.Flush the pending slice is replaced by x[n:] with n the count of that very Write before the error is looked at, for header and body; an error while writing the header returns before the body is touched; in WriteMessage both Encrypt calls are dominated by the 'nothing pending' test (so the nonce cannot advance and the pending record cannot be overwritten) and by the 65535 bound; only WriteMessage and Flush write the pending slices; NoiseConn.Write on top of it adds each Flush count before testing that Flush's error and cuts contiguous chunks (RDC-3 as in C15). DUPLEX (as C15): a pending record shares no storage with the receive path, so what a later Flush completes is still what was encrypted. FLUSH also: every store of Flush to a pending slice is pending[n:] with n the count returned by its Write (a record whose nonces are consumed is never dropped). FLUSH also: the record-layer wrappers of NoiseConn (ReadNextMessage/Header/Body, WriteMessage, Flush) reach the Machine method of their role on every path and return its results; the only accepted shortcut is (0, nil) from Flush under an empty pending body. RFULL also: io.ReadAtLeast counts as an exact-length read only with min = len(buf). Not decided: the MAC-byte arithmetic of the count returned by Flush (piecewise-linear in the write count; sampled by TestFlush only).",
		[]string{"io.ReadFull returns an error unless the buffer was filled completely; io.Writer.Write returns 0 <= n <= len(p)"},
		runC16)
}

// isInterfaceRead: an invoke of Read([]byte)(int, error) on an interface value.
func isInterfaceRead(cc *ssa.CallCommon) bool {
	if !cc.IsInvoke() || cc.Method.Name() != "Read" {
		return false
	}
	sig, ok := cc.Method.Type().(*types.Signature)
	if !ok || sig.Params().Len() != 1 || sig.Results().Len() != 2 {
		return false
	}
	return isByteSlice(sig.Params().At(0).Type())
}

// errTested: result `idx` of call (or the call's single error result) is compared with nil
// and the non-nil leg returns a non-nil error without using `uses`.
func errCheckedAndReturned(call *ssa.Call, idx int) (bool, string) {
	var errv ssa.Value
	if tup, ok := call.Type().(*types.Tuple); ok {
		if idx >= tup.Len() {
			return false, "no such result"
		}
		for _, r := range *call.Referrers() {
			if ex, ok := r.(*ssa.Extract); ok && ex.Index == idx {
				errv = ex
			}
		}
	} else {
		errv = call
	}
	if errv == nil {
		return false, "the error result is discarded"
	}
	refs := errv.Referrers()
	if refs == nil {
		return false, "the error result is discarded"
	}
	// through named-result locals: *errvar = errv
	vals := []ssa.Value{errv}
	for _, r := range *refs {
		if st, ok := r.(*ssa.Store); ok && st.Val == errv {
			if al, ok := st.Addr.(*ssa.Alloc); ok {
				for _, rr := range *al.Referrers() {
					if u, ok := rr.(*ssa.UnOp); ok && u.Op == token.MUL {
						vals = append(vals, u)
					}
				}
			}
		}
	}
	// through the merge of several error values (`if a { err = f() } else { err = g() }; if err != nil`)
	for i := 0; i < len(vals); i++ {
		if rr := vals[i].Referrers(); rr != nil {
			for _, r := range *rr {
				if phi, ok := r.(*ssa.Phi); ok && types.Identical(phi.Type(), vals[i].Type()) {
					// the merge carries this error only if it cannot be replaced on the way: every
					// other incoming edge comes from a block the call cannot reach (`err = a(); if c
					// { err = b() }; return err` drops a's error when c holds)
					replaced := false
					pb0 := phi.Block()
					var starts []*ssa.BasicBlock
					for _, sb := range call.Block().Succs {
						if sb != pb0 {
							starts = append(starts, sb)
						}
					}
					// ... without coming through the merge itself first (inside a loop the sibling branch is
					// reachable again, but only after the merged value was tested)
					reach := reachableAvoiding(starts, func(b *ssa.BasicBlock) bool { return b == pb0 })
					for ei, e := range phi.Edges {
						if e == vals[i] || ei >= len(phi.Block().Preds) {
							continue
						}
						if pb := phi.Block().Preds[ei]; reach[pb] {
							replaced = true
						}
					}
					if replaced {
						continue
					}
					dup := false
					for _, x := range vals {
						dup = dup || x == ssa.Value(phi)
					}
					if !dup {
						vals = append(vals, phi)
					}
				}
			}
		}
	}
	for _, v := range vals {
		if v.Referrers() == nil {
			continue
		}
		for _, r := range *v.Referrers() {
			switch r := r.(type) {
			case *ssa.Return:
				// passed straight through as the error result
				return true, "returned directly"
			case *ssa.BinOp:
				if (r.Op == token.NEQ || r.Op == token.EQL) && (isNilConst(r.X) || isNilConst(r.Y)) {
					for _, rr := range *r.Referrers() {
						iff, ok := rr.(*ssa.If)
						if !ok {
							continue
						}
						leg := iff.Block().Succs[0]
						if r.Op == token.EQL {
							leg = iff.Block().Succs[1]
						}
						if blockReturnsError(leg, 0) || errorLegReturnsIt(iff.Block(), leg, v) {
							// ... and nothing can leave the function successfully before that test
							bad := pathToReturn(call, func(ret *ssa.Return) bool {
								if len(ret.Results) == 0 {
									return true
								}
								for _, x := range expandValues(ret.Results[len(ret.Results)-1]) {
									if isNilConst(x) {
										return true
									}
								}
								return false
							}, func(in ssa.Instruction) bool { return in == ssa.Instruction(iff) })
							if bad != nil {
								return false, "a success return is reachable from the call without passing the test of its error"
							}
							return true, "tested; the non-nil leg returns an error"
						}
						return false, "tested, but the non-nil leg does not return an error"
					}
				}
			}
		}
	}
	return false, "the error result is never tested"
}

// errorLegReturnsIt: path-sensitive form of blockReturnsError for the shape a spliced-in helper
// leaves behind - the error leg does not return at once but stores the error into a result variable,
// leaves a block, and the caller tests that variable again:
//
//	if err != nil { res = err; break L }  ...  if res != nil { return res }
//
// Walking every path from the leg, a phi takes the value of the edge the path came in on; a value
// known to be non-nil (the tested error, and every phi that takes it on this path) decides a later
// nil test, and returning it is returning an error. Every path must end in such a return (bounded).
func errorLegReturnsIt(from, leg *ssa.BasicBlock, tested ssa.Value) bool {
	return allPathsReturn(from, leg, tested, func(ret *ssa.Return, resolve func(ssa.Value) ssa.Value, nonNil map[ssa.Value]bool) bool {
		if len(ret.Results) == 0 {
			return false
		}
		raw := ret.Results[len(ret.Results)-1]
		// a named result is returned through its variable: the value stored last in this block
		res := unwrapLoadAlloc(raw)
		if nonNil[raw] || nonNil[res] || nonNil[resolve(res)] {
			return true
		}
		res = resolve(res)
		for _, v := range expandValues(res) {
			if isNilConst(v) || !certainlyAnError(v, ret.Block()) {
				return false
			}
		}
		return true
	})
}

// blockReturnsError: every path from b reaches (within a few blocks, no loops) a
// Return whose last result is not the nil constant.
func blockReturnsError(b *ssa.BasicBlock, depth int) bool {
	if depth > 6 {
		return false
	}
	last := b.Instrs[len(b.Instrs)-1]
	switch t := last.(type) {
	case *ssa.Return:
		if len(t.Results) == 0 {
			// a function without results: leaving it is all it can do
			return b.Parent().Signature.Results().Len() == 0
		}
		// the returned value itself is known to be non-nil here (`if err != nil { return err }` where
		// err merges several assignments, one of them nil)
		res := t.Results[len(t.Results)-1]
		if hasFact(b, func(f Fact) bool { return factRel(f, isValue(res), isNilConst) == "!=" }) {
			return true
		}
		for _, v := range expandValues(res) {
			if isNilConst(v) {
				return false
			}
			// ... and it must be an error for certain: not the result of some later call that may
			// well be nil (`err := hs(); if err != nil { if err = conn.Close(); ...; return nil, err }`
			// returns (nil, nil) because Close always succeeds)
			if !certainlyAnError(v, b) {
				return false
			}
		}
		return true
	case *ssa.Jump:
		return blockReturnsError(b.Succs[0], depth+1)
	case *ssa.If:
		// in a function without results "returns" says nothing about success or failure (every path
		// returns eventually): there the error leg must be a straight line to its return, a further
		// decision on it could lead back into the success continuation
		if b.Parent().Signature.Results().Len() == 0 {
			return false
		}
		return blockReturnsError(b.Succs[0], depth+1) && blockReturnsError(b.Succs[1], depth+1)
	}
	return false
}

// certainlyAnError: v cannot be nil where block b returns it: a freshly made error value, a
// package-level error variable, ctx.Err() after Done, a value with a dominating non-nil test, or
// something handed in from outside (a parameter, a captured variable). The result of any other
// call is not.
func certainlyAnError(v ssa.Value, b *ssa.BasicBlock) bool {
	if hasFact(b, func(f Fact) bool { return factRel(f, isValue(v), isNilConst) == "!=" }) {
		return true
	}
	switch x := v.(type) {
	case *ssa.MakeInterface, *ssa.Parameter, *ssa.FreeVar, *ssa.Global, *ssa.TypeAssert, *ssa.Lookup, *ssa.Field, *ssa.Index:
		return true
	case *ssa.ChangeInterface:
		return certainlyAnError(x.X, b)
	case *ssa.UnOp:
		if x.Op == token.MUL {
			switch x.X.(type) {
			case *ssa.Global, *ssa.FieldAddr, *ssa.FreeVar, *ssa.IndexAddr:
				return true
			}
		}
		return true
	case *ssa.Extract:
		if call, ok := x.Tuple.(*ssa.Call); ok {
			return knownErrorCall(call.Common())
		}
		return true
	case *ssa.Call:
		return knownErrorCall(x.Common())
	}
	return true
}

func knownErrorCall(cc *ssa.CallCommon) bool {
	if cc.IsInvoke() {
		// ctx.Err(), err.Unwrap() ...
		return cc.Method.Name() == "Err" || cc.Method.Name() == "Error"
	}
	sc := cc.StaticCallee()
	if sc == nil {
		return false
	}
	if sc.Pkg != nil {
		switch sc.Pkg.Pkg.Path() {
		case "fmt", "errors", "google.golang.org/grpc/status":
			return true
		}
	}
	// a function of the analysed packages all of whose returns are certain errors
	if len(sc.Blocks) == 0 {
		return false
	}
	ok, n := true, 0
	allInstrs(sc, func(in ssa.Instruction) {
		ret, isRet := in.(*ssa.Return)
		if !isRet || ret.Block().Comment == "recover" || len(ret.Results) == 0 {
			return
		}
		for _, v := range expandValues(ret.Results[len(ret.Results)-1]) {
			n++
			if isNilConst(v) {
				ok = false
				continue
			}
			switch y := v.(type) {
			case *ssa.MakeInterface:
			case *ssa.Call:
				if s2 := y.Common().StaticCallee(); s2 == nil || s2.Pkg == nil || (s2.Pkg.Pkg.Path() != "fmt" && s2.Pkg.Pkg.Path() != "errors") {
					ok = false
				}
			default:
				ok = false
			}
		}
	})
	return ok && n > 0
}

// allPathsReturn walks every CFG path from the edge from->leg to a return (bounded), resolving each
// phi to the edge the path came in on; `tested` is known to be non-nil, and so is every phi that
// takes a non-nil value on the path; a nil test of such a value is followed on its feasible side
// only. accept judges the return reached, given the per-path resolution of a value.
func allPathsReturn(from, leg *ssa.BasicBlock, tested ssa.Value, accept func(ret *ssa.Return, resolve func(ssa.Value) ssa.Value, nonNil map[ssa.Value]bool) bool) bool {
	steps := 0
	var walk func(prev, b *ssa.BasicBlock, env map[*ssa.Phi]ssa.Value, nonNil map[ssa.Value]bool, depth int) bool
	walk = func(prev, b *ssa.BasicBlock, env map[*ssa.Phi]ssa.Value, nonNil map[ssa.Value]bool, depth int) bool {
		steps++
		if depth > 28 || steps > 600 {
			return false
		}
		ne := map[*ssa.Phi]ssa.Value{}
		for k, v := range env {
			ne[k] = v
		}
		nn := map[ssa.Value]bool{}
		for k := range nonNil {
			nn[k] = true
		}
		for pi, pb := range b.Preds {
			if pb != prev {
				continue
			}
			for _, in := range b.Instrs {
				phi, ok := in.(*ssa.Phi)
				if !ok {
					break
				}
				v := phi.Edges[pi]
				if p2, ok := v.(*ssa.Phi); ok {
					if r, ok := env[p2]; ok {
						v = r
					}
				}
				ne[phi] = v
				if nonNil[phi.Edges[pi]] || nonNil[v] {
					nn[phi] = true
				} else {
					delete(nn, phi)
				}
			}
			break
		}
		resolve := func(v ssa.Value) ssa.Value {
			if phi, ok := v.(*ssa.Phi); ok {
				if r, ok := ne[phi]; ok {
					return r
				}
			}
			return v
		}
		switch t := b.Instrs[len(b.Instrs)-1].(type) {
		case *ssa.Return:
			return accept(t, resolve, nn)
		case *ssa.Jump:
			return walk(b, b.Succs[0], ne, nn, depth+1)
		case *ssa.If:
			if bo, ok := t.Cond.(*ssa.BinOp); ok && (bo.Op == token.NEQ || bo.Op == token.EQL) {
				var x ssa.Value
				if isNilConst(bo.Y) {
					x = bo.X
				} else if isNilConst(bo.X) {
					x = bo.Y
				}
				if x != nil {
					rx := resolve(x)
					_, isMI := rx.(*ssa.MakeInterface)
					if call, ok := rx.(*ssa.Call); ok && !call.Common().IsInvoke() && knownErrorCall(call.Common()) {
						isMI = true // fmt.Errorf / errors.New ...: never nil
					}
					if nn[x] || nn[rx] || isMI {
						if bo.Op == token.NEQ {
							return walk(b, b.Succs[0], ne, nn, depth+1)
						}
						return walk(b, b.Succs[1], ne, nn, depth+1)
					}
					if isNilConst(rx) {
						if bo.Op == token.NEQ {
							return walk(b, b.Succs[1], ne, nn, depth+1)
						}
						return walk(b, b.Succs[0], ne, nn, depth+1)
					}
				}
			}
			return walk(b, b.Succs[0], ne, nn, depth+1) && walk(b, b.Succs[1], ne, nn, depth+1)
		}
		return false
	}
	return walk(from, leg, map[*ssa.Phi]ssa.Value{}, map[ssa.Value]bool{tested: true}, 0)
}

func runC16(c *Checker) {
	w := c.w
	// a record cut at any byte is completed by a later Flush only if what is pending is still what
	// was encrypted: the pending slices must not share storage with the receive path (DUPLEX, as C15)
	ruleDUPLEX(c)
	// ---- RFULL ----
	nFull := 0
	for _, fn := range w.Funcs {
		if w.pkgShort(fn) != targetMbox {
			continue
		}
		allInstrs(fn, func(in ssa.Instruction) {
			call, ok := in.(*ssa.Call)
			if !ok {
				return
			}
			cc := call.Common()
			if isInterfaceRead(cc) {
				// delegation inside a Read method of the same shape (wrapper passing its own buffer through) is fine
				if fn.Name() == "Read" && len(fn.Params) == 2 && cc.Args[0] == ssa.Value(fn.Params[1]) {
					c.ok("RFULL", fmt.Sprintf("%s|delegating Read", fnName(fn)), instrPos(call), "a Read method handing its own buffer to the wrapped reader (stream semantics preserved)")
					return
				}
				// a reader created locally by a call (hkdf.New, bytes.NewReader) is not a transport
				org := cc.Value
				for {
					if ci, ok := org.(*ssa.ChangeInterface); ok {
						org = ci.X
						continue
					}
					if mi, ok := org.(*ssa.MakeInterface); ok {
						org = mi.X
						continue
					}
					break
				}
				if lc, ok := org.(*ssa.Call); ok {
					c.ok("RFULL", fmt.Sprintf("%s|local reader %s into %s", fnName(fn), calleeLabel(lc.Common()), w.canonFB(cc.Args[0])), instrPos(call),
						"Read on a reader created in this function (not a transport)")
					return
				}
				c.fail("RFULL", fmt.Sprintf("%s|bare Read into %s", fnName(fn), w.canonFB(cc.Args[0])), instrPos(call),
					"a protocol field is read with a single Read call on an io.Reader: a short read leaves the buffer partly filled and a valid handshake/record fails")
				return
			}
			if sc := cc.StaticCallee(); sc != nil && (isPkgFunc(sc, "io", "ReadFull") || isPkgFunc(sc, "io", "ReadAtLeast")) {
				nFull++
				okk, why := errCheckedAndReturned(call, 1)
				c.decide(okk, "RFULL", fmt.Sprintf("%s|ReadFull into %s", fnName(fn), w.canonFB(cc.Args[1])), instrPos(call),
					"full read, error "+why, "io.ReadFull whose error is not acted upon: "+why)
				// io.ReadAtLeast(r, buf, min) may take up to len(buf) bytes: with min < len(buf) how much
				// of the *next* act or record it swallows depends on how the transport fragments the
				// stream. It is an exact-length read only when min is len(buf) itself.
				if isPkgFunc(sc, "io", "ReadAtLeast") {
					exact := false
					if lc, ok := unwrapLoadAlloc(cc.Args[2]).(*ssa.Call); ok {
						if b, ok := lc.Call.Value.(*ssa.Builtin); ok && b.Name() == "len" &&
							(lc.Call.Args[0] == cc.Args[1] || w.canon(lc.Call.Args[0]) == w.canon(cc.Args[1])) {
							exact = true
						}
					}
					c.decide(exact, "RFULL", fmt.Sprintf("%s|ReadAtLeast is exact|%s", fnName(fn), w.canonFB(cc.Args[1])), instrPos(call),
						"min = len(buf)", "io.ReadAtLeast with a minimum that is not len(buf): the read can run past the field into the next act/record, depending on how the transport fragments the stream")
				}
			}
		})
	}
	c.floor("RFULL", 8)
	// RFULL (source): the exact-length reads consume the transport itself. A reader that is created
	// on the way (bufio.NewReader, io.LimitReader, ...) may read ahead and keep bytes of the NEXT act
	// or record in a buffer that is thrown away when the function returns.
	nSrc := 0
	for _, fn := range w.Funcs {
		if w.pkgShort(fn) != targetMbox {
			continue
		}
		allInstrs(fn, func(in ssa.Instruction) {
			call, ok := in.(*ssa.Call)
			if !ok {
				return
			}
			sc := call.Common().StaticCallee()
			if sc == nil || sc.Pkg == nil || sc.Pkg.Pkg.Path() != mboxPath {
				return
			}
			switch sc.Name() {
			case "readMsgPattern", "readTokens", "ReadMessage", "ReadHeader", "ReadBody", "DoHandshake":
			default:
				return
			}
			// the reader argument: the first argument of an io.Reader / io.ReadWriter type
			var rd ssa.Value
			for i, a := range call.Common().Args {
				if i == 0 && sc.Signature.Recv() != nil {
					continue
				}
				if it, ok := a.Type().Underlying().(*types.Interface); ok && it.NumMethods() > 0 {
					for k := 0; k < it.NumMethods(); k++ {
						if it.Method(k).Name() == "Read" {
							rd = a
						}
					}
				}
				if rd != nil {
					break
				}
			}
			if rd == nil {
				return
			}
			nSrc++
			org := rd
			for {
				switch x := org.(type) {
				case *ssa.ChangeInterface:
					org = x.X
					continue
				case *ssa.MakeInterface:
					org = x.X
					continue
				}
				break
			}
			org = unwrapLoadAlloc(org)
			okk, what := false, w.canonFB(org)
			switch x := org.(type) {
			case *ssa.Parameter:
				okk = true
			case *ssa.UnOp:
				if _, isFA := x.X.(*ssa.FieldAddr); isFA && x.Op == token.MUL {
					okk = true // the connection's transport field
				}
			}
			if !okk {
				// a freshly dialled/accepted connection is a transport too: its type can also Write and
				// Close (a read-ahead wrapper such as *bufio.Reader or io.LimitReader cannot)
				ms := w.Prog.MethodSets.MethodSet(org.Type())
				has := func(n string) bool { return ms.Lookup(nil, n) != nil }
				if it, isIface := org.Type().Underlying().(*types.Interface); isIface {
					has = func(n string) bool {
						for k := 0; k < it.NumMethods(); k++ {
							if it.Method(k).Name() == n {
								return true
							}
						}
						return false
					}
				}
				if has("Write") && has("Close") && has("Read") {
					okk = true
				}
			}
			c.decide(okk, "RFULL", fmt.Sprintf("%s|%s reads the transport itself", fnName(fn), sc.Name()), instrPos(call), "the reader is the caller's own reader parameter or transport field",
				"the exact-length reads of "+sc.Name()+" are given "+what+" instead of the transport: a wrapper that reads ahead swallows the beginning of the next act or record")
		})
	}
	if nSrc < 6 {
		c.fail("RFULL", "reader sources", token.NoPos, fmt.Sprintf("only %d reader hand-offs found", nSrc))
	}

	// ---- FLUSH ----
	flush := w.Func("(*mailbox.Machine).Flush")
	wm := w.Func("(*mailbox.Machine).WriteMessage")
	hdr := w.Field("mailbox.Machine.nextHeaderSend")
	body := w.Field("mailbox.Machine.nextBodySend")
	if flush == nil || wm == nil || hdr == nil || body == nil {
		c.anchorFail("Machine.Flush / WriteMessage / nextHeaderSend / nextBodySend")
		return
	}
	recv := ssa.Value(flush.Params[0])
	var writes = map[*types.Var]*ssa.Call{}
	allInstrs(flush, func(in ssa.Instruction) {
		call, ok := in.(*ssa.Call)
		if !ok || !call.Common().IsInvoke() || call.Common().Method.Name() != "Write" {
			return
		}
		f := receiverFieldLoad(call.Common().Args[0], recv)
		key := "Flush|write-source|" + w.canonFB(call.Common().Args[0])
		if f != hdr && f != body {
			c.fail("FLUSH", key, instrPos(call), "Flush writes something other than the pending header/body slice")
			return
		}
		if prev, dup := writes[f]; dup && prev != call {
			c.fail("FLUSH", key+"|dup", instrPos(call), "the pending slice is written twice in one Flush")
		}
		writes[f] = call
		c.ok("FLUSH", key, instrPos(call), "writes the whole pending slice "+f.Name())
	})
	for _, f := range []*types.Var{hdr, body} {
		call := writes[f]
		key := "Flush|advance-before-error|" + f.Name()
		if call == nil {
			c.fail("FLUSH", key, flush.Pos(), "no Write of the pending "+f.Name()+" found")
			continue
		}
		var cnt ssa.Value
		for _, r := range *call.Referrers() {
			if ex, ok := r.(*ssa.Extract); ok && ex.Index == 0 {
				cnt = ex
			}
		}
		// a store F = F[cnt:] in the same block as the call
		found := false
		for _, in := range call.Block().Instrs[instrIndex(call):] {
			st, ok := in.(*ssa.Store)
			if !ok {
				continue
			}
			fa, ok := st.Addr.(*ssa.FieldAddr)
			if !ok || structFieldOf(fa) != f || fa.X != recv {
				continue
			}
			sl, ok := st.Val.(*ssa.Slice)
			if ok && sl.High == nil && sl.Max == nil && sl.Low != nil && unwrapLoadAlloc(sl.Low) == cnt && cnt != nil && receiverFieldLoad(sl.X, recv) == f {
				found = true
			}
		}
		c.decide(found, "FLUSH", key, instrPos(call), f.Name()+" = "+f.Name()+"[n:] with n this Write's count, before the error is tested",
			"the pending "+f.Name()+" is not advanced by this Write's count before its error is tested: after a partial write with a timeout, bytes are re-sent or skipped")
	}
	if hw, bw := writes[hdr], writes[body]; hw != nil && bw != nil {
		// header error returns before body is written: no path from the non-nil leg to the body write
		var errv ssa.Value
		for _, r := range *hw.Referrers() {
			if ex, ok := r.(*ssa.Extract); ok && ex.Index == 1 {
				errv = ex
			}
		}
		okk, why := false, "header Write error is not tested"
		if errv != nil {
			for _, r := range *errv.Referrers() {
				bo, ok := r.(*ssa.BinOp)
				if !ok || !(isNilConst(bo.X) || isNilConst(bo.Y)) {
					continue
				}
				for _, rr := range *bo.Referrers() {
					iff, ok := rr.(*ssa.If)
					if !ok {
						continue
					}
					leg := iff.Block().Succs[0]
					if bo.Op == token.EQL {
						leg = iff.Block().Succs[1]
					}
					reach := reachableAvoiding([]*ssa.BasicBlock{leg}, func(*ssa.BasicBlock) bool { return false })
					if reach[bw.Block()] {
						why = "the body is written although writing the header failed"
					} else if !blockReturnsError(leg, 0) {
						why = "the header error is not returned"
					} else {
						okk, why = true, "a failed header write returns its error before the body is touched"
					}
				}
			}
		}
		c.decide(okk, "FLUSH", "Flush|header-error-first", instrPos(hw), why, why)
		c.decide(instrDominates(hw, bw) || hw.Block().Dominates(bw.Block()) || !reachableAvoiding([]*ssa.BasicBlock{bw.Block()}, func(*ssa.BasicBlock) bool { return false })[hw.Block()],
			"FLUSH", "Flush|header-before-body", instrPos(bw), "the body is never written before the header", "the body can be written before the header")
	}
	// who may write the pending slices
	for _, f := range []*types.Var{hdr, body} {
		for _, st := range w.Stores(f) {
			okk := st.Parent() == flush || st.Parent() == wm
			c.decide(okk, "FLUSH", fmt.Sprintf("pending-writer|%s|%s", f.Name(), fnName(st.Parent())), instrPos(st),
				"written by WriteMessage/Flush only", "the pending "+f.Name()+" is written outside WriteMessage/Flush")
			// Flush only ever advances a pending slice by what the writer took: it never drops a record
			// (the nonces it consumed are gone - the peer would fail every later record)
			if st.Parent() == flush {
				adv := false
				if sl, ok := st.Val.(*ssa.Slice); ok && isLoadOfField(sl.X, f) && sl.High == nil && sl.Low != nil {
					if ex, ok := sl.Low.(*ssa.Extract); ok && ex.Index == 0 {
						if call, ok := ex.Tuple.(*ssa.Call); ok && call.Common().IsInvoke() && call.Common().Method.Name() == "Write" {
							adv = true
						}
					}
				}
				c.decide(adv, "FLUSH", fmt.Sprintf("Flush|%s only advances by the written count|%s", f.Name(), w.canonFB(st.Val)), instrPos(st),
					f.Name()+" = "+f.Name()+"[n:]", "Flush assigns "+w.canonFB(st.Val)+" to the pending "+f.Name()+": a record that was encrypted (nonces consumed) is dropped or replaced instead of being resumed")
			}
		}
	}
	nEnc := ruleWriteMessageGuard(c, "FLUSH", wm, hdr, body)
	if nEnc != 2 {
		c.fail("FLUSH", "WriteMessage|two-encryptions", wm.Pos(), fmt.Sprintf("expected exactly 2 Encrypt calls (header, body), found %d", nEnc))
	} else {
		c.ok("FLUSH", "WriteMessage|two-encryptions", wm.Pos(), "header and body encryption")
	}
	rg := newRanger(w)
	allInstrs(wm, func(in ssa.Instruction) {
		cv, ok := in.(*ssa.Convert)
		if !ok || !isInteger(cv.Type()) || !derivesFromLen(cv.X, 0) {
			return
		}
		r := rg.At(cv.X, cv.Block())
		c.decide(r.within(fullRange(cv.Type())), "FLUSH", "WriteMessage|length-bound", instrPos(cv),
			fmt.Sprintf("len(p) range %s fits the %s length header", r, typeStr(cv.Type())),
			fmt.Sprintf("len(p) (range %s) is cut to %s: a write larger than one record is silently truncated", r, typeStr(cv.Type())))
	})
	ruleRecordWrappers(c, "FLUSH")
	c.floor("FLUSH", 15)
	// "reports exactly the number of plaintext bytes accepted" also for the chunking writer on
	// top of Flush (the accounting rule of C15 RDC-3, re-checked here)
	if nw := w.Func("(*mailbox.NoiseConn).Write"); nw != nil {
		checkWriteMethod(c, rg, nw)
	} else {
		c.anchorFail("(*mailbox.NoiseConn).Write")
	}
}

// ruleWriteMessageGuard: in WriteMessage every Encrypt is dominated by the "nothing pending"
// test on both pending slices (shared by C16 FLUSH and C15 RDC-3). Returns the number of
// Encrypt calls.
func ruleWriteMessageGuard(c *Checker, rule string, wm *ssa.Function, hdr, body *types.Var) int {
	wrecv := ssa.Value(wm.Params[0])
	nEnc := 0
	allInstrs(wm, func(in ssa.Instruction) {
		call, ok := in.(*ssa.Call)
		if !ok || call.Common().StaticCallee() == nil || call.Common().StaticCallee().Name() != "Encrypt" {
			return
		}
		nEnc++
		facts := factsAt(call.Block())
		pendingFree := map[*types.Var]bool{}
		for _, f := range facts {
			bo, ok := f.Cond.(*ssa.BinOp)
			if !ok {
				continue
			}
			lc, ok := bo.X.(*ssa.Call)
			if !ok {
				continue
			}
			bi, ok := lc.Call.Value.(*ssa.Builtin)
			if !ok || bi.Name() != "len" {
				continue
			}
			fld := receiverFieldLoad(lc.Call.Args[0], wrecv)
			k, isK := intConst(bo.Y)
			if fld == nil || !isK || k != 0 {
				continue
			}
			if (bo.Op == token.GTR && !f.Val) || (bo.Op == token.EQL && f.Val) || (bo.Op == token.NEQ && !f.Val) {
				pendingFree[fld] = true
			}
		}
		key := fmt.Sprintf("WriteMessage|encrypt-%d-guarded", nEnc)
		c.decide(pendingFree[hdr] && pendingFree[body], rule, key, instrPos(call),
			"dominated by len(nextHeaderSend)==0 and len(nextBodySend)==0",
			"Encrypt can run while a record is still pending: the nonce advances and the pending record is overwritten (ErrMessageNotFlushed guard missing)")
	})
	return nEnc
}
