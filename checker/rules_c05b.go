package main

import (
	"fmt"
	"go/token"
	"go/types"
	"math"
	"sort"
	"strings"

	"golang.org/x/tools/go/ssa"
)

// ---------------------------------------------------------------------------
// C05, second part: RETRY (a failed relay stream is replaced before the retry)
// and DUPLEX (the read side and the write side of the record layer share no
// mutable state, which is what allows NoiseGrpcConn.Read and Write to run
// concurrently under a read lock).

// ruleRETRY: the mailbox endpoints survive relay stream failures by re-creating
// the stream and trying again. Three structural conditions:
//
//	(A) ConnectSend / ConnectReceive of every client transport install a NEW
//	    stream on every success path (no success return without a store of a
//	    freshly obtained stream into the field that *Connected() tests);
//	(B) ServerConn.createSendMailBox / createReceiveMailBox leave only through a
//	    quit/ctx case or after storing a freshly obtained stream;
//	(C) in the four transport callbacks a failed stream operation reaches the next
//	    attempt only through the re-create call.
func ruleRETRY(c *Checker) {
	w := c.w
	// ---- (A) client transports ----
	iface := w.Named("mailbox.ClientConnTransport")
	if iface == nil {
		c.anchorFail("mailbox.ClientConnTransport")
		return
	}
	it, _ := iface.Underlying().(*types.Interface)
	sc := w.Pkgs[targetMbox].Types.Scope()
	var impls []string
	for _, name := range sc.Names() {
		tn, ok := sc.Lookup(name).(*types.TypeName)
		if !ok || tn.IsAlias() {
			continue
		}
		nt, ok := tn.Type().(*types.Named)
		if !ok || types.IsInterface(nt) || it == nil {
			continue
		}
		if types.Implements(types.NewPointer(nt), it) {
			impls = append(impls, name)
		}
	}
	sort.Strings(impls)
	for _, tname := range impls {
		for _, pr := range [][2]string{{"ConnectSend", "SendConnected"}, {"ConnectReceive", "ReceiveConnected"}} {
			conn := w.Func("(*mailbox." + tname + ")." + pr[0])
			tst := w.Func("(*mailbox." + tname + ")." + pr[1])
			key := fmt.Sprintf("%s.%s|installs a new stream on every success path", tname, pr[0])
			if conn == nil || tst == nil {
				c.anchorFail("mailbox." + tname + "." + pr[0] + "/" + pr[1])
				continue
			}
			// the field that *Connected() tests
			var fld *types.Var
			allInstrs(tst, func(in ssa.Instruction) {
				if u, ok := in.(*ssa.UnOp); ok && u.Op == token.MUL {
					if fa, ok := u.X.(*ssa.FieldAddr); ok && fa.X == ssa.Value(tst.Params[0]) {
						fld = structFieldOf(fa)
					}
				}
			})
			if fld == nil {
				c.fail("RETRY", key, conn.Pos(), pr[1]+" does not test a field of the transport")
				continue
			}
			isFreshStore := func(in ssa.Instruction) bool {
				st, ok := in.(*ssa.Store)
				if !ok || structFieldOf(st.Addr) != fld {
					return false
				}
				for _, v := range expandValues(st.Val) {
					if ex, ok := v.(*ssa.Extract); ok {
						if call, ok := ex.Tuple.(*ssa.Call); ok && call.Parent() == conn {
							continue
						}
					}
					if call, ok := v.(*ssa.Call); ok && call.Parent() == conn {
						continue
					}
					return false
				}
				return true
			}
			bad := ""
			allInstrs(conn, func(in ssa.Instruction) {
				ret, ok := in.(*ssa.Return)
				if !ok || bad != "" {
					return
				}
				succ := false
				for _, v := range expandValues(ret.Results[len(ret.Results)-1]) {
					if isNilConst(v) {
						succ = true
					}
				}
				if succ && pathFromEntry(conn, ret, isFreshStore) {
					bad = w.pos(instrPos(ret))
				}
			})
			c.decide(bad == "", "RETRY", key, conn.Pos(), "no success return without storing a freshly created stream into "+fld.Name(),
				pr[0]+" can report success at "+bad+" without replacing "+fld.Name()+": after a stream error the retry loop keeps using the dead stream and never recovers")
		}
	}
	// ---- (B) server side re-creation ----
	for _, pr := range [][2]string{{"createSendMailBox", "sendStream"}, {"createReceiveMailBox", "receiveStream"}} {
		fn := w.Func("(*mailbox.ServerConn)." + pr[0])
		fld := w.Field("mailbox.ServerConn." + pr[1])
		key := fmt.Sprintf("ServerConn.%s|leaves only with a new stream or on quit", pr[0])
		if fn == nil || fld == nil {
			c.anchorFail("mailbox.ServerConn." + pr[0] + "/" + pr[1])
			continue
		}
		exitBodies := map[*ssa.BasicBlock]bool{}
		allInstrs(fn, func(in ssa.Instruction) {
			if sel, ok := in.(*ssa.Select); ok {
				cases, _ := w.selectCases(sel)
				for _, scs := range cases {
					if !scs.IsSend && scs.Body != nil {
						exitBodies[scs.Body] = true
					}
				}
			}
		})
		isFreshStore := func(in ssa.Instruction) bool {
			st, ok := in.(*ssa.Store)
			if !ok || structFieldOf(st.Addr) != fld {
				return false
			}
			for _, v := range expandValues(st.Val) {
				ex, ok := v.(*ssa.Extract)
				if !ok {
					return false
				}
				if call, ok := ex.Tuple.(*ssa.Call); !ok || call.Parent() != fn {
					return false
				}
			}
			return true
		}
		bad := ""
		allInstrs(fn, func(in ssa.Instruction) {
			ret, ok := in.(*ssa.Return)
			if !ok || bad != "" || exitBodies[ret.Block()] {
				return
			}
			if pathFromEntry(fn, ret, isFreshStore) {
				bad = w.pos(instrPos(ret))
			}
		})
		c.decide(bad == "", "RETRY", key, fn.Pos(), "every return outside the quit/ctx cases is preceded by a store of a freshly obtained stream",
			pr[0]+" can return at "+bad+" without having replaced "+pr[1]+": the caller retries on the dead stream forever")
		// ... and every attempt to open the stream (re-)creates the mailbox first: the relay may have
		// lost it (restart, expiry); a remembered "already created" must not skip the call
		var opens []ssa.Instruction
		allInstrs(fn, func(in ssa.Instruction) {
			if ci, ok := in.(ssa.CallInstruction); ok && ci.Common().IsInvoke() && (ci.Common().Method.Name() == "RecvStream" || ci.Common().Method.Name() == "SendStream") {
				opens = append(opens, in)
			}
		})
		isInit := func(in ssa.Instruction) bool {
			ci, ok := in.(ssa.CallInstruction)
			if !ok {
				return false
			}
			sc := ci.Common().StaticCallee()
			return sc != nil && sc.Name() == "initAccountCipherBox"
		}
		badOpen := ""
		for _, op := range opens {
			if pathFromEntry(fn, op, isInit) {
				badOpen = w.pos(instrPos(op))
			}
			// within the loop too: from one attempt to the next
			for _, op2 := range opens {
				if pathExists(op2, op, isInit) {
					badOpen = w.pos(instrPos(op))
				}
			}
		}
		c.decide(badOpen == "" && len(opens) > 0, "RETRY", fmt.Sprintf("ServerConn.%s|the mailbox is (re-)created before every attempt to open its stream", pr[0]), fn.Pos(), "initAccountCipherBox precedes every RecvStream/SendStream",
			pr[0]+" can open the stream at "+badOpen+" without having asked the relay to create the mailbox in this attempt: after the relay lost its mailboxes the stream can never be opened again")
	}
	// ---- (B') client side re-creation: left only after a successful Connect* or on quit ----
	for _, pr := range [][2]string{{"createSendMailBox", "ConnectSend"}, {"createReceiveMailBox", "ConnectReceive"}} {
		fn := w.Func("(*mailbox.ClientConn)." + pr[0])
		key := fmt.Sprintf("ClientConn.%s|leaves only after a successful %s or on quit", pr[0], pr[1])
		if fn == nil {
			c.anchorFail("mailbox.ClientConn." + pr[0])
			continue
		}
		exitBodies := map[*ssa.BasicBlock]bool{}
		var conns []ssa.Value
		allInstrs(fn, func(in ssa.Instruction) {
			if sel, ok := in.(*ssa.Select); ok {
				cases, _ := w.selectCases(sel)
				for _, scs := range cases {
					if !scs.IsSend && scs.Body != nil {
						exitBodies[scs.Body] = true
					}
				}
			}
			if call, ok := in.(*ssa.Call); ok && call.Common().IsInvoke() && call.Common().Method.Name() == pr[1] {
				conns = append(conns, call)
			}
		})
		bad := ""
		allInstrs(fn, func(in ssa.Instruction) {
			ret, ok := in.(*ssa.Return)
			if !ok || bad != "" || exitBodies[ret.Block()] {
				return
			}
			okk := hasFact(ret.Block(), func(f Fact) bool {
				for _, cv := range conns {
					if factRel(f, isValue(cv), isNilConst) == "==" {
						return true
					}
				}
				return false
			})
			if !okk {
				bad = w.pos(instrPos(ret))
			}
		})
		c.decide(bad == "" && len(conns) == 1, "RETRY", key, fn.Pos(), "every return outside the quit/ctx cases is under "+pr[1]+"() == nil",
			pr[0]+" can return at "+bad+" although "+pr[1]+" failed: the caller goes on with an unconnected transport (nil stream), or retries on the dead one forever")
	}
	// ---- (C) retry legs of the four callbacks ----
	type cb struct{ fn, op, recreate string }
	for _, x := range []cb{
		{"(*mailbox.ClientConn).send", "Send", "createSendMailBox"},
		{"(*mailbox.ClientConn).recv", "Recv", "createReceiveMailBox"},
		{"(*mailbox.ServerConn).sendToStream", "Send", "createSendMailBox"},
		{"(*mailbox.ServerConn).recvFromStream", "Recv", "createReceiveMailBox"},
	} {
		fn := w.Func(x.fn)
		key := fmt.Sprintf("%s|a failed %s is retried only after %s", strings.Replace(strings.TrimPrefix(x.fn, "(*mailbox."), ")", "", 1), x.op, x.recreate)
		if fn == nil {
			c.anchorFail(x.fn)
			continue
		}
		var ops []*ssa.Call
		allInstrs(fn, func(in ssa.Instruction) {
			call, ok := in.(*ssa.Call)
			if ok && call.Common().IsInvoke() && call.Common().Method.Name() == x.op {
				ops = append(ops, call)
			}
		})
		if len(ops) != 1 {
			c.fail("RETRY", key, fn.Pos(), fmt.Sprintf("expected one %s on the relay stream, found %d", x.op, len(ops)))
			continue
		}
		op := ops[0]
		// the error result of the operation
		var errv ssa.Value
		if tup, ok := op.Type().(*types.Tuple); ok {
			for _, r := range *op.Referrers() {
				if ex, ok := r.(*ssa.Extract); ok && ex.Index == tup.Len()-1 {
					errv = ex
				}
			}
		} else {
			errv = op
		}
		isRecreate := func(in ssa.Instruction) bool {
			ci, ok := in.(ssa.CallInstruction)
			if !ok {
				return false
			}
			s := ci.Common().StaticCallee()
			return s != nil && s.Name() == x.recreate
		}
		bad, nLegs := "", 0
		for _, b := range fn.Blocks {
			if errv == nil || len(b.Instrs) == 0 {
				continue
			}
			entry := false
			isErrLeg := func(bb *ssa.BasicBlock) bool {
				return hasFact(bb, func(f Fact) bool {
					bo, ok := f.Cond.(*ssa.BinOp)
					if !ok || !isNilConst(bo.Y) || bo.X != errv {
						return false
					}
					return (bo.Op == token.NEQ && f.Val) || (bo.Op == token.EQL && !f.Val)
				})
			}
			if !isErrLeg(b) {
				continue
			}
			for _, p := range b.Preds {
				if !isErrLeg(p) {
					entry = true
				}
			}
			if !entry {
				continue
			}
			nLegs++
			if pathFromBlockEntry(b, op, isRecreate) {
				bad = w.pos(b.Instrs[0].Pos())
			}
		}
		c.decide(bad == "" && nLegs > 0, "RETRY", key, instrPos(op), "every path from the error leg back to the operation passes "+x.recreate,
			"after a failed "+x.op+" the loop can try again without re-creating the stream (leg at "+bad+"): the same dead stream is used forever and neither side completes or fails")
	}
	c.floor("RETRY", 14)
}

// ruleDUPLEX: the Noise record layer is used full duplex: NoiseGrpcConn.Read and Write only
// take a read lock, so they run concurrently. That is only sound because the read path
// (ReadMessage/ReadHeader/ReadBody) and the write path (WriteMessage/Flush) of Machine touch
// disjoint fields, and no buffer of one side is handed to the other side's cipher as a
// destination.
func ruleDUPLEX(c *Checker) {
	w := c.w
	side := func(names ...string) (map[*types.Var]string, []*ssa.Function) {
		out := map[*types.Var]string{}
		var fns []*ssa.Function
		for _, n := range names {
			fn := w.Func("(*mailbox.Machine)." + n)
			if fn == nil {
				c.anchorFail("mailbox.Machine." + n)
				continue
			}
			fns = append(fns, fn)
			recv := ssa.Value(fn.Params[0])
			allInstrs(fn, func(in ssa.Instruction) {
				fa, ok := in.(*ssa.FieldAddr)
				if !ok || !sameParam(fa.X, recv) {
					return
				}
				out[structFieldOf(fa)] = n
			})
		}
		return out, fns
	}
	rd, _ := side("ReadMessage", "ReadHeader", "ReadBody")
	wr, wfns := side("WriteMessage", "Flush")
	var shared []string
	for f, rn := range rd {
		if wn, ok := wr[f]; ok {
			shared = append(shared, fmt.Sprintf("%s (%s and %s)", f.Name(), rn, wn))
		}
	}
	sort.Strings(shared)
	c.decide(len(shared) == 0 && len(rd) > 0 && len(wr) > 0, "DUPLEX", "Machine|read side and write side use disjoint fields", token.NoPos,
		fmt.Sprintf("read side touches %d fields, write side %d, none in common", len(rd), len(wr)),
		"the read path and the write path of the record layer share state: "+strings.Join(shared, ", ")+" - a Read concurrent with a Write (both only hold the read lock) corrupts a record")
	// the destination handed to Encrypt on the write side is nil (a fresh buffer)
	for _, fn := range wfns {
		n := 0
		for _, ci := range findCalls(fn, func(ci ssa.CallInstruction) bool {
			s := ci.Common().StaticCallee()
			return s != nil && s.Name() == "Encrypt"
		}) {
			n++
			a := ci.Common().Args
			okk := len(a) >= 3 && isNilConst(a[2])
			c.decide(okk, "DUPLEX", fmt.Sprintf("%s|encrypt-%d writes into a fresh buffer", fn.Name(), n), instrPos(ci), "the ciphertext destination is nil: Seal allocates",
				"the ciphertext is sealed into an existing buffer: the pending record aliases memory that another path reads or writes")
		}
	}
	// ... and the plaintext handed up by the read side is a fresh buffer as well: it is kept by the
	// callers across calls (NoiseGrpcConn.nextMsg, bytes.Buffer), so it must not alias the ciphertext
	// buffer, which is reused or pooled
	for _, name := range []string{"ReadHeader", "ReadBody", "ReadMessage"} {
		fn := w.Func("(*mailbox.Machine)." + name)
		if fn == nil {
			continue
		}
		n := 0
		for _, ci := range findCalls(fn, func(ci ssa.CallInstruction) bool {
			s := ci.Common().StaticCallee()
			return s != nil && s.Name() == "Decrypt"
		}) {
			n++
			a := ci.Common().Args
			okk := len(a) >= 3 && isNilConst(a[2])
			c.decide(okk, "DUPLEX", fmt.Sprintf("%s|decrypt-%d returns a fresh buffer", name, n), instrPos(ci), "the plaintext destination is nil: Open allocates",
				"the record is decrypted into an existing buffer (in place or into shared storage): the plaintext that callers keep across calls is overwritten when that buffer is reused")
		}
	}
	// NoiseGrpcConn: Read and Write touch disjoint fields of the connection, apart from the
	// machine and the transport, which are only read
	r := w.Func("(*mailbox.NoiseGrpcConn).Read")
	wrf := w.Func("(*mailbox.NoiseGrpcConn).Write")
	if r == nil || wrf == nil {
		c.anchorFail("mailbox.NoiseGrpcConn.Read/Write")
	} else {
		written := func(fn *ssa.Function) map[*types.Var]bool {
			out := map[*types.Var]bool{}
			allInstrs(fn, func(in ssa.Instruction) {
				if st, ok := in.(*ssa.Store); ok {
					if fa, ok := st.Addr.(*ssa.FieldAddr); ok && sameParam(fa.X, fn.Params[0]) {
						out[structFieldOf(fa)] = true
					}
				}
			})
			return out
		}
		touched := func(fn *ssa.Function) map[*types.Var]bool {
			out := map[*types.Var]bool{}
			allInstrs(fn, func(in ssa.Instruction) {
				if fa, ok := in.(*ssa.FieldAddr); ok && sameParam(fa.X, fn.Params[0]) {
					out[structFieldOf(fa)] = true
				}
			})
			return out
		}
		var bad []string
		for f := range written(r) {
			if touched(wrf)[f] {
				bad = append(bad, f.Name()+" (written by Read, used by Write)")
			}
		}
		for f := range written(wrf) {
			if touched(r)[f] {
				bad = append(bad, f.Name()+" (written by Write, used by Read)")
			}
		}
		sort.Strings(bad)
		c.decide(len(bad) == 0, "DUPLEX", "NoiseGrpcConn|Read and Write do not write each other's fields", r.Pos(), "no field written by one method is used by the other",
			"NoiseGrpcConn.Read and Write run concurrently (read lock only) but share written state: "+strings.Join(bad, ", "))
	}
	c.floor("DUPLEX", 6)
}

// ruleCBCTX: the mailbox transport callbacks (and the reconnect helpers they call) run on the
// gbn connection's goroutines with the context gbn hands them; gbn.Close cancels exactly that
// context and then waits for the goroutines. So every loop in these functions must poll the
// context PARAMETER (not a context or quit channel of the mailbox connection, which only fire
// after gbn.Close has returned), and that leg must leave the function; and the context they
// pass on to the helpers is that parameter.
func ruleCBCTX(c *Checker, rule string) {
	w := c.w
	names := []string{
		"(*mailbox.ClientConn).send", "(*mailbox.ClientConn).recv", "(*mailbox.ClientConn).createSendMailBox", "(*mailbox.ClientConn).createReceiveMailBox",
		"(*mailbox.ServerConn).sendToStream", "(*mailbox.ServerConn).recvFromStream", "(*mailbox.ServerConn).createSendMailBox", "(*mailbox.ServerConn).createReceiveMailBox",
	}
	for _, n := range names {
		fn := w.Func(n)
		if fn == nil {
			c.anchorFail(n)
			continue
		}
		var ctxp *ssa.Parameter
		for _, p := range fn.Params {
			if nt := namedOf(p.Type()); nt != nil && nt.Obj().Pkg() != nil && nt.Obj().Pkg().Path() == "context" && nt.Obj().Name() == "Context" {
				ctxp = p
			}
		}
		short := strings.Replace(strings.TrimPrefix(n, "(*mailbox."), ")", "", 1)
		if ctxp == nil {
			c.fail(rule, short+"|context parameter", fn.Pos(), "the callback has no context parameter")
			continue
		}
		// blocks that poll ctxParam.Done() in a select whose leg returns
		breaker := map[*ssa.BasicBlock]bool{}
		allInstrs(fn, func(in ssa.Instruction) {
			sel, ok := in.(*ssa.Select)
			if !ok {
				return
			}
			cases, _ := w.selectCases(sel)
			for _, sc := range cases {
				if sc.IsSend {
					continue
				}
				call, ok := unwrapLoadAlloc(sc.Chan).(*ssa.Call)
				if !ok || !call.Common().IsInvoke() || call.Common().Method.Name() != "Done" || !sameParam(call.Common().Value, ctxp) {
					continue
				}
				if sc.Body != nil && blockLeaves(sc.Body, 0) {
					breaker[sel.Block()] = true
				}
			}
		})
		// a cycle that avoids every breaker block?
		cyc := cycleAvoiding(fn, breaker)
		c.decide(cyc == nil, rule, short+"|every loop polls the context it was given", fn.Pos(),
			"every cycle passes a select with a returning case on the context parameter's Done()",
			"a loop of this callback does not poll the context it was handed by gbn (at "+posOf(w, cyc)+"): gbn.Close cancels that context and then waits for the goroutine, so Close hangs while the relay is unreachable")
		// the context passed on to same-package helpers and to the relay is the parameter
		bad := ""
		allInstrs(fn, func(in ssa.Instruction) {
			ci, ok := in.(ssa.CallInstruction)
			if !ok {
				return
			}
			for _, a := range ci.Common().Args {
				nt := namedOf(a.Type())
				if nt == nil || nt.Obj().Pkg() == nil || nt.Obj().Pkg().Path() != "context" || nt.Obj().Name() != "Context" {
					continue
				}
				if !sameParam(a, ctxp) && unwrapLoadAlloc(a) != ssa.Value(ctxp) {
					bad = calleeLabel(ci.Common()) + " at " + w.pos(instrPos(ci))
				}
			}
		})
		c.decide(bad == "", rule, short+"|passes on the context it was given", fn.Pos(), "every context argument is the context parameter",
			"a call ("+bad+") is given another context than the one gbn handed to the callback: cancelling the connection's context does not interrupt it")
	}
}

// blockLeaves: every path from b (a few blocks, no loops) ends in a Return.
func blockLeaves(b *ssa.BasicBlock, depth int) bool {
	if depth > 6 || len(b.Instrs) == 0 {
		return false
	}
	switch b.Instrs[len(b.Instrs)-1].(type) {
	case *ssa.Return:
		return true
	case *ssa.Jump:
		return blockLeaves(b.Succs[0], depth+1)
	case *ssa.If:
		return blockLeaves(b.Succs[0], depth+1) && blockLeaves(b.Succs[1], depth+1)
	}
	return false
}

// cycleAvoiding returns a block on a cycle of fn's CFG that does not pass any breaker block
// (nil if every cycle passes one).
func cycleAvoiding(fn *ssa.Function, breaker map[*ssa.BasicBlock]bool) *ssa.BasicBlock {
	state := map[*ssa.BasicBlock]int{} // 1 = on stack, 2 = done
	var found *ssa.BasicBlock
	var dfs func(b *ssa.BasicBlock)
	dfs = func(b *ssa.BasicBlock) {
		if found != nil || breaker[b] {
			return
		}
		state[b] = 1
		for _, s := range b.Succs {
			if breaker[s] || !edgeFeasible(b, s) {
				continue
			}
			switch state[s] {
			case 0:
				dfs(s)
			case 1:
				found = s
				return
			}
		}
		state[b] = 2
	}
	for _, b := range fn.Blocks {
		if state[b] == 0 {
			dfs(b)
		}
	}
	return found
}

func posOf(w *World, b *ssa.BasicBlock) string {
	if b == nil || len(b.Instrs) == 0 {
		return "-"
	}
	for _, in := range b.Instrs {
		if in.Pos().IsValid() {
			return w.pos(in.Pos())
		}
	}
	return "-"
}

// ruleCallbackLocks: the four relay callbacks that gbn drives from several goroutines (send loop,
// receive loop - ACKs -, Close - FIN) serialise the relay operation of their direction under a
// mutex, and the two directions of one connection use different mutexes: a receive that waits for
// the peer while holding the send side's lock stops this side from sending what the peer waits for.
func ruleCallbackLocks(c *Checker, rule string) {
	w := c.w
	type cb struct{ typ, fn, op string }
	cbs := []cb{
		{"ClientConn", "(*mailbox.ClientConn).send", "Send"},
		{"ClientConn", "(*mailbox.ClientConn).recv", "Recv"},
		{"ServerConn", "(*mailbox.ServerConn).sendToStream", "Send"},
		{"ServerConn", "(*mailbox.ServerConn).recvFromStream", "Recv"},
	}
	var funcs []*ssa.Function
	roots := map[*ssa.Function]bool{}
	for _, x := range cbs {
		fn := w.Func(x.fn)
		if fn == nil {
			c.anchorFail(x.fn)
			return
		}
		funcs = append(funcs, fn)
		roots[fn] = true
	}
	li := w.computeLocks(funcs, roots)
	held := map[string]map[*types.Var]bool{}
	for _, x := range cbs {
		fn := w.Func(x.fn)
		var ops []*ssa.Call
		allInstrs(fn, func(in ssa.Instruction) {
			if call, ok := in.(*ssa.Call); ok && call.Common().IsInvoke() && call.Common().Method.Name() == x.op {
				ops = append(ops, call)
			}
		})
		short := strings.Replace(strings.TrimPrefix(x.fn, "(*mailbox."), ")", "", 1)
		set := map[*types.Var]bool{}
		okk := len(ops) > 0
		for _, op := range ops {
			ls := li.At(op)
			excl := false
			for f, m := range ls {
				if m == lockExcl {
					excl = true
					set[f] = true
				}
			}
			if !excl {
				okk = false
			}
		}
		held[x.fn] = set
		c.decide(okk, rule, short+"|relay "+x.op+" runs under a mutex", fn.Pos(), "held: "+w.lockSetString(func() LockSet {
			ls := LockSet{}
			for f := range set {
				ls[f] = lockExcl
			}
			return ls
		}()), "the relay "+x.op+" in "+short+" is not serialised by a mutex: gbn calls it from several goroutines (data, ACKs, FIN), concurrent writes/reads on one stream or socket are not allowed")
	}
	for _, pr := range [][2]int{{0, 1}, {2, 3}} {
		a, b := cbs[pr[0]], cbs[pr[1]]
		shared := ""
		for f := range held[a.fn] {
			if held[b.fn][f] {
				shared = f.Name()
			}
		}
		c.decide(shared == "", rule, a.typ+"|send and receive callbacks use different mutexes", token.NoPos, "disjoint locks",
			"the send and the receive callback of "+a.typ+" both hold "+shared+" across their relay operation: while one waits for the peer the other direction is blocked (the connection is half duplex and can stall)")
	}
}

// ruleHandshakeDeadline: a read deadline that a function puts on the transport for the
// handshake is taken off again on every path on which it hands the connection out: the four
// handshake drivers (gRPC client/server, TCP dial/listen) set `now + handshakeReadTimeout`; a
// success return that has not passed SetReadDeadline(time.Time{}) leaves every later Read of the
// established connection failing with a timeout a few seconds in.
func ruleHandshakeDeadline(c *Checker, rule string) {
	w := c.w
	n := 0
	for _, fn := range w.Funcs {
		if w.pkgShort(fn) != targetMbox || strings.HasSuffix(w.Fset.Position(fn.Pos()).Filename, "_test.go") {
			continue
		}
		var arms, clears []ssa.Instruction
		allInstrs(fn, func(in ssa.Instruction) {
			ci, ok := in.(ssa.CallInstruction)
			if !ok {
				return
			}
			name := ""
			if ci.Common().IsInvoke() {
				name = ci.Common().Method.Name()
			} else if sc := ci.Common().StaticCallee(); sc != nil {
				name = sc.Name()
			}
			if name != "SetReadDeadline" && name != "SetDeadline" {
				return
			}
			args := ci.Common().Args
			if len(args) == 0 {
				return
			}
			t := unwrapLoadAlloc(args[len(args)-1])
			zero := false
			if k, ok := t.(*ssa.Const); ok && k.Value == nil {
				zero = true
			}
			if al, ok := args[len(args)-1].(*ssa.UnOp); ok {
				if a, ok := al.X.(*ssa.Alloc); ok && len(localStores(a)) == 0 {
					zero = true // zero-valued local time.Time{}
				}
			}
			if _, isParam := t.(*ssa.Parameter); isParam {
				return // a forwarding SetReadDeadline method
			}
			if zero {
				clears = append(clears, in)
			} else {
				arms = append(arms, in)
			}
		})
		if len(arms) == 0 {
			continue
		}
		n++
		bad := ""
		allInstrs(fn, func(in ssa.Instruction) {
			ret, ok := in.(*ssa.Return)
			if !ok || bad != "" || ret.Block().Comment == "recover" || len(ret.Results) == 0 {
				return
			}
			succ := false
			for _, v := range expandValues(ret.Results[len(ret.Results)-1]) {
				if isNilConst(v) {
					succ = true
				}
			}
			if !succ {
				return
			}
			for _, a := range arms {
				if pathExists(a, ret, func(x ssa.Instruction) bool {
					for _, cl := range clears {
						if x == cl {
							return true
						}
					}
					return false
				}) {
					bad = w.pos(instrPos(ret))
				}
			}
		})
		// a driver without results (the listener's handshake goroutine) hands the connection out by
		// passing the wrapped connection on to another function of the package
		if fn.Signature.Results().Len() == 0 {
			allInstrs(fn, func(in ssa.Instruction) {
				ci, ok := in.(ssa.CallInstruction)
				if !ok || bad != "" {
					return
				}
				sc := ci.Common().StaticCallee()
				if sc == nil || w.pkgShort(sc) != targetMbox {
					return
				}
				handsOut := false
				for i, a := range ci.Common().Args {
					if i == 0 && sc.Signature.Recv() != nil {
						continue
					}
					if nn := namedOf(deref(a.Type())); nn != nil && nn.Obj().Name() == "NoiseConn" {
						handsOut = true
					}
				}
				if !handsOut {
					return
				}
				for _, a := range arms {
					if pathExists(a, in, func(x ssa.Instruction) bool {
						for _, cl := range clears {
							if x == cl {
								return true
							}
						}
						return false
					}) {
						bad = w.pos(instrPos(in))
					}
				}
			})
		}
		c.decide(bad == "", rule, fnName(fn)+"|the handshake read deadline is cleared before the connection is handed out", fn.Pos(), "every success return after SetReadDeadline(now+timeout) passes SetReadDeadline(time.Time{})",
			fnName(fn)+" can return successfully at "+bad+" with the handshake's read deadline still armed: every Read on the established connection fails with a timeout once it expires")
	}
	c.decide(n >= 4, rule, "handshake deadline sites", token.NoPos, fmt.Sprintf("%d functions arm a read deadline", n), fmt.Sprintf("only %d functions arm a handshake read deadline (4 expected)", n))
}

// ruleDeadlineMapping: net.Conn deadlines are mapped onto the gbn timeouts of the same direction,
// and the zero deadline - "no deadline", which is what the handshake drivers set once they are
// done - onto "never": SetReadDeadline hands SetRecvTimeout a value that is MaxInt64 on the edge
// where t.IsZero() holds and time.Until(t) otherwise; SetWriteDeadline likewise with
// SetSendTimeout. (time.Until of the zero time is a huge negative duration: every later Read
// would time out at once.)
func ruleDeadlineMapping(c *Checker, rule string) {
	w := c.w
	for _, pr := range [][2]string{{"SetReadDeadline", "SetRecvTimeout"}, {"SetWriteDeadline", "SetSendTimeout"}} {
		fn := mboxFunc(c, "(*mailbox.connKit)."+pr[0])
		if fn == nil {
			continue
		}
		t := ssa.Value(fn.Params[1])
		var calls []*ssa.Call
		wrong := ""
		allInstrs(fn, func(in ssa.Instruction) {
			call, ok := in.(*ssa.Call)
			if !ok || !call.Common().IsInvoke() {
				return
			}
			switch call.Common().Method.Name() {
			case pr[1]:
				calls = append(calls, call)
			case "SetRecvTimeout", "SetSendTimeout":
				wrong = call.Common().Method.Name()
			}
		})
		okk, why := len(calls) == 1 && wrong == "", ""
		if wrong != "" {
			why = "calls " + wrong
		}
		if okk {
			call := calls[0]
			// the call is unconditional
			if len(factsAt(call.Block())) != 0 {
				okk, why = false, "the timeout is only set conditionally"
			}
			arg := call.Common().Args[0]
			phi, isPhi := arg.(*ssa.Phi)
			if !isPhi {
				okk, why = false, "the timeout is "+w.canonFB(arg)+" on every path (no 'never' for the zero deadline)"
			} else {
				nInf, nUntil := 0, 0
				for i, e := range phi.Edges {
					pred := phi.Block().Preds[i]
					zeroEdge := false
					for _, f := range factsOnEdge(pred, phi.Block()) {
						if cl, ok := f.Cond.(*ssa.Call); ok && f.Val && cl.Common().StaticCallee() != nil && cl.Common().StaticCallee().Name() == "IsZero" && len(cl.Common().Args) == 1 && cl.Common().Args[0] == t {
							zeroEdge = true
						}
					}
					if k, isK := intConst(e); isK && k == math.MaxInt64 && zeroEdge {
						nInf++
						continue
					}
					if cl, ok := e.(*ssa.Call); ok && staticCalleeIs(cl.Common(), "time", "", "Until") && cl.Common().Args[0] == t && !zeroEdge {
						nUntil++
						continue
					}
					okk, why = false, "edge value "+w.canonFB(e)
				}
				if nInf == 0 || nUntil == 0 {
					okk = false
					if why == "" {
						why = "the zero deadline is not mapped to MaxInt64"
					}
				}
			}
		}
		c.decide(okk, rule, "connKit."+pr[0]+"|"+pr[1]+"(zero deadline -> never, else time.Until)", fn.Pos(), "maps onto "+pr[1]+", MaxInt64 exactly for the zero time",
			"connKit."+pr[0]+" does not map the deadline onto "+pr[1]+" with 'never' for the zero time ("+why+"): clearing the handshake deadline makes every later call time out at once, or the wrong direction is limited")
	}
}
