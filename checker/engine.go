package main

import (
	"fmt"
	"go/constant"
	"go/token"
	"go/types"
	"math"
	"sort"
	"strings"

	"golang.org/x/tools/go/ssa"
)

// ---------------------------------------------------------------------------
// A1: branch facts

// Fact is a branch condition known to hold.
type Fact struct {
	Cond ssa.Value
	Val  bool
}

// normFact strips !x and x==true / x==false wrappers.
func normFact(f Fact) Fact {
	for {
		switch c := f.Cond.(type) {
		case *ssa.UnOp:
			if c.Op == token.NOT {
				f = Fact{c.X, !f.Val}
				continue
			}
		case *ssa.BinOp:
			if c.Op == token.EQL || c.Op == token.NEQ {
				if k, ok := c.Y.(*ssa.Const); ok && isBoolConst(k) {
					v := constant.BoolVal(k.Value)
					same := (c.Op == token.EQL) == v // cond == (X is true)
					if same {
						f = Fact{c.X, f.Val}
					} else {
						f = Fact{c.X, !f.Val}
					}
					continue
				}
				if k, ok := c.X.(*ssa.Const); ok && isBoolConst(k) {
					v := constant.BoolVal(k.Value)
					same := (c.Op == token.EQL) == v
					if same {
						f = Fact{c.Y, f.Val}
					} else {
						f = Fact{c.Y, !f.Val}
					}
					continue
				}
			}
		}
		return f
	}
}

func isBoolConst(k *ssa.Const) bool {
	if k.Value == nil {
		return false
	}
	return k.Value.Kind() == constant.Bool
}

// edgeFact returns the fact carried by the CFG edge p->b, if p ends in an If
// whose two successors differ.
func edgeFact(p, b *ssa.BasicBlock) (Fact, bool) {
	if len(p.Instrs) == 0 {
		return Fact{}, false
	}
	iff, ok := p.Instrs[len(p.Instrs)-1].(*ssa.If)
	if !ok || len(p.Succs) != 2 || p.Succs[0] == p.Succs[1] {
		return Fact{}, false
	}
	if p.Succs[0] == b {
		return normFact(Fact{iff.Cond, true}), true
	}
	if p.Succs[1] == b {
		return normFact(Fact{iff.Cond, false}), true
	}
	return Fact{}, false
}

// factsAt returns the branch facts that hold on entry of block b on every path.
func factsAt(b *ssa.BasicBlock) []Fact {
	var out []Fact
	for a := b.Idom(); a != nil; a = a.Idom() {
		if len(a.Succs) != 2 || a.Succs[0] == a.Succs[1] {
			continue
		}
		for _, s := range a.Succs {
			if len(s.Preds) == 1 && (s == b || s.Dominates(b)) {
				if f, ok := edgeFact(a, s); ok {
					out = append(out, f)
				}
			}
		}
	}
	return out
}

// factsOnEdge returns the facts that hold when control flows p -> b.
func factsOnEdge(p, b *ssa.BasicBlock) []Fact {
	out := factsAt(p)
	if f, ok := edgeFact(p, b); ok {
		out = append(out, f)
	}
	return out
}

// ---------------------------------------------------------------------------
// A2: canonical expressions

type canonizer struct {
	w     *World
	depth int
	// key mode: no SSA register names (stable under unrelated edits); used for
	// construct keys, never for value identity.
	key bool
}

// canon renders v with value identity (SSA names for impure values).
func (w *World) canon(v ssa.Value) string { return (&canonizer{w: w}).c(v, true) }

// canonFB renders v as a stable, field-based key: field loads without their
// base object, calls/phis/locals by callee or source variable name.
func (w *World) canonFB(v ssa.Value) string { return (&canonizer{w: w, key: true}).c(v, false) }

func unwrapLoadAlloc(v ssa.Value) ssa.Value {
	for i := 0; i < 8; i++ {
		nv := unwrapLoadAlloc1(v)
		if nv == v {
			return v
		}
		v = nv
	}
	return v
}

// allocCaptured: the local is bound into a closure (so calls may modify it).
func allocCaptured(al *ssa.Alloc) bool {
	for _, r := range *al.Referrers() {
		switch r.(type) {
		case *ssa.Store, *ssa.UnOp, *ssa.DebugRef:
		default:
			return true
		}
	}
	return false
}

// unwrapLoadAlloc1 forwards a load of a local variable to the value stored:
// the latest store earlier in the same block (if no call could have changed
// the local in between), or the only store if it dominates the load.
func unwrapLoadAlloc1(v ssa.Value) ssa.Value {
	// a conversion between channel types only narrows the direction (`(<-chan T)(c)`): same channel
	if ct, ok := v.(*ssa.ChangeType); ok {
		_, c1 := ct.Type().Underlying().(*types.Chan)
		_, c2 := ct.X.Type().Underlying().(*types.Chan)
		if c1 && c2 {
			return ct.X
		}
	}
	u, ok := v.(*ssa.UnOp)
	if !ok || u.Op != token.MUL {
		return v
	}
	al, ok := u.X.(*ssa.Alloc)
	if !ok {
		return v
	}
	captured := allocCaptured(al)
	b := u.Block()
	if b != nil {
		idx := -1
		for i, in := range b.Instrs {
			if in == ssa.Instruction(u) {
				idx = i
				break
			}
		}
		for i := idx - 1; i >= 0; i-- {
			in := b.Instrs[i]
			if st, ok := in.(*ssa.Store); ok && st.Addr == al {
				return st.Val
			}
			if captured {
				if _, isCall := in.(ssa.CallInstruction); isCall {
					break
				}
				if _, isRD := in.(*ssa.RunDefers); isRD {
					break
				}
			}
		}
	}
	var st *ssa.Store
	n := 0
	for _, r := range *al.Referrers() {
		if s, ok := r.(*ssa.Store); ok && s.Addr == al {
			st = s
			n++
		}
	}
	if n == 1 && (!captured || !reassignedInClosures(al)) && st.Parent() == u.Parent() && st.Block().Dominates(u.Block()) && st.Block() != u.Block() {
		return st.Val
	}
	return v
}

// reassignedInClosures: some closure that captures the local stores to it.
func reassignedInClosures(al *ssa.Alloc) bool {
	var fvStored func(fv *ssa.FreeVar, d int) bool
	fvStored = func(fv *ssa.FreeVar, d int) bool {
		if d > 4 {
			return true
		}
		for _, r := range *fv.Referrers() {
			switch r := r.(type) {
			case *ssa.Store:
				if r.Addr == ssa.Value(fv) {
					return true
				}
			case *ssa.MakeClosure:
				fn := r.Fn.(*ssa.Function)
				for i, b := range r.Bindings {
					if b == ssa.Value(fv) && i < len(fn.FreeVars) && fvStored(fn.FreeVars[i], d+1) {
						return true
					}
				}
			case *ssa.UnOp, *ssa.DebugRef:
			default:
				return true
			}
		}
		return false
	}
	for _, r := range *al.Referrers() {
		switch r := r.(type) {
		case *ssa.MakeClosure:
			fn := r.Fn.(*ssa.Function)
			for i, b := range r.Bindings {
				if b == ssa.Value(al) && i < len(fn.FreeVars) && fvStored(fn.FreeVars[i], 0) {
					return true
				}
			}
		case *ssa.Store, *ssa.UnOp, *ssa.DebugRef:
		default:
			return true
		}
	}
	return false
}

// localStores returns the values stored to a local variable.
func localStores(al *ssa.Alloc) []ssa.Value {
	var out []ssa.Value
	for _, r := range *al.Referrers() {
		if s, ok := r.(*ssa.Store); ok && s.Addr == al {
			out = append(out, s.Val)
		}
	}
	return out
}

// expandValues resolves v through phis and loads of locals to the set of
// defining values (bounded).
func expandValues(v ssa.Value) []ssa.Value {
	var out []ssa.Value
	seen := map[ssa.Value]bool{}
	var rec func(v ssa.Value, d int)
	rec = func(v ssa.Value, d int) {
		v = unwrapLoadAlloc(v)
		if seen[v] || d > 12 {
			return
		}
		seen[v] = true
		switch x := v.(type) {
		case *ssa.Phi:
			for _, e := range x.Edges {
				rec(e, d+1)
			}
			return
		case *ssa.UnOp:
			if x.Op == token.MUL {
				if al, ok := x.X.(*ssa.Alloc); ok {
					for _, sv := range localStores(al) {
						rec(sv, d+1)
					}
					return
				}
			}
		}
		out = append(out, v)
	}
	rec(v, 0)
	return out
}

func (cz *canonizer) c(v ssa.Value, withBase bool) string {
	cz.depth++
	defer func() { cz.depth-- }()
	if cz.depth > 24 {
		return "…"
	}
	v = unwrapLoadAlloc(v)
	switch v := v.(type) {
	case nil:
		return "nil"
	case *ssa.Const:
		if v.Value == nil {
			return "nil:" + types.TypeString(v.Type(), shortQual)
		}
		return v.Value.ExactString()
	case *ssa.Parameter:
		return "param:" + v.Name()
	case *ssa.FreeVar:
		return "free:" + v.Name()
	case *ssa.Global:
		return "global:" + v.Name()
	case *ssa.Function:
		return "func:" + fnName(v)
	case *ssa.UnOp:
		switch v.Op {
		case token.MUL:
			if fa, ok := v.X.(*ssa.FieldAddr); ok {
				fk := cz.w.fieldKey(structFieldOf(fa))
				if withBase {
					return "load(" + fk + "@" + cz.c(fa.X, withBase) + ")"
				}
				return "load(" + fk + ")"
			}
			return "load(" + cz.c(v.X, withBase) + ")"
		default:
			return v.Op.String() + "(" + cz.c(v.X, withBase) + ")"
		}
	case *ssa.Field:
		fk := cz.w.fieldKey(structFieldOf(v))
		if withBase {
			return "load(" + fk + "@" + cz.c(v.X, withBase) + ")"
		}
		return "load(" + fk + ")"
	case *ssa.FieldAddr:
		fk := cz.w.fieldKey(structFieldOf(v))
		if withBase {
			return "&" + fk + "@" + cz.c(v.X, withBase)
		}
		return "&" + fk
	case *ssa.BinOp:
		x, y := cz.c(v.X, withBase), cz.c(v.Y, withBase)
		op := v.Op
		switch op {
		case token.GTR:
			op, x, y = token.LSS, y, x
		case token.GEQ:
			op, x, y = token.LEQ, y, x
		case token.ADD, token.MUL, token.EQL, token.NEQ, token.AND, token.OR, token.XOR:
			if y < x {
				x, y = y, x
			}
		}
		return "(" + x + op.String() + y + ")"
	case *ssa.Convert:
		return "conv<" + types.TypeString(v.Type(), shortQual) + ">(" + cz.c(v.X, withBase) + ")"
	case *ssa.ChangeType:
		return cz.c(v.X, withBase)
	case *ssa.ChangeInterface:
		return cz.c(v.X, withBase)
	case *ssa.MakeInterface:
		return "iface(" + cz.c(v.X, withBase) + ")"
	case *ssa.Call:
		if b, ok := v.Call.Value.(*ssa.Builtin); ok && (b.Name() == "len" || b.Name() == "cap") {
			return b.Name() + "(" + cz.c(v.Call.Args[0], withBase) + ")"
		}
		if cz.key {
			return "call:" + calleeLabel(v.Common())
		}
		return "call#" + v.Name() + ":" + calleeLabel(v.Common())
	case *ssa.Phi:
		if x, m, ok := wrapIncPhi(v); ok {
			// "n := x+1; if n == m { n = 0 }" is x+1 modulo m (for x < m): render it like the % form
			a, b := "1", cz.c(x, withBase)
			if b < a {
				a, b = b, a
			}
			return "((" + a + "+" + b + ")%" + cz.c(m, withBase) + ")"
		}
		if cz.key {
			return "phi:" + v.Comment
		}
		return "phi#" + v.Name()
	case *ssa.Extract:
		return fmt.Sprintf("extract%d(%s)", v.Index, cz.c(v.Tuple, withBase))
	case *ssa.IndexAddr:
		return "&(" + cz.c(v.X, withBase) + "[" + cz.c(v.Index, withBase) + "])"
	case *ssa.Index:
		return "(" + cz.c(v.X, withBase) + "[" + cz.c(v.Index, withBase) + "])"
	case *ssa.Slice:
		lo, hi := "", ""
		if v.Low != nil {
			lo = cz.c(v.Low, withBase)
		}
		if v.High != nil {
			hi = cz.c(v.High, withBase)
		}
		return "slice(" + cz.c(v.X, withBase) + "," + lo + "," + hi + ")"
	case *ssa.TypeAssert:
		return "assert<" + types.TypeString(v.AssertedType, shortQual) + ">(" + cz.c(v.X, withBase) + ")"
	case *ssa.Alloc:
		if cz.key {
			return "var:" + v.Comment
		}
		return "alloc#" + v.Name()
	case *ssa.MakeClosure:
		return "closure:" + fnName(v.Fn.(*ssa.Function))
	case *ssa.Lookup:
		return "lookup(" + cz.c(v.X, withBase) + "," + cz.c(v.Index, withBase) + ")"
	}
	if cz.key {
		return "v:" + fmt.Sprintf("%T", v)
	}
	return "v#" + v.Name()
}

func shortQual(p *types.Package) string { return p.Name() }

// calleeLabel names the callee of a call for reports and keys.
func calleeLabel(c *ssa.CallCommon) string {
	if c.IsInvoke() {
		return "invoke " + types.TypeString(c.Value.Type(), shortQual) + "." + c.Method.Name()
	}
	switch f := c.Value.(type) {
	case *ssa.Function:
		return fnName(f)
	case *ssa.Builtin:
		return "builtin " + f.Name()
	case *ssa.MakeClosure:
		return fnName(f.Fn.(*ssa.Function))
	}
	if u, ok := c.Value.(*ssa.UnOp); ok && u.Op == token.MUL {
		if fa, ok := u.X.(*ssa.FieldAddr); ok {
			if f := structFieldOf(fa); f != nil {
				return "dynamic field " + f.Name()
			}
		}
	}
	return "dynamic"
}

// ---------------------------------------------------------------------------
// A3: integer ranges

// Range is a closed interval of int64; hiInf marks an unknown upper bound
// beyond MaxInt64 (uint64 values).
type Range struct {
	lo, hi int64
	empty  bool
}

func fullRange(t types.Type) Range {
	if b, ok := t.Underlying().(*types.Basic); ok {
		switch b.Kind() {
		case types.Uint8:
			return Range{0, math.MaxUint8, false}
		case types.Uint16:
			return Range{0, math.MaxUint16, false}
		case types.Uint32:
			return Range{0, math.MaxUint32, false}
		case types.Uint, types.Uint64, types.Uintptr:
			return Range{0, math.MaxInt64, false} // upper bound clipped; see isU64
		case types.Int8:
			return Range{math.MinInt8, math.MaxInt8, false}
		case types.Int16:
			return Range{math.MinInt16, math.MaxInt16, false}
		case types.Int32:
			return Range{math.MinInt32, math.MaxInt32, false}
		case types.Int, types.Int64, types.UntypedInt:
			return Range{math.MinInt64, math.MaxInt64, false}
		}
	}
	return Range{math.MinInt64, math.MaxInt64, false}
}

func isU64(t types.Type) bool {
	if b, ok := t.Underlying().(*types.Basic); ok {
		switch b.Kind() {
		case types.Uint, types.Uint64, types.Uintptr:
			return true
		}
	}
	return false
}

func isUnsigned(t types.Type) bool {
	if b, ok := t.Underlying().(*types.Basic); ok {
		return b.Info()&types.IsUnsigned != 0
	}
	return false
}

func isInteger(t types.Type) bool {
	if b, ok := t.Underlying().(*types.Basic); ok {
		return b.Info()&types.IsInteger != 0
	}
	return false
}

func (r Range) join(o Range) Range {
	if r.empty {
		return o
	}
	if o.empty {
		return r
	}
	if o.lo < r.lo {
		r.lo = o.lo
	}
	if o.hi > r.hi {
		r.hi = o.hi
	}
	return r
}

func (r Range) meet(o Range) Range {
	if r.empty || o.empty {
		return Range{empty: true}
	}
	if o.lo > r.lo {
		r.lo = o.lo
	}
	if o.hi < r.hi {
		r.hi = o.hi
	}
	if r.lo > r.hi {
		return Range{empty: true}
	}
	return r
}

func (r Range) within(o Range) bool {
	if r.empty {
		return true
	}
	return !o.empty && r.lo >= o.lo && r.hi <= o.hi
}

func (r Range) String() string {
	if r.empty {
		return "[]"
	}
	return fmt.Sprintf("[%d,%d]", r.lo, r.hi)
}

func addSat(a, b int64) (int64, bool) {
	s := a + b
	if (b > 0 && s < a) || (b < 0 && s > a) {
		return 0, false
	}
	return s, true
}

func mulSat(a, b int64) (int64, bool) {
	if a == 0 || b == 0 {
		return 0, true
	}
	p := a * b
	if p/b != a || (a == -1 && b == math.MinInt64) || (b == -1 && a == math.MinInt64) {
		return 0, false
	}
	return p, true
}

// Ranger evaluates integer ranges with field invariants and interprocedural
// parameter ranges.
type Ranger struct {
	w *World
	// FieldInv gives the assumed (and separately proved) range of loads of a field.
	FieldInv map[*types.Var]Range
	// paramDepth bounds the interprocedural evaluation.
	stack []ssa.Value
	memoP map[*ssa.Parameter]*Range
}

func newRanger(w *World) *Ranger {
	return &Ranger{w: w, FieldInv: map[*types.Var]Range{}, memoP: map[*ssa.Parameter]*Range{}}
}

func constRange(k *ssa.Const) (Range, bool) {
	if k.Value == nil {
		return Range{}, false
	}
	if k.Value.Kind() != constant.Int {
		return Range{}, false
	}
	if i, ok := constant.Int64Val(k.Value); ok {
		return Range{i, i, false}, true
	}
	if _, ok := constant.Uint64Val(k.Value); ok {
		return Range{math.MaxInt64, math.MaxInt64, false}, true
	}
	return Range{}, false
}

// At evaluates v as seen from block b (facts that dominate b are applied).
func (rg *Ranger) At(v ssa.Value, b *ssa.BasicBlock) Range {
	return rg.eval(v, factsIf(b), 0)
}

// OnEdge evaluates v as seen when flowing p->b.
func (rg *Ranger) OnEdge(v ssa.Value, p, b *ssa.BasicBlock) Range {
	return rg.eval(v, factsOnEdge(p, b), 0)
}

func factsIf(b *ssa.BasicBlock) []Fact {
	if b == nil {
		return nil
	}
	return factsAt(b)
}

func (rg *Ranger) onStack(v ssa.Value) (bool, bool) {
	// returns (present, onlyPhisSince)
	for i := len(rg.stack) - 1; i >= 0; i-- {
		if rg.stack[i] == v {
			only := true
			for _, x := range rg.stack[i:] {
				if _, ok := x.(*ssa.Phi); !ok {
					only = false
				}
			}
			return true, only
		}
	}
	return false, false
}

func (rg *Ranger) eval(v ssa.Value, facts []Fact, depth int) Range {
	v = unwrapLoadAlloc(v)
	if !isInteger(v.Type()) {
		return fullRange(v.Type())
	}
	full := fullRange(v.Type())
	if depth > 40 {
		return full
	}
	if present, onlyPhis := rg.onStack(v); present {
		if onlyPhis {
			return Range{empty: true}
		}
		return rg.refine(v, full, facts)
	}
	rg.stack = append(rg.stack, v)
	defer func() { rg.stack = rg.stack[:len(rg.stack)-1] }()

	r := full
	switch v := v.(type) {
	case *ssa.Const:
		if cr, ok := constRange(v); ok {
			return cr
		}
	case *ssa.Phi:
		if mr, ok := rg.monotonePhi(v, depth); ok {
			r = mr.meet(full)
			break
		}
		acc := Range{empty: true}
		for i, e := range v.Edges {
			p := v.Block().Preds[i]
			acc = acc.join(rg.eval(e, factsOnEdge(p, v.Block()), depth+1))
		}
		if acc.empty {
			// every operand is an identity cycle: no information
			acc = full
		}
		r = acc.meet(full)
	case *ssa.Convert:
		if isInteger(v.X.Type()) {
			x := rg.eval(v.X, facts, depth+1)
			if isU64(v.X.Type()) && x.hi == math.MaxInt64 {
				// unknown large unsigned value: conversion may wrap
				if !isU64(v.Type()) {
					r = full
					break
				}
			}
			if x.within(full) {
				r = x
			}
		}
	case *ssa.ChangeType:
		r = rg.eval(v.X, facts, depth+1).meet(full)
	case *ssa.BinOp:
		x := rg.eval(v.X, facts, depth+1)
		y := rg.eval(v.Y, facts, depth+1)
		if x.empty || y.empty {
			break
		}
		switch v.Op {
		case token.ADD:
			lo, ok1 := addSat(x.lo, y.lo)
			hi, ok2 := addSat(x.hi, y.hi)
			if ok1 && ok2 && (Range{lo, hi, false}).within(full) && !(isU64(v.Type()) && hi == math.MaxInt64) {
				r = Range{lo, hi, false}
			} else if is64(v.Type()) && !isUnsigned(v.Type()) && ok1 && x.lo > math.MinInt64/2 && y.lo > math.MinInt64/2 {
				// 64-bit signed counters are assumed not to overflow: keep the
				// lower bound, leave the upper bound open
				r = Range{lo, math.MaxInt64, false}
			}
		case token.SUB:
			lo, ok1 := addSat(x.lo, -y.hi)
			hi, ok2 := addSat(x.hi, -y.lo)
			if y.hi == math.MinInt64 || y.lo == math.MinInt64 {
				ok1 = false
			}
			if ok1 && ok2 && (Range{lo, hi, false}).within(full) {
				r = Range{lo, hi, false}
			}
		case token.MUL:
			if x.lo >= 0 && y.lo >= 0 {
				lo, ok1 := mulSat(x.lo, y.lo)
				hi, ok2 := mulSat(x.hi, y.hi)
				if ok1 && ok2 && (Range{lo, hi, false}).within(full) {
					r = Range{lo, hi, false}
				}
			}
		case token.REM:
			if x.lo >= 0 && y.lo >= 1 {
				hi := y.hi - 1
				if x.hi < hi {
					hi = x.hi
				}
				r = Range{0, hi, false}
			}
		case token.QUO:
			if x.lo >= 0 && y.lo >= 1 {
				r = Range{0, x.hi, false}
			}
		case token.AND:
			if y.lo >= 0 && x.lo >= 0 {
				hi := y.hi
				if x.hi < hi {
					hi = x.hi
				}
				r = Range{0, hi, false}
			} else if y.lo >= 0 {
				r = Range{0, y.hi, false}
			} else if x.lo >= 0 {
				r = Range{0, x.hi, false}
			}
		case token.SHR:
			if x.lo >= 0 {
				r = Range{0, x.hi, false}
			}
		}
	case *ssa.UnOp:
		if v.Op == token.MUL {
			if fa, ok := v.X.(*ssa.FieldAddr); ok {
				if inv, ok := rg.FieldInv[structFieldOf(fa)]; ok {
					r = inv.meet(full)
				}
			}
		}
	case *ssa.Field:
		if inv, ok := rg.FieldInv[structFieldOf(v)]; ok {
			r = inv.meet(full)
		}
	case *ssa.Call:
		if b, ok := v.Call.Value.(*ssa.Builtin); ok && (b.Name() == "len" || b.Name() == "cap") {
			r = Range{0, math.MaxInt64, false}
			if n, ok := arrayLen(v.Call.Args[0].Type()); ok {
				r = Range{n, n, false}
			}
			if k, ok := v.Call.Args[0].(*ssa.Const); ok && k.Value != nil && k.Value.Kind() == constant.String {
				n := int64(len(constant.StringVal(k.Value)))
				r = Range{n, n, false}
			}
		}
		if b, ok := v.Call.Value.(*ssa.Builtin); ok && (b.Name() == "min" || b.Name() == "max") && len(v.Call.Args) > 0 && isInteger(v.Type()) {
			first := true
			for _, a := range v.Call.Args {
				ar := rg.eval(a, facts, depth+1)
				if ar.empty {
					first = true
					r = full
					break
				}
				if first {
					r, first = ar, false
					continue
				}
				if b.Name() == "min" {
					if ar.lo < r.lo {
						r.lo = ar.lo
					}
					if ar.hi < r.hi {
						r.hi = ar.hi
					}
				} else {
					if ar.lo > r.lo {
						r.lo = ar.lo
					}
					if ar.hi > r.hi {
						r.hi = ar.hi
					}
				}
			}
		}
	case *ssa.Parameter:
		r = rg.paramRange(v, depth).meet(full)
	}
	return rg.refine(v, r, facts)
}

func is64(t types.Type) bool {
	if b, ok := t.Underlying().(*types.Basic); ok {
		switch b.Kind() {
		case types.Int, types.Int64, types.Uint, types.Uint64, types.Uintptr:
			return true
		}
	}
	return false
}

// monotonePhi recognises loop counters: a phi whose operands are either
// independent initial values or the phi itself plus a non-negative amount.
// The lower bound is then the least initial value (64-bit signed counters
// are assumed not to overflow).
func (rg *Ranger) monotonePhi(phi *ssa.Phi, depth int) (Range, bool) {
	if !is64(phi.Type()) || isUnsigned(phi.Type()) {
		return Range{}, false
	}
	incr := 0
	lo := int64(math.MaxInt64)
	for i, e := range phi.Edges {
		if e == phi {
			continue
		}
		if bo, ok := e.(*ssa.BinOp); ok && bo.Op == token.ADD && (bo.X == phi || bo.Y == phi) {
			other := bo.Y
			if bo.Y == phi {
				other = bo.X
			}
			if dependsOn(other, phi, 0) {
				return Range{}, false
			}
			r := rg.eval(other, factsAt(bo.Block()), depth+1)
			if r.empty || r.lo < 0 {
				return Range{}, false
			}
			incr++
			continue
		}
		if dependsOn(e, phi, 0) {
			return Range{}, false
		}
		r := rg.eval(e, factsOnEdge(phi.Block().Preds[i], phi.Block()), depth+1)
		if r.empty {
			continue
		}
		if r.lo < lo {
			lo = r.lo
		}
	}
	if incr == 0 || lo == math.MaxInt64 {
		return Range{}, false
	}
	return Range{lo, math.MaxInt64, false}, true
}

// dependsOn reports whether v's definition (transitively, through pure
// operators and phis) uses target.
func dependsOn(v, target ssa.Value, depth int) bool {
	if v == target {
		return true
	}
	if depth > 12 {
		return true
	}
	switch x := v.(type) {
	case *ssa.BinOp:
		return dependsOn(x.X, target, depth+1) || dependsOn(x.Y, target, depth+1)
	case *ssa.UnOp:
		return dependsOn(x.X, target, depth+1)
	case *ssa.Convert:
		return dependsOn(x.X, target, depth+1)
	case *ssa.ChangeType:
		return dependsOn(x.X, target, depth+1)
	case *ssa.Phi:
		for _, e := range x.Edges {
			if e != x && dependsOn(e, target, depth+1) {
				return true
			}
		}
	}
	return false
}

func arrayLen(t types.Type) (int64, bool) {
	t = t.Underlying()
	if p, ok := t.(*types.Pointer); ok {
		t = p.Elem().Underlying()
	}
	if a, ok := t.(*types.Array); ok {
		return a.Len(), true
	}
	return 0, false
}

// sameValue reports whether a and b denote the same runtime value: identical
// SSA values or structurally equal pure expressions.
func (rg *Ranger) sameValue(a, b ssa.Value) bool {
	a, b = unwrapLoadAlloc(a), unwrapLoadAlloc(b)
	if a == b {
		return true
	}
	ca, cb := rg.w.canon(a), rg.w.canon(b)
	if ca != cb {
		return false
	}
	// canon strings of impure values embed the SSA name, so equality implies
	// identity for those; loads are assumed stable between test and use.
	return !strings.Contains(ca, "…")
}

// refine narrows r for v using facts of the form v <op> E.
func (rg *Ranger) refine(v ssa.Value, r Range, facts []Fact) Range {
	for _, f := range facts {
		bo, ok := f.Cond.(*ssa.BinOp)
		if !ok {
			continue
		}
		var other ssa.Value
		op := bo.Op
		if rg.sameValue(bo.X, v) {
			other = bo.Y
		} else if rg.sameValue(bo.Y, v) {
			other = bo.X
			switch op {
			case token.LSS:
				op = token.GTR
			case token.LEQ:
				op = token.GEQ
			case token.GTR:
				op = token.LSS
			case token.GEQ:
				op = token.LEQ
			}
		} else {
			continue
		}
		if !f.Val {
			switch op {
			case token.LSS:
				op = token.GEQ
			case token.LEQ:
				op = token.GTR
			case token.GTR:
				op = token.LEQ
			case token.GEQ:
				op = token.LSS
			case token.EQL:
				op = token.NEQ
			case token.NEQ:
				op = token.EQL
			default:
				continue
			}
		}
		if !isInteger(other.Type()) {
			continue
		}
		// avoid infinite recursion: evaluate the other side without facts on v
		o := rg.eval(other, nil, 30)
		if o.empty {
			continue
		}
		switch op {
		case token.LSS:
			if o.hi > math.MinInt64 {
				r = r.meet(Range{math.MinInt64, o.hi - 1, false})
			}
		case token.LEQ:
			r = r.meet(Range{math.MinInt64, o.hi, false})
		case token.GTR:
			if o.lo < math.MaxInt64 {
				r = r.meet(Range{o.lo + 1, math.MaxInt64, false})
			}
		case token.GEQ:
			r = r.meet(Range{o.lo, math.MaxInt64, false})
		case token.EQL:
			r = r.meet(o)
		case token.NEQ:
			if o.lo == o.hi && !r.empty {
				if r.lo == o.lo && r.lo < r.hi {
					r.lo++
				} else if r.hi == o.lo && r.lo < r.hi {
					r.hi--
				} else if r.lo == r.hi && r.lo == o.lo {
					r = Range{empty: true}
				}
			}
		}
	}
	return r
}

// paramRange joins the argument ranges over all call sites of an unexported
// target function whose callers are all static calls in the targets.
func (rg *Ranger) paramRange(p *ssa.Parameter, depth int) Range {
	full := fullRange(p.Type())
	if m, ok := rg.memoP[p]; ok {
		if m == nil {
			return full // in progress (recursion)
		}
		return *m
	}
	rg.memoP[p] = nil
	res := full
	fn := p.Parent()
	sites, closed := rg.w.CallersOf(fn)
	idx := -1
	for i, q := range fn.Params {
		if q == p {
			idx = i
		}
	}
	if closed && len(sites) > 0 && idx >= 0 && depth < 12 {
		acc := Range{empty: true}
		saved := rg.stack
		rg.stack = nil
		for _, s := range sites {
			args := s.Instr.Common().Args
			if s.Instr.Common().IsInvoke() || idx >= len(args) {
				acc = full
				break
			}
			acc = acc.join(rg.eval(args[idx], factsAt(s.Instr.Block()), depth+1))
		}
		rg.stack = saved
		if !acc.empty {
			res = acc.meet(full)
		}
	}
	rg.memoP[p] = &res
	return res
}

// minLen returns the proven minimum of len(x) at block b from dominating
// facts of the form len(x) <op> const.
func (rg *Ranger) minLen(x ssa.Value, facts []Fact) int64 {
	if n, ok := arrayLen(x.Type()); ok {
		return n
	}
	var min int64
	for _, f := range facts {
		bo, ok := f.Cond.(*ssa.BinOp)
		if !ok {
			continue
		}
		for _, side := range []int{0, 1} {
			lenSide, other := bo.X, bo.Y
			op := bo.Op
			if side == 1 {
				lenSide, other = bo.Y, bo.X
				switch op {
				case token.LSS:
					op = token.GTR
				case token.LEQ:
					op = token.GEQ
				case token.GTR:
					op = token.LSS
				case token.GEQ:
					op = token.LEQ
				}
			}
			call, ok := lenSide.(*ssa.Call)
			if !ok {
				continue
			}
			if b, ok := call.Call.Value.(*ssa.Builtin); !ok || b.Name() != "len" {
				continue
			}
			if !rg.sameValue(call.Call.Args[0], x) {
				continue
			}
			if !f.Val {
				switch op {
				case token.LSS:
					op = token.GEQ
				case token.LEQ:
					op = token.GTR
				case token.GTR:
					op = token.LEQ
				case token.GEQ:
					op = token.LSS
				case token.EQL:
					op = token.NEQ
				case token.NEQ:
					op = token.EQL
				}
			}
			o := rg.eval(other, nil, 30)
			if o.empty {
				continue
			}
			switch op {
			case token.GEQ:
				if o.lo > min {
					min = o.lo
				}
			case token.GTR:
				if o.lo < math.MaxInt64 && o.lo+1 > min {
					min = o.lo + 1
				}
			case token.EQL:
				if o.lo > min {
					min = o.lo
				}
			case token.NEQ:
				if o.lo == 0 && o.hi == 0 && min < 1 {
					min = 1
				}
			}
		}
	}
	return min
}

// lenAtLeastExpr reports whether facts contain len(x) >= e for an expression
// canonically equal to e.
func (rg *Ranger) lenAtLeastExpr(x, e ssa.Value, facts []Fact) bool {
	// e = min(..., len(x), ...) is <= len(x) by construction
	if call, ok := e.(*ssa.Call); ok {
		if b, ok := call.Call.Value.(*ssa.Builtin); ok && b.Name() == "min" {
			for _, a := range call.Call.Args {
				if lc, ok := a.(*ssa.Call); ok {
					if lb, ok := lc.Call.Value.(*ssa.Builtin); ok && lb.Name() == "len" && rg.sameValue(lc.Call.Args[0], x) {
						return true
					}
				}
				if rg.lenAtLeastExpr(x, a, facts) {
					return true
				}
			}
		}
	}
	ce := rg.w.canon(e)
	for _, f := range facts {
		bo, ok := f.Cond.(*ssa.BinOp)
		if !ok {
			continue
		}
		type cand struct {
			lenSide, other ssa.Value
			op             token.Token
		}
		cands := []cand{{bo.X, bo.Y, bo.Op}}
		sw := bo.Op
		switch sw {
		case token.LSS:
			sw = token.GTR
		case token.LEQ:
			sw = token.GEQ
		case token.GTR:
			sw = token.LSS
		case token.GEQ:
			sw = token.LEQ
		}
		cands = append(cands, cand{bo.Y, bo.X, sw})
		for _, c := range cands {
			call, ok := c.lenSide.(*ssa.Call)
			if !ok {
				continue
			}
			if b, ok := call.Call.Value.(*ssa.Builtin); !ok || b.Name() != "len" {
				continue
			}
			if !rg.sameValue(call.Call.Args[0], x) {
				continue
			}
			if rg.w.canon(c.other) != ce {
				continue
			}
			op := c.op
			if !f.Val {
				switch op {
				case token.LSS:
					op = token.GEQ
				case token.LEQ:
					op = token.GTR
				case token.GTR:
					op = token.LEQ
				case token.GEQ:
					op = token.LSS
				default:
					continue
				}
			}
			if op == token.GEQ || op == token.GTR || op == token.EQL {
				return true
			}
		}
	}
	return false
}

// lenGreaterThan reports whether facts contain e < len(x).
func (rg *Ranger) lenGreaterThan(x, e ssa.Value, facts []Fact) bool {
	for _, f := range facts {
		bo, ok := f.Cond.(*ssa.BinOp)
		if !ok {
			continue
		}
		for _, side := range []int{0, 1} {
			lenSide, other, op := bo.X, bo.Y, bo.Op
			if side == 1 {
				lenSide, other = bo.Y, bo.X
				switch op {
				case token.LSS:
					op = token.GTR
				case token.LEQ:
					op = token.GEQ
				case token.GTR:
					op = token.LSS
				case token.GEQ:
					op = token.LEQ
				}
			}
			call, ok := lenSide.(*ssa.Call)
			if !ok {
				continue
			}
			if b, ok := call.Call.Value.(*ssa.Builtin); !ok || b.Name() != "len" {
				continue
			}
			if !rg.sameValue(call.Call.Args[0], x) || !rg.sameValue(other, e) {
				continue
			}
			if !f.Val {
				switch op {
				case token.LSS:
					op = token.GEQ
				case token.LEQ:
					op = token.GTR
				case token.GTR:
					op = token.LEQ
				case token.GEQ:
					op = token.LSS
				default:
					continue
				}
			}
			if op == token.GTR { // len(x) > e
				return true
			}
		}
	}
	return false
}

// ---------------------------------------------------------------------------
// A6: paths on the block graph

// reachableAvoiding computes blocks reachable from `from` (exclusive of the
// start unless re-entered) without entering any block for which stop() holds.
func reachableAvoiding(from []*ssa.BasicBlock, stop func(*ssa.BasicBlock) bool) map[*ssa.BasicBlock]bool {
	seen := map[*ssa.BasicBlock]bool{}
	var work []*ssa.BasicBlock
	for _, f := range from {
		if !stop(f) && !seen[f] {
			seen[f] = true
			work = append(work, f)
		}
	}
	for len(work) > 0 {
		b := work[len(work)-1]
		work = work[:len(work)-1]
		for _, s := range b.Succs {
			if seen[s] || stop(s) || !edgeFeasible(b, s) {
				continue
			}
			seen[s] = true
			work = append(work, s)
		}
	}
	return seen
}

// instrIndex returns the index of in within its block.
func instrIndex(in ssa.Instruction) int {
	for i, x := range in.Block().Instrs {
		if x == in {
			return i
		}
	}
	return -1
}

// instrDominates: a executes before b on every path reaching b.
func instrDominates(a, b ssa.Instruction) bool {
	if a.Parent() != b.Parent() {
		return false
	}
	if a.Block() == b.Block() {
		return instrIndex(a) < instrIndex(b)
	}
	return a.Block().Dominates(b.Block())
}

// pathExists reports whether some path leads from just after instruction
// `from` to instruction `to` without executing any instruction in avoid.
func pathExists(from, to ssa.Instruction, avoid func(ssa.Instruction) bool) bool {
	if from.Parent() != to.Parent() {
		return false
	}
	type pt struct {
		b *ssa.BasicBlock
		i int
	}
	start := pt{from.Block(), instrIndex(from) + 1}
	seenBlock := map[*ssa.BasicBlock]bool{}
	var walk func(p pt) bool
	walk = func(p pt) bool {
		for i := p.i; i < len(p.b.Instrs); i++ {
			in := p.b.Instrs[i]
			if in == to {
				return true
			}
			if avoid != nil && avoid(in) {
				return false
			}
		}
		for _, s := range p.b.Succs {
			if seenBlock[s] || !edgeFeasible(p.b, s) {
				continue
			}
			seenBlock[s] = true
			if walk(pt{s, 0}) {
				return true
			}
		}
		return false
	}
	return walk(start)
}

// pathToExit reports whether some path leads from just after `from` to a
// Return instruction accepted by isTarget, avoiding instructions in avoid.
func pathToReturn(from ssa.Instruction, isTarget func(*ssa.Return) bool, avoid func(ssa.Instruction) bool) *ssa.Return {
	type pt struct {
		b *ssa.BasicBlock
		i int
	}
	seenBlock := map[*ssa.BasicBlock]bool{}
	var found *ssa.Return
	var walk func(p pt) bool
	walk = func(p pt) bool {
		for i := p.i; i < len(p.b.Instrs); i++ {
			in := p.b.Instrs[i]
			if avoid != nil && avoid(in) {
				return false
			}
			if r, ok := in.(*ssa.Return); ok && isTarget(r) {
				found = r
				return true
			}
		}
		for _, s := range p.b.Succs {
			if seenBlock[s] || !edgeFeasible(p.b, s) {
				continue
			}
			seenBlock[s] = true
			if walk(pt{s, 0}) {
				return true
			}
		}
		return false
	}
	walk(pt{from.Block(), instrIndex(from) + 1})
	return found
}

// pathFromEntry: some path from function entry to `to` avoiding avoid.
func pathFromEntry(fn *ssa.Function, to ssa.Instruction, avoid func(ssa.Instruction) bool) bool {
	if len(fn.Blocks) == 0 {
		return false
	}
	seenBlock := map[*ssa.BasicBlock]bool{fn.Blocks[0]: true}
	var walk func(b *ssa.BasicBlock) bool
	walk = func(b *ssa.BasicBlock) bool {
		for _, in := range b.Instrs {
			if in == to {
				return true
			}
			if avoid != nil && avoid(in) {
				return false
			}
		}
		for _, s := range b.Succs {
			if seenBlock[s] || !edgeFeasible(b, s) {
				continue
			}
			seenBlock[s] = true
			if walk(s) {
				return true
			}
		}
		return false
	}
	return walk(fn.Blocks[0])
}

// ---------------------------------------------------------------------------
// misc helpers

// allInstrs iterates over the instructions of a function.
func allInstrs(fn *ssa.Function, f func(ssa.Instruction)) {
	for _, b := range fn.Blocks {
		for _, in := range b.Instrs {
			f(in)
		}
	}
}

// isNilConst reports whether v is the nil constant.
func isNilConst(v ssa.Value) bool {
	k, ok := v.(*ssa.Const)
	return ok && k.Value == nil
}

// intConst returns the int64 value of an integer constant.
func intConst(v ssa.Value) (int64, bool) {
	k, ok := v.(*ssa.Const)
	if !ok || k.Value == nil || k.Value.Kind() != constant.Int {
		return 0, false
	}
	return constant.Int64Val(k.Value)
}

// deref strips pointers.
func deref(t types.Type) types.Type {
	if p, ok := t.Underlying().(*types.Pointer); ok {
		return p.Elem()
	}
	return t
}

// namedOf returns the named type behind t (through one pointer).
func namedOf(t types.Type) *types.Named {
	t = types.Unalias(deref(types.Unalias(t)))
	n, _ := t.(*types.Named)
	return n
}

func typeStr(t types.Type) string { return types.TypeString(t, shortQual) }

// pathToBlocks reports whether some path leads from just after `from` to the
// entry of a block accepted by target, avoiding instructions in avoid.
func pathToBlocks(from ssa.Instruction, target func(*ssa.BasicBlock) bool, avoid func(ssa.Instruction) bool) *ssa.BasicBlock {
	type pt struct {
		b *ssa.BasicBlock
		i int
	}
	seen := map[*ssa.BasicBlock]bool{}
	var found *ssa.BasicBlock
	var walk func(p pt) bool
	walk = func(p pt) bool {
		for i := p.i; i < len(p.b.Instrs); i++ {
			if avoid != nil && avoid(p.b.Instrs[i]) {
				return false
			}
		}
		for _, s := range p.b.Succs {
			if !edgeFeasible(p.b, s) {
				continue
			}
			if target(s) {
				found = s
				return true
			}
			if seen[s] {
				continue
			}
			seen[s] = true
			if walk(pt{s, 0}) {
				return true
			}
		}
		return false
	}
	walk(pt{from.Block(), instrIndex(from) + 1})
	return found
}

// pathFromBlockEntry is pathExists starting at the first instruction of b (inclusive).
func pathFromBlockEntry(b *ssa.BasicBlock, to ssa.Instruction, avoid func(ssa.Instruction) bool) bool {
	if len(b.Instrs) == 0 {
		return false
	}
	first := b.Instrs[0]
	if first == to {
		return true
	}
	if avoid != nil && avoid(first) {
		return false
	}
	return pathExists(first, to, avoid)
}

// edgeFeasible reports false when the facts that hold on the edge p->s
// contradict each other (the same condition both true and false), e.g. the
// fall-through edge of `switch b { case true: ...; case false: ... }`.
func edgeFeasible(p, s *ssa.BasicBlock) bool {
	fs := factsOnEdge(p, s)
	for i := range fs {
		for j := i + 1; j < len(fs); j++ {
			if fs[i].Cond == fs[j].Cond && fs[i].Val != fs[j].Val {
				return false
			}
		}
	}
	return true
}

// wrapIncPhi recognises the conditional-wrap form of a modular increment:
//
//	n := x + 1
//	if n == m {   // or n >= m
//		n = 0
//	}
//
// i.e. a two-edge phi whose one operand is the constant 0 arriving under the fact
// x+1 == m (or x+1 >= m) and whose other operand is x+1 arriving under its negation.
// For x < m this equals (x+1) % m.
func wrapIncPhi(phi *ssa.Phi) (x, m ssa.Value, ok bool) {
	if len(phi.Edges) != 2 {
		return nil, nil, false
	}
	for zi := 0; zi < 2; zi++ {
		k, isK := intConst(phi.Edges[zi])
		if !isK || k != 0 {
			continue
		}
		inc, isAdd := phi.Edges[1-zi].(*ssa.BinOp)
		if !isAdd || inc.Op != token.ADD {
			continue
		}
		var base ssa.Value
		if c, ok := intConst(inc.Y); ok && c == 1 {
			base = inc.X
		} else if c, ok := intConst(inc.X); ok && c == 1 {
			base = inc.Y
		} else {
			continue
		}
		blk := phi.Block()
		// the zero edge must carry "inc == m" / "inc >= m", the other edge its negation
		reached := func(facts []Fact, want bool) ssa.Value {
			for _, f := range facts {
				bo, ok := f.Cond.(*ssa.BinOp)
				if !ok {
					continue
				}
				var other ssa.Value
				op := bo.Op
				switch {
				case bo.X == ssa.Value(inc):
					other = bo.Y
				case bo.Y == ssa.Value(inc):
					other = bo.X
					switch op {
					case token.LSS:
						op = token.GTR
					case token.LEQ:
						op = token.GEQ
					case token.GTR:
						op = token.LSS
					case token.GEQ:
						op = token.LEQ
					}
				default:
					continue
				}
				// holds(inc == other or inc >= other) ?
				var holds, decided bool
				switch op {
				case token.EQL:
					holds, decided = f.Val, true
				case token.NEQ:
					holds, decided = !f.Val, true
				case token.GEQ:
					holds, decided = f.Val, true
				case token.LSS:
					holds, decided = !f.Val, true
				}
				if decided && holds == want {
					return other
				}
			}
			return nil
		}
		mz := reached(factsOnEdge(blk.Preds[zi], blk), true)
		mo := reached(factsOnEdge(blk.Preds[1-zi], blk), false)
		if mz != nil && mo != nil && mz == mo {
			return base, mz, true
		}
	}
	return nil, nil, false
}

// pathExistsPS is pathExists with path sensitivity on branch conditions: the truth value
// taken for a condition is remembered along the path, and an edge that needs the opposite
// value of the same SSA condition is not taken (conditions are pure SSA values, so two
// tests of the same value within one path agree unless the value is a phi/load that
// changes - only conditions that are not phis and whose defining block is left are tracked
// conservatively: a condition defined in a block that is re-entered on the path is forgotten).
func pathExistsPS(from, to ssa.Instruction, avoid func(ssa.Instruction) bool) bool {
	if from.Parent() != to.Parent() {
		return false
	}
	type state struct {
		b   *ssa.BasicBlock
		key string
	}
	seen := map[state]bool{}
	keyOf := func(m map[ssa.Value]bool) string {
		var ks []string
		for v, t := range m {
			ks = append(ks, fmt.Sprintf("%s=%v", v.Name(), t))
		}
		sort.Strings(ks)
		return strings.Join(ks, ",")
	}
	var walk func(b *ssa.BasicBlock, i int, asg map[ssa.Value]bool, budget *int) bool
	walk = func(b *ssa.BasicBlock, i int, asg map[ssa.Value]bool, budget *int) bool {
		*budget--
		if *budget < 0 {
			return true // give up: assume a path exists (conservative for "every path passes X" queries)
		}
		// entering b: forget conditions defined in b (they are recomputed)
		for v := range asg {
			if in, ok := v.(ssa.Instruction); ok && in.Block() == b && i == 0 {
				n := map[ssa.Value]bool{}
				for k, t := range asg {
					if k != v {
						n[k] = t
					}
				}
				asg = n
			}
		}
		for ; i < len(b.Instrs); i++ {
			in := b.Instrs[i]
			if in == to {
				return true
			}
			if avoid != nil && avoid(in) {
				return false
			}
		}
		for _, s := range b.Succs {
			if !edgeFeasible(b, s) {
				continue
			}
			next := asg
			if f, ok := edgeFact(b, s); ok {
				if t, known := asg[f.Cond]; known && t != f.Val {
					continue
				}
				next = map[ssa.Value]bool{}
				for k, t := range asg {
					next[k] = t
				}
				next[f.Cond] = f.Val
			}
			st := state{s, keyOf(next)}
			if seen[st] {
				continue
			}
			seen[st] = true
			if walk(s, 0, next, budget) {
				return true
			}
		}
		return false
	}
	budget := 20000
	return walk(from.Block(), instrIndex(from)+1, map[ssa.Value]bool{}, &budget)
}

// factRel returns the relation that fact f establishes between a value accepted by isA
// (left) and one accepted by isB (right): one of "<", "<=", ">", ">=", "==", "!=", or ""
// when f is not a comparison of such a pair. Operand order and the truth value of the fact
// are normalised away, so callers never look at BinOp.X/Y/Op themselves.
func factRel(f Fact, isA, isB func(ssa.Value) bool) string {
	bo, ok := f.Cond.(*ssa.BinOp)
	if !ok {
		return ""
	}
	var rel string
	switch bo.Op {
	case token.LSS:
		rel = "<"
	case token.LEQ:
		rel = "<="
	case token.GTR:
		rel = ">"
	case token.GEQ:
		rel = ">="
	case token.EQL:
		rel = "=="
	case token.NEQ:
		rel = "!="
	default:
		return ""
	}
	mirror := map[string]string{"<": ">", "<=": ">=", ">": "<", ">=": "<=", "==": "==", "!=": "!="}
	neg := map[string]string{"<": ">=", "<=": ">", ">": "<=", ">=": "<", "==": "!=", "!=": "=="}
	switch {
	case isA(bo.X) && isB(bo.Y):
	case isA(bo.Y) && isB(bo.X):
		rel = mirror[rel]
	default:
		return ""
	}
	if !f.Val {
		rel = neg[rel]
	}
	return rel
}

func isValue(v ssa.Value) func(ssa.Value) bool { return func(x ssa.Value) bool { return x == v } }

// carriers: v and every value of the same type that v flows into unchanged inside its function -
// phis (`if a { err = f() } else { err = g() }; if err != nil`) and loads of locals it is stored to.
func carriers(v ssa.Value) []ssa.Value {
	out := []ssa.Value{v}
	for i := 0; i < len(out); i++ {
		rr := out[i].Referrers()
		if rr == nil {
			continue
		}
		add := func(x ssa.Value) {
			for _, o := range out {
				if o == x {
					return
				}
			}
			out = append(out, x)
		}
		for _, r := range *rr {
			switch r := r.(type) {
			case *ssa.Phi:
				if types.Identical(r.Type(), out[i].Type()) {
					add(r)
				}
			case *ssa.Store:
				if al, ok := r.Addr.(*ssa.Alloc); ok && r.Val == out[i] && al.Referrers() != nil {
					for _, x := range *al.Referrers() {
						if u, ok := x.(*ssa.UnOp); ok && u.Op == token.MUL {
							add(u)
						}
					}
				}
			}
		}
	}
	return out
}

// isCarrierOf: the value is v or one of its carriers.
func isCarrierOf(v ssa.Value) func(ssa.Value) bool {
	cs := carriers(v)
	return func(x ssa.Value) bool {
		for _, c := range cs {
			if c == x {
				return true
			}
		}
		return false
	}
}

// flagAfterFirst decides, for a call `target` inside fn that takes a boolean flag, whether every
// execution of the call AFTER the first one in the same invocation of fn sees the flag true.
// The flag is an SSA phi web (a local bool variable): the function is abstracted to the boolean
// program over that web - every other condition is non-deterministic - and all reachable
// (sent-before?, values of the web) states are explored exactly. Returns "" when it holds, or a
// description of the offending edge.
func flagAfterFirst(fn *ssa.Function, target ssa.Instruction, flag ssa.Value) string {
	flag = unwrapLoadAlloc(flag)
	var web []*ssa.Phi
	idx := map[*ssa.Phi]int{}
	var add func(v ssa.Value)
	add = func(v ssa.Value) {
		p, ok := v.(*ssa.Phi)
		if !ok {
			return
		}
		if _, seen := idx[p]; seen {
			return
		}
		idx[p] = len(web)
		web = append(web, p)
		for _, e := range p.Edges {
			add(e)
		}
	}
	add(flag)
	if len(web) > 12 {
		return "flag variable too complex"
	}
	// value of v under state s: 0 false, 1 true, 2 unknown
	val := func(v ssa.Value, s uint32) int {
		if isBoolConstVal(v, true) {
			return 1
		}
		if isBoolConstVal(v, false) {
			return 0
		}
		if p, ok := v.(*ssa.Phi); ok {
			if i, ok := idx[p]; ok {
				return int((s >> (1 + uint(i))) & 1)
			}
		}
		return 2
	}
	type key struct {
		b *ssa.BasicBlock
		s uint32
	}
	seen := map[key]bool{}
	type item struct {
		pred, b *ssa.BasicBlock
		s       uint32
	}
	work := []item{{nil, fn.Blocks[0], 0}}
	bad := ""
	for len(work) > 0 && bad == "" {
		it := work[len(work)-1]
		work = work[:len(work)-1]
		// phi assignment on entry (simultaneous), forking on unknown inputs
		states := []uint32{it.s}
		if it.pred != nil {
			pi := -1
			for i, p := range it.b.Preds {
				if p == it.pred {
					pi = i
				}
			}
			for _, in := range it.b.Instrs {
				p, ok := in.(*ssa.Phi)
				if !ok {
					break
				}
				i, inWeb := idx[p]
				if !inWeb || pi < 0 {
					continue
				}
				var next []uint32
				for _, s := range states {
					switch val(p.Edges[pi], it.s) {
					case 0:
						next = append(next, s&^(1<<(1+uint(i))))
					case 1:
						next = append(next, s|(1<<(1+uint(i))))
					default:
						next = append(next, s&^(1<<(1+uint(i))), s|(1<<(1+uint(i))))
					}
				}
				states = next
			}
		}
		for _, s := range states {
			if seen[key{it.b, s}] {
				continue
			}
			seen[key{it.b, s}] = true
			cur := s
			for _, in := range it.b.Instrs {
				if in == target {
					if cur&1 == 1 && val(flag, cur) != 1 {
						bad = "the call can be reached a second time with the flag still false"
					}
					cur |= 1
				}
			}
			last := it.b.Instrs[len(it.b.Instrs)-1]
			if iff, ok := last.(*ssa.If); ok {
				f := normFact(Fact{iff.Cond, true})
				switch v := val(f.Cond, cur); {
				case v == 2:
					work = append(work, item{it.b, it.b.Succs[0], cur}, item{it.b, it.b.Succs[1], cur})
				case (v == 1) == f.Val:
					work = append(work, item{it.b, it.b.Succs[0], cur})
				default:
					work = append(work, item{it.b, it.b.Succs[1], cur})
				}
				continue
			}
			for _, sx := range it.b.Succs {
				work = append(work, item{it.b, sx, cur})
			}
		}
	}
	return bad
}
