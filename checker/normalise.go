package main

// Helper normalisation (a source-level pre-pass of the loader).
//
// Most rules are anchored in named functions of the two packages (the send loop, queue.resend,
// writeMsgPattern, ...).  A behaviour-preserving maintenance edit that moves a few lines of such a
// function into a *new* helper (`q.nextSeq(x)` for `(x+1) % q.cfg.s`, `c.newMachine(initiator)` for
// a duplicated constructor call) leaves the behaviour alone but hides the moved lines from every rule
// that reads the anchor's body.  Instead of teaching each rule about every possible helper, the
// loader undoes the extraction first: every call, inside the two target packages, of a function or
// method that the pinned tree does not know (knownFuncs, generated from the pinned commit; a function
// the rules could be anchored in is never touched) is inlined into its caller with the x/tools
// inliner (golang.org/x/tools/internal/refactor/inline v0.29.0, copied to ./xinline; it is the
// engine behind gopls' "inline call" and guarantees a semantics-preserving rewrite).  The rewritten
// files are handed to the normal loader as an overlay; the rest of the checker is unchanged.
//
// Soundness: the inliner either produces an equivalent program or reports an error.  The result is
// type-checked again; a call that cannot be inlined, would only be wrapped into a function literal
// (no gain), or whose result does not type-check, is left exactly as written, and the rules then
// judge the helper call as they always did.  On a tree without new functions (the unchanged tree)
// the pre-pass does nothing.  The frozen list decides only *where normalisation is attempted*; it
// never decides a verdict.

import (
	"bytes"
	_ "embed"
	"fmt"
	"go/ast"
	"go/parser"
	"go/printer"
	"go/token"
	"go/types"
	"os"
	"path/filepath"
	"sort"
	"strings"

	"golang.org/x/tools/go/packages"
	"golang.org/x/tools/go/types/typeutil"

	"lncverif/xinline/inline"
)

//go:embed known_funcs.txt
var knownFuncsTxt string

// knownSigs: declaration key -> signature text (functions), "field pkg.Type.name" -> type text.
var knownSigs = map[string]string{}

var knownFuncs = func() map[string]bool {
	m := map[string]bool{}
	for _, l := range strings.Split(knownFuncsTxt, "\n") {
		if l = strings.TrimSpace(l); l != "" && !strings.HasPrefix(l, "#") {
			parts := strings.SplitN(l, "\t", 2)
			if strings.HasPrefix(parts[0], "field ") {
				if len(parts) == 2 {
					knownSigs[parts[0]] = parts[1]
				}
				continue
			}
			m[parts[0]] = true
			if len(parts) == 2 {
				knownSigs[parts[0]] = parts[1]
			}
		}
	}
	return m
}()

func nodeText(fset *token.FileSet, n ast.Node) string {
	var b bytes.Buffer
	_ = printer.Fprint(&b, fset, n)
	return strings.Join(strings.Fields(b.String()), " ")
}

// sigText: parameter and result types of a declaration, without names.
func sigText(fset *token.FileSet, ft *ast.FuncType) string {
	list := func(fl *ast.FieldList) string {
		if fl == nil {
			return ""
		}
		var ts []string
		for _, f := range fl.List {
			n := len(f.Names)
			if n == 0 {
				n = 1
			}
			for i := 0; i < n; i++ {
				ts = append(ts, nodeText(fset, f.Type))
			}
		}
		return strings.Join(ts, ", ")
	}
	return "(" + list(ft.Params) + ") (" + list(ft.Results) + ")"
}

// declKey names a function declaration: "gbn.newQueue", "gbn.(queue).resend".
func declKey(pkgName string, d *ast.FuncDecl) string {
	if d.Recv != nil && len(d.Recv.List) == 1 {
		t := d.Recv.List[0].Type
		for {
			switch x := t.(type) {
			case *ast.StarExpr:
				t = x.X
				continue
			case *ast.ParenExpr:
				t = x.X
				continue
			case *ast.IndexExpr:
				t = x.X
				continue
			}
			break
		}
		if id, ok := t.(*ast.Ident); ok {
			return pkgName + ".(" + id.Name + ")." + d.Name.Name
		}
	}
	return pkgName + "." + d.Name.Name
}

// NormaliseNote describes what the pre-pass did (printed and stored in the evidence).
type NormaliseNote struct {
	NewFuncs []string `json:"new_functions"`
	Inlined  []string `json:"inlined_calls"`
	Kept     []string `json:"calls_left_as_written"`
}

// scanNewFuncs parses the non-test files of the two target directories (overlay applied) and
// returns the declarations the pinned tree does not have.
func scanNewFuncs(repo string, overlay map[string][]byte) (map[string][]string, error) {
	out := map[string][]string{}
	for _, dir := range []string{"gbn", "mailbox"} {
		ents, err := os.ReadDir(filepath.Join(repo, dir))
		if err != nil {
			return nil, err
		}
		fset := token.NewFileSet()
		for _, e := range ents {
			n := e.Name()
			if e.IsDir() || !strings.HasSuffix(n, ".go") || strings.HasSuffix(n, "_test.go") {
				continue
			}
			path := filepath.Join(repo, dir, n)
			var src any
			if b, ok := overlay[path]; ok {
				src = b
			}
			f, err := parser.ParseFile(fset, path, src, parser.SkipObjectResolution)
			if err != nil {
				return nil, nil // the main load reports the error
			}
			for _, d := range f.Decls {
				if fd, ok := d.(*ast.FuncDecl); ok && fd.Body != nil {
					k := declKey(dir, fd)
					if !knownFuncs[k] && fd.Name.Name != "init" {
						out[dir] = append(out[dir], k)
					}
				}
			}
		}
	}
	return out, nil
}

type mapImporter map[string]*types.Package

func (m mapImporter) Import(path string) (*types.Package, error) {
	if p, ok := m[path]; ok {
		return p, nil
	}
	return nil, fmt.Errorf("package %s not loaded", path)
}

// normaliseHelpers returns the overlay extended by the files in which calls of new helpers were
// inlined. Any internal failure leaves the overlay as it was.
func normaliseHelpers(repo string, overlay map[string][]byte, tags string) (map[string][]byte, *NormaliseNote) {
	newFns, err := scanNewFuncs(repo, overlay)
	renames := scanRenames(repo, overlay)
	if err != nil || (len(newFns) == 0 && len(renames) == 0) {
		return overlay, nil
	}
	note := &NormaliseNote{}
	if len(renames) > 0 {
		if ov, done := applyRenames(repo, overlay, tags, renames); len(done) > 0 {
			overlay = ov
			note.Inlined = append(note.Inlined, done...)
			newFns, _ = scanNewFuncs(repo, overlay)
			if len(newFns) == 0 {
				return overlay, note
			}
		}
	}
	for _, ks := range newFns {
		note.NewFuncs = append(note.NewFuncs, ks...)
	}
	sort.Strings(note.NewFuncs)
	defer func() {
		if r := recover(); r != nil {
			note.Kept = append(note.Kept, fmt.Sprintf("normalisation stopped: %v", r))
		}
	}()

	cfg := &packages.Config{
		Mode:    packages.LoadAllSyntax,
		Dir:     filepath.Join(repo, "mailbox"),
		Overlay: overlay,
		Env:     append(os.Environ(), "GOWORK=off", "GOFLAGS=-mod=mod"),
	}
	if strings.HasPrefix(tags, "env:") {
		cfg.Env = append(cfg.Env, strings.Fields(strings.TrimPrefix(tags, "env:"))...)
	} else if tags != "" {
		cfg.BuildFlags = []string{"-tags=" + tags}
	}
	pkgs, err := packages.Load(cfg, ".", gbnPath)
	if err != nil {
		return overlay, note
	}
	imps := mapImporter{}
	var targets []*packages.Package
	bad := false
	packages.Visit(pkgs, nil, func(p *packages.Package) {
		if len(p.Errors) > 0 {
			bad = true
		}
		if p.Types != nil {
			imps[p.PkgPath] = p.Types
		}
		if p.PkgPath == gbnPath || p.PkgPath == mboxPath {
			targets = append(targets, p)
		}
	})
	if bad {
		return overlay, note // the main load reports the errors
	}
	out := map[string][]byte{}
	for k, v := range overlay {
		out[k] = v
	}
	for _, p := range targets {
		dir := "mailbox"
		if p.PkgPath == gbnPath {
			dir = "gbn"
		}
		if len(newFns[dir]) == 0 {
			continue
		}
		isNew := map[string]bool{}
		for _, k := range newFns[dir] {
			isNew[k] = true
		}
		normalisePackage(p, dir, isNew, imps, out, note)
	}
	if d := os.Getenv("LNCVERIF_DUMPNORM"); d != "" {
		for name, b := range out {
			_ = os.WriteFile(filepath.Join(d, filepath.Base(name)), b, 0o644)
		}
	}
	return out, note
}

type pkgState struct {
	fset  *token.FileSet
	files []*ast.File
	names []string
	src   map[string][]byte
	pkg   *types.Package
	info  *types.Info
}

func checkPackage(p *packages.Package, imps mapImporter, src map[string][]byte) (*pkgState, error) {
	st := &pkgState{fset: token.NewFileSet(), src: src}
	for _, name := range p.CompiledGoFiles {
		f, err := parser.ParseFile(st.fset, name, src[name], parser.ParseComments)
		if err != nil {
			return nil, err
		}
		st.files = append(st.files, f)
		st.names = append(st.names, name)
	}
	st.info = &types.Info{
		Types:        map[ast.Expr]types.TypeAndValue{},
		Defs:         map[*ast.Ident]types.Object{},
		Uses:         map[*ast.Ident]types.Object{},
		Implicits:    map[ast.Node]types.Object{},
		Selections:   map[*ast.SelectorExpr]*types.Selection{},
		Scopes:       map[ast.Node]*types.Scope{},
		Instances:    map[*ast.Ident]types.Instance{},
		FileVersions: map[*ast.File]string{},
	}
	conf := types.Config{Importer: imps, Sizes: p.TypesSizes}
	if p.Module != nil && p.Module.GoVersion != "" {
		conf.GoVersion = "go" + p.Module.GoVersion
	}
	pkg, err := conf.Check(p.PkgPath, st.fset, st.files, st.info)
	if err != nil {
		return nil, err
	}
	st.pkg = pkg
	return st, nil
}

func normalisePackage(p *packages.Package, dir string, isNew map[string]bool, imps mapImporter, overlay map[string][]byte, note *NormaliseNote) {
	src := map[string][]byte{}
	for _, name := range p.CompiledGoFiles {
		if b, ok := overlay[name]; ok {
			src[name] = b
		} else if b, err := os.ReadFile(name); err == nil {
			src[name] = b
		} else {
			return
		}
	}
	failed := map[string]bool{}
	hoisted := map[string]bool{}
	logf := func(string, ...any) {}
	for iter := 0; iter < 60; iter++ {
		st, err := checkPackage(p, imps, src)
		if err != nil {
			note.Kept = append(note.Kept, "package "+dir+" does not re-check: "+err.Error())
			return
		}
		// declarations of the new helpers
		decls := map[*types.Func]*ast.FuncDecl{}
		declFile := map[*types.Func]int{}
		for i, f := range st.files {
			for _, d := range f.Decls {
				if fd, ok := d.(*ast.FuncDecl); ok && fd.Body != nil && isNew[declKey(dir, fd)] {
					if fn, ok := st.info.Defs[fd.Name].(*types.Func); ok {
						decls[fn] = fd
						declFile[fn] = i
					}
				}
			}
		}
		// first inlinable call
		type cand struct {
			file   int
			call   *ast.CallExpr
			callee *types.Func
			key    string
			goDef  bool
			stmt   ast.Stmt // innermost statement holding the call, when it sits directly in a statement list
			outer  ast.Stmt // where statements can be put in front: stmt itself, or the `if` whose init stmt is
		}
		var pick *cand
		for i, f := range st.files {
			if pick != nil {
				break
			}
			for _, d := range f.Decls {
				fd, ok := d.(*ast.FuncDecl)
				if !ok || fd.Body == nil || pick != nil {
					continue
				}
				encl, _ := st.info.Defs[fd.Name].(*types.Func)
				occ := map[string]int{}
				var stack []ast.Node
				ast.Inspect(fd.Body, func(n ast.Node) bool {
					if n == nil {
						stack = stack[:len(stack)-1]
						return true
					}
					stack = append(stack, n)
					call, ok := n.(*ast.CallExpr)
					if !ok || pick != nil {
						return true
					}
					callee := typeutil.StaticCallee(st.info, call)
					if callee == nil || decls[callee] == nil || callee == encl {
						return true
					}
					k := declKey(dir, fd) + " -> " + declKey(dir, decls[callee])
					occ[k]++
					key := fmt.Sprintf("%s #%d", k, occ[k])
					if failed[key] {
						return true
					}
					gd := false
					if len(stack) >= 2 {
						switch stack[len(stack)-2].(type) {
						case *ast.GoStmt, *ast.DeferStmt:
							gd = true
						}
					}
					pick = &cand{file: i, call: call, callee: callee, key: key, goDef: gd}
					for j := len(stack) - 2; j >= 1; j-- {
						if s, ok := stack[j].(ast.Stmt); ok {
							switch par := stack[j-1].(type) {
							case *ast.BlockStmt, *ast.CaseClause, *ast.CommClause:
								pick.stmt, pick.outer = s, s
							case *ast.IfStmt:
								// `if err := h(); err != nil {` in a statement list (not an else-if)
								if par.Init == s && j >= 2 {
									switch stack[j-2].(type) {
									case *ast.BlockStmt, *ast.CaseClause, *ast.CommClause:
										pick.stmt, pick.outer = s, par
									}
								}
							}
							break
						}
					}
					return true
				})
			}
		}
		if pick == nil {
			break
		}
		fd := decls[pick.callee]
		calleeName := st.names[declFile[pick.callee]]
		callee, err := inline.AnalyzeCallee(logf, st.fset, st.pkg, st.info, fd, src[calleeName])
		if err != nil {
			failed[pick.key] = true
			note.Kept = append(note.Kept, pick.key+": "+firstLine(err.Error()))
			continue
		}
		callerName := st.names[pick.file]
		res, err := inline.Inline(&inline.Caller{
			Fset: st.fset, Types: st.pkg, Info: st.info, File: st.files[pick.file], Call: pick.call, Content: src[callerName],
		}, callee, &inline.Options{Logf: logf})
		if err != nil {
			failed[pick.key] = true
			note.Kept = append(note.Kept, pick.key+": "+firstLine(err.Error()))
			continue
		}
		if res.Literalized && !pick.goDef && !hoisted[pick.key] {
			// `x = h(a.b)`: the inliner needs a binding for the argument and an expression has no room
			// for one. When the statement holds no other call, receive or function literal, reading the
			// argument just before the statement yields the same value: hoist it and try again.
			hoisted[pick.key] = true
			if b, ok := hoistArgs(st, pick.stmt, pick.outer, pick.call, src[callerName], iter); ok {
				oldSrc := src[callerName]
				src[callerName] = b
				if _, err := checkPackage(p, imps, src); err == nil {
					continue
				}
				src[callerName] = oldSrc
			}
		}
		if res.Literalized && !pick.goDef {
			// a helper with several statements or early returns in a value context: splice its body
			// in as a labelled block that assigns the results (blockInline)
			if b, why := blockInline(st, dir, pick.stmt, pick.outer, pick.call, fd, src[callerName], src[calleeName], iter); b != nil {
				oldSrc := src[callerName]
				src[callerName] = b
				if _, err := checkPackage(p, imps, src); err == nil {
					note.Inlined = append(note.Inlined, pick.key+" (as a block)")
					continue
				} else {
					why = "block form does not type-check: " + firstLine(err.Error())
				}
				src[callerName] = oldSrc
				failed[pick.key] = true
				note.Kept = append(note.Kept, pick.key+": "+why)
				continue
			} else {
				failed[pick.key] = true
				note.Kept = append(note.Kept, pick.key+": only expressible as a function literal ("+why+")")
				continue
			}
		}
		old := src[callerName]
		src[callerName] = res.Content
		if _, err := checkPackage(p, imps, src); err != nil {
			src[callerName] = old
			failed[pick.key] = true
			note.Kept = append(note.Kept, pick.key+": inlined form does not type-check: "+firstLine(err.Error()))
			continue
		}
		// the occurrence numbering of later calls in this caller shifts by one: forget the
		// failures of this pair so that they are looked at again (bounded by iter)
		note.Inlined = append(note.Inlined, pick.key)
	}
	if len(note.Inlined) > 0 {
		unwrapCalledLiterals(p, imps, src, note)
		removeDeadHelpers(p, dir, isNew, imps, src, note)
	}
	for name, b := range src {
		if ob, ok := overlay[name]; ok && bytes.Equal(ob, b) {
			continue
		}
		if disk, err := os.ReadFile(name); err == nil && bytes.Equal(disk, b) {
			continue
		}
		overlay[name] = b
	}
}

func firstLine(s string) string {
	if i := strings.IndexByte(s, '\n'); i >= 0 {
		s = s[:i]
	}
	if len(s) > 160 {
		s = s[:160]
	}
	return s
}

// genKnownFuncs prints the declaration keys (with signatures) and the struct fields of the tree
// (used once, on the pinned commit).
func genKnownFuncs(repo string) {
	var lines []string
	for _, dir := range []string{"gbn", "mailbox"} {
		fset := token.NewFileSet()
		ents, _ := os.ReadDir(filepath.Join(repo, dir))
		for _, e := range ents {
			n := e.Name()
			if e.IsDir() || !strings.HasSuffix(n, ".go") || strings.HasSuffix(n, "_test.go") {
				continue
			}
			f, err := parser.ParseFile(fset, filepath.Join(repo, dir, n), nil, parser.SkipObjectResolution)
			if err != nil {
				continue
			}
			for _, d := range f.Decls {
				switch x := d.(type) {
				case *ast.FuncDecl:
					if x.Body != nil && x.Name.Name != "init" {
						lines = append(lines, declKey(dir, x)+"\t"+sigText(fset, x.Type))
					}
				case *ast.GenDecl:
					for _, sp := range x.Specs {
						ts, ok := sp.(*ast.TypeSpec)
						if !ok {
							continue
						}
						stt, ok := ts.Type.(*ast.StructType)
						if !ok {
							continue
						}
						for _, fl := range stt.Fields.List {
							for _, nm := range fl.Names {
								lines = append(lines, "field "+dir+"."+ts.Name.Name+"."+nm.Name+"\t"+nodeText(fset, fl.Type))
							}
						}
					}
				}
			}
		}
	}
	sort.Strings(lines)
	fmt.Println("# functions and methods (key<TAB>signature) and struct fields (field key<TAB>type) of gbn/ and mailbox/")
	fmt.Println("# (non-test files) at the pinned commit + fix: commits. Calls of functions NOT listed here are candidates")
	fmt.Println("# for the helper normalisation pre-pass; a listed name that is missing while exactly one unlisted")
	fmt.Println("# declaration has its signature/type is treated as a rename and renamed back (normalise.go).")
	for _, k := range lines {
		fmt.Println(k)
	}
}

// hoistArgs rewrites `S` (an assignment, expression statement or return that contains exactly one
// call, the helper call, and no receive or function literal) so that every argument that is neither
// an identifier nor a literal nor a constant is read into a fresh local just before S.
func hoistArgs(st *pkgState, stmt, outer ast.Stmt, call *ast.CallExpr, content []byte, iter int) ([]byte, bool) {
	if stmt == nil {
		return nil, false
	}
	switch stmt.(type) {
	case *ast.AssignStmt, *ast.ExprStmt, *ast.ReturnStmt:
	default:
		return nil, false
	}
	ncall, bad := 0, false
	ast.Inspect(stmt, func(n ast.Node) bool {
		switch x := n.(type) {
		case *ast.CallExpr:
			if tv, ok := st.info.Types[x.Fun]; ok && (tv.IsType() || tv.IsBuiltin()) {
				if tv.IsBuiltin() {
					if id, ok := x.Fun.(*ast.Ident); !ok || (id.Name != "len" && id.Name != "cap") {
						bad = true
					}
				}
				return true
			}
			ncall++
		case *ast.FuncLit:
			bad = true
		case *ast.UnaryExpr:
			if x.Op == token.ARROW {
				bad = true
			}
		}
		return true
	})
	if bad || ncall != 1 || call.Ellipsis.IsValid() {
		return nil, false
	}
	tf := st.fset.File(stmt.Pos())
	type edit struct {
		from, to int
		text     string
	}
	var edits []edit
	var binds []string
	for i, a := range call.Args {
		switch a.(type) {
		case *ast.Ident, *ast.BasicLit:
			continue
		}
		tv := st.info.Types[a]
		if tv.Value != nil || tv.Type == nil {
			continue
		}
		if b, ok := tv.Type.(*types.Basic); ok && b.Info()&types.IsUntyped != 0 {
			return nil, false
		}
		name := fmt.Sprintf("lncvArg%d_%d", iter, i)
		from, to := tf.Offset(a.Pos()), tf.Offset(a.End())
		binds = append(binds, name+" := "+string(content[from:to])+"\n")
		edits = append(edits, edit{from, to, name})
	}
	if len(edits) == 0 {
		return nil, false
	}
	edits = append(edits, edit{tf.Offset(outer.Pos()), tf.Offset(outer.Pos()), strings.Join(binds, "")})
	sort.Slice(edits, func(i, j int) bool { return edits[i].from > edits[j].from })
	out := append([]byte(nil), content...)
	for _, e := range edits {
		out = append(out[:e.from], append([]byte(e.text), out[e.to:]...)...)
	}
	return out, true
}

// removeDeadHelpers deletes the declarations of new helpers that nothing refers to any more (a rule
// that looks at every function of the package would otherwise judge a body that never runs).
func removeDeadHelpers(p *packages.Package, dir string, isNew map[string]bool, imps mapImporter, src map[string][]byte, note *NormaliseNote) {
	for round := 0; round < 8; round++ {
		st, err := checkPackage(p, imps, src)
		if err != nil {
			return
		}
		used := map[types.Object]bool{}
		for _, o := range st.info.Uses {
			used[o] = true
		}
		removed := false
		for i, f := range st.files {
			for _, d := range f.Decls {
				fd, ok := d.(*ast.FuncDecl)
				if !ok || fd.Body == nil || !isNew[declKey(dir, fd)] || ast.IsExported(fd.Name.Name) {
					continue
				}
				if obj := st.info.Defs[fd.Name]; obj == nil || used[obj] {
					continue
				}
				tf := st.fset.File(fd.Pos())
				from, to := tf.Offset(fd.Pos()), tf.Offset(fd.End())
				if fd.Doc != nil {
					from = tf.Offset(fd.Doc.Pos())
				}
				name := st.names[i]
				old := src[name]
				nb := append(append([]byte(nil), old[:from]...), old[to:]...)
				src[name] = nb
				if _, err := checkPackage(p, imps, src); err != nil {
					src[name] = old
					continue
				}
				note.Inlined = append(note.Inlined, "removed the now unreferenced "+declKey(dir, fd))
				removed = true
				break
			}
			if removed {
				break
			}
		}
		if !removed {
			return
		}
	}
}

// blockInline: the call `h(args)` sits in the statement S (an assignment, an expression statement or
// a return, directly in a statement list) either as the whole right-hand side / returned value / the
// statement itself, or as a direct argument of the single other call of S. The statement is replaced
// by
//
//	lncvA_i := arg_i                      (arguments and receiver, read once, in order)
//	var lncvR_j T_j                       (one variable per result)
//	lncvL: switch { default:
//	    var p_i P_i = lncvA_i             (the helper's own parameter names and types)
//	    <body of h, every `return e...` rewritten to `{ lncvR... = e...; break lncvL }`>
//	}
//	S with the call replaced by lncvR_0[, lncvR_1 ...]
//
// Restrictions (anything else is refused and the call stays as written): no defer, recover, goto or
// label in h, no named results, not variadic, no method value tricks; every package-level name the
// body uses means the same thing at the call site; in S no call other than the one whose argument h
// is. Go leaves the order between a function call and the reads of the other operands of a statement
// unspecified, so running h's body just before the rest of S is one of the permitted orders.
func blockInline(st *pkgState, dir string, stmt, outer ast.Stmt, call *ast.CallExpr, fd *ast.FuncDecl, callerSrc, calleeSrc []byte, iter int) ([]byte, string) {
	if stmt == nil {
		return nil, "the call is not inside a plain statement list"
	}
	switch stmt.(type) {
	case *ast.AssignStmt, *ast.ExprStmt, *ast.ReturnStmt:
	default:
		return nil, "unsupported statement kind"
	}
	if call.Ellipsis.IsValid() || (fd.Type.Params != nil && len(fd.Type.Params.List) > 0 && func() bool {
		_, v := fd.Type.Params.List[len(fd.Type.Params.List)-1].Type.(*ast.Ellipsis)
		return v
	}()) {
		return nil, "variadic"
	}
	// the callee
	bad := ""
	var returns []*ast.ReturnStmt
	var visit func(n ast.Node, inLit bool)
	visit = func(n ast.Node, inLit bool) {
		ast.Inspect(n, func(x ast.Node) bool {
			switch y := x.(type) {
			case *ast.FuncLit:
				if y != n {
					visit(y.Body, true)
					return false
				}
			case *ast.DeferStmt:
				if !inLit {
					bad = "defer"
				}
			case *ast.LabeledStmt:
				bad = "label"
			case *ast.BranchStmt:
				if y.Tok == token.GOTO {
					bad = "goto"
				}
			case *ast.ReturnStmt:
				if !inLit {
					returns = append(returns, y)
				}
			case *ast.CallExpr:
				if id, ok := y.Fun.(*ast.Ident); ok && id.Name == "recover" {
					bad = "recover"
				}
			}
			return true
		})
	}
	visit(fd.Body, false)
	if bad != "" {
		return nil, "the helper uses " + bad
	}
	var resTypes []string
	ctf := st.fset.File(fd.Pos())
	ctext := func(n ast.Node) string { return string(calleeSrc[ctf.Offset(n.Pos()):ctf.Offset(n.End())]) }
	if fd.Type.Results != nil {
		for _, f := range fd.Type.Results.List {
			if len(f.Names) > 0 {
				return nil, "named results"
			}
			resTypes = append(resTypes, ctext(f.Type))
		}
	}
	// names the body takes from the package or the universe must mean the same at the call site
	callScope := st.pkg.Scope().Innermost(call.Pos())
	if callScope == nil {
		return nil, "no scope"
	}
	shadow := ""
	ast.Inspect(fd, func(x ast.Node) bool {
		id, ok := x.(*ast.Ident)
		if !ok {
			return true
		}
		obj := st.info.Uses[id]
		if obj == nil {
			return true
		}
		pkgLevel := obj.Parent() == st.pkg.Scope() || obj.Parent() == types.Universe
		_, isPkgName := obj.(*types.PkgName)
		if !pkgLevel && !isPkgName {
			return true
		}
		_, at := callScope.LookupParent(id.Name, call.Pos())
		if at == nil {
			shadow = id.Name
			return true
		}
		if isPkgName {
			pn, ok := at.(*types.PkgName)
			if !ok || pn.Imported() != obj.(*types.PkgName).Imported() {
				shadow = id.Name
			}
		} else if at != obj {
			shadow = id.Name
		}
		return true
	})
	if shadow != "" {
		return nil, "the name " + shadow + " means something else at the call site"
	}
	// the caller statement: the helper call is S's value, or a direct argument of the only other call
	var others []*ast.CallExpr
	badS := false
	ast.Inspect(stmt, func(x ast.Node) bool {
		switch y := x.(type) {
		case *ast.FuncLit:
			badS = true
		case *ast.UnaryExpr:
			if y.Op == token.ARROW {
				badS = true
			}
		case *ast.CallExpr:
			if y == call {
				return true
			}
			if tv, ok := st.info.Types[y.Fun]; ok && (tv.IsType() || tv.IsBuiltin()) {
				return true
			}
			others = append(others, y)
		}
		return true
	})
	if badS || len(others) > 1 {
		return nil, "the statement holds other calls, receives or function literals"
	}
	if len(others) == 1 {
		direct := false
		for _, a := range others[0].Args {
			if a == ast.Expr(call) {
				direct = true
			}
		}
		if !direct || len(resTypes) != 1 {
			return nil, "the call is not a direct argument of the statement's call"
		}
	}
	tf := st.fset.File(stmt.Pos())
	text := func(n ast.Node) string { return string(callerSrc[tf.Offset(n.Pos()):tf.Offset(n.End())]) }
	var pre, bind strings.Builder
	tag := fmt.Sprintf("%d", iter)
	// receiver
	if fd.Recv != nil && len(fd.Recv.List) == 1 {
		sel, ok := call.Fun.(*ast.SelectorExpr)
		if !ok {
			return nil, "method called through something else than a selector"
		}
		if s := st.info.Selections[sel]; s == nil || len(s.Index()) != 1 {
			return nil, "receiver reached through an embedded field"
		}
		rt := st.info.Types[sel.X].Type
		_, recvIsPtr := fd.Recv.List[0].Type.(*ast.StarExpr)
		_, argIsPtr := rt.Underlying().(*types.Pointer)
		rx := text(sel.X)
		if recvIsPtr && !argIsPtr {
			rx = "&" + rx
		} else if !recvIsPtr && argIsPtr {
			rx = "*" + rx
		}
		fmt.Fprintf(&pre, "lncvRecv%s := %s\n", tag, rx)
		if len(fd.Recv.List[0].Names) == 1 && fd.Recv.List[0].Names[0].Name != "_" {
			n := fd.Recv.List[0].Names[0].Name
			fmt.Fprintf(&bind, "var %s %s = lncvRecv%s\n_ = %s\n", n, ctext(fd.Recv.List[0].Type), tag, n)
		}
	}
	ai := 0
	if fd.Type.Params != nil {
		for _, f := range fd.Type.Params.List {
			names := f.Names
			if len(names) == 0 {
				names = []*ast.Ident{ast.NewIdent("_")}
			}
			for _, nm := range names {
				if ai >= len(call.Args) {
					return nil, "argument count"
				}
				a := call.Args[ai]
				src := ""
				if tv := st.info.Types[a]; tv.Value != nil || tv.IsNil() {
					src = text(a)
				} else {
					src = fmt.Sprintf("lncvArg%s_%d", tag, ai)
					fmt.Fprintf(&pre, "%s := %s\n", src, text(a))
				}
				if nm.Name == "_" {
					fmt.Fprintf(&bind, "_ = %s\n", src)
				} else {
					fmt.Fprintf(&bind, "var %s %s = %s\n_ = %s\n", nm.Name, ctext(f.Type), src, nm.Name)
				}
				ai++
			}
		}
	}
	if ai != len(call.Args) {
		return nil, "argument count"
	}
	var resVars []string
	for j, t := range resTypes {
		v := fmt.Sprintf("lncvRes%s_%d", tag, j)
		resVars = append(resVars, v)
		fmt.Fprintf(&pre, "var %s %s\n", v, t)
	}
	label := "lncvL" + tag
	// the body with its returns rewritten
	bodyFrom, bodyTo := ctf.Offset(fd.Body.Lbrace)+1, ctf.Offset(fd.Body.Rbrace)
	body := append([]byte(nil), calleeSrc[bodyFrom:bodyTo]...)
	sort.Slice(returns, func(i, j int) bool { return returns[i].Pos() > returns[j].Pos() })
	for _, r := range returns {
		from, to := ctf.Offset(r.Pos())-bodyFrom, ctf.Offset(r.End())-bodyFrom
		repl := "{ break " + label + " }"
		if len(r.Results) > 0 {
			var rs []string
			for _, e := range r.Results {
				rs = append(rs, ctext(e))
			}
			repl = "{ " + strings.Join(resVars, ", ") + " = " + strings.Join(rs, ", ") + "; break " + label + " }"
		}
		body = append(body[:from], append([]byte(repl), body[to:]...)...)
	}
	// S with the call replaced
	sFrom, sTo := tf.Offset(stmt.Pos()), tf.Offset(stmt.End())
	cFrom, cTo := tf.Offset(call.Pos()), tf.Offset(call.End())
	after := string(callerSrc[sFrom:cFrom]) + strings.Join(resVars, ", ") + string(callerSrc[cTo:sTo])
	if es, ok := stmt.(*ast.ExprStmt); ok && es.X == ast.Expr(call) {
		after = ""
		for _, v := range resVars {
			after += "_ = " + v + "\n"
		}
	}
	oFrom := tf.Offset(outer.Pos())
	if outer != stmt && after == "" {
		return nil, "a call without results as the init statement of an if"
	}
	var out strings.Builder
	out.Write(callerSrc[:oFrom])
	out.WriteString(pre.String())
	out.WriteString(label + ":\nswitch {\ndefault:\n")
	out.WriteString(bind.String())
	out.Write(body)
	out.WriteString("\nbreak " + label + "\n}\n")
	out.Write(callerSrc[oFrom:sFrom])
	out.WriteString(strings.TrimRight(after, "\n"))
	out.Write(callerSrc[sTo:])
	return []byte(out.String()), ""
}

// noReturnDeferRecover: the body of a function literal can run in place of a call of it.
func noReturnDeferRecover(body *ast.BlockStmt) bool {
	ok := true
	ast.Inspect(body, func(m ast.Node) bool {
		switch y := m.(type) {
		case *ast.FuncLit:
			return false
		case *ast.ReturnStmt, *ast.DeferStmt:
			ok = false
		case *ast.CallExpr:
			if id, isID := y.Fun.(*ast.Ident); isID && id.Name == "recover" {
				ok = false
			}
		}
		return true
	})
	return ok
}

func plainLiteral(lit *ast.FuncLit) bool {
	return (lit.Type.Params == nil || len(lit.Type.Params.List) == 0) && (lit.Type.Results == nil || len(lit.Type.Results.List) == 0)
}

// unwrapCalledLiterals: a statement `func() { stmts }()` - a function literal without parameters and
// results, called on the spot, whose body has no return, defer or recover - is the block
// `{ stmts }`; likewise `var f func() = func() { stmts }` (how the inliner binds a literal argument,
// e.g. of `withLock(func() { ... })`) with f used exactly once, as the statement `f()`: the body
// runs where the call is. Only done in files the normalisation already rewrote; every step is
// re-type-checked.
func unwrapCalledLiterals(p *packages.Package, imps mapImporter, src map[string][]byte, note *NormaliseNote) {
	for round := 0; round < 20; round++ {
		st, err := checkPackage(p, imps, src)
		if err != nil {
			return
		}
		done := false
		for i, f := range st.files {
			name := st.names[i]
			if disk, err := os.ReadFile(name); err == nil && bytes.Equal(disk, src[name]) {
				continue
			}
			var target *ast.ExprStmt
			var declStmt *ast.DeclStmt
			var body *ast.BlockStmt
			ast.Inspect(f, func(n ast.Node) bool {
				if target != nil {
					return false
				}
				switch x := n.(type) {
				case *ast.ExprStmt:
					call, ok := x.X.(*ast.CallExpr)
					if !ok || len(call.Args) != 0 {
						return true
					}
					if lit, ok := call.Fun.(*ast.FuncLit); ok && plainLiteral(lit) && noReturnDeferRecover(lit.Body) {
						target, body = x, lit.Body
					}
				case *ast.DeclStmt:
					gd, ok := x.Decl.(*ast.GenDecl)
					if !ok || gd.Tok != token.VAR || len(gd.Specs) != 1 {
						return true
					}
					vs, ok := gd.Specs[0].(*ast.ValueSpec)
					if !ok || len(vs.Names) != 1 || len(vs.Values) != 1 {
						return true
					}
					lit, ok := vs.Values[0].(*ast.FuncLit)
					if !ok || !plainLiteral(lit) || !noReturnDeferRecover(lit.Body) {
						return true
					}
					obj := st.info.Defs[vs.Names[0]]
					if obj == nil {
						return true
					}
					var uses []*ast.Ident
					for id, o := range st.info.Uses {
						if o == obj {
							uses = append(uses, id)
						}
					}
					if len(uses) != 1 {
						return true
					}
					ast.Inspect(f, func(m ast.Node) bool {
						es, ok := m.(*ast.ExprStmt)
						if !ok {
							return true
						}
						if call, ok := es.X.(*ast.CallExpr); ok && len(call.Args) == 0 && call.Fun == ast.Expr(uses[0]) && es.Pos() > x.End() {
							target, declStmt, body = es, x, lit.Body
						}
						return true
					})
				}
				return true
			})
			if target == nil {
				continue
			}
			tf := st.fset.File(target.Pos())
			old := src[name]
			var nb []byte
			if declStmt != nil {
				nb = append([]byte(nil), old[:tf.Offset(declStmt.Pos())]...)
				nb = append(nb, old[tf.Offset(declStmt.End()):tf.Offset(target.Pos())]...)
			} else {
				nb = append([]byte(nil), old[:tf.Offset(target.Pos())]...)
			}
			nb = append(nb, old[tf.Offset(body.Pos()):tf.Offset(body.End())]...)
			nb = append(nb, old[tf.Offset(target.End()):]...)
			src[name] = nb
			if _, err := checkPackage(p, imps, src); err != nil {
				src[name] = old
				return
			}
			note.Inlined = append(note.Inlined, "called function literal unwrapped in "+filepath.Base(name))
			done = true
			break
		}
		if !done {
			return
		}
	}
}

// ---------------------------------------------------------------------------------------------
// Renames. The rules name their anchors (functions, methods, struct fields of the two packages).
// A maintainer who renames an unexported one changes no behaviour but every rule anchored there
// would report ANCHOR. When a name of the pinned tree is missing and exactly one declaration that
// the pinned tree does not have carries the same signature (same receiver type) / the same field
// type in the same struct, the declaration is renamed back - all its references, found through the
// type checker - in the overlay the rules analyse. Only unexported names are considered.

type renameCand struct {
	dir      string
	kind     string // func | field
	owner    string // receiver or struct type name ("" for a plain function)
	from, to string
}

func scanRenames(repo string, overlay map[string][]byte) []renameCand {
	var out []renameCand
	for _, dir := range []string{"gbn", "mailbox"} {
		ents, err := os.ReadDir(filepath.Join(repo, dir))
		if err != nil {
			return nil
		}
		fset := token.NewFileSet()
		haveF := map[string]string{} // key -> sig
		haveFld := map[string]string{}
		for _, e := range ents {
			n := e.Name()
			if e.IsDir() || !strings.HasSuffix(n, ".go") || strings.HasSuffix(n, "_test.go") {
				continue
			}
			path := filepath.Join(repo, dir, n)
			var src any
			if b, ok := overlay[path]; ok {
				src = b
			}
			f, err := parser.ParseFile(fset, path, src, parser.SkipObjectResolution)
			if err != nil {
				return nil
			}
			for _, d := range f.Decls {
				switch x := d.(type) {
				case *ast.FuncDecl:
					if x.Body != nil {
						haveF[declKey(dir, x)] = sigText(fset, x.Type)
					}
				case *ast.GenDecl:
					for _, sp := range x.Specs {
						if ts, ok := sp.(*ast.TypeSpec); ok {
							if stt, ok := ts.Type.(*ast.StructType); ok {
								for _, fl := range stt.Fields.List {
									for _, nm := range fl.Names {
										haveFld["field "+dir+"."+ts.Name.Name+"."+nm.Name] = nodeText(fset, fl.Type)
									}
								}
							}
						}
					}
				}
			}
		}
		split := func(key string) (owner, name string) {
			k := strings.TrimPrefix(strings.TrimPrefix(key, "field "), dir+".")
			if i := strings.LastIndex(k, "."); i >= 0 {
				return k[:i], k[i+1:]
			}
			return "", k
		}
		match := func(kind string, known map[string]string, have map[string]string) {
			for mk, msig := range known {
				if (kind == "field") != strings.HasPrefix(mk, "field ") {
					continue
				}
				if !strings.HasPrefix(strings.TrimPrefix(mk, "field "), dir+".") {
					continue
				}
				if _, ok := have[mk]; ok {
					continue
				}
				mo, mn := split(mk)
				if ast.IsExported(mn) {
					continue
				}
				var cands []string
				for hk, hsig := range have {
					if _, isKnown := known[hk]; isKnown || hsig != msig {
						continue
					}
					ho, hn := split(hk)
					if ho == mo && !ast.IsExported(hn) {
						cands = append(cands, hn)
					}
				}
				if len(cands) == 1 {
					out = append(out, renameCand{dir: dir, kind: kind, owner: mo, from: cands[0], to: mn})
				}
			}
		}
		knownF, knownFld := map[string]string{}, map[string]string{}
		for k, v := range knownSigs {
			if strings.HasPrefix(k, "field ") {
				knownFld[k] = v
			} else {
				knownF[k] = v
			}
		}
		match("func", knownF, haveF)
		match("field", knownFld, haveFld)
		// a method of the pinned tree that is now a plain function taking the receiver first
		// (`func (s *T) m(a A)` -> `func m2(s *T, a A)`): kind "unmethod"
		for mk, msig := range knownF {
			if !strings.HasPrefix(mk, dir+".(") {
				continue
			}
			if _, ok := haveF[mk]; ok {
				continue
			}
			mo, mn := split(mk) // "(T)", name
			tname := strings.Trim(mo, "()")
			if ast.IsExported(mn) {
				continue
			}
			rest := strings.TrimPrefix(msig, "(")
			var cands []string
			for hk, hsig := range haveF {
				if _, isKnown := knownF[hk]; isKnown || strings.Contains(hk, ".(") {
					continue
				}
				for _, recv := range []string{"*" + tname, tname} {
					want := "(" + recv
					if strings.HasPrefix(rest, ")") {
						want += rest
					} else {
						want += ", " + rest
					}
					if hsig == want {
						_, hn := split(hk)
						cands = append(cands, hn)
					}
				}
			}
			if len(cands) == 1 {
				out = append(out, renameCand{dir: dir, kind: "unmethod", owner: tname, from: cands[0], to: mn})
			}
		}
	}
	// a new name claimed by two missing ones is ambiguous
	cnt := map[string]int{}
	for _, r := range out {
		cnt[r.dir+r.kind+r.owner+r.from]++
	}
	var res []renameCand
	for _, r := range out {
		if cnt[r.dir+r.kind+r.owner+r.from] == 1 {
			res = append(res, r)
		}
	}
	sort.Slice(res, func(i, j int) bool { return res[i].dir+res[i].owner+res[i].to < res[j].dir+res[j].owner+res[j].to })
	return res
}

func applyRenames(repo string, overlay map[string][]byte, tags string, renames []renameCand) (map[string][]byte, []string) {
	defer func() { _ = recover() }()
	cfg := &packages.Config{
		Mode:    packages.LoadAllSyntax,
		Dir:     filepath.Join(repo, "mailbox"),
		Overlay: overlay,
		Env:     append(os.Environ(), "GOWORK=off", "GOFLAGS=-mod=mod"),
	}
	if strings.HasPrefix(tags, "env:") {
		cfg.Env = append(cfg.Env, strings.Fields(strings.TrimPrefix(tags, "env:"))...)
	} else if tags != "" {
		cfg.BuildFlags = []string{"-tags=" + tags}
	}
	pkgs, err := packages.Load(cfg, ".", gbnPath)
	if err != nil {
		return overlay, nil
	}
	out := map[string][]byte{}
	for k, v := range overlay {
		out[k] = v
	}
	var done []string
	bad := false
	packages.Visit(pkgs, nil, func(p *packages.Package) {
		if len(p.Errors) > 0 {
			bad = true
		}
	})
	if bad {
		return overlay, nil
	}
	packages.Visit(pkgs, nil, func(p *packages.Package) {
		dir := ""
		switch p.PkgPath {
		case gbnPath:
			dir = "gbn"
		case mboxPath:
			dir = "mailbox"
		default:
			return
		}
		type edit struct {
			file     string
			from, to int
			text     string
		}
		var edits []edit
		for _, r := range renames {
			if r.dir != dir || r.kind != "unmethod" {
				continue
			}
			fobj, _ := p.Types.Scope().Lookup(r.from).(*types.Func)
			if fobj == nil {
				continue
			}
			// every use must be the callee of a call with at least one argument
			okAll := true
			var calls []*ast.CallExpr
			var decl *ast.FuncDecl
			for _, f := range p.Syntax {
				ast.Inspect(f, func(n ast.Node) bool {
					switch x := n.(type) {
					case *ast.FuncDecl:
						if p.TypesInfo.Defs[x.Name] == types.Object(fobj) {
							decl = x
						}
					case *ast.CallExpr:
						if id, ok := x.Fun.(*ast.Ident); ok && p.TypesInfo.Uses[id] == types.Object(fobj) {
							if len(x.Args) == 0 || x.Ellipsis.IsValid() {
								okAll = false
							}
							calls = append(calls, x)
						}
					}
					return true
				})
			}
			nUses := 0
			for _, o := range p.TypesInfo.Uses {
				if o == types.Object(fobj) {
					nUses++
				}
			}
			if !okAll || decl == nil || nUses != len(calls) || decl.Type.Params == nil || len(decl.Type.Params.List) == 0 || len(decl.Type.Params.List[0].Names) != 1 {
				continue
			}
			off := func(pos token.Pos) (string, int) { ps := p.Fset.Position(pos); return ps.Filename, ps.Offset }
			// declaration: func NAME(recv T, rest) -> func (recv T) to(rest)
			first := decl.Type.Params.List[0]
			file, nameFrom := off(decl.Name.Pos())
			_, lparen := off(decl.Type.Params.Opening)
			_, firstFrom := off(first.Pos())
			_, firstEnd := off(first.End())
			srcb, ok := out[file]
			if !ok {
				var err error
				if srcb, err = os.ReadFile(file); err != nil {
					continue
				}
			}
			recvText := string(srcb[firstFrom:firstEnd])
			restFrom := firstEnd
			if len(decl.Type.Params.List) > 1 {
				_, restFrom = off(decl.Type.Params.List[1].Pos())
			}
			edits = append(edits, edit{file, nameFrom, restFrom, "(" + recvText + ") " + r.to + "("})
			_ = lparen
			for _, c := range calls {
				cf, cFrom := off(c.Fun.Pos())
				_, a0From := off(c.Args[0].Pos())
				_, a0End := off(c.Args[0].End())
				cb, ok := out[cf]
				if !ok {
					var err error
					if cb, err = os.ReadFile(cf); err != nil {
						okAll = false
						break
					}
				}
				a0 := string(cb[a0From:a0End])
				next := a0End
				if len(c.Args) > 1 {
					_, next = off(c.Args[1].Pos())
				}
				edits = append(edits, edit{cf, cFrom, next, "(" + a0 + ")." + r.to + "("})
			}
			done = append(done, fmt.Sprintf("function %s.%s(%s, ...) turned back into the method (%s).%s (%d calls)", dir, r.from, r.owner, r.owner, r.to, len(calls)))
		}
		for _, r := range renames {
			if r.dir != dir || r.kind == "unmethod" {
				continue
			}
			// the object
			var obj types.Object
			for id, o := range p.TypesInfo.Defs {
				if o == nil || id.Name != r.from {
					continue
				}
				switch x := o.(type) {
				case *types.Func:
					if r.kind != "func" {
						continue
					}
					recv := x.Type().(*types.Signature).Recv()
					owner := ""
					if recv != nil {
						if n := namedOfType(recv.Type()); n != nil {
							owner = "(" + n.Obj().Name() + ")"
						}
					}
					if owner == r.owner {
						obj = o
					}
				case *types.Var:
					if r.kind == "field" && x.IsField() {
						// the struct that declares it
						if tn, ok := p.Types.Scope().Lookup(r.owner).(*types.TypeName); ok {
							if stt, ok := tn.Type().Underlying().(*types.Struct); ok {
								for k := 0; k < stt.NumFields(); k++ {
									if stt.Field(k) == x {
										obj = o
									}
								}
							}
						}
					}
				}
			}
			if obj == nil {
				continue
			}
			n := 0
			add := func(id *ast.Ident) {
				pos := p.Fset.Position(id.Pos())
				edits = append(edits, edit{pos.Filename, pos.Offset, pos.Offset + len(id.Name), r.to})
				n++
			}
			for id, o := range p.TypesInfo.Defs {
				if o == obj {
					add(id)
				}
			}
			for id, o := range p.TypesInfo.Uses {
				if o == obj {
					add(id)
				}
			}
			done = append(done, fmt.Sprintf("renamed %s.%s%s back to %s (%d references)", dir, map[bool]string{true: r.owner + ".", false: ""}[r.owner != ""], r.from, r.to, n))
		}
		byFile := map[string][]edit{}
		for _, e := range edits {
			byFile[e.file] = append(byFile[e.file], e)
		}
		for file, es := range byFile {
			if strings.HasSuffix(file, "_test.go") {
				continue
			}
			b, ok := out[file]
			if !ok {
				var err error
				if b, err = os.ReadFile(file); err != nil {
					continue
				}
			}
			sort.Slice(es, func(i, j int) bool { return es[i].from > es[j].from })
			nb := append([]byte(nil), b...)
			for _, e := range es {
				nb = append(nb[:e.from], append([]byte(e.text), nb[e.to:]...)...)
			}
			out[file] = nb
		}
	})
	return out, done
}

func namedOfType(t types.Type) *types.Named {
	if p, ok := t.(*types.Pointer); ok {
		t = p.Elem()
	}
	n, _ := t.(*types.Named)
	return n
}
