package main

// Helper normalisation (a source-level pre-pass of the loader).
//
// Most rules are anchored in named functions of the two packages (the send loop, queue.resend,
// writeMsgPattern, ...).  A behaviour-preserving maintenance edit that moves a few lines of such a
// function into a *new* helper (`q.nextSeq(x)` for `(x+1) % q.cfg.s`, `c.newMachine(initiator)` for
// a duplicated constructor call) leaves the behaviour alone but hides the moved lines from every rule
// that reads the anchor's body.  Instead of teaching each rule about every possible helper, the
// loader undoes the extraction first: every call, inside the two target packages, of a function or
// method that the pinned tree does not know (knownFuncs, generated from the pinned commit; a function
// the rules could be anchored in is never touched) is inlined into its caller with the x/tools
// inliner (golang.org/x/tools/internal/refactor/inline v0.29.0, copied to ./xinline; it is the
// engine behind gopls' "inline call" and guarantees a semantics-preserving rewrite).  The rewritten
// files are handed to the normal loader as an overlay; the rest of the checker is unchanged.
//
// Soundness: the inliner either produces an equivalent program or reports an error.  The result is
// type-checked again; a call that cannot be inlined, would only be wrapped into a function literal
// (no gain), or whose result does not type-check, is left exactly as written, and the rules then
// judge the helper call as they always did.  On a tree without new functions (the unchanged tree)
// the pre-pass does nothing.  The frozen list decides only *where normalisation is attempted*; it
// never decides a verdict.

import (
	"bytes"
	_ "embed"
	"fmt"
	"go/ast"
	"go/parser"
	"go/printer"
	"go/token"
	"go/types"
	"os"
	"path/filepath"
	"sort"
	"strings"

	"golang.org/x/tools/go/packages"
	"golang.org/x/tools/go/types/typeutil"

	"lncverif/xinline/inline"
)

//go:embed known_funcs.txt
var knownFuncsTxt string

// knownSigs: declaration key -> signature text (functions), "field pkg.Type.name" -> type text.
var knownSigs = map[string]string{}

var knownFuncs = func() map[string]bool {
	m := map[string]bool{}
	for _, l := range strings.Split(knownFuncsTxt, "\n") {
		if l = strings.TrimSpace(l); l != "" && !strings.HasPrefix(l, "#") {
			parts := strings.SplitN(l, "\t", 2)
			if strings.HasPrefix(parts[0], "field ") {
				if len(parts) == 2 {
					knownSigs[parts[0]] = parts[1]
				}
				continue
			}
			m[parts[0]] = true
			if len(parts) == 2 {
				knownSigs[parts[0]] = parts[1]
			}
		}
	}
	return m
}()

func nodeText(fset *token.FileSet, n ast.Node) string {
	var b bytes.Buffer
	_ = printer.Fprint(&b, fset, n)
	return strings.Join(strings.Fields(b.String()), " ")
}

// sigText: parameter and result types of a declaration, without names.
func sigText(fset *token.FileSet, ft *ast.FuncType) string {
	list := func(fl *ast.FieldList) string {
		if fl == nil {
			return ""
		}
		var ts []string
		for _, f := range fl.List {
			n := len(f.Names)
			if n == 0 {
				n = 1
			}
			for i := 0; i < n; i++ {
				ts = append(ts, nodeText(fset, f.Type))
			}
		}
		return strings.Join(ts, ", ")
	}
	return "(" + list(ft.Params) + ") (" + list(ft.Results) + ")"
}

// declKey names a function declaration: "gbn.newQueue", "gbn.(queue).resend".
func declKey(pkgName string, d *ast.FuncDecl) string {
	if d.Recv != nil && len(d.Recv.List) == 1 {
		t := d.Recv.List[0].Type
		for {
			switch x := t.(type) {
			case *ast.StarExpr:
				t = x.X
				continue
			case *ast.ParenExpr:
				t = x.X
				continue
			case *ast.IndexExpr:
				t = x.X
				continue
			}
			break
		}
		if id, ok := t.(*ast.Ident); ok {
			return pkgName + ".(" + id.Name + ")." + d.Name.Name
		}
	}
	return pkgName + "." + d.Name.Name
}

// NormaliseNote describes what the pre-pass did (printed and stored in the evidence).
type NormaliseNote struct {
	NewFuncs []string `json:"new_functions"`
	Inlined  []string `json:"inlined_calls"`
	Kept     []string `json:"calls_left_as_written"`
}

// scanNewFuncs parses the non-test files of the two target directories (overlay applied) and
// returns the declarations the pinned tree does not have.
func scanNewFuncs(repo string, overlay map[string][]byte) (map[string][]string, error) {
	out := map[string][]string{}
	for _, dir := range []string{"gbn", "mailbox"} {
		ents, err := os.ReadDir(filepath.Join(repo, dir))
		if err != nil {
			return nil, err
		}
		fset := token.NewFileSet()
		for _, e := range ents {
			n := e.Name()
			if e.IsDir() || !strings.HasSuffix(n, ".go") || strings.HasSuffix(n, "_test.go") {
				continue
			}
			path := filepath.Join(repo, dir, n)
			var src any
			if b, ok := overlay[path]; ok {
				src = b
			}
			f, err := parser.ParseFile(fset, path, src, parser.SkipObjectResolution)
			if err != nil {
				return nil, nil // the main load reports the error
			}
			for _, d := range f.Decls {
				if fd, ok := d.(*ast.FuncDecl); ok && fd.Body != nil {
					k := declKey(dir, fd)
					if !knownFuncs[k] && fd.Name.Name != "init" {
						out[dir] = append(out[dir], k)
					}
				}
			}
		}
	}
	return out, nil
}

type mapImporter map[string]*types.Package

func (m mapImporter) Import(path string) (*types.Package, error) {
	if p, ok := m[path]; ok {
		return p, nil
	}
	return nil, fmt.Errorf("package %s not loaded", path)
}

// normaliseHelpers returns the overlay extended by the files in which calls of new helpers were
// inlined. Any internal failure leaves the overlay as it was.
func normaliseHelpers(repo string, overlay map[string][]byte, tags string) (map[string][]byte, *NormaliseNote) {
	newFns, err := scanNewFuncs(repo, overlay)
	if err != nil || len(newFns) == 0 {
		return overlay, nil
	}
	note := &NormaliseNote{}
	for _, ks := range newFns {
		note.NewFuncs = append(note.NewFuncs, ks...)
	}
	sort.Strings(note.NewFuncs)
	defer func() {
		if r := recover(); r != nil {
			note.Kept = append(note.Kept, fmt.Sprintf("normalisation stopped: %v", r))
		}
	}()

	cfg := &packages.Config{
		Mode:    packages.LoadAllSyntax,
		Dir:     filepath.Join(repo, "mailbox"),
		Overlay: overlay,
		Env:     append(os.Environ(), "GOWORK=off", "GOFLAGS=-mod=mod"),
	}
	if strings.HasPrefix(tags, "env:") {
		cfg.Env = append(cfg.Env, strings.Fields(strings.TrimPrefix(tags, "env:"))...)
	} else if tags != "" {
		cfg.BuildFlags = []string{"-tags=" + tags}
	}
	pkgs, err := packages.Load(cfg, ".", gbnPath)
	if err != nil {
		return overlay, note
	}
	imps := mapImporter{}
	var targets []*packages.Package
	bad := false
	packages.Visit(pkgs, nil, func(p *packages.Package) {
		if len(p.Errors) > 0 {
			bad = true
		}
		if p.Types != nil {
			imps[p.PkgPath] = p.Types
		}
		if p.PkgPath == gbnPath || p.PkgPath == mboxPath {
			targets = append(targets, p)
		}
	})
	if bad {
		return overlay, note // the main load reports the errors
	}
	out := map[string][]byte{}
	for k, v := range overlay {
		out[k] = v
	}
	for _, p := range targets {
		dir := "mailbox"
		if p.PkgPath == gbnPath {
			dir = "gbn"
		}
		if len(newFns[dir]) == 0 {
			continue
		}
		isNew := map[string]bool{}
		for _, k := range newFns[dir] {
			isNew[k] = true
		}
		normalisePackage(p, dir, isNew, imps, out, note)
	}
	if d := os.Getenv("LNCVERIF_DUMPNORM"); d != "" {
		for name, b := range out {
			_ = os.WriteFile(filepath.Join(d, filepath.Base(name)), b, 0o644)
		}
	}
	return out, note
}

type pkgState struct {
	fset  *token.FileSet
	files []*ast.File
	names []string
	src   map[string][]byte
	pkg   *types.Package
	info  *types.Info
}

func checkPackage(p *packages.Package, imps mapImporter, src map[string][]byte) (*pkgState, error) {
	st := &pkgState{fset: token.NewFileSet(), src: src}
	for _, name := range p.CompiledGoFiles {
		f, err := parser.ParseFile(st.fset, name, src[name], parser.ParseComments)
		if err != nil {
			return nil, err
		}
		st.files = append(st.files, f)
		st.names = append(st.names, name)
	}
	st.info = &types.Info{
		Types:        map[ast.Expr]types.TypeAndValue{},
		Defs:         map[*ast.Ident]types.Object{},
		Uses:         map[*ast.Ident]types.Object{},
		Implicits:    map[ast.Node]types.Object{},
		Selections:   map[*ast.SelectorExpr]*types.Selection{},
		Scopes:       map[ast.Node]*types.Scope{},
		Instances:    map[*ast.Ident]types.Instance{},
		FileVersions: map[*ast.File]string{},
	}
	conf := types.Config{Importer: imps, Sizes: p.TypesSizes}
	if p.Module != nil && p.Module.GoVersion != "" {
		conf.GoVersion = "go" + p.Module.GoVersion
	}
	pkg, err := conf.Check(p.PkgPath, st.fset, st.files, st.info)
	if err != nil {
		return nil, err
	}
	st.pkg = pkg
	return st, nil
}

func normalisePackage(p *packages.Package, dir string, isNew map[string]bool, imps mapImporter, overlay map[string][]byte, note *NormaliseNote) {
	src := map[string][]byte{}
	for _, name := range p.CompiledGoFiles {
		if b, ok := overlay[name]; ok {
			src[name] = b
		} else if b, err := os.ReadFile(name); err == nil {
			src[name] = b
		} else {
			return
		}
	}
	failed := map[string]bool{}
	hoisted := map[string]bool{}
	logf := func(string, ...any) {}
	for iter := 0; iter < 60; iter++ {
		st, err := checkPackage(p, imps, src)
		if err != nil {
			note.Kept = append(note.Kept, "package "+dir+" does not re-check: "+err.Error())
			return
		}
		// declarations of the new helpers
		decls := map[*types.Func]*ast.FuncDecl{}
		declFile := map[*types.Func]int{}
		for i, f := range st.files {
			for _, d := range f.Decls {
				if fd, ok := d.(*ast.FuncDecl); ok && fd.Body != nil && isNew[declKey(dir, fd)] {
					if fn, ok := st.info.Defs[fd.Name].(*types.Func); ok {
						decls[fn] = fd
						declFile[fn] = i
					}
				}
			}
		}
		// first inlinable call
		type cand struct {
			file   int
			call   *ast.CallExpr
			callee *types.Func
			key    string
			goDef  bool
			stmt   ast.Stmt // innermost statement holding the call, when it sits directly in a statement list
			outer  ast.Stmt // where statements can be put in front: stmt itself, or the `if` whose init stmt is
		}
		var pick *cand
		for i, f := range st.files {
			if pick != nil {
				break
			}
			for _, d := range f.Decls {
				fd, ok := d.(*ast.FuncDecl)
				if !ok || fd.Body == nil || pick != nil {
					continue
				}
				encl, _ := st.info.Defs[fd.Name].(*types.Func)
				occ := map[string]int{}
				var stack []ast.Node
				ast.Inspect(fd.Body, func(n ast.Node) bool {
					if n == nil {
						stack = stack[:len(stack)-1]
						return true
					}
					stack = append(stack, n)
					call, ok := n.(*ast.CallExpr)
					if !ok || pick != nil {
						return true
					}
					callee := typeutil.StaticCallee(st.info, call)
					if callee == nil || decls[callee] == nil || callee == encl {
						return true
					}
					k := declKey(dir, fd) + " -> " + declKey(dir, decls[callee])
					occ[k]++
					key := fmt.Sprintf("%s #%d", k, occ[k])
					if failed[key] {
						return true
					}
					gd := false
					if len(stack) >= 2 {
						switch stack[len(stack)-2].(type) {
						case *ast.GoStmt, *ast.DeferStmt:
							gd = true
						}
					}
					pick = &cand{file: i, call: call, callee: callee, key: key, goDef: gd}
					for j := len(stack) - 2; j >= 1; j-- {
						if s, ok := stack[j].(ast.Stmt); ok {
							switch par := stack[j-1].(type) {
							case *ast.BlockStmt, *ast.CaseClause, *ast.CommClause:
								pick.stmt, pick.outer = s, s
							case *ast.IfStmt:
								// `if err := h(); err != nil {` in a statement list (not an else-if)
								if par.Init == s && j >= 2 {
									switch stack[j-2].(type) {
									case *ast.BlockStmt, *ast.CaseClause, *ast.CommClause:
										pick.stmt, pick.outer = s, par
									}
								}
							}
							break
						}
					}
					return true
				})
			}
		}
		if pick == nil {
			break
		}
		fd := decls[pick.callee]
		calleeName := st.names[declFile[pick.callee]]
		callee, err := inline.AnalyzeCallee(logf, st.fset, st.pkg, st.info, fd, src[calleeName])
		if err != nil {
			failed[pick.key] = true
			note.Kept = append(note.Kept, pick.key+": "+firstLine(err.Error()))
			continue
		}
		callerName := st.names[pick.file]
		res, err := inline.Inline(&inline.Caller{
			Fset: st.fset, Types: st.pkg, Info: st.info, File: st.files[pick.file], Call: pick.call, Content: src[callerName],
		}, callee, &inline.Options{Logf: logf})
		if err != nil {
			failed[pick.key] = true
			note.Kept = append(note.Kept, pick.key+": "+firstLine(err.Error()))
			continue
		}
		if res.Literalized && !pick.goDef && !hoisted[pick.key] {
			// `x = h(a.b)`: the inliner needs a binding for the argument and an expression has no room
			// for one. When the statement holds no other call, receive or function literal, reading the
			// argument just before the statement yields the same value: hoist it and try again.
			hoisted[pick.key] = true
			if b, ok := hoistArgs(st, pick.stmt, pick.outer, pick.call, src[callerName], iter); ok {
				oldSrc := src[callerName]
				src[callerName] = b
				if _, err := checkPackage(p, imps, src); err == nil {
					continue
				}
				src[callerName] = oldSrc
			}
		}
		if res.Literalized && !pick.goDef {
			// a helper with several statements or early returns in a value context: splice its body
			// in as a labelled block that assigns the results (blockInline)
			if b, why := blockInline(st, dir, pick.stmt, pick.outer, pick.call, fd, src[callerName], src[calleeName], iter); b != nil {
				oldSrc := src[callerName]
				src[callerName] = b
				if _, err := checkPackage(p, imps, src); err == nil {
					note.Inlined = append(note.Inlined, pick.key+" (as a block)")
					continue
				} else {
					why = "block form does not type-check: " + firstLine(err.Error())
				}
				src[callerName] = oldSrc
				failed[pick.key] = true
				note.Kept = append(note.Kept, pick.key+": "+why)
				continue
			} else {
				failed[pick.key] = true
				note.Kept = append(note.Kept, pick.key+": only expressible as a function literal ("+why+")")
				continue
			}
		}
		old := src[callerName]
		src[callerName] = res.Content
		if _, err := checkPackage(p, imps, src); err != nil {
			src[callerName] = old
			failed[pick.key] = true
			note.Kept = append(note.Kept, pick.key+": inlined form does not type-check: "+firstLine(err.Error()))
			continue
		}
		// the occurrence numbering of later calls in this caller shifts by one: forget the
		// failures of this pair so that they are looked at again (bounded by iter)
		note.Inlined = append(note.Inlined, pick.key)
	}
	if len(note.Inlined) > 0 {
		unwrapCalledLiterals(p, imps, src, note)
		removeDeadHelpers(p, dir, isNew, imps, src, note)
	}
	for name, b := range src {
		if ob, ok := overlay[name]; ok && bytes.Equal(ob, b) {
			continue
		}
		if disk, err := os.ReadFile(name); err == nil && bytes.Equal(disk, b) {
			continue
		}
		overlay[name] = b
	}
}

func firstLine(s string) string {
	if i := strings.IndexByte(s, '\n'); i >= 0 {
		s = s[:i]
	}
	if len(s) > 160 {
		s = s[:160]
	}
	return s
}

// genKnownFuncs prints the declaration keys (with signatures) and the struct fields of the tree
// (used once, on the pinned commit).
func genKnownFuncs(repo string) {
	var lines []string
	for _, dir := range []string{"gbn", "mailbox"} {
		fset := token.NewFileSet()
		ents, _ := os.ReadDir(filepath.Join(repo, dir))
		for _, e := range ents {
			n := e.Name()
			if e.IsDir() || !strings.HasSuffix(n, ".go") || strings.HasSuffix(n, "_test.go") {
				continue
			}
			f, err := parser.ParseFile(fset, filepath.Join(repo, dir, n), nil, parser.SkipObjectResolution)
			if err != nil {
				continue
			}
			for _, d := range f.Decls {
				switch x := d.(type) {
				case *ast.FuncDecl:
					if x.Body != nil && x.Name.Name != "init" {
						lines = append(lines, declKey(dir, x)+"\t"+sigText(fset, x.Type))
					}
				case *ast.GenDecl:
					for _, sp := range x.Specs {
						ts, ok := sp.(*ast.TypeSpec)
						if !ok {
							continue
						}
						stt, ok := ts.Type.(*ast.StructType)
						if !ok {
							continue
						}
						for _, fl := range stt.Fields.List {
							for _, nm := range fl.Names {
								lines = append(lines, "field "+dir+"."+ts.Name.Name+"."+nm.Name+"\t"+nodeText(fset, fl.Type))
							}
						}
					}
				}
			}
		}
	}
	sort.Strings(lines)
	fmt.Println("# functions and methods (key<TAB>signature) and struct fields (field key<TAB>type) of gbn/ and mailbox/")
	fmt.Println("# (non-test files) at the pinned commit + fix: commits. Calls of functions NOT listed here are candidates")
	fmt.Println("# for the helper normalisation pre-pass; a listed name that is missing while exactly one unlisted")
	fmt.Println("# declaration has its signature/type is treated as a rename and renamed back (normalise.go).")
	for _, k := range lines {
		fmt.Println(k)
	}
}

// hoistArgs rewrites `S` (an assignment, expression statement or return that contains exactly one
// call, the helper call, and no receive or function literal) so that every argument that is neither
// an identifier nor a literal nor a constant is read into a fresh local just before S.
func hoistArgs(st *pkgState, stmt, outer ast.Stmt, call *ast.CallExpr, content []byte, iter int) ([]byte, bool) {
	if stmt == nil {
		return nil, false
	}
	switch stmt.(type) {
	case *ast.AssignStmt, *ast.ExprStmt, *ast.ReturnStmt:
	default:
		return nil, false
	}
	ncall, bad := 0, false
	ast.Inspect(stmt, func(n ast.Node) bool {
		switch x := n.(type) {
		case *ast.CallExpr:
			if tv, ok := st.info.Types[x.Fun]; ok && (tv.IsType() || tv.IsBuiltin()) {
				if tv.IsBuiltin() {
					if id, ok := x.Fun.(*ast.Ident); !ok || (id.Name != "len" && id.Name != "cap") {
						bad = true
					}
				}
				return true
			}
			ncall++
		case *ast.FuncLit:
			bad = true
		case *ast.UnaryExpr:
			if x.Op == token.ARROW {
				bad = true
			}
		}
		return true
	})
	if bad || ncall != 1 || call.Ellipsis.IsValid() {
		return nil, false
	}
	tf := st.fset.File(stmt.Pos())
	type edit struct {
		from, to int
		text     string
	}
	var edits []edit
	var binds []string
	for i, a := range call.Args {
		switch a.(type) {
		case *ast.Ident, *ast.BasicLit:
			continue
		}
		tv := st.info.Types[a]
		if tv.Value != nil || tv.Type == nil {
			continue
		}
		if b, ok := tv.Type.(*types.Basic); ok && b.Info()&types.IsUntyped != 0 {
			return nil, false
		}
		name := fmt.Sprintf("lncvArg%d_%d", iter, i)
		from, to := tf.Offset(a.Pos()), tf.Offset(a.End())
		binds = append(binds, name+" := "+string(content[from:to])+"\n")
		edits = append(edits, edit{from, to, name})
	}
	if len(edits) == 0 {
		return nil, false
	}
	edits = append(edits, edit{tf.Offset(outer.Pos()), tf.Offset(outer.Pos()), strings.Join(binds, "")})
	sort.Slice(edits, func(i, j int) bool { return edits[i].from > edits[j].from })
	out := append([]byte(nil), content...)
	for _, e := range edits {
		out = append(out[:e.from], append([]byte(e.text), out[e.to:]...)...)
	}
	return out, true
}

// removeDeadHelpers deletes the declarations of new helpers that nothing refers to any more (a rule
// that looks at every function of the package would otherwise judge a body that never runs).
func removeDeadHelpers(p *packages.Package, dir string, isNew map[string]bool, imps mapImporter, src map[string][]byte, note *NormaliseNote) {
	for round := 0; round < 8; round++ {
		st, err := checkPackage(p, imps, src)
		if err != nil {
			return
		}
		used := map[types.Object]bool{}
		for _, o := range st.info.Uses {
			used[o] = true
		}
		removed := false
		for i, f := range st.files {
			for _, d := range f.Decls {
				fd, ok := d.(*ast.FuncDecl)
				if !ok || fd.Body == nil || !isNew[declKey(dir, fd)] || ast.IsExported(fd.Name.Name) {
					continue
				}
				if obj := st.info.Defs[fd.Name]; obj == nil || used[obj] {
					continue
				}
				tf := st.fset.File(fd.Pos())
				from, to := tf.Offset(fd.Pos()), tf.Offset(fd.End())
				if fd.Doc != nil {
					from = tf.Offset(fd.Doc.Pos())
				}
				name := st.names[i]
				old := src[name]
				nb := append(append([]byte(nil), old[:from]...), old[to:]...)
				src[name] = nb
				if _, err := checkPackage(p, imps, src); err != nil {
					src[name] = old
					continue
				}
				note.Inlined = append(note.Inlined, "removed the now unreferenced "+declKey(dir, fd))
				removed = true
				break
			}
			if removed {
				break
			}
		}
		if !removed {
			return
		}
	}
}

// blockInline: the call `h(args)` sits in the statement S (an assignment, an expression statement or
// a return, directly in a statement list) either as the whole right-hand side / returned value / the
// statement itself, or as a direct argument of the single other call of S. The statement is replaced
// by
//
//	lncvA_i := arg_i                      (arguments and receiver, read once, in order)
//	var lncvR_j T_j                       (one variable per result)
//	lncvL: switch { default:
//	    var p_i P_i = lncvA_i             (the helper's own parameter names and types)
//	    <body of h, every `return e...` rewritten to `{ lncvR... = e...; break lncvL }`>
//	}
//	S with the call replaced by lncvR_0[, lncvR_1 ...]
//
// Restrictions (anything else is refused and the call stays as written): no defer, recover, goto or
// label in h, no named results, not variadic, no method value tricks; every package-level name the
// body uses means the same thing at the call site; in S no call other than the one whose argument h
// is. Go leaves the order between a function call and the reads of the other operands of a statement
// unspecified, so running h's body just before the rest of S is one of the permitted orders.
func blockInline(st *pkgState, dir string, stmt, outer ast.Stmt, call *ast.CallExpr, fd *ast.FuncDecl, callerSrc, calleeSrc []byte, iter int) ([]byte, string) {
	if stmt == nil {
		return nil, "the call is not inside a plain statement list"
	}
	switch stmt.(type) {
	case *ast.AssignStmt, *ast.ExprStmt, *ast.ReturnStmt:
	default:
		return nil, "unsupported statement kind"
	}
	if call.Ellipsis.IsValid() || (fd.Type.Params != nil && len(fd.Type.Params.List) > 0 && func() bool {
		_, v := fd.Type.Params.List[len(fd.Type.Params.List)-1].Type.(*ast.Ellipsis)
		return v
	}()) {
		return nil, "variadic"
	}
	// the callee
	bad := ""
	var returns []*ast.ReturnStmt
	var visit func(n ast.Node, inLit bool)
	visit = func(n ast.Node, inLit bool) {
		ast.Inspect(n, func(x ast.Node) bool {
			switch y := x.(type) {
			case *ast.FuncLit:
				if y != n {
					visit(y.Body, true)
					return false
				}
			case *ast.DeferStmt:
				if !inLit {
					bad = "defer"
				}
			case *ast.LabeledStmt:
				bad = "label"
			case *ast.BranchStmt:
				if y.Tok == token.GOTO {
					bad = "goto"
				}
			case *ast.ReturnStmt:
				if !inLit {
					returns = append(returns, y)
				}
			case *ast.CallExpr:
				if id, ok := y.Fun.(*ast.Ident); ok && id.Name == "recover" {
					bad = "recover"
				}
			}
			return true
		})
	}
	visit(fd.Body, false)
	if bad != "" {
		return nil, "the helper uses " + bad
	}
	var resTypes []string
	ctf := st.fset.File(fd.Pos())
	ctext := func(n ast.Node) string { return string(calleeSrc[ctf.Offset(n.Pos()):ctf.Offset(n.End())]) }
	if fd.Type.Results != nil {
		for _, f := range fd.Type.Results.List {
			if len(f.Names) > 0 {
				return nil, "named results"
			}
			resTypes = append(resTypes, ctext(f.Type))
		}
	}
	// names the body takes from the package or the universe must mean the same at the call site
	callScope := st.pkg.Scope().Innermost(call.Pos())
	if callScope == nil {
		return nil, "no scope"
	}
	shadow := ""
	ast.Inspect(fd, func(x ast.Node) bool {
		id, ok := x.(*ast.Ident)
		if !ok {
			return true
		}
		obj := st.info.Uses[id]
		if obj == nil {
			return true
		}
		pkgLevel := obj.Parent() == st.pkg.Scope() || obj.Parent() == types.Universe
		_, isPkgName := obj.(*types.PkgName)
		if !pkgLevel && !isPkgName {
			return true
		}
		_, at := callScope.LookupParent(id.Name, call.Pos())
		if at == nil {
			shadow = id.Name
			return true
		}
		if isPkgName {
			pn, ok := at.(*types.PkgName)
			if !ok || pn.Imported() != obj.(*types.PkgName).Imported() {
				shadow = id.Name
			}
		} else if at != obj {
			shadow = id.Name
		}
		return true
	})
	if shadow != "" {
		return nil, "the name " + shadow + " means something else at the call site"
	}
	// the caller statement: the helper call is S's value, or a direct argument of the only other call
	var others []*ast.CallExpr
	badS := false
	ast.Inspect(stmt, func(x ast.Node) bool {
		switch y := x.(type) {
		case *ast.FuncLit:
			badS = true
		case *ast.UnaryExpr:
			if y.Op == token.ARROW {
				badS = true
			}
		case *ast.CallExpr:
			if y == call {
				return true
			}
			if tv, ok := st.info.Types[y.Fun]; ok && (tv.IsType() || tv.IsBuiltin()) {
				return true
			}
			others = append(others, y)
		}
		return true
	})
	if badS || len(others) > 1 {
		return nil, "the statement holds other calls, receives or function literals"
	}
	if len(others) == 1 {
		direct := false
		for _, a := range others[0].Args {
			if a == ast.Expr(call) {
				direct = true
			}
		}
		if !direct || len(resTypes) != 1 {
			return nil, "the call is not a direct argument of the statement's call"
		}
	}
	tf := st.fset.File(stmt.Pos())
	text := func(n ast.Node) string { return string(callerSrc[tf.Offset(n.Pos()):tf.Offset(n.End())]) }
	var pre, bind strings.Builder
	tag := fmt.Sprintf("%d", iter)
	// receiver
	if fd.Recv != nil && len(fd.Recv.List) == 1 {
		sel, ok := call.Fun.(*ast.SelectorExpr)
		if !ok {
			return nil, "method called through something else than a selector"
		}
		if s := st.info.Selections[sel]; s == nil || len(s.Index()) != 1 {
			return nil, "receiver reached through an embedded field"
		}
		rt := st.info.Types[sel.X].Type
		_, recvIsPtr := fd.Recv.List[0].Type.(*ast.StarExpr)
		_, argIsPtr := rt.Underlying().(*types.Pointer)
		rx := text(sel.X)
		if recvIsPtr && !argIsPtr {
			rx = "&" + rx
		} else if !recvIsPtr && argIsPtr {
			rx = "*" + rx
		}
		fmt.Fprintf(&pre, "lncvRecv%s := %s\n", tag, rx)
		if len(fd.Recv.List[0].Names) == 1 && fd.Recv.List[0].Names[0].Name != "_" {
			n := fd.Recv.List[0].Names[0].Name
			fmt.Fprintf(&bind, "var %s %s = lncvRecv%s\n_ = %s\n", n, ctext(fd.Recv.List[0].Type), tag, n)
		}
	}
	ai := 0
	if fd.Type.Params != nil {
		for _, f := range fd.Type.Params.List {
			names := f.Names
			if len(names) == 0 {
				names = []*ast.Ident{ast.NewIdent("_")}
			}
			for _, nm := range names {
				if ai >= len(call.Args) {
					return nil, "argument count"
				}
				a := call.Args[ai]
				src := ""
				if tv := st.info.Types[a]; tv.Value != nil || tv.IsNil() {
					src = text(a)
				} else {
					src = fmt.Sprintf("lncvArg%s_%d", tag, ai)
					fmt.Fprintf(&pre, "%s := %s\n", src, text(a))
				}
				if nm.Name == "_" {
					fmt.Fprintf(&bind, "_ = %s\n", src)
				} else {
					fmt.Fprintf(&bind, "var %s %s = %s\n_ = %s\n", nm.Name, ctext(f.Type), src, nm.Name)
				}
				ai++
			}
		}
	}
	if ai != len(call.Args) {
		return nil, "argument count"
	}
	var resVars []string
	for j, t := range resTypes {
		v := fmt.Sprintf("lncvRes%s_%d", tag, j)
		resVars = append(resVars, v)
		fmt.Fprintf(&pre, "var %s %s\n", v, t)
	}
	label := "lncvL" + tag
	// the body with its returns rewritten
	bodyFrom, bodyTo := ctf.Offset(fd.Body.Lbrace)+1, ctf.Offset(fd.Body.Rbrace)
	body := append([]byte(nil), calleeSrc[bodyFrom:bodyTo]...)
	sort.Slice(returns, func(i, j int) bool { return returns[i].Pos() > returns[j].Pos() })
	for _, r := range returns {
		from, to := ctf.Offset(r.Pos())-bodyFrom, ctf.Offset(r.End())-bodyFrom
		repl := "{ break " + label + " }"
		if len(r.Results) > 0 {
			var rs []string
			for _, e := range r.Results {
				rs = append(rs, ctext(e))
			}
			repl = "{ " + strings.Join(resVars, ", ") + " = " + strings.Join(rs, ", ") + "; break " + label + " }"
		}
		body = append(body[:from], append([]byte(repl), body[to:]...)...)
	}
	// S with the call replaced
	sFrom, sTo := tf.Offset(stmt.Pos()), tf.Offset(stmt.End())
	cFrom, cTo := tf.Offset(call.Pos()), tf.Offset(call.End())
	after := string(callerSrc[sFrom:cFrom]) + strings.Join(resVars, ", ") + string(callerSrc[cTo:sTo])
	if es, ok := stmt.(*ast.ExprStmt); ok && es.X == ast.Expr(call) {
		after = ""
		for _, v := range resVars {
			after += "_ = " + v + "\n"
		}
	}
	oFrom := tf.Offset(outer.Pos())
	if outer != stmt && after == "" {
		return nil, "a call without results as the init statement of an if"
	}
	var out strings.Builder
	out.Write(callerSrc[:oFrom])
	out.WriteString(pre.String())
	out.WriteString(label + ":\nswitch {\ndefault:\n")
	out.WriteString(bind.String())
	out.Write(body)
	out.WriteString("\nbreak " + label + "\n}\n")
	out.Write(callerSrc[oFrom:sFrom])
	out.WriteString(strings.TrimRight(after, "\n"))
	out.Write(callerSrc[sTo:])
	return []byte(out.String()), ""
}

// noReturnDeferRecover: the body of a function literal can run in place of a call of it.
func noReturnDeferRecover(body *ast.BlockStmt) bool {
	ok := true
	ast.Inspect(body, func(m ast.Node) bool {
		switch y := m.(type) {
		case *ast.FuncLit:
			return false
		case *ast.ReturnStmt, *ast.DeferStmt:
			ok = false
		case *ast.CallExpr:
			if id, isID := y.Fun.(*ast.Ident); isID && id.Name == "recover" {
				ok = false
			}
		}
		return true
	})
	return ok
}

func plainLiteral(lit *ast.FuncLit) bool {
	return (lit.Type.Params == nil || len(lit.Type.Params.List) == 0) && (lit.Type.Results == nil || len(lit.Type.Results.List) == 0)
}

// unwrapCalledLiterals: a statement `func() { stmts }()` - a function literal without parameters and
// results, called on the spot, whose body has no return, defer or recover - is the block
// `{ stmts }`; likewise `var f func() = func() { stmts }` (how the inliner binds a literal argument,
// e.g. of `withLock(func() { ... })`) with f used exactly once, as the statement `f()`: the body
// runs where the call is. Only done in files the normalisation already rewrote; every step is
// re-type-checked.
func unwrapCalledLiterals(p *packages.Package, imps mapImporter, src map[string][]byte, note *NormaliseNote) {
	for round := 0; round < 20; round++ {
		st, err := checkPackage(p, imps, src)
		if err != nil {
			return
		}
		done := false
		for i, f := range st.files {
			name := st.names[i]
			if disk, err := os.ReadFile(name); err == nil && bytes.Equal(disk, src[name]) {
				continue
			}
			var target *ast.ExprStmt
			var declStmt *ast.DeclStmt
			var body *ast.BlockStmt
			ast.Inspect(f, func(n ast.Node) bool {
				if target != nil {
					return false
				}
				switch x := n.(type) {
				case *ast.ExprStmt:
					call, ok := x.X.(*ast.CallExpr)
					if !ok || len(call.Args) != 0 {
						return true
					}
					if lit, ok := call.Fun.(*ast.FuncLit); ok && plainLiteral(lit) && noReturnDeferRecover(lit.Body) {
						target, body = x, lit.Body
					}
				case *ast.DeclStmt:
					gd, ok := x.Decl.(*ast.GenDecl)
					if !ok || gd.Tok != token.VAR || len(gd.Specs) != 1 {
						return true
					}
					vs, ok := gd.Specs[0].(*ast.ValueSpec)
					if !ok || len(vs.Names) != 1 || len(vs.Values) != 1 {
						return true
					}
					lit, ok := vs.Values[0].(*ast.FuncLit)
					if !ok || !plainLiteral(lit) || !noReturnDeferRecover(lit.Body) {
						return true
					}
					obj := st.info.Defs[vs.Names[0]]
					if obj == nil {
						return true
					}
					var uses []*ast.Ident
					for id, o := range st.info.Uses {
						if o == obj {
							uses = append(uses, id)
						}
					}
					if len(uses) != 1 {
						return true
					}
					ast.Inspect(f, func(m ast.Node) bool {
						es, ok := m.(*ast.ExprStmt)
						if !ok {
							return true
						}
						if call, ok := es.X.(*ast.CallExpr); ok && len(call.Args) == 0 && call.Fun == ast.Expr(uses[0]) && es.Pos() > x.End() {
							target, declStmt, body = es, x, lit.Body
						}
						return true
					})
				}
				return true
			})
			if target == nil {
				continue
			}
			tf := st.fset.File(target.Pos())
			old := src[name]
			var nb []byte
			if declStmt != nil {
				nb = append([]byte(nil), old[:tf.Offset(declStmt.Pos())]...)
				nb = append(nb, old[tf.Offset(declStmt.End()):tf.Offset(target.Pos())]...)
			} else {
				nb = append([]byte(nil), old[:tf.Offset(target.Pos())]...)
			}
			nb = append(nb, old[tf.Offset(body.Pos()):tf.Offset(body.End())]...)
			nb = append(nb, old[tf.Offset(target.End()):]...)
			src[name] = nb
			if _, err := checkPackage(p, imps, src); err != nil {
				src[name] = old
				return
			}
			note.Inlined = append(note.Inlined, "called function literal unwrapped in "+filepath.Base(name))
			done = true
			break
		}
		if !done {
			return
		}
	}
}
