package main

import (
	"fmt"
	"go/token"
	"go/types"
	"math"
	"strings"

	"golang.org/x/tools/go/ssa"
)

// ---------------------------------------------------------------------------
// C13: keepalive.

func init() {
	register("C13",
		"KA-1: every potentially unbounded wait that the send goroutine can reach (all blocking selects in sendPacketsForever and its gbn callees) has a case on pongTicker.Ticks() that ends the loop with errKeepaliveTimeout, or is bounded by a timer - whatever the loop is doing (idle, sending, full window) pong expiry is observed. KA-2: on every ping-tick leg pong expiry is polled first, pongTicker.Reset+Resume and pingTicker.Reset happen on every path through the leg, the main loop's leg then sends a packet with IsPing set; pongTicker.Resume is called nowhere else; GetPingTime/GetPongTime map 0 (keepalive off) to MaxInt64 and start arms only the ping ticker. KA-3: in the receive loop every path from a successful Deserialize to the next iteration passes pingTicker.Reset and the pongTicker.IsActive test whose true leg pauses the pong ticker (a responding peer is never timed out). KA-6: every state-changing call on the ping, pong and resend timers sits in the function the logic assigns it to (ping: Resume in start, Reset in the two loops, Stop in Close; pong: Reset+Resume in the send loop, Pause in the receive loop, Stop in Close; resend: Reset in the two loops, Stop in Close). KA-5: both mailbox constructors enable gbn.WithKeepalivePing with positive durations, hand the stored options to the gbn constructor, and Refresh carries them over. KA-4: the error returned on pong expiry ends sendPacketsForever, whose wrapper closes the connection unconditionally. TICK-1/2/3 (the ticker the above relies on): Resume/Pause store 1/0 atomically and unconditionally, IsActive is load == 1 and nothing else writes the flag (a reset keeps it); the ticker goroutine forwards a clock tick to Force exactly under IsActive() in a select with the skip and quit alternatives, Ticks() returns Force; a reset stops the old clock, ends and waits for the old goroutine, installs NewTicker(newInterval) and a new quit channel, remembers the interval and starts one new goroutine on every path; Reset passes the stored interval, ResetWithInterval its argument, the constructor's clock and stored interval agree. KA-2 also: in the send goroutine the ping timer is restarted only inside the arming sequence of a ping leg (never by outbound traffic). KA-5 also: WithKeepalivePing is an element of the argument list of the single gbn.WithTimeoutOptions call of each constructor (that option replaces the configured list). KA-2 also: a ping tick arms the pong timer only when it is not already running for an unanswered ping (a running timer is never restarted; fix ccab75b). KA-3 also: pings are consumed by the receive loop and never handed to Recv. KA-5 also: WithKeepalivePing stores ping into pingTime and pong into pongTime unconditionally and unmodified (the closure does not reassign the captured parameters). The obligations of C06 (what the receive loop answers, and when) are imported: a resent ping is answered by a NACK. KA-1 also: a wait that has the pong-expiry case also has a case on the ping tick (the pong timer is armed on a ping tick only). Not decided: the time bound itself; the residual race between Pause and a tick that already passed the IsActive test.",
		[]string{"time.Ticker delivers ticks at its interval"},
		runC13)
}

// caseOn returns the select case whose channel description equals desc.
func caseOn(cases []SelCase, desc string) *SelCase {
	for i := range cases {
		if !cases[i].IsSend && cases[i].Desc == desc {
			return &cases[i]
		}
	}
	return nil
}

// returnsGlobalError: every path from b returns the package-level error variable `name`.
func returnsGlobalError(b *ssa.BasicBlock, name string, depth int) bool {
	if depth > 4 {
		return false
	}
	last := b.Instrs[len(b.Instrs)-1]
	switch t := last.(type) {
	case *ssa.Return:
		if len(t.Results) == 0 {
			return false
		}
		for _, v := range expandValues(t.Results[len(t.Results)-1]) {
			u, ok := v.(*ssa.UnOp)
			if !ok || u.Op != token.MUL {
				return false
			}
			g, ok := u.X.(*ssa.Global)
			if !ok || g.Name() != name {
				return false
			}
		}
		return true
	case *ssa.Jump:
		return returnsGlobalError(b.Succs[0], name, depth+1)
	}
	return false
}

// callsOnField: calls of method `name` whose receiver is load(conn.F) inside fn.
func callsOnField(fn *ssa.Function, f *types.Var, name string) []ssa.CallInstruction {
	return findCalls(fn, func(ci ssa.CallInstruction) bool {
		sc := ci.Common().StaticCallee()
		return sc != nil && sc.Name() == name && sc.Signature.Recv() != nil && len(ci.Common().Args) >= 1 && fieldOfValue(ci.Common().Args[0]) == f
	})
}

func runC13(c *Checker) {
	ruleKA(c)
	ruleTICK(c)
	// a keepalive that is never evaluated detects nothing: the send and receive goroutines must
	// not be able to deadlock each other (C18 LOCKORD/RACE/CLOSE, imported)
	importLayers(c, "C18")
	// a ping is answered through the ordinary ACK/NACK machinery (a resent ping arrives out of
	// sequence and its answer is a NACK): the obligations of C06 about what the receive loop
	// answers and when are part of "a live peer that answers is never closed"
	importLayers(c, "C06")
	// "a connection whose peer answers is never closed by keepalive, however long it stays idle":
	// the receive loop keeps consuming (and ACKing) the peer's pings only if it never has to hand
	// them to an application that may not be in Recv
	rulePingNotDelivered(c, "KA-3")
}

// ruleKA: the keepalive wiring (shared by C13 and C06).
func ruleKA(c *Checker) {
	w := c.w
	sl := w.Func("(*gbn.GoBackNConn).sendPacketsForever")
	rl := w.Func("(*gbn.GoBackNConn).receivePacketsForever")
	start := w.Func("(*gbn.GoBackNConn).start")
	fPing := w.Field("gbn.GoBackNConn.pingTicker")
	fPong := w.Field("gbn.GoBackNConn.pongTicker")
	fIsPing := w.Field("gbn.PacketData.IsPing")
	gclose := w.Func("(*gbn.GoBackNConn).Close")
	if sl == nil || rl == nil || start == nil || fPing == nil || fPong == nil || fIsPing == nil || gclose == nil {
		c.anchorFail("sendPacketsForever/receivePacketsForever/start/pingTicker/pongTicker/PacketData.IsPing")
		return
	}
	const pingDesc, pongDesc = "pingTicker.Ticks()", "pongTicker.Ticks()"

	// ---- KA-1 ----
	reach := w.ReachableSameGoroutine(sl)
	nWaits := 0
	var pingLegs []struct {
		sel  *ssa.Select
		body *ssa.BasicBlock
		fn   *ssa.Function
	}
	for fn := range reach {
		if w.pkgShort(fn) != targetGBN {
			continue
		}
		for _, bp := range w.blockingPoints(fn) {
			if bp.Kind != "select" {
				continue
			}
			nWaits++
			var descs []string
			for _, sc := range bp.Cases {
				descs = append(descs, map[bool]string{true: "send:", false: ""}[sc.IsSend]+sc.Desc)
			}
			key := fmt.Sprintf("%s|select{%s}", fnName(fn), strings.Join(descs, ","))
			pong := caseOn(bp.Cases, pongDesc)
			bounded := caseOn(bp.Cases, "time.After()") != nil
			switch {
			case pong != nil && pong.Body != nil && returnsGlobalError(pong.Body, "errKeepaliveTimeout", 0):
				c.ok("KA-1", key, instrPos(bp.Instr), "has a pong-expiry case that returns errKeepaliveTimeout")
				// the pong timer is armed on a ping tick and nowhere else: a wait that watches the expiry
				// must also take the ping tick (KA-2 then checks that the leg arms the timer), otherwise a
				// peer that goes silent while the loop sits here with no ping outstanding is never detected
				c.decide(caseOn(bp.Cases, pingDesc) != nil, "KA-1", key+"|also takes the ping tick", instrPos(bp.Instr),
					"the wait has a case on pingTicker.Ticks() as well",
					"the wait watches pong expiry but has no case on the ping tick: the pong timer is only ever armed on a ping tick, so while the loop waits here (e.g. on a full window) a peer that goes silent with no ping outstanding is never detected")
			case pong != nil:
				c.fail("KA-1", key, instrPos(bp.Instr), "the pong-expiry case does not end the loop with errKeepaliveTimeout")
			case bounded:
				c.ok("KA-1", key, instrPos(bp.Instr), "bounded by a timer (time.After)")
			default:
				c.fail("KA-1", key, instrPos(bp.Instr), "an unbounded wait of the send goroutine without a pong-expiry case: a peer that goes silent while the loop waits here is never detected")
			}
			if pc := caseOn(bp.Cases, pingDesc); pc != nil && pc.Body != nil {
				pingLegs = append(pingLegs, struct {
					sel  *ssa.Select
					body *ssa.BasicBlock
					fn   *ssa.Function
				}{bp.Instr.(*ssa.Select), pc.Body, fn})
			}
		}
	}
	c.floor("KA-1", 3)

	// ---- KA-2 ----
	if len(pingLegs) == 0 {
		c.fail("KA-2", "ping-leg", sl.Pos(), "no select of the send goroutine consumes the ping tick: pings are never sent and the pong timer is never armed")
	}
	resumeAllowed := map[ssa.CallInstruction]bool{}
	var legRegions []func(*ssa.BasicBlock) bool
	for i, leg := range pingLegs {
		name := fmt.Sprintf("%s|ping-leg-%d", fnName(leg.fn), i+1)
		inLeg := func(b *ssa.BasicBlock) bool { return b == leg.body || leg.body.Dominates(b) }
		first := leg.body.Instrs[0]
		legFn := leg.fn
		leavesFn := func(avoid func(ssa.Instruction) bool) bool {
			if avoid(first) {
				return false
			}
			return pathToBlocks(first, func(b *ssa.BasicBlock) bool { return !inLeg(b) }, avoid) != nil
		}
		// the leg may delegate to a helper method: then the helper's body is the region to judge
		direct := false
		for _, ci := range callsOnField(leg.fn, fPong, "Resume") {
			if inLeg(ci.Block()) {
				direct = true
			}
		}
		if !direct {
			var helperCall ssa.CallInstruction
			var helper *ssa.Function
			for _, ci := range findCalls(leg.fn, func(ci ssa.CallInstruction) bool { return inLeg(ci.Block()) }) {
				for _, cal := range w.Callees(ci) {
					if w.pkgShort(cal) == targetGBN && len(callsOnField(cal, fPong, "Resume")) > 0 {
						helperCall, helper = ci, cal
					}
				}
			}
			if helper != nil {
				// the helper is called on every path through the leg and its error is propagated
				callAvoid := func(in ssa.Instruction) bool { return in == ssa.Instruction(helperCall) }
				okCall := !leavesFn(callAvoid)
				if hc, ok := helperCall.(*ssa.Call); ok && helper.Signature.Results().Len() > 0 {
					e, _ := errCheckedAndReturned(hc, helper.Signature.Results().Len()-1)
					okCall = okCall && e
				}
				c.decide(okCall, "KA-2", name+"|delegates to "+fnName(helper), instrPos(helperCall), "the leg always calls the helper and returns its error",
					"the ping leg does not always run its keepalive helper (or drops its error)")
				legFn = helper
				first = helper.Blocks[0].Instrs[0]
				inLeg = func(b *ssa.BasicBlock) bool { return b.Parent() == helper }
				leavesFn = func(avoid func(ssa.Instruction) bool) bool {
					if avoid(first) {
						return false
					}
					return pathToReturn(first, func(r *ssa.Return) bool {
						if len(r.Results) == 0 {
							return true
						}
						for _, v := range expandValues(r.Results[len(r.Results)-1]) {
							if isNilConst(v) {
								return true
							}
						}
						return false
					}, avoid) != nil
				}
				// the helper must only serve ping legs
				for _, s := range w.CG().callers[helper] {
					isLeg := false
					for _, l2 := range pingLegs {
						if s.Caller == l2.fn && (s.Instr.Block() == l2.body || l2.body.Dominates(s.Instr.Block())) {
							isLeg = true
						}
					}
					if !isLeg {
						c.fail("KA-2", "pongTicker.Resume|helper "+fnName(helper)+" called from "+fnName(s.Caller), instrPos(s.Instr), "the keepalive helper that arms the pong timer is called outside a ping leg")
					}
				}
			}
		}
		legRegions = append(legRegions, inLeg)
		var resets, resumes, pingResets []ssa.CallInstruction
		for _, ci := range callsOnField(legFn, fPong, "Reset") {
			if inLeg(ci.Block()) {
				resets = append(resets, ci)
			}
		}
		for _, ci := range callsOnField(legFn, fPong, "Resume") {
			if inLeg(ci.Block()) {
				resumes = append(resumes, ci)
				resumeAllowed[ci] = true
			}
		}
		for _, ci := range callsOnField(legFn, fPing, "Reset") {
			if inLeg(ci.Block()) {
				pingResets = append(pingResets, ci)
			}
		}
		isOneOf := func(cs []ssa.CallInstruction) func(ssa.Instruction) bool {
			return func(in ssa.Instruction) bool {
				for _, x := range cs {
					if in == ssa.Instruction(x) {
						return true
					}
				}
				return false
			}
		}
		leaves := leavesFn
		// the arming may be skipped on exactly one condition: the pong timer is still running for an
		// earlier, unanswered ping (`if !pongTicker.IsActive() { Reset; Resume }`). The test block is a
		// cut point of the path search; from its "not active" successor the arming is unconditional.
		var activeTests []*ssa.If
		allInstrs(legFn, func(in ssa.Instruction) {
			iff, ok := in.(*ssa.If)
			if !ok || !inLeg(iff.Block()) {
				return
			}
			f := normFact(Fact{iff.Cond, true})
			if call, ok := f.Cond.(*ssa.Call); ok {
				for _, ia := range callsOnField(legFn, fPong, "IsActive") {
					if ssa.Instruction(call) == ssa.Instruction(ia) {
						activeTests = append(activeTests, iff)
					}
				}
			}
		})
		notActiveSucc := func(iff *ssa.If) *ssa.BasicBlock {
			f := normFact(Fact{iff.Cond, true})
			if f.Val {
				return iff.Block().Succs[1] // cond true means active: the else edge is "not active"
			}
			return iff.Block().Succs[0]
		}
		armedEverywhere := func(cs []ssa.CallInstruction) bool {
			if len(cs) == 0 {
				return false
			}
			cut := func(in ssa.Instruction) bool {
				if isOneOf(cs)(in) {
					return true
				}
				for _, t := range activeTests {
					if in == ssa.Instruction(t) {
						return true
					}
				}
				return false
			}
			if leaves(cut) {
				return false
			}
			for _, t := range activeTests {
				nb := notActiveSucc(t)
				if len(nb.Instrs) == 0 || !inLeg(nb) {
					return false
				}
				if isOneOf(cs)(nb.Instrs[0]) {
					continue
				}
				if pathToBlocks(nb.Instrs[0], func(b *ssa.BasicBlock) bool { return !inLeg(b) }, isOneOf(cs)) != nil {
					return false
				}
			}
			return true
		}
		c.decide(armedEverywhere(resumes), "KA-2", name+"|pong armed (Resume)", instrPos(first),
			"pongTicker.Resume() on every path through the leg (unless the timer is already running)", "a ping tick can be consumed without arming the pong timer: a dead peer is never timed out")
		c.decide(armedEverywhere(resets), "KA-2", name+"|pong restarted (Reset)", instrPos(first),
			"pongTicker.Reset() on every path through the leg (unless the timer is already running)", "the pong timer is armed without being restarted: it may fire immediately or late")
		// ... and a pong timer that is still running is left alone: it runs for a ping the peer has not
		// answered (any packet from the peer pauses it), and restarting it on the next ping tick pushes
		// its expiry out again - with a ping interval shorter than the pong timeout for ever, so that
		// a dead peer is never detected
		for _, rs := range resets {
			notActive := hasFact(rs.Block(), func(f Fact) bool {
				call, ok := f.Cond.(*ssa.Call)
				if !ok || f.Val {
					return false
				}
				for _, ia := range callsOnField(legFn, fPong, "IsActive") {
					if ssa.Instruction(call) == ssa.Instruction(ia) {
						return true
					}
				}
				return false
			})
			c.decide(notActive, "KA-2", name+"|a running pong timer is not restarted", instrPos(rs), "pongTicker.Reset() only under !pongTicker.IsActive()",
				"a ping tick restarts the pong timer although it may still be running for an unanswered ping: with a ping interval below the pong timeout the expiry is pushed out on every tick and a silent peer is never detected")
		}
		c.decide(len(pingResets) > 0 && !leaves(isOneOf(pingResets)), "KA-2", name+"|ping restarted", instrPos(first),
			"pingTicker.Reset() on every path through the leg", "the ping timer is not restarted after a ping tick")
		// Reset before Resume
		okOrder := len(resets) > 0 && len(resumes) > 0
		for _, r := range resumes {
			dom := false
			for _, x := range resets {
				if instrDominates(x, r) {
					dom = true
				}
			}
			okOrder = okOrder && dom
		}
		c.decide(okOrder, "KA-2", name+"|Reset before Resume", instrPos(first), "the pong ticker is restarted before it is activated", "the pong ticker is activated before it is restarted: a stale tick can time out a live peer")
		// pong polled first
		polled := false
		allInstrs(legFn, func(in ssa.Instruction) {
			sel, ok := in.(*ssa.Select)
			if !ok || sel.Blocking || !inLeg(sel.Block()) {
				return
			}
			cases, _ := w.selectCases(sel)
			if pc := caseOn(cases, pongDesc); pc != nil && pc.Body != nil && returnsGlobalError(pc.Body, "errKeepaliveTimeout", 0) {
				okDom := true
				for _, r := range resumes {
					if !instrDominates(sel, r) {
						okDom = false
					}
				}
				polled = okDom
			}
		})
		c.decide(polled, "KA-2", name+"|pong expiry polled first", instrPos(first), "a non-blocking poll of pongTicker.Ticks() returning errKeepaliveTimeout dominates the re-arming",
			"the ping leg re-arms the pong timer without first checking whether it already expired: an expired pong can be lost when both tickers fired")
	}
	// main loop: the ping leg sends a ping packet
	sentPing := false
	allInstrs(sl, func(in ssa.Instruction) {
		st, ok := in.(*ssa.Store)
		if !ok {
			return
		}
		fa, ok := st.Addr.(*ssa.FieldAddr)
		if !ok || structFieldOf(fa) != fIsPing || !isBoolConstVal(st.Val, true) {
			return
		}
		for _, leg := range pingLegs {
			if leg.fn == sl && (leg.body == st.Block() || leg.body.Dominates(st.Block())) {
				// the packet flows into addPacket
				for _, ec := range w.effectiveCalls(sl, func(ci ssa.CallInstruction) bool {
					sc := ci.Common().StaticCallee()
					return sc != nil && sc.Name() == "addPacket"
				}) {
					if len(ec.Args) < 2 || ec.Args[1] == nil {
						continue
					}
					for _, v := range expandValues(ec.Args[1]) {
						if v == fa.X {
							sentPing = true
						}
					}
				}
			}
		}
	})
	c.decide(sentPing, "KA-2", "main-loop|ping packet queued", sl.Pos(), "the main loop's ping leg queues a PacketData with IsPing set", "no ping packet is queued on a ping tick: an idle peer has nothing to answer")
	// Resume nowhere else
	for _, fn := range w.Funcs {
		if w.pkgShort(fn) != targetGBN {
			continue
		}
		for _, ci := range callsOnField(fn, fPong, "Resume") {
			c.decide(resumeAllowed[ci], "KA-2", "pongTicker.Resume|"+fnName(fn), instrPos(ci), "on a ping leg", "the pong timer is armed outside a ping leg: it can expire although no ping is outstanding (keepalive off must never close)")
		}
	}
	// ... and a running pong timer is restarted nowhere else either: a Reset outside the arming
	// sequence (Reset immediately followed by Resume on a ping leg) postpones the expiry, so a silent
	// peer is detected late or never
	for _, fn := range w.Funcs {
		if w.pkgShort(fn) != targetGBN {
			continue
		}
		for _, m := range []string{"Reset", "ResetWithInterval"} {
			for _, ci := range callsOnField(fn, fPong, m) {
				okk := false
				for r := range resumeAllowed {
					// Reset ... Resume without another wait in between
					if resumeAllowed[r] && r.Parent() == fn && instrDominates(ci, r) {
						straight := true
						for _, b2 := range fn.Blocks {
							for _, in := range b2.Instrs {
								if sel, isSel := in.(*ssa.Select); isSel && sel.Blocking && instrDominates(ci, sel) && instrDominates(sel, r) {
									straight = false
								}
							}
						}
						if straight {
							okk = true
						}
					}
				}
				c.decide(okk, "KA-2", "pongTicker."+m+"|"+fnName(fn), instrPos(ci), "part of the arming sequence of a ping leg (followed by Resume)",
					"the pong timer is restarted outside the arming sequence of a ping leg: its expiry is pushed out (e.g. on every resend tick), so a silent peer is detected late or never")
			}
		}
	}
	// The ping timer measures how long the *peer* has been silent: it is restarted by inbound traffic
	// (receive loop, KA-3) and by its own firing (the arming sequence of a ping leg) - never by what
	// this side sends. A Reset in the send goroutine outside a ping leg (after every data packet,
	// say) means that an application that keeps sending never pings and never notices a dead peer
	// until its window is full.
	for _, fn := range w.Funcs {
		if w.pkgShort(fn) != targetGBN || fn == rl || (rl != nil && fn.Parent() == rl) {
			continue
		}
		top := fn
		for top.Parent() != nil {
			top = top.Parent()
		}
		if top == rl || top == start || top == gclose {
			continue
		}
		for _, m := range []string{"Reset", "ResetWithInterval"} {
			for _, ci := range callsOnField(fn, fPing, m) {
				okk := false
				for _, in := range legRegions {
					if in(ci.Block()) {
						okk = true
					}
				}
				c.decide(okk, "KA-2", "pingTicker."+m+"|"+fnName(fn), instrPos(ci), "inside a ping leg (the ping timer restarts itself after its own tick)",
					"the ping timer is restarted by the sending side outside a ping leg: outbound traffic postpones the ping, so a silent peer is not probed (and not detected) while the application keeps sending")
			}
		}
	}
	// KA-6: who may operate the three timers. Every call of a state-changing timer method on the
	// connection's ping, pong and resend timers sits in one of the functions (or a closure/helper
	// called only from them) that the keepalive and resend logic assigns it to:
	//   ping:   Resume in start; Reset in the send loop (ping legs) and the receive loop; Stop in Close
	//   pong:   Reset+Resume in the send loop (ping legs); Pause in the receive loop; Stop in Close
	//   resend: Reset in the send loop (after a resend) and the receive loop (valid ACK); Stop in Close
	// Anything else (a Pause of the ping timer, a Stop outside Close, a Reset from Send/Recv ...)
	// silently disables or postpones a timer.
	{
		fResend := w.Field("gbn.GoBackNConn.resendTicker")
		owner := func(fn *ssa.Function) *ssa.Function {
			// the top-level function a closure belongs to; a helper method called only from one
			// top-level function counts as that function
			for fn.Parent() != nil {
				fn = fn.Parent()
			}
			if fn == sl || fn == rl || fn == start || fn == gclose {
				return fn
			}
			if sites, closed := w.CallersOf(fn); closed && len(sites) > 0 {
				var only *ssa.Function
				for _, sx := range sites {
					o := sx.Caller
					for o.Parent() != nil {
						o = o.Parent()
					}
					if only != nil && only != o {
						return fn
					}
					only = o
				}
				if only != nil && only != fn && (only == sl || only == rl || only == start || only == gclose) {
					return only
				}
			}
			return fn
		}
		allowed := map[*types.Var]map[string][]*ssa.Function{
			fPing:   {"Resume": {start}, "Reset": {sl, rl}, "ResetWithInterval": {}, "Pause": {}, "Stop": {gclose}, "ForceTick": {}},
			fPong:   {"Resume": {sl}, "Reset": {sl}, "ResetWithInterval": {}, "Pause": {rl}, "Stop": {gclose}, "ForceTick": {}},
			fResend: {"Reset": {sl, rl}, "Stop": {gclose}},
		}
		n6 := 0
		for _, fn := range w.Funcs {
			if w.pkgShort(fn) != targetGBN {
				continue
			}
			for f, ms := range allowed {
				if f == nil {
					continue
				}
				for m, fns := range ms {
					for _, ci := range callsOnField(fn, f, m) {
						n6++
						o := owner(fn)
						okk := false
						for _, a := range fns {
							if a == o {
								okk = true
							}
						}
						c.decide(okk, "KA-6", fmt.Sprintf("%s.%s|in %s", f.Name(), m, fnName(o)), instrPos(ci), "an operation the timer's owner performs",
							fmt.Sprintf("%s.%s is called from %s, which is not where this timer is meant to be operated: the keepalive or resend timer can be disabled, postponed or stopped behind the back of the loops", f.Name(), m, fnName(o)))
					}
				}
			}
		}
		if n6 < 10 {
			c.fail("KA-6", "sites", token.NoPos, fmt.Sprintf("only %d timer operations found", n6))
		}
	}
	// each timer is created with its own period: ping with GetPingTime, pong with GetPongTime, the
	// resend ticker with GetResendTimeout
	{
		fResendT := w.Field("gbn.GoBackNConn.resendTicker")
		for _, pr := range []struct {
			f      *types.Var
			getter string
		}{{fPing, "GetPingTime"}, {fPong, "GetPongTime"}, {fResendT, "GetResendTimeout"}} {
			if pr.f == nil {
				continue
			}
			okk, n := true, 0
			for _, st := range w.Stores(pr.f) {
				if st.Parent() != start {
					continue
				}
				n++
				ctorCall, ok := unwrapLoadAlloc(st.Val).(*ssa.Call)
				if !ok || len(ctorCall.Common().Args) == 0 {
					okk = false
					continue
				}
				arg, ok := unwrapLoadAlloc(ctorCall.Common().Args[0]).(*ssa.Call)
				if !ok || arg.Common().StaticCallee() == nil || arg.Common().StaticCallee().Name() != pr.getter {
					okk = false
				}
			}
			c.decide(okk && n == 1, "KA-2", "start|"+pr.f.Name()+" created with "+pr.getter, start.Pos(), "the timer's period is "+pr.getter+"()",
				pr.f.Name()+" is not created with the period "+pr.getter+"(): the keepalive (or resend) runs on the wrong clock")
		}
	}
	// start arms ping only
	c.decide(len(callsOnField(start, fPing, "Resume")) == 1 && len(callsOnField(start, fPong, "Resume")) == 0, "KA-2", "start|ping armed, pong not", start.Pos(),
		"start resumes the ping ticker only", "start does not arm exactly the ping ticker")
	for _, pr := range [][2]string{{"GetPingTime", "pingTime"}, {"GetPongTime", "pongTime"}} {
		fn := w.Func("(*gbn.TimeoutManager)." + pr[0])
		fld := w.Field("gbn.TimeoutManager." + pr[1])
		if fn == nil || fld == nil {
			c.anchorFail("TimeoutManager." + pr[0])
			continue
		}
		okOff := false
		allInstrs(fn, func(in ssa.Instruction) {
			ret, ok := in.(*ssa.Return)
			if !ok || ret.Block().Comment == "recover" {
				return
			}
			zero := hasFact(ret.Block(), func(f Fact) bool {
				bo, ok := f.Cond.(*ssa.BinOp)
				if !ok || !f.Val || bo.Op != token.EQL || !isLoadOfField(bo.X, fld) {
					return false
				}
				k, ok := intConst(bo.Y)
				return ok && k == 0
			})
			if !zero {
				return
			}
			for _, v := range expandValues(ret.Results[0]) {
				if k, ok := intConst(v); ok && k == math.MaxInt64 {
					okOff = true
				}
			}
			// named result spilled: look at the store in this block
			for _, i2 := range ret.Block().Instrs {
				if st, ok := i2.(*ssa.Store); ok {
					if k, ok := intConst(st.Val); ok && k == math.MaxInt64 {
						okOff = true
					}
				}
			}
		})
		c.decide(okOff, "KA-2", pr[0]+"|0 means off", fn.Pos(), "a zero "+pr[1]+" is mapped to MaxInt64 (never ticks)", "a zero "+pr[1]+" is not mapped to 'never': keepalive off would tick")
	}
	c.floor("KA-2", 10)

	// ---- KA-3 ----
	var deser *ssa.Call
	for _, ci := range findCalls(rl, func(ci ssa.CallInstruction) bool {
		sc := ci.Common().StaticCallee()
		return sc != nil && sc.Name() == "Deserialize" && w.pkgShort(sc) == targetGBN
	}) {
		deser, _ = ci.(*ssa.Call)
	}
	if deser == nil {
		c.fail("KA-3", "receiveLoop|Deserialize", rl.Pos(), "no Deserialize call in the receive loop")
	} else {
		// the success edge: block where err == nil is known
		var succ *ssa.BasicBlock
		for _, b := range rl.Blocks {
			if hasFact(b, func(f Fact) bool {
				bo, ok := f.Cond.(*ssa.BinOp)
				if !ok || !isNilConst(bo.Y) {
					return false
				}
				ex, ok := bo.X.(*ssa.Extract)
				if !ok || ex.Tuple != ssa.Value(deser) || ex.Index != 1 {
					return false
				}
				return (bo.Op == token.NEQ && !f.Val) || (bo.Op == token.EQL && f.Val)
			}) && (succ == nil || b.Dominates(succ)) {
				succ = b
			}
		}
		// loop head: the block containing the callback recvFromStream call's loop entry: use the block of the first select on quit
		var head *ssa.BasicBlock
		for _, b := range rl.Blocks {
			if len(b.Preds) >= 2 && b.Dominates(deser.Block()) && (head == nil || head.Dominates(b)) {
				head = b
			}
		}
		if succ == nil || head == nil {
			c.fail("KA-3", "receiveLoop|shape", rl.Pos(), "cannot locate the success edge of Deserialize / the loop head")
		} else {
			pingResets := callsOnField(rl, fPing, "Reset")
			isActive := callsOnField(rl, fPong, "IsActive")
			pauses := callsOnField(rl, fPong, "Pause")
			passes := func(cs []ssa.CallInstruction) bool {
				if len(cs) == 0 {
					return false
				}
				avoid := func(in ssa.Instruction) bool {
					for _, x := range cs {
						if in == ssa.Instruction(x) {
							return true
						}
					}
					return false
				}
				if len(succ.Instrs) > 0 && avoid(succ.Instrs[0]) {
					return true
				}
				toHead := pathToBlocks(succ.Instrs[0], func(b *ssa.BasicBlock) bool { return b == head }, avoid) != nil
				toRet := pathToReturn(succ.Instrs[0], func(*ssa.Return) bool { return true }, avoid) != nil
				return !toHead && !toRet
			}
			c.decide(passes(pingResets), "KA-3", "receiveLoop|every packet restarts the ping timer", instrPos(deser),
				"every path from a successful Deserialize to the next iteration or a return passes pingTicker.Reset()",
				"some packet types do not restart the ping timer: pings are sent although the peer is talking, or not restarted at all")
			c.decide(passes(isActive), "KA-3", "receiveLoop|every packet checks the pong timer", instrPos(deser),
				"every path from a successful Deserialize passes the pongTicker.IsActive() test",
				"some packets do not disarm the pong timer: a responding peer can be timed out")
			okPause := len(pauses) > 0
			for _, p := range pauses {
				okPause = okPause && hasFact(p.Block(), func(f Fact) bool {
					call, ok := f.Cond.(*ssa.Call)
					if !ok || !f.Val {
						return false
					}
					for _, ia := range isActive {
						if ssa.Instruction(call) == ssa.Instruction(ia) {
							return true
						}
					}
					return false
				})
			}
			c.decide(okPause, "KA-3", "receiveLoop|active pong timer is paused", instrPos(deser), "Pause() on the IsActive leg", "an active pong timer is not paused when a packet arrives")
		}
	}
	c.floor("KA-3", 3)

	// ---- KA-4 ----
	var wrapper *ssa.Function
	sites, _ := w.CallersOf(sl)
	for _, s := range sites {
		wrapper = s.Caller
	}
	okWrap := false
	if wrapper != nil {
		fWG := w.Field("gbn.GoBackNConn.wg")
		_, _, closeUncond := deferredDone(w, wrapper, fWG, gclose)
		okWrap = closeUncond
	}
	// the wrapper runs the loop once: when it returns (keepalive timeout, transport error) the wrapper
	// itself returns, which is what runs the deferred Close - a wrapper that calls the loop again
	// swallows the keepalive timeout
	if wrapper != nil && len(sites) == 1 {
		once := !pathExists(sites[0].Instr, sites[0].Instr, nil)
		c.decide(once, "KA-4", "send-loop wrapper runs the loop once", instrPos(sites[0].Instr), "the call of sendPacketsForever is not inside a cycle of the wrapper",
			"the wrapper calls sendPacketsForever again after it returned: a keepalive timeout (or any error) never reaches the deferred Close")
	}
	c.decide(okWrap && len(sites) == 1, "KA-4", "send-loop wrapper closes the connection", sl.Pos(), "sendPacketsForever runs in a wrapper whose deferred function calls Close() unconditionally",
		"the keepalive timeout ends the send loop but nothing closes the connection")
	c.floor("KA-4", 2)
	_ = nWaits

	// ---- KA-5: the mailbox enables keepalive on both ends and keeps it across refreshes ----
	withKA := w.Func("gbn.WithKeepalivePing")
	fOpts := map[string]*types.Var{"ClientConn": w.Field("mailbox.ClientConn.gbnOptions"), "ServerConn": w.Field("mailbox.ServerConn.gbnOptions")}
	if withKA == nil || fOpts["ClientConn"] == nil || fOpts["ServerConn"] == nil {
		c.anchorFail("gbn.WithKeepalivePing / mailbox gbnOptions")
		return
	}
	for _, side := range []struct{ ctor, refresh, typ, gbnCtor string }{
		{"NewClientConn", "RefreshClientConn", "ClientConn", "NewClientConn"},
		{"NewServerConn", "RefreshServerConn", "ServerConn", "NewServerConn"},
	} {
		fn := w.Func("mailbox." + side.ctor)
		rf := w.Func("mailbox." + side.refresh)
		if fn == nil || rf == nil {
			c.anchorFail("mailbox." + side.ctor)
			continue
		}
		rg := newRanger(w)
		okk, detail := false, "WithKeepalivePing is not among the gbn options"
		for _, ci := range findCalls(fn, func(ci ssa.CallInstruction) bool { return ci.Common().StaticCallee() == withKA }) {
			ping := rg.At(ci.Common().Args[0], ci.Block())
			pong := rg.At(ci.Common().Args[1], ci.Block())
			if !ping.empty && ping.lo > 0 && !pong.empty && pong.lo > 0 {
				okk = true
				detail = fmt.Sprintf("ping %s, pong %s", ping, pong)
			} else {
				detail = fmt.Sprintf("ping %s / pong %s may be zero (keepalive off)", ping, pong)
			}
		}
		c.decide(okk, "KA-5", "mailbox."+side.ctor+"|keepalive enabled", fn.Pos(), "gbn.WithKeepalivePing with positive durations: "+detail,
			"the mailbox connection does not enable the gbn keepalive: a peer that vanishes is never detected ("+detail+")")
		// ... and it takes effect: the keepalive option is an element of the argument list of a
		// gbn.WithTimeoutOptions call, and - because WithTimeoutOptions *replaces* the configured list -
		// that call is the only one among the constructor's options
		if wto := w.Func("gbn.WithTimeoutOptions"); wto == nil {
			c.anchorFail("gbn.WithTimeoutOptions")
		} else {
			replaces := true
			if fTO := w.Field("gbn.config.timeoutOptions"); fTO != nil {
				for _, st := range w.Stores(fTO) {
					if top := st.Parent(); top.Parent() == wto || top == wto {
						if call, ok := st.Val.(*ssa.Call); ok && isBuiltinCall(call, "append") {
							replaces = false
						}
					}
				}
			}
			wtos := findCalls(fn, func(ci ssa.CallInstruction) bool { return ci.Common().StaticCallee() == wto })
			inList := false
			for _, ka := range findCalls(fn, func(ci ssa.CallInstruction) bool { return ci.Common().StaticCallee() == withKA }) {
				kv, _ := ka.(ssa.Value)
				if kv == nil {
					continue
				}
				for _, ref := range *kv.Referrers() {
					st, ok := ref.(*ssa.Store)
					if !ok {
						continue
					}
					ia, ok := st.Addr.(*ssa.IndexAddr)
					if !ok {
						continue
					}
					for _, tc := range wtos {
						if sl, ok := tc.Common().Args[0].(*ssa.Slice); ok && sl.X == ia.X {
							inList = true
						}
					}
				}
			}
			okOne := inList && (!replaces || len(wtos) == 1)
			c.decide(okOne, "KA-5", "mailbox."+side.ctor+"|keepalive option takes effect", fn.Pos(), "WithKeepalivePing is an argument of the single WithTimeoutOptions call",
				fmt.Sprintf("the keepalive option does not reach the timeout manager (argument of a WithTimeoutOptions call: %v; WithTimeoutOptions calls: %d, each replacing the previous list): the connection runs without keepalive", inList, len(wtos)))
		}
		// the options stored in the conn are the ones handed to the gbn constructor, in the constructor and in Refresh
		for _, f2 := range []*ssa.Function{fn, rf} {
			okOpt := false
			for _, ci := range findCalls(f2, func(ci ssa.CallInstruction) bool {
				sc := ci.Common().StaticCallee()
				return sc != nil && sc.Name() == side.gbnCtor && w.pkgShort(sc) == targetGBN
			}) {
				args := ci.Common().Args
				if len(args) > 0 && isLoadOfField(args[len(args)-1], fOpts[side.typ]) {
					okOpt = true
				}
			}
			c.decide(okOpt, "KA-5", "mailbox."+f2.Name()+"|gbn options passed on", f2.Pos(), "the gbn connection is created with the stored gbnOptions", "the gbn connection is created without the stored options (keepalive, timeouts)")
		}
		// Refresh copies the options
		okCopy := false
		for _, st := range w.Stores(fOpts[side.typ]) {
			if st.Parent() == rf && isLoadOfField(st.Val, fOpts[side.typ]) {
				okCopy = true
			}
		}
		c.decide(okCopy, "KA-5", "mailbox."+side.refresh+"|options carried over", rf.Pos(), "gbnOptions are copied from the previous connection", "a refreshed connection loses the gbn options (keepalive off after the first reconnect)")
	}
	// the option stores what it is given: WithKeepalivePing(ping, pong) puts ping into pingTime and
	// pong into pongTime, unconditionally and unmodified - "for all ping/pong settings" includes a
	// pong timeout longer than the ping interval, which the send loop supports on purpose (fix ccab75b)
	if opt := w.Func("gbn.WithKeepalivePing"); opt == nil || len(opt.AnonFuncs) != 1 {
		c.anchorFail("gbn.WithKeepalivePing (one closure)")
	} else {
		cl := opt.AnonFuncs[0]
		for i, fname := range []string{"pingTime", "pongTime"} {
			fld := w.Field("gbn.TimeoutManager." + fname)
			okk, why, n := false, "no store", 0
			allInstrs(cl, func(in ssa.Instruction) {
				st, isSt := in.(*ssa.Store)
				if !isSt {
					return
				}
				fa, isFA := st.Addr.(*ssa.FieldAddr)
				if !isFA || fld == nil || structFieldOf(fa) != fld {
					return
				}
				n++
				if len(factsAt(st.Block())) != 0 {
					why = "the store is conditional"
					return
				}
				v := st.Val
				if u, isU := v.(*ssa.UnOp); isU && u.Op == token.MUL {
					if fv, isFV := u.X.(*ssa.FreeVar); isFV {
						for _, r := range *fv.Referrers() {
							if st2, isSt2 := r.(*ssa.Store); isSt2 && st2.Addr == ssa.Value(fv) {
								why = "the closure reassigns the captured " + fv.Name() + " before storing it"
								return
							}
						}
						b, stored := freeVarBinding(fv)
						if p, isP := stored.(*ssa.Parameter); isP && i < len(opt.Params) && p == opt.Params[i] {
							okk = true
							return
						}
						if p, isP := b.(*ssa.Parameter); isP && i < len(opt.Params) && p == opt.Params[i] {
							okk = true
							return
						}
					}
				}
				if fv, isFV := v.(*ssa.FreeVar); isFV {
					if b, _ := freeVarBinding(fv); b != nil {
						if p, isP := b.(*ssa.Parameter); isP && i < len(opt.Params) && p == opt.Params[i] {
							okk = true
							return
						}
					}
				}
				why = "the stored value is " + w.canonFB(v) + ", not the option's argument as given"
			})
			c.decide(okk && n == 1, "KA-5", "WithKeepalivePing|"+fname+" is the argument as given", cl.Pos(), fname+" = the option's parameter, unconditionally",
				"WithKeepalivePing does not store its "+fname[:4]+" argument as given ("+why+fmt.Sprintf("; %d stores", n)+"): a configured keepalive setting is silently changed")
		}
	}
	c.floor("KA-5", 12)
}
