package main

import (
	"bufio"
	"encoding/json"
	"fmt"
	"go/token"
	"os"
	"path/filepath"
	"sort"
	"strings"
	"time"
)

// Verdicts of an obligation.
const (
	vOK        = "discharged"
	vFinding   = "finding"
	vUndecided = "undecided"
)

// Obligation is one decided instance of a rule.
type Obligation struct {
	Rule    string `json:"rule"`
	Key     string `json:"construct"` // rule-independent semantic key (never a line number)
	Pos     string `json:"site"`
	Verdict string `json:"verdict"`
	Detail  string `json:"detail,omitempty"`
}

// Checker accumulates obligations for one property.
type Checker struct {
	w     *World
	Prop  string
	Tier  string
	Obls  []Obligation
	Notes []string

	floors map[string]int  // rule -> minimum number of obligations
	mute   map[string]bool // rules whose obligations are not recorded (shared rule code run for another property)
	nested bool            // this checker runs as an imported layer: importLayers is a no-op
	seen   map[string]bool
}

func newChecker(w *World, prop, tier string) *Checker {
	return &Checker{w: w, Prop: prop, Tier: tier, floors: map[string]int{}, seen: map[string]bool{}}
}

func (c *Checker) add(rule, key string, pos token.Pos, verdict, detail string) {
	if c.mute[rule] {
		return
	}
	id := rule + "|" + key + "|" + verdict + "|" + detail
	if c.seen[id] {
		return
	}
	c.seen[id] = true
	c.Obls = append(c.Obls, Obligation{Rule: rule, Key: key, Pos: c.w.pos(pos), Verdict: verdict, Detail: detail})
}

func (c *Checker) ok(rule, key string, pos token.Pos, detail string) {
	c.add(rule, key, pos, vOK, detail)
}
func (c *Checker) fail(rule, key string, pos token.Pos, detail string) {
	c.add(rule, key, pos, vFinding, detail)
}
func (c *Checker) undecided(rule, key string, pos token.Pos, detail string) {
	c.add(rule, key, pos, vUndecided, detail)
}

// decide records ok when cond holds, else a finding.
func (c *Checker) decide(cond bool, rule, key string, pos token.Pos, okDetail, failDetail string) bool {
	if cond {
		c.ok(rule, key, pos, okDetail)
	} else {
		c.fail(rule, key, pos, failDetail)
	}
	return cond
}

// anchorFail records an unresolved anchor (never a silent pass).
func (c *Checker) anchorFail(what string) {
	c.add("ANCHOR", what, token.NoPos, vFinding, "anchor does not resolve in the current tree: "+what)
}

// floor registers the minimum number of obligations a rule must produce.
func (c *Checker) floor(rule string, n int) { c.floors[rule] = n }

func (c *Checker) note(format string, a ...any) { c.Notes = append(c.Notes, fmt.Sprintf(format, a...)) }

func (c *Checker) countRule(rule string) int {
	n := 0
	for _, o := range c.Obls {
		if o.Rule == rule {
			n++
		}
	}
	return n
}

// applyFloors turns a rule with too few obligations into a VACUOUS finding.
func (c *Checker) applyFloors() {
	var rules []string
	for r := range c.floors {
		rules = append(rules, r)
	}
	sort.Strings(rules)
	for _, r := range rules {
		if n := c.countRule(r); n < c.floors[r] {
			c.add("VACUOUS", r, token.NoPos, vFinding,
				fmt.Sprintf("rule %s produced %d obligations, floor is %d: the rule no longer matches the code it was written for", r, n, c.floors[r]))
		}
	}
}

// ---------------------------------------------------------------------------
// Known findings

type knownEntry struct {
	Kind string // known | fixed
	Prop string
	Rule string
	Key  string
	Text string
}

func loadKnown(path string) ([]knownEntry, error) {
	f, err := os.Open(path)
	if err != nil {
		if os.IsNotExist(err) {
			return nil, nil
		}
		return nil, err
	}
	defer f.Close()
	var out []knownEntry
	sc := bufio.NewScanner(f)
	sc.Buffer(make([]byte, 1<<20), 1<<20)
	for sc.Scan() {
		line := strings.TrimSpace(sc.Text())
		if line == "" || strings.HasPrefix(line, "#") {
			continue
		}
		var e knownEntry
		switch {
		case strings.HasPrefix(line, "known:"):
			e.Kind = "known"
			line = strings.TrimSpace(strings.TrimPrefix(line, "known:"))
		case strings.HasPrefix(line, "fixed:"):
			e.Kind = "fixed"
			line = strings.TrimSpace(strings.TrimPrefix(line, "fixed:"))
		default:
			return nil, fmt.Errorf("KNOWN_FINDINGS: malformed line %q", line)
		}
		text := ""
		if i := strings.Index(line, " :: "); i >= 0 {
			text = strings.TrimSpace(line[i+4:])
			line = line[:i]
		}
		e.Text = text
		if e.Kind == "fixed" {
			// fixed: property=<id> <commit> <what failed>  -- informational only
			for _, tok := range strings.Fields(line) {
				if strings.HasPrefix(tok, "property=") {
					e.Prop = strings.TrimPrefix(tok, "property=")
				}
			}
			if e.Text == "" {
				e.Text = line
			}
			out = append(out, e)
			continue
		}
		// known: property=<id> rule=<R> construct=<key...>
		if i := strings.Index(line, "construct="); i >= 0 {
			e.Key = strings.TrimSpace(line[i+len("construct="):])
			line = line[:i]
		}
		for _, tok := range strings.Fields(line) {
			switch {
			case strings.HasPrefix(tok, "property="):
				e.Prop = strings.TrimPrefix(tok, "property=")
			case strings.HasPrefix(tok, "rule="):
				e.Rule = strings.TrimPrefix(tok, "rule=")
			}
		}
		if e.Prop == "" || e.Rule == "" || e.Key == "" {
			return nil, fmt.Errorf("KNOWN_FINDINGS: incomplete entry %q", sc.Text())
		}
		out = append(out, e)
	}
	return out, sc.Err()
}

// ---------------------------------------------------------------------------
// Evidence

type evidence struct {
	PropertyID  string         `json:"property_id"`
	Tier        string         `json:"tier"`
	Seed        int            `json:"seed"`
	Level       string         `json:"level"`
	Coverage    map[string]any `json:"coverage"`
	Assumptions []string       `json:"assumptions"`
	WallS       float64        `json:"wall_s"`
	Violations  int            `json:"violations"`
}

type runMeta struct {
	explanation string
	assumptions []string
	extra       map[string]any
}

// finish matches findings with the known list, prints the verdict lines,
// writes evidence + replay files and returns the process exit code.
func (c *Checker) finish(verifDir string, meta runMeta, seed int, start time.Time) int {
	c.applyFloors()
	sort.SliceStable(c.Obls, func(i, j int) bool {
		a, b := c.Obls[i], c.Obls[j]
		if a.Rule != b.Rule {
			return a.Rule < b.Rule
		}
		if a.Key != b.Key {
			return a.Key < b.Key
		}
		return a.Detail < b.Detail
	})
	known, err := loadKnown(filepath.Join(verifDir, "KNOWN_FINDINGS.txt"))
	if err != nil {
		fmt.Println("CHECKER-ERROR:", err)
		return 2
	}
	evDir := filepath.Join(verifDir, "evidence")
	replayDir := filepath.Join(evDir, "replay")
	_ = os.MkdirAll(replayDir, 0o755)
	// remove stale replay files of this property
	if old, _ := filepath.Glob(filepath.Join(replayDir, c.Prop+"-*.json")); len(old) > 0 {
		for _, o := range old {
			_ = os.Remove(o)
		}
	}

	var violations []Obligation
	var knownHit []string
	discharged := 0
	perRule := map[string][2]int{}
	distinct := map[string]bool{}
	for _, o := range c.Obls {
		pr := perRule[o.Rule]
		pr[0]++
		if o.Verdict == vOK {
			discharged++
			pr[1]++
			perRule[o.Rule] = pr
			distinct[o.Rule+"|"+o.Key] = true
			continue
		}
		perRule[o.Rule] = pr
		distinct[o.Rule+"|"+o.Key] = true
		matched := false
		for _, k := range known {
			if k.Kind == "known" && k.Prop == c.Prop && k.Rule == o.Rule && k.Key == o.Key {
				matched = true
				msg := fmt.Sprintf("KNOWN-FINDING: property=%s rule=%s construct=%s at %s :: %s", c.Prop, o.Rule, o.Key, o.Pos, k.Text)
				knownHit = append(knownHit, msg)
				break
			}
		}
		if !matched {
			violations = append(violations, o)
		}
	}
	sort.Strings(knownHit)
	seenMsg := map[string]bool{}
	for _, m := range knownHit {
		if !seenMsg[m] {
			fmt.Println(m)
			seenMsg[m] = true
		}
	}

	for i, v := range violations {
		rp := filepath.Join(replayDir, fmt.Sprintf("%s-%d.json", c.Prop, i+1))
		b, _ := json.MarshalIndent(map[string]any{
			"property": c.Prop, "rule": v.Rule, "construct": v.Key, "site": v.Pos,
			"verdict": v.Verdict, "detail": v.Detail,
			"source_line": "", "how_to_replay": "./run.sh explain " + rp,
		}, "", " ")
		_ = os.WriteFile(rp, append(b, '\n'), 0o644)
		fmt.Printf("  %s %s at %s [%s]: %s\n", v.Rule, v.Key, v.Pos, v.Verdict, v.Detail)
		fmt.Printf("VIOLATION property=%s replay=%s\n", c.Prop, rp)
	}

	// samples: a few obligations of every rule, written out
	var samples []Obligation
	cnt := map[string]int{}
	for _, o := range c.Obls {
		lim := 8
		if o.Verdict != vOK {
			lim = 50
		}
		if cnt[o.Rule+o.Verdict] < lim {
			samples = append(samples, o)
			cnt[o.Rule+o.Verdict]++
		}
	}
	rules := map[string]any{}
	for r, pr := range perRule {
		rules[r] = map[string]int{"obligations": pr[0], "discharged": pr[1], "floor": c.floors[r]}
	}
	nf := 0
	ninstr := 0
	for _, f := range c.w.Funcs {
		nf++
		for _, b := range f.Blocks {
			ninstr += len(b.Instrs)
		}
	}
	cov := map[string]any{
		"explanation":          meta.explanation,
		"obligations":          len(c.Obls),
		"discharged":           discharged,
		"evaluations":          len(c.Obls),
		"distinct_nontrivial":  len(distinct),
		"rule":                 "one obligation per (rule, construct) instance found in the current tree; distinct = distinct (rule, construct) keys",
		"samples":              samples,
		"rules":                rules,
		"packages_loaded":      c.w.NumPackages,
		"helper_normalisation": c.w.Normalised,
		"target_packages":      []string{gbnPath, mboxPath},
		"functions_analysed":   nf,
		"ssa_instructions":     ninstr,
		"known_findings":       knownHit,
		"notes":                c.Notes,
		"checker_cmd":          "./run.sh " + c.Prop + " " + c.Tier,
		"trusted_base": []string{"go/types + go/ssa (x/tools v0.29.0) model the compiled program",
			"the per-rule idiom tables listed in DESIGN.md"},
		"exhaustive": false,
	}
	for k, v := range meta.extra {
		cov[k] = v
	}
	ev := evidence{
		PropertyID: c.Prop, Tier: c.Tier, Seed: seed, Level: "other", Coverage: cov,
		Assumptions: meta.assumptions, WallS: time.Since(start).Seconds(), Violations: len(violations),
	}
	b, _ := json.MarshalIndent(ev, "", " ")
	if err := os.WriteFile(filepath.Join(evDir, c.Prop+".json"), append(b, '\n'), 0o644); err != nil {
		fmt.Println("CHECKER-ERROR: cannot write evidence:", err)
		return 2
	}
	fmt.Printf("%s %s: %d obligations, %d discharged, %d known findings, %d violations (%.1fs)\n",
		c.Prop, c.Tier, len(c.Obls), discharged, len(seenMsg), len(violations), time.Since(start).Seconds())
	if len(violations) > 0 {
		return 1
	}
	return 0
}
