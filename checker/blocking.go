package main

import (
	"go/token"
	"go/types"

	"golang.org/x/tools/go/ssa"
)

// BlockPoint is an operation that can wait indefinitely.
type BlockPoint struct {
	Fn    *ssa.Function
	Instr ssa.Instruction
	Kind  string // select | send | recv | wait | callback | sleep
	Cases []SelCase
	Desc  string
}

// blockingPoints enumerates the potentially unbounded waits of a function.
func (w *World) blockingPoints(fn *ssa.Function) []BlockPoint {
	var out []BlockPoint
	allInstrs(fn, func(in ssa.Instruction) {
		switch in := in.(type) {
		case *ssa.Select:
			if in.Blocking {
				cases, _ := w.selectCases(in)
				out = append(out, BlockPoint{Fn: fn, Instr: in, Kind: "select", Cases: cases})
			}
		case *ssa.Send:
			out = append(out, BlockPoint{Fn: fn, Instr: in, Kind: "send", Desc: w.accessPath(in.Chan)})
		case *ssa.UnOp:
			if in.Op == token.ARROW {
				out = append(out, BlockPoint{Fn: fn, Instr: in, Kind: "recv", Desc: w.accessPath(in.X)})
			}
		case *ssa.Call:
			cc := in.Common()
			if sc := cc.StaticCallee(); sc != nil {
				switch {
				case isMethod(sc, "sync", "WaitGroup", "Wait"):
					out = append(out, BlockPoint{Fn: fn, Instr: in, Kind: "wait", Desc: w.accessPath(cc.Args[0])})
				case isPkgFunc(sc, "time", "Sleep"):
					out = append(out, BlockPoint{Fn: fn, Instr: in, Kind: "sleep"})
				}
				return
			}
			if cc.IsInvoke() {
				return
			}
			if _, ok := cc.Value.(*ssa.Builtin); ok {
				return
			}
			// dynamic call through a func-typed field of config (transport callbacks)
			if f := chanField(cc.Value); f != nil {
				if sig, ok := f.Type().Underlying().(*types.Signature); ok && sig.Params().Len() > 0 && isContextType(sig.Params().At(0).Type()) {
					out = append(out, BlockPoint{Fn: fn, Instr: in, Kind: "callback", Desc: f.Name()})
				}
			}
		}
	})
	return out
}

func isContextType(t types.Type) bool {
	n, ok := t.(*types.Named)
	return ok && n.Obj().Pkg() != nil && n.Obj().Pkg().Path() == "context" && n.Obj().Name() == "Context"
}

// chanCapacity returns the constant capacity of the channel value if it is a
// local make(chan, k), or of a field whose every store is such a make.
func (w *World) chanCapacity(v ssa.Value) (int64, bool) {
	v = unwrapLoadAlloc(v)
	switch x := v.(type) {
	case *ssa.MakeChan:
		return intConst(x.Size)
	case *ssa.FreeVar:
		// captured local channel: find the binding in the parent
		fn := x.Parent()
		par := fn.Parent()
		if par == nil {
			return 0, false
		}
		idx := -1
		for i, fv := range fn.FreeVars {
			if fv == x {
				idx = i
			}
		}
		var res int64
		found, okAll := false, true
		allInstrs(par, func(in ssa.Instruction) {
			mc, ok := in.(*ssa.MakeClosure)
			if !ok || mc.Fn != fn || idx < 0 || idx >= len(mc.Bindings) {
				return
			}
			k, ok := w.chanCapacity(mc.Bindings[idx])
			if !ok {
				okAll = false
				return
			}
			res, found = k, true
		})
		return res, found && okAll
	case *ssa.UnOp:
		if x.Op == token.MUL {
			if fv, ok := x.X.(*ssa.FreeVar); ok {
				// captured by reference: the alloc in the parent
				fn := fv.Parent()
				par := fn.Parent()
				if par == nil {
					return 0, false
				}
				idx := -1
				for i, f2 := range fn.FreeVars {
					if f2 == fv {
						idx = i
					}
				}
				var res int64
				found, okAll := false, true
				allInstrs(par, func(in ssa.Instruction) {
					mc, ok := in.(*ssa.MakeClosure)
					if !ok || mc.Fn != fn || idx < 0 || idx >= len(mc.Bindings) {
						return
					}
					al, ok := mc.Bindings[idx].(*ssa.Alloc)
					if !ok {
						okAll = false
						return
					}
					for _, sv := range localStores(al) {
						k, ok := w.chanCapacity(sv)
						if !ok {
							okAll = false
							return
						}
						res, found = k, true
					}
				})
				return res, found && okAll
			}
			if f := chanField(x); f != nil {
				var res int64
				found := false
				for _, st := range w.Stores(f) {
					k, ok := w.chanCapacity(st.Val)
					if !ok {
						return 0, false
					}
					if found && k != res {
						return 0, false
					}
					res, found = k, true
				}
				return res, found
			}
		}
	}
	return 0, false
}
