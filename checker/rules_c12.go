package main

import (
	"fmt"
	"go/token"
	"go/types"
	"sort"
	"strings"

	"golang.org/x/tools/go/ssa"
)

// ---------------------------------------------------------------------------
// C12: Close is idempotent, bounded, wakes blocked callers and leaks nothing.

func init() {
	register("C12",
		"ONCE: the whole effectful body of GoBackNConn.Close, ClientConn.Close and ServerConn.Close is the closure passed to sync.Once.Do. ORDER (gbn): close(quit) dominates everything else; the FIN is attempted on the leg where the peer has not closed, with a context from context.WithTimeout(g.ctx); no path leads from cancel() to the FIN send and every path to cancel() on that leg passes it; cancel() and sendQueue.stop() dominate wg.Wait(); every ticker Stop is dominated by wg.Wait(). EXIT: every potentially unbounded wait in gbn (blocking select, bare channel send/receive, WaitGroup.Wait, transport callback) has a termination alternative: a case on a quit field / ctx.Done() / a channel the parent closes on return whose body leaves the wait, or a timer; bare sends are on buffered channels outside cycles; Waits are dominated by the close that terminates the waited goroutines; transport callbacks receive g.ctx or a context derived from it and ctx/cancel come from one context.WithCancel; Send/Recv return errors on quit; the mailbox transport callbacks and their reconnect helpers poll the context parameter in every loop (returning leg) and pass exactly that context on; FIN receipt closes remoteClosed and returns an error; both loop wrappers call wg.Done() before an unconditional Close(). LIFE: every go statement in gbn is WaitGroup-tracked (Add before go, deferred Done, Wait in the owner's close path) or self-terminating by EXIT; every ticker/timer created is stopped on the close path (on the non-nil leg) or by a defer; a replaced ticker is stopped first. ONCE also: no return of any of the three Close methods is reachable without passing closeOnce.Do (no fast path that returns while a shutdown started elsewhere is still running). EXIT handshake: every blocking wait of serverHandshake/clientHandshake and their reader goroutines has a ctx.Done() or timer case (before the connection is handed out only the constructor context can end it). ORDER also (fix f9b15b2): before cancel() the once body itself never runs through a transport callback - the FIN is sent by a helper goroutine that Close waits for with the FIN timeout as alternative and joins after cancel() (a callback can block on a mutex that only cancel() releases). LOCKBAL: no mailbox callback returns holding its per-direction mutex. LIFE also: every error leg of gbn.NewClientConn/NewServerConn after the handshake call passes Close() (the attempt's context is cancelled, its reader goroutine and relay stream are released). ORDER also: every path through mailbox Server.Close closes quit and calls cancel() (an Accept still inside the gbn handshake is woken). EXIT also: newQueue makes queue.quit before it hands it to newSyncer, which stores it (the syncer waits on the channel queue.stop() closes). ORDER also: after a call through a struct's cancel field no call receives that struct's ctx. Not decided: the numeric bound on Close, what the peer observes, goroutines inside dependencies.",
		[]string{"sync.Once.Do runs its argument at most once and blocks concurrent callers until it returned; a closed channel is always ready; context cancellation propagates to derived contexts; the transport callbacks honour their context"},
		runC12)
}

func findCalls(fn *ssa.Function, pred func(ssa.CallInstruction) bool) []ssa.CallInstruction {
	var out []ssa.CallInstruction
	allInstrs(fn, func(in ssa.Instruction) {
		if c, ok := in.(ssa.CallInstruction); ok && pred(c) {
			out = append(out, c)
		}
	})
	return out
}

func isBuiltinCall(c ssa.CallInstruction, name string) bool {
	b, ok := c.Common().Value.(*ssa.Builtin)
	return ok && b.Name() == name
}

func isLoggerCall(c ssa.CallInstruction) bool {
	cc := c.Common()
	if !cc.IsInvoke() {
		return false
	}
	n := namedOf(cc.Value.Type())
	return n != nil && n.Obj().Pkg() != nil && strings.Contains(n.Obj().Pkg().Path(), "btclog")
}

// isLogPlumbing: the instruction is a logger call or only exists to feed one (the load of the
// logger, the argument array of the variadic call and what is stored into it).
func isLogPlumbing(in ssa.Instruction) bool {
	if ci, ok := in.(ssa.CallInstruction); ok {
		return isLoggerCall(ci)
	}
	if st, ok := in.(*ssa.Store); ok {
		if ia, ok := st.Addr.(*ssa.IndexAddr); ok {
			return isLogPlumbing(ia)
		}
		return false
	}
	v, ok := in.(ssa.Value)
	if !ok {
		return false
	}
	switch in.(type) {
	case *ssa.UnOp, *ssa.Alloc, *ssa.IndexAddr, *ssa.MakeInterface, *ssa.Slice, *ssa.ChangeType, *ssa.Convert, *ssa.FieldAddr:
	default:
		return false
	}
	refs := v.Referrers()
	if refs == nil || len(*refs) == 0 {
		return false
	}
	var feeds func(v ssa.Value, d int) bool
	feeds = func(v ssa.Value, d int) bool {
		refs := v.Referrers()
		if refs == nil || d > 6 {
			return false
		}
		n := 0
		for _, r := range *refs {
			switch r := r.(type) {
			case *ssa.DebugRef:
				continue
			case ssa.CallInstruction:
				if !isLoggerCall(r) {
					return false
				}
			case *ssa.Store:
				if r.Val == v {
					ia, ok := r.Addr.(*ssa.IndexAddr)
					if !ok || !feeds(ia.X, d+1) {
						return false
					}
				}
				// a store INTO v (v is the address): fine
			case *ssa.IndexAddr, *ssa.Slice, *ssa.MakeInterface, *ssa.ChangeType, *ssa.Convert:
				if !feeds(r.(ssa.Value), d+1) {
					return false
				}
			default:
				return false
			}
			n++
		}
		return n > 0
	}
	return feeds(v, 0)
}

// fieldOfValue: v is load(x.F) for some x; returns F.
func fieldOfValue(v ssa.Value) *types.Var { return chanField(v) }

// onceBody checks the ONCE shape of a Close method and returns the closure.
func onceBody(c *Checker, rule string, fn *ssa.Function) *ssa.Function {
	name := fnName(fn)
	var body *ssa.Function
	nDo := 0
	okOuter := true
	var offender string
	allInstrs(fn, func(in ssa.Instruction) {
		switch in := in.(type) {
		case ssa.CallInstruction:
			cc := in.Common()
			if sc := cc.StaticCallee(); sc != nil && isMethod(sc, "sync", "Once", "Do") {
				nDo++
				body = c.w.funcValue(cc.Args[1])
				return
			}
			if isLoggerCall(in) {
				return
			}
			okOuter = false
			offender = calleeLabel(cc)
		case *ssa.Store:
			if _, ok := in.Addr.(*ssa.FieldAddr); ok {
				okOuter = false
				offender = "field store"
			}
		}
	})
	c.decide(nDo == 1 && body != nil && okOuter, rule, name+"|once", fn.Pos(),
		"the only effectful statement is closeOnce.Do(closure)",
		fmt.Sprintf("Close is not a single sync.Once.Do(closure): Do calls=%d, other effect outside the once body: %s", nDo, offender))
	// ... and it is reached by every call: a Close that can return without having gone through Do
	// (a "fast path" on quit, say) returns while a shutdown started elsewhere is still in progress
	if nDo == 1 {
		bad := ""
		allInstrs(fn, func(in ssa.Instruction) {
			ret, ok := in.(*ssa.Return)
			if !ok || ret.Block().Comment == "recover" {
				return
			}
			if pathFromEntry(fn, ret, func(x ssa.Instruction) bool {
				ci, ok := x.(ssa.CallInstruction)
				if !ok {
					return false
				}
				sc := ci.Common().StaticCallee()
				return sc != nil && isMethod(sc, "sync", "Once", "Do")
			}) {
				bad = c.w.pos(instrPos(ret))
			}
		})
		c.decide(bad == "", rule, name+"|every call goes through the once", fn.Pos(), "no return is reachable without passing closeOnce.Do",
			"Close can return at "+bad+" without passing closeOnce.Do: a caller that overlaps a shutdown in progress is told the connection is closed while its goroutines, context and FIN are still live")
	}
	// a thin once body that only delegates to one helper of the same package (`returnErr = c.shutdown()`):
	// the helper is the effective body
	if body != nil {
		var only *ssa.Function
		n := 0
		allInstrs(body, func(in ssa.Instruction) {
			ci, ok := in.(ssa.CallInstruction)
			if !ok || isLoggerCall(ci) {
				return
			}
			n++
			if sc := ci.Common().StaticCallee(); sc != nil && sc.Pkg == fn.Pkg && len(sc.Blocks) > 0 {
				only = sc
			}
		})
		if n == 1 && only != nil && len(body.Blocks) == 1 {
			return only
		}
	}
	return body
}

func runC12(c *Checker) {
	// "always returns within a bounded time ... under all interleavings with the connection's internal
	// goroutines" presupposes that those goroutines cannot deadlock each other or Close: the
	// obligations of C18 (lock order, close-site idioms, races) are part of this check
	importLayers(c, "C18")
	// the mailbox callbacks honour the context gbn gives them (gbn.Close cancels it, then waits)
	ruleCBCTX(c, "EXIT")
	// ... and never return holding the per-direction mutex: Close's FIN goes through the same
	// callback and would wait for that mutex for ever (LOCKBAL, as C05/C11)
	ruleLOCKBAL(c, targetMbox)
	ruleHandshakeCtx(c)
	ruleCtorCleanup(c)
	ruleListenerClose(c)
	ruleSyncerQuit(c)
	ruleCtxAfterCancel(c, "ORDER")
	w := c.w
	gclose := w.Func("(*gbn.GoBackNConn).Close")
	conn := w.Named("gbn.GoBackNConn")
	if gclose == nil || conn == nil {
		c.anchorFail("(*gbn.GoBackNConn).Close")
		return
	}
	fld := func(n string) *types.Var {
		f := w.Field("gbn.GoBackNConn." + n)
		if f == nil {
			c.anchorFail("gbn.GoBackNConn." + n)
		}
		return f
	}
	fQuit, fRemote, fCtx, fCancel, fWG, fQueue := fld("quit"), fld("remoteClosed"), fld("ctx"), fld("cancel"), fld("wg"), fld("sendQueue")
	if fQuit == nil || fRemote == nil || fCtx == nil || fCancel == nil || fWG == nil || fQueue == nil {
		return
	}
	body := onceBody(c, "ONCE", gclose)
	for _, n := range []string{"(*mailbox.ClientConn).Close", "(*mailbox.ServerConn).Close"} {
		fn := w.Func(n)
		if fn == nil {
			c.anchorFail(n)
			continue
		}
		b := onceBody(c, "ONCE", fn)
		if b == nil {
			continue
		}
		// inside: gbnConn.Close() and an unconditional close(quit)
		gc := findCalls(b, func(ci ssa.CallInstruction) bool { return ci.Common().StaticCallee() == gclose })
		c.decide(len(gc) >= 1, "ONCE", n+"|closes-gbn", b.Pos(), "the once body closes the gbn connection", "the once body does not close the gbn connection")
		cq := findCalls(b, func(ci ssa.CallInstruction) bool {
			if !isBuiltinCall(ci, "close") {
				return false
			}
			f := fieldOfValue(ci.Common().Args[0])
			return f != nil && f.Name() == "quit"
		})
		uncond := false
		for _, q := range cq {
			if len(factsAt(q.Block())) == 0 {
				uncond = true
			}
		}
		// ... really on every path: no return of the once body is reachable without passing it (an
		// early return on an error of one of the releases leaves Done() open for ever)
		if uncond {
			allInstrs(b, func(in ssa.Instruction) {
				ret, ok := in.(*ssa.Return)
				if !ok || ret.Block().Comment == "recover" {
					return
				}
				if pathFromEntry(b, ret, func(x ssa.Instruction) bool {
					for _, q := range cq {
						if x == ssa.Instruction(q) {
							return true
						}
					}
					return false
				}) {
					uncond = false
				}
			})
		}
		c.decide(uncond, "ONCE", n+"|close(quit)", b.Pos(), "close(quit) on every path of the once body", "the quit channel (returned by Done) is not closed on every path of Close")
	}
	c.floor("ONCE", 7)
	if body == nil {
		return
	}

	// ---- ORDER ----
	one := func(what string, cs []ssa.CallInstruction) ssa.CallInstruction {
		if len(cs) != 1 {
			c.fail("ORDER", "Close|"+what, body.Pos(), fmt.Sprintf("expected exactly one %s in the once body, found %d", what, len(cs)))
			return nil
		}
		return cs[0]
	}
	closeQuit := one("close(quit)", findCalls(body, func(ci ssa.CallInstruction) bool {
		return isBuiltinCall(ci, "close") && fieldOfValue(ci.Common().Args[0]) == fQuit
	}))
	isFin := func(ci ssa.CallInstruction) bool {
		sc := ci.Common().StaticCallee()
		if sc == nil || sc.Name() != "sendPacket" {
			return false
		}
		for _, a := range ci.Common().Args {
			if mi, ok := a.(*ssa.MakeInterface); ok {
				if n := namedOf(mi.X.Type()); n != nil && n.Obj().Name() == "PacketFIN" {
					return true
				}
			}
		}
		return false
	}
	// the FIN is sent by the once body itself or by a goroutine the once body starts for it; finPoint
	// is the instruction of the once body at which the attempt begins (the call, or the go statement)
	fins := findCalls(body, isFin)
	var finPoints []ssa.Instruction
	for _, f := range fins {
		finPoints = append(finPoints, f)
	}
	allInstrs(body, func(in ssa.Instruction) {
		if g, ok := in.(*ssa.Go); ok {
			if mc, ok := g.Common().Value.(*ssa.MakeClosure); ok {
				for _, f := range findCalls(mc.Fn.(*ssa.Function), isFin) {
					fins = append(fins, f)
					finPoints = append(finPoints, g)
				}
			}
		}
	})
	finSend := one("FIN send", fins)
	var finPoint ssa.Instruction
	if finSend != nil {
		finPoint = finPoints[0]
	}
	cancelCall := one("cancel()", findCalls(body, func(ci ssa.CallInstruction) bool {
		return fieldOfValue(ci.Common().Value) == fCancel
	}))
	stopQ := one("sendQueue.stop()", findCalls(body, func(ci ssa.CallInstruction) bool {
		sc := ci.Common().StaticCallee()
		return sc != nil && sc.Name() == "stop" && len(ci.Common().Args) == 1 && fieldOfValue(ci.Common().Args[0]) == fQueue
	}))
	wait := one("wg.Wait()", findCalls(body, func(ci ssa.CallInstruction) bool {
		sc := ci.Common().StaticCallee()
		if sc == nil || !isMethod(sc, "sync", "WaitGroup", "Wait") {
			return false
		}
		fa, ok := ci.Common().Args[0].(*ssa.FieldAddr)
		return ok && structFieldOf(fa) == fWG
	}))
	if closeQuit != nil {
		ordered := map[string]ssa.Instruction{}
		if finPoint != nil {
			ordered["FIN send"] = finPoint
		}
		for name, x := range map[string]ssa.CallInstruction{"cancel()": cancelCall, "sendQueue.stop()": stopQ, "wg.Wait()": wait} {
			if x != nil {
				ordered[name] = x
			}
		}
		for name, x := range ordered {
			c.decide(instrDominates(closeQuit, x), "ORDER", "Close|close(quit) before "+name, instrPos(x), "close(quit) dominates "+name,
				"close(quit) does not come first: "+name+" can run while Send/Recv and the loops are not yet told to stop")
		}
	}
	if finSend != nil {
		// context of the FIN: WithTimeout(g.ctx, ...)
		ctxArg := unwrapLoadAlloc(finSend.Common().Args[1])
		if u, ok := ctxArg.(*ssa.UnOp); ok && u.Op == token.MUL {
			if fv, ok := u.X.(*ssa.FreeVar); ok {
				if _, st := freeVarBinding(fv); st != nil {
					ctxArg = st
				}
			}
		}
		okCtx := false
		if ex, ok := ctxArg.(*ssa.Extract); ok && ex.Index == 0 {
			if call, ok := ex.Tuple.(*ssa.Call); ok && (staticCalleeIs(call.Common(), "context", "", "WithTimeout") || staticCalleeIs(call.Common(), "context", "", "WithDeadline")) {
				okCtx = true
			}
		}
		c.decide(okCtx, "ORDER", "Close|FIN context", instrPos(finSend), "FIN is sent with a context from context.WithTimeout",
			"the FIN send is not bounded by a timeout context: Close can hang on a dead transport")
		// only on the leg where remoteClosed is not closed
		var defBody *ssa.BasicBlock
		allInstrs(body, func(in ssa.Instruction) {
			if sel, ok := in.(*ssa.Select); ok && !sel.Blocking {
				cases, def := w.selectCases(sel)
				for _, sc := range cases {
					if !sc.IsSend && chanField(sc.Chan) == fRemote {
						defBody = def
					}
				}
			}
		})
		okLeg := defBody != nil && (defBody == finPoint.Block() || defBody.Dominates(finPoint.Block()))
		c.decide(okLeg, "ORDER", "Close|FIN only if peer has not closed", instrPos(finSend), "the FIN send is on the default leg of the remoteClosed poll",
			"the FIN attempt is not tied to the remoteClosed poll")
		if cancelCall != nil {
			// F16: the transport callback may wait for something that only g.cancel() releases (the
			// mailbox callbacks take a mutex that an in-flight send of the send loop holds across its
			// whole reconnect loop, and a mutex does not watch the FIN timeout). Whatever Close does in
			// its own goroutine before cancel() must therefore not run through a transport callback.
			var through []string
			allInstrs(body, func(in ssa.Instruction) {
				ci, ok := in.(ssa.CallInstruction)
				if !ok {
					return
				}
				if _, isGo := in.(*ssa.Go); isGo {
					return
				}
				if instrDominates(cancelCall, in) || in == ssa.Instruction(cancelCall) {
					return
				}
				// statically resolved callees only (a method of the connection, a closure of the once
				// body): a call through a function value of unknown origin is not guessed at
				var callees []*ssa.Function
				if sc := ci.Common().StaticCallee(); sc != nil {
					callees = append(callees, sc)
				} else if mc, ok := ci.Common().Value.(*ssa.MakeClosure); ok {
					callees = append(callees, mc.Fn.(*ssa.Function))
				}
				for _, callee := range callees {
					if !w.inTargets(callee) {
						continue
					}
					for fn2 := range w.ReachableSameGoroutine(callee) {
						for _, bp := range w.blockingPoints(fn2) {
							if bp.Kind == "callback" {
								through = append(through, fnName(callee)+" -> "+bp.Desc+" at "+w.pos(instrPos(in)))
							}
						}
					}
				}
			})
			sort.Strings(through)
			c.decide(len(through) == 0, "ORDER", "Close|no transport callback in Close's own goroutine before cancel()", instrPos(cancelCall),
				"before cancel() the once body itself never waits inside a transport callback (the FIN is sent by a helper goroutine that is waited for with the FIN timeout as alternative)",
				"Close waits inside a transport callback before it cancels the context ("+strings.Join(through, "; ")+"): the callback can block on a lock held by an in-flight send of the send loop, which only cancel() releases, and a lock does not watch the FIN timeout - Close hangs for as long as the relay's write side is down")
			c.decide(!pathExists(cancelCall, finPoint, nil), "ORDER", "Close|no FIN after cancel", instrPos(finSend), "no path from cancel() to the FIN send",
				"the FIN can be sent after the context was cancelled: it can never reach the peer")
			if defBody != nil && len(defBody.Instrs) > 0 {
				skip := pathExists(defBody.Instrs[0], cancelCall, func(in ssa.Instruction) bool { return in == finPoint })
				c.decide(!skip, "ORDER", "Close|FIN before cancel on the open leg", instrPos(cancelCall), "every path to cancel() on the open leg passes the FIN send",
					"on the leg where the peer has not closed, cancel() can be reached without attempting the FIN")
			}
		}
	}
	if wait != nil {
		if cancelCall != nil {
			c.decide(instrDominates(cancelCall, wait), "ORDER", "Close|cancel before Wait", instrPos(wait), "cancel() dominates wg.Wait()",
				"wg.Wait() can run before the context is cancelled: the loops blocked in the transport callbacks never return and Close hangs")
		}
		if stopQ != nil {
			c.decide(instrDominates(stopQ, wait), "ORDER", "Close|queue stop before Wait", instrPos(wait), "sendQueue.stop() dominates wg.Wait()",
				"wg.Wait() can run before the queue is stopped: a send loop waiting for the resend sync is not woken")
		}
	}
	// every step of the shutdown is performed on every path through the once body (the Once is spent
	// after the first call: a step skipped by an early return is never made up for)
	for name, x := range map[string]ssa.CallInstruction{"close(quit)": closeQuit, "cancel()": cancelCall, "sendQueue.stop()": stopQ, "wg.Wait()": wait} {
		if x == nil {
			continue
		}
		skipRet := ""
		allInstrs(body, func(in ssa.Instruction) {
			ret, ok := in.(*ssa.Return)
			if !ok || ret.Block().Comment == "recover" || skipRet != "" {
				return
			}
			if pathFromEntry(body, ret, func(i2 ssa.Instruction) bool { return i2 == ssa.Instruction(x) }) {
				skipRet = w.pos(instrPos(ret))
			}
		})
		c.decide(skipRet == "", "ORDER", "Close|"+name+" on every path", instrPos(x), name+" is passed on every path through the once body",
			"the once body can return at "+skipRet+" without "+name+" (e.g. when the FIN cannot be sent): the Once is spent, so the context is never cancelled / the loops are never waited for / the tickers never stopped")
	}
	c.floor("ORDER", 14)

	// ---- LIFE: tickers and timers ----
	isTickerCtor := func(v ssa.Value) (string, bool) {
		call, ok := unwrapLoadAlloc(v).(*ssa.Call)
		if !ok {
			return "", false
		}
		sc := call.Common().StaticCallee()
		if sc == nil {
			return "", false
		}
		switch {
		case sc.Name() == "NewIntervalAwareForceTicker":
			return "IntervalAwareForceTicker", true
		case isPkgFunc(sc, "time", "NewTicker"):
			return "time.Ticker", true
		case isPkgFunc(sc, "time", "NewTimer"):
			return "time.Timer", true
		}
		return "", false
	}
	connNamed := conn
	for _, fn := range w.Funcs {
		if w.pkgShort(fn) != targetGBN {
			continue
		}
		allInstrs(fn, func(in ssa.Instruction) {
			st, ok := in.(*ssa.Store)
			if !ok {
				return
			}
			kind, ok := isTickerCtor(st.Val)
			if !ok {
				return
			}
			fa, isField := st.Addr.(*ssa.FieldAddr)
			if !isField {
				return // locals handled below
			}
			f := structFieldOf(fa)
			owner := namedOf(fa.X.Type())
			key := fmt.Sprintf("ticker|%s.%s (%s)", owner.Obj().Name(), f.Name(), kind)
			if owner == connNamed {
				// a Stop on load(F) in the once body, on the F != nil leg at most, dominated by Wait
				isStopOfF := func(ci ssa.CallInstruction) bool {
					sc := ci.Common().StaticCallee()
					return sc != nil && sc.Name() == "Stop" && len(ci.Common().Args) >= 1 && fieldOfValue(ci.Common().Args[0]) == f
				}
				onlyNilFacts := func(b *ssa.BasicBlock) bool {
					for _, ft := range factsAt(b) {
						bo, ok := ft.Cond.(*ssa.BinOp)
						if !(ok && ft.Val && bo.Op == token.NEQ && isNilConst(bo.Y) && fieldOfValue(bo.X) != nil) {
							return false
						}
					}
					return true
				}
				// (stop call, the instruction of the once body that hosts it: the call itself or the call of a helper)
				type stopSite struct{ stop, host ssa.CallInstruction }
				var stops []stopSite
				for _, s := range findCalls(body, isStopOfF) {
					stops = append(stops, stopSite{s, s})
				}
				for _, hc := range findCalls(body, func(ci ssa.CallInstruction) bool { return true }) {
					for _, cal := range w.Callees(hc) {
						if cal == body || w.pkgShort(cal) != targetGBN {
							continue
						}
						for _, s := range findCalls(cal, isStopOfF) {
							if onlyNilFacts(s.Block()) {
								stops = append(stops, stopSite{s, hc})
							}
						}
					}
				}
				okk, why := false, "created in "+fnName(fn)+" but never stopped in Close: its goroutine/timer outlives the connection"
				for _, s := range stops {
					if !onlyNilFacts(s.host.Block()) || (s.stop == s.host && !onlyNilFacts(s.stop.Block())) {
						why = "stopped only under an unrelated condition"
						continue
					}
					if wait != nil && !instrDominates(wait, s.host) {
						why = "stopped before wg.Wait(): the loops may still use or reset the ticker (send on / close of a torn-down ticker)"
						continue
					}
					okk, why = true, "stopped in the once body after wg.Wait(), on the non-nil leg"
				}
				c.decide(okk, "LIFE", key, instrPos(st), why, why)
				return
			}
			// other owners (the IntervalAwareForceTicker's own time.Ticker): a replaced ticker is stopped first
			if fn.Name() == "NewIntervalAwareForceTicker" || strings.HasPrefix(fn.Name(), "New") {
				c.ok("LIFE", key+"|ctor", instrPos(st), "created by the constructor; stopped by Stop (checked below)")
				return
			}
			prev := findCalls(fn, func(ci ssa.CallInstruction) bool {
				sc := ci.Common().StaticCallee()
				return sc != nil && sc.Name() == "Stop" && len(ci.Common().Args) >= 1 && fieldOfValue(ci.Common().Args[0]) == f && instrDominates(ci, st)
			})
			c.decide(len(prev) > 0, "LIFE", key+"|replace in "+fnName(fn), instrPos(st), "the old ticker is stopped before it is replaced",
				"a ticker is replaced without stopping the old one: the old timer leaks")
		})
		// local timers: defer Stop
		allInstrs(fn, func(in ssa.Instruction) {
			call, ok := in.(*ssa.Call)
			if !ok {
				return
			}
			kind, ok := isTickerCtor(call)
			if !ok || kind == "IntervalAwareForceTicker" {
				return
			}
			// stored to a field? then handled above
			toField := false
			for _, r := range *call.Referrers() {
				if st, ok := r.(*ssa.Store); ok {
					if _, ok := st.Addr.(*ssa.FieldAddr); ok {
						toField = true
					}
				}
			}
			if toField {
				return
			}
			// composite literal field init in a constructor (t := &T{ticker: time.NewTicker()})
			deferred := false
			allInstrs(fn, func(i2 ssa.Instruction) {
				d, ok := i2.(*ssa.Defer)
				if !ok {
					return
				}
				sc := d.Common().StaticCallee()
				if sc != nil && sc.Name() == "Stop" && len(d.Common().Args) >= 1 && unwrapLoadAlloc(d.Common().Args[0]) == ssa.Value(call) {
					deferred = true
				}
			})
			key := fmt.Sprintf("timer|%s (%s)", fnName(fn), kind)
			c.decide(deferred, "LIFE", key, instrPos(call), "local timer with a deferred Stop", "a local timer is created without a deferred Stop")
		})
	}
	// the IntervalAwareForceTicker's Stop tears everything down
	if tstop := w.Func("(*gbn.IntervalAwareForceTicker).Stop"); tstop != nil {
		hasTS := len(findCalls(tstop, func(ci ssa.CallInstruction) bool {
			sc := ci.Common().StaticCallee()
			return sc != nil && isMethod(sc, "time", "Ticker", "Stop")
		})) > 0
		hasClose := len(findCalls(tstop, func(ci ssa.CallInstruction) bool {
			return isBuiltinCall(ci, "close") && fieldOfValue(ci.Common().Args[0]) != nil && fieldOfValue(ci.Common().Args[0]).Name() == "quit"
		})) > 0
		hasWait := len(findCalls(tstop, func(ci ssa.CallInstruction) bool {
			sc := ci.Common().StaticCallee()
			return sc != nil && isMethod(sc, "sync", "WaitGroup", "Wait")
		})) > 0
		c.decide(hasTS && hasClose && hasWait, "LIFE", "IntervalAwareForceTicker.Stop|teardown", tstop.Pos(), "stops the time.Ticker, closes quit and waits for the goroutine",
			fmt.Sprintf("Stop does not tear the ticker down completely (ticker.Stop:%v close(quit):%v wg.Wait:%v)", hasTS, hasClose, hasWait))
	} else {
		c.anchorFail("(*gbn.IntervalAwareForceTicker).Stop")
	}

	// ---- LIFE: go statements ----
	exitOK := map[*ssa.Function]bool{}
	for _, fn := range w.Funcs {
		if w.pkgShort(fn) != targetGBN {
			continue
		}
		exitOK[fn] = checkExitOf(c, fn, fCtx)
	}
	for _, fn := range w.Funcs {
		if w.pkgShort(fn) != targetGBN {
			continue
		}
		allInstrs(fn, func(in ssa.Instruction) {
			g, ok := in.(*ssa.Go)
			if !ok {
				return
			}
			callees := w.Callees(g)
			key := fmt.Sprintf("go|%s -> %s", fnName(fn), calleeLabel(g.Common()))
			if len(callees) != 1 {
				c.undecided("LIFE", key, instrPos(g), "goroutine entry is not resolved to one function")
				return
			}
			entry := callees[0]
			// (i) WaitGroup-tracked
			var wgField *types.Var
			for _, a := range findCalls(fn, func(ci ssa.CallInstruction) bool {
				sc := ci.Common().StaticCallee()
				return sc != nil && isMethod(sc, "sync", "WaitGroup", "Add") && instrDominates(ci, g)
			}) {
				if fa, ok := a.Common().Args[0].(*ssa.FieldAddr); ok {
					wgField = structFieldOf(fa)
				}
			}
			if wgField != nil {
				done, doneFirst, closeUncond := deferredDone(w, entry, wgField, gclose)
				waited := false
				for _, f2 := range w.Funcs {
					for _, wc := range findCalls(f2, func(ci ssa.CallInstruction) bool {
						sc := ci.Common().StaticCallee()
						if sc == nil || !isMethod(sc, "sync", "WaitGroup", "Wait") {
							return false
						}
						fa, ok := ci.Common().Args[0].(*ssa.FieldAddr)
						return ok && structFieldOf(fa) == wgField
					}) {
						_ = wc
						waited = true
					}
				}
				okk := done && waited && doneFirst
				why := fmt.Sprintf("WaitGroup %s: Add before go, deferred Done, Wait on the close path", wgField.Name())
				if !okk {
					why = fmt.Sprintf("WaitGroup-tracked goroutine is malformed (deferred Done:%v, waited somewhere:%v, Done before Close in the deferred function:%v)", done, waited, doneFirst)
				}
				c.decide(okk, "LIFE", key, instrPos(g), why, why)
				// the two loop wrappers (the goroutines that run sendPacketsForever / receivePacketsForever)
				isLoopWrapper := false
				reach := w.ReachableSameGoroutine(entry)
				for _, ln := range []string{"(*gbn.GoBackNConn).sendPacketsForever", "(*gbn.GoBackNConn).receivePacketsForever"} {
					if lf := w.Func(ln); lf != nil && lf != fn && reach[lf] {
						isLoopWrapper = true
					}
				}
				if namedOf(types.NewPointer(conn)) != nil && wgField == fWG && isLoopWrapper {
					c.decide(closeUncond, "EXIT", fmt.Sprintf("wrapper|%s|calls Close", fnName(entry)), instrPos(g),
						"the loop wrapper calls Close() unconditionally when its loop returns", "a loop can end without closing the connection: the other loop and blocked callers are never woken")
				}
				return
			}
			// (ii) self-terminating: all blocking points of the entry function have exits
			okk := exitOK[entry]
			for _, a := range entry.AnonFuncs {
				okk = okk && exitOK[a]
			}
			c.decide(okk, "LIFE", key, instrPos(g), "untracked goroutine whose every wait has a termination alternative (EXIT)",
				"untracked goroutine with a wait that has no termination alternative: it can outlive the connection")
		})
	}
	c.floor("LIFE", 10)
	c.floor("EXIT", 20)

	// ---- EXIT: API results on quit ----
	for _, n := range []string{"(*gbn.GoBackNConn).Send", "(*gbn.GoBackNConn).Recv"} {
		fn := w.Func(n)
		if fn == nil {
			c.anchorFail(n)
			continue
		}
		for _, f2 := range append([]*ssa.Function{fn}, fn.AnonFuncs...) {
			allInstrs(f2, func(in ssa.Instruction) {
				sel, ok := in.(*ssa.Select)
				if !ok {
					return
				}
				cases, _ := w.selectCases(sel)
				for _, sc := range cases {
					if !sc.IsSend && chanField(sc.Chan) == fQuit {
						okk := sc.Body != nil && blockReturnsError(sc.Body, 0)
						c.decide(okk, "EXIT", fmt.Sprintf("%s|quit returns error|blocking=%v", fnName(f2), sel.Blocking), instrPos(sel),
							"the quit case returns a non-nil error", "after Close, "+n+" does not return an error on the quit case")
					}
				}
			})
		}
	}
	// FIN receipt
	if rl := w.Func("(*gbn.GoBackNConn).receivePacketsForever"); rl != nil {
		cl := findCalls(rl, func(ci ssa.CallInstruction) bool {
			return isBuiltinCall(ci, "close") && fieldOfValue(ci.Common().Args[0]) == fRemote
		})
		okk := len(cl) == 1
		if okk {
			isFIN := hasFact(cl[0].Block(), func(f Fact) bool {
				ex, ok := f.Cond.(*ssa.Extract)
				if !ok || !f.Val || ex.Index != 1 {
					return false
				}
				ta, ok := ex.Tuple.(*ssa.TypeAssert)
				return ok && namedOf(ta.AssertedType) != nil && namedOf(ta.AssertedType).Obj().Name() == "PacketFIN"
			})
			okk = isFIN && blockReturnsError(cl[0].Block(), 0)
		}
		c.decide(okk, "EXIT", "receiveLoop|FIN closes remoteClosed and returns an error", rl.Pos(), "on FIN: close(remoteClosed), then a non-nil error ends the loop (the wrapper closes the connection)",
			"FIN receipt does not close remoteClosed exactly once under the FIN case and end the loop with an error")
		// remoteClosed closed nowhere else
		for _, fn := range w.Funcs {
			if fn == rl {
				continue
			}
			for _, x := range findCalls(fn, func(ci ssa.CallInstruction) bool {
				return isBuiltinCall(ci, "close") && fieldOfValue(ci.Common().Args[0]) == fRemote
			}) {
				c.fail("EXIT", "remoteClosed|closed in "+fnName(fn), instrPos(x), "remoteClosed is closed outside the FIN case of the receive loop")
			}
		}
	}
	// ctx / cancel from one WithCancel
	var ctxCall, cancelSrc ssa.Value
	for _, st := range w.Stores(fCtx) {
		if ex, ok := st.Val.(*ssa.Extract); ok && ex.Index == 0 {
			ctxCall = ex.Tuple
		} else {
			ctxCall = nil
			c.fail("EXIT", "ctx|store in "+fnName(st.Parent()), instrPos(st), "g.ctx is not result 0 of context.WithCancel")
		}
	}
	for _, st := range w.Stores(fCancel) {
		v := st.Val
		if ct, ok := v.(*ssa.ChangeType); ok {
			v = ct.X
		}
		if ex, ok := v.(*ssa.Extract); ok && ex.Index == 1 {
			cancelSrc = ex.Tuple
		}
	}
	okPair := ctxCall != nil && ctxCall == cancelSrc
	if okPair {
		call, ok := ctxCall.(*ssa.Call)
		okPair = ok && staticCalleeIs(call.Common(), "context", "", "WithCancel")
	}
	c.decide(okPair, "EXIT", "ctx|cancel pair", body.Pos(), "g.ctx and g.cancel come from one context.WithCancel", "g.cancel does not cancel g.ctx: the transport callbacks are never interrupted by Close")
	// ... and that context is a child of the one the constructor was given: cancelling the caller's
	// context is the only way to end a handshake that gets no answer
	if ng := w.Func("gbn.newGoBackNConn"); ng != nil {
		okParent := false
		for _, ci := range findCalls(ng, func(ci ssa.CallInstruction) bool { return staticCalleeIs(ci.Common(), "context", "", "WithCancel") }) {
			if p, ok := ci.Common().Args[0].(*ssa.Parameter); ok && p.Parent() == ng {
				okParent = true
				// every constructor passes its own context parameter on
				sites, closed := w.CallersOf(ng)
				idx := -1
				for i, q := range ng.Params {
					if q == p {
						idx = i
					}
				}
				if !closed || len(sites) == 0 || idx < 0 {
					okParent = false
				}
				for _, sx := range sites {
					if strings.HasSuffix(w.Fset.Position(instrPos(sx.Instr)).Filename, "_test.go") {
						continue
					}
					if a, ok := sx.Instr.Common().Args[idx].(*ssa.Parameter); !ok || a.Parent() != sx.Caller {
						okParent = false
					}
				}
			}
		}
		c.decide(okParent, "EXIT", "ctx|derived from the constructor's context", ng.Pos(), "context.WithCancel(ctx) with ctx the parameter every constructor passes on",
			"the connection's context is not derived from the context the constructor was given: cancelling that context no longer ends a pending handshake or the transport callbacks")
	} else {
		c.anchorFail("gbn.newGoBackNConn")
	}
	// queue.stop closes queue.quit; syncer.quit is the queue's quit
	if qs := w.Func("(*gbn.queue).stop"); qs != nil {
		okk := len(findCalls(qs, func(ci ssa.CallInstruction) bool {
			if !isBuiltinCall(ci, "close") {
				return false
			}
			f := fieldOfValue(ci.Common().Args[0])
			return f != nil && w.fieldKey(f) == "gbn.queue.quit"
		})) == 1
		c.decide(okk, "EXIT", "queue.stop|close(quit)", qs.Pos(), "queue.stop closes queue.quit", "queue.stop does not close queue.quit: waitForSync/proceedAfterTime are never woken by Close")
	} else {
		c.anchorFail("(*gbn.queue).stop")
	}
	if nq := w.Func("gbn.newQueue"); nq != nil {
		okk := false
		for _, ci := range findCalls(nq, func(ci ssa.CallInstruction) bool {
			sc := ci.Common().StaticCallee()
			return sc != nil && sc.Name() == "newSyncer"
		}) {
			for _, a := range ci.Common().Args {
				if f := fieldOfValue(a); f != nil && w.fieldKey(f) == "gbn.queue.quit" {
					okk = true
				}
				// or the very channel value that newQueue stores into queue.quit (made into a local first)
				if fq := w.Field("gbn.queue.quit"); fq != nil {
					for _, st := range w.Stores(fq) {
						if st.Parent() == nq && unwrapLoadAlloc(st.Val) == unwrapLoadAlloc(a) {
							if _, isMk := unwrapLoadAlloc(a).(*ssa.MakeChan); isMk {
								okk = true
							}
						}
					}
				}
			}
		}
		c.decide(okk, "EXIT", "syncer.quit|is queue.quit", nq.Pos(), "the syncer shares the queue's quit channel", "the syncer's quit channel is not the queue's: Close does not wake the resend sync")
	}
}

// deferredDone: entry defers (directly or through a closure) wg.Done() on the
// given WaitGroup; returns (found, Done precedes any Close call, Close is called unconditionally).
func deferredDone(w *World, entry *ssa.Function, wgField *types.Var, closeFn *ssa.Function) (bool, bool, bool) {
	found, doneFirst, closeUncond := false, true, false
	allInstrs(entry, func(in ssa.Instruction) {
		d, ok := in.(*ssa.Defer)
		if !ok {
			return
		}
		isDone := func(ci ssa.CallInstruction) bool {
			sc := ci.Common().StaticCallee()
			if sc == nil || !isMethod(sc, "sync", "WaitGroup", "Done") {
				return false
			}
			fa, ok := ci.Common().Args[0].(*ssa.FieldAddr)
			return ok && structFieldOf(fa) == wgField
		}
		if isDone(d) {
			found = true
			return
		}
		for _, callee := range w.Callees(d) {
			dones := findCalls(callee, isDone)
			if len(dones) == 0 {
				continue
			}
			found = true
			closes := findCalls(callee, func(ci ssa.CallInstruction) bool { return ci.Common().StaticCallee() == closeFn })
			for _, cl := range closes {
				if !instrDominates(dones[0], cl) {
					doneFirst = false
				}
				if cl.Block() == callee.Blocks[0] {
					closeUncond = true
				}
			}
		}
	})
	return found, doneFirst, closeUncond
}

// checkExitOf applies the EXIT rule to every blocking point of fn; returns
// whether all of them passed.
func checkExitOf(c *Checker, fn *ssa.Function, fCtx *types.Var) bool {
	w := c.w
	all := true
	for _, bp := range w.blockingPoints(fn) {
		switch bp.Kind {
		case "select":
			var descs []string
			exit := ""
			for _, sc := range bp.Cases {
				descs = append(descs, map[bool]string{true: "send:", false: ""}[sc.IsSend]+sc.Desc)
				if sc.IsSend {
					continue
				}
				kind := exitKind(w, fn, sc)
				if kind == "" {
					continue
				}
				// the exit case must leave this wait (not loop back into the same select), timers excepted
				if kind != "timer" && sc.Body != nil && len(sc.Body.Instrs) > 0 {
					if sc.Body.Instrs[0] == bp.Instr || pathExists(sc.Body.Instrs[0], bp.Instr, nil) {
						continue
					}
				}
				if exit == "" || kind != "timer" {
					exit = kind + " (" + sc.Desc + ")"
				}
			}
			key := fmt.Sprintf("%s|select{%s}", fnName(fn), strings.Join(descs, ","))
			if exit != "" {
				c.ok("EXIT", key, instrPos(bp.Instr), "termination alternative: "+exit)
			} else {
				all = false
				c.fail("EXIT", key, instrPos(bp.Instr), "blocking select without a case on quit / ctx.Done() / a channel closed by the parent / a timer that leaves the wait: Close cannot wake it")
			}
		case "send":
			key := fmt.Sprintf("%s|send %s", fnName(fn), bp.Desc)
			capk, okc := w.chanCapacity(bp.Instr.(*ssa.Send).Chan)
			inCycle := pathExists(bp.Instr, bp.Instr, nil)
			switch {
			case okc && capk >= 1 && !inCycle:
				c.ok("EXIT", key, instrPos(bp.Instr), fmt.Sprintf("buffered channel (cap %d), executed at most once per goroutine", capk))
			case len(w.CG().callers[fn]) == 0 && fn.Object() != nil && fn.Object().Exported() && !w.CG().addrTaken[fn]:
				c.ok("EXIT", key, instrPos(bp.Instr), "exported helper without any caller in non-test code (not part of a connection's life)")
			default:
				all = false
				c.fail("EXIT", key, instrPos(bp.Instr), "bare channel send that can block forever (unbuffered or inside a cycle)")
			}
		case "recv":
			key := fmt.Sprintf("%s|recv %s", fnName(fn), bp.Desc)
			var ch ssa.Value
			if u, ok := bp.Instr.(*ssa.UnOp); ok {
				ch = u.X
			}
			if okk, why := joinedAfterCancel(c, fn, bp.Instr, ch, fCtx); okk {
				c.ok("EXIT", key, instrPos(bp.Instr), why)
			} else {
				all = false
				c.fail("EXIT", key, instrPos(bp.Instr), "bare channel receive without alternative ("+why+")")
			}
		case "wait":
			key := fmt.Sprintf("%s|%s.Wait()", fnName(fn), strings.TrimPrefix(bp.Desc, "&"))
			dom := findCalls(fn, func(ci ssa.CallInstruction) bool {
				if !isBuiltinCall(ci, "close") {
					return false
				}
				f := fieldOfValue(ci.Common().Args[0])
				return f != nil && f.Name() == "quit" && instrDominates(ci, bp.Instr)
			})
			if len(dom) > 0 {
				c.ok("EXIT", key, instrPos(bp.Instr), "dominated by close(quit) in the same function (the waited goroutines observe it)")
			} else {
				all = false
				c.fail("EXIT", key, instrPos(bp.Instr), "WaitGroup.Wait that is not dominated by the close(quit) terminating the waited goroutines")
			}
		case "callback":
			call := bp.Instr.(*ssa.Call)
			key := fmt.Sprintf("%s|callback %s", fnName(fn), bp.Desc)
			okk, why := ctxDerived(w, call.Common().Args[0], fCtx, 0)
			if okk {
				c.ok("EXIT", key, instrPos(call), "context argument: "+why)
			} else {
				all = false
				c.fail("EXIT", key, instrPos(call), "transport callback is not given g.ctx or a context derived from it ("+why+"): Close cannot interrupt it")
			}
		case "sleep":
			c.ok("EXIT", fmt.Sprintf("%s|sleep", fnName(fn)), instrPos(bp.Instr), "time.Sleep is bounded by its argument")
		}
	}
	return all
}

// exitKind classifies a receive case as a termination alternative.
func exitKind(w *World, fn *ssa.Function, sc SelCase) string {
	if f := chanField(sc.Chan); f != nil && f.Name() == "quit" {
		return "quit"
	}
	if strings.HasSuffix(sc.Desc, "ctx.Done()") || strings.HasSuffix(sc.Desc, ".Done()") && strings.Contains(sc.Desc, "ctx") {
		return "ctx"
	}
	if sc.Desc == "time.After()" {
		return "timer"
	}
	// a captured local channel that the parent closes with a defer
	if fv, ok := unwrapLoadAlloc(sc.Chan).(*ssa.FreeVar); ok {
		if closedByParentDefer(fn, fv) {
			return "parent-closed"
		}
	}
	return ""
}

// closedByParentDefer: the parent function of closure fn binds fv to a local
// channel and has `defer close(ch)`.
func closedByParentDefer(fn *ssa.Function, fv *ssa.FreeVar) bool {
	par := fn.Parent()
	if par == nil {
		return false
	}
	idx := -1
	for i, x := range fn.FreeVars {
		if x == fv {
			idx = i
		}
	}
	res := false
	allInstrs(par, func(in ssa.Instruction) {
		mc, ok := in.(*ssa.MakeClosure)
		if !ok || mc.Fn != fn || idx < 0 || idx >= len(mc.Bindings) {
			return
		}
		ch := mc.Bindings[idx]
		allInstrs(par, func(i2 ssa.Instruction) {
			d, ok := i2.(*ssa.Defer)
			if ok && isBuiltinCall(d, "close") && d.Common().Args[0] == ch {
				res = true
			}
		})
	})
	return res
}

// freeVarBinding: the value bound to a closure's free variable at the (single) place the closure is
// made; for a variable captured by reference, the only value ever stored to it.
func freeVarBinding(fv *ssa.FreeVar) (binding ssa.Value, stored ssa.Value) {
	fn := fv.Parent()
	par := fn.Parent()
	if par == nil {
		return nil, nil
	}
	idx := -1
	for i, x := range fn.FreeVars {
		if x == fv {
			idx = i
		}
	}
	n := 0
	allInstrs(par, func(in ssa.Instruction) {
		if mc, ok := in.(*ssa.MakeClosure); ok && mc.Fn == fn && idx >= 0 && idx < len(mc.Bindings) {
			n++
			binding = mc.Bindings[idx]
		}
	})
	if n != 1 {
		return nil, nil
	}
	if al, ok := binding.(*ssa.Alloc); ok {
		if st := localStores(al); len(st) == 1 {
			stored = st[0]
		}
	}
	return binding, stored
}

// joinedAfterCancel: the bare receive `<-ch` in fn waits for a goroutine that fn itself started, that
// closes ch when it returns (deferred close), and whose own waits all have a termination
// alternative tied to g.ctx - and the receive comes after g.cancel(): the wait ends as soon as the
// goroutine notices the cancellation.
func joinedAfterCancel(c *Checker, fn *ssa.Function, recv ssa.Instruction, ch ssa.Value, fCtx *types.Var) (bool, string) {
	w := c.w
	var chAlloc *ssa.Alloc
	switch x := ch.(type) {
	case *ssa.UnOp:
		chAlloc, _ = x.X.(*ssa.Alloc)
	}
	if chAlloc == nil {
		return false, "the channel is not a local of the function"
	}
	fCancel := w.Field("gbn.GoBackNConn.cancel")
	cancels := findCalls(fn, func(ci ssa.CallInstruction) bool { return fCancel != nil && fieldOfValue(ci.Common().Value) == fCancel })
	domCancel := false
	for _, cc := range cancels {
		if instrDominates(cc, recv) {
			domCancel = true
		}
	}
	if !domCancel {
		return false, "the receive is not preceded by g.cancel()"
	}
	why := "no goroutine started by the function closes the channel on return"
	okk := false
	allInstrs(fn, func(in ssa.Instruction) {
		g, isGo := in.(*ssa.Go)
		if !isGo {
			return
		}
		mc, isMC := g.Common().Value.(*ssa.MakeClosure)
		if !isMC {
			return
		}
		cl := mc.Fn.(*ssa.Function)
		closes := false
		allInstrs(cl, func(i2 ssa.Instruction) {
			d, isD := i2.(*ssa.Defer)
			if !isD || !isBuiltinCall(d, "close") {
				return
			}
			if fv, isFV := unwrapLoadAlloc(d.Common().Args[0]).(*ssa.FreeVar); isFV {
				if b, _ := freeVarBinding(fv); b == ssa.Value(chAlloc) {
					closes = true
				}
			} else if u, isU := d.Common().Args[0].(*ssa.UnOp); isU {
				if fv, isFV := u.X.(*ssa.FreeVar); isFV {
					if b, _ := freeVarBinding(fv); b == ssa.Value(chAlloc) {
						closes = true
					}
				}
			}
		})
		if !closes {
			return
		}
		if !checkExitOf(c, cl, fCtx) {
			why = "the joined goroutine " + fnName(cl) + " has a wait that the cancellation does not end"
			return
		}
		okk = true
	})
	if okk {
		return true, "joins a goroutine of this function that closes the channel on return; after g.cancel()"
	}
	return false, why
}

// ctxDerived: v is g.ctx, context.WithTimeout/WithCancel(g.ctx, ...), or a
// parameter that every caller fills with such a value.
func ctxDerived(w *World, v ssa.Value, fCtx *types.Var, depth int) (bool, string) {
	v = unwrapLoadAlloc(v)
	if depth > 4 {
		return false, "too deep"
	}
	if fieldOfValue(v) == fCtx {
		return true, "g.ctx"
	}
	if ex, ok := v.(*ssa.Extract); ok && ex.Index == 0 {
		if call, ok := ex.Tuple.(*ssa.Call); ok && (staticCalleeIs(call.Common(), "context", "", "WithTimeout") || staticCalleeIs(call.Common(), "context", "", "WithCancel") || staticCalleeIs(call.Common(), "context", "", "WithDeadline")) {
			okk, why := ctxDerived(w, call.Common().Args[0], fCtx, depth+1)
			return okk, "derived from " + why
		}
	}
	if u, ok := v.(*ssa.UnOp); ok && u.Op == token.MUL {
		if fv, ok := u.X.(*ssa.FreeVar); ok {
			v = fv
		}
	}
	if fv, ok := v.(*ssa.FreeVar); ok {
		// a context captured by a closure: the value of the captured variable
		if b, st := freeVarBinding(fv); st != nil {
			return ctxDerived(w, st, fCtx, depth+1)
		} else if b != nil {
			if _, isAlloc := b.(*ssa.Alloc); !isAlloc {
				return ctxDerived(w, b, fCtx, depth+1)
			}
		}
		return false, "captured variable with more than one assignment"
	}
	if p, ok := v.(*ssa.Parameter); ok {
		sites, closed := w.CallersOf(p.Parent())
		if !closed || len(sites) == 0 {
			return false, "parameter of a function with unknown callers"
		}
		idx := -1
		for i, q := range p.Parent().Params {
			if q == p {
				idx = i
			}
		}
		for _, s := range sites {
			args := s.Instr.Common().Args
			if idx < 0 || idx >= len(args) {
				return false, "call shape"
			}
			if okk, why := ctxDerived(w, args[idx], fCtx, depth+1); !okk {
				return false, "caller " + fnName(s.Caller) + ": " + why
			}
		}
		return true, "parameter; every caller passes g.ctx or a context derived from it"
	}
	return false, w.accessPath(v)
}

// ruleHandshakeCtx: while the GBN handshake runs the connection has not been handed out, so
// nobody can call Close: the only thing that ends a handshake that gets no answer is the context
// the constructor was given. Every blocking select of serverHandshake / clientHandshake and of the
// reader goroutines they start therefore has a case on ctx.Done() or on a timer.
func ruleHandshakeCtx(c *Checker) {
	w := c.w
	n := 0
	for _, name := range []string{"(*gbn.GoBackNConn).serverHandshake", "(*gbn.GoBackNConn).clientHandshake"} {
		fn := w.Func(name)
		if fn == nil {
			c.anchorFail(name)
			continue
		}
		for _, f2 := range append([]*ssa.Function{fn}, fn.AnonFuncs...) {
			k := 0
			allInstrs(f2, func(in ssa.Instruction) {
				sel, ok := in.(*ssa.Select)
				if !ok || !sel.Blocking {
					return
				}
				k++
				n++
				cases, _ := w.selectCases(sel)
				okk := false
				var descs []string
				for _, sc := range cases {
					descs = append(descs, sc.Desc)
					if sc.IsSend {
						continue
					}
					if strings.Contains(sc.Desc, "ctx.Done()") || strings.Contains(sc.Desc, "time.After") || strings.HasSuffix(sc.Desc, ".C") {
						okk = true
					}
				}
				c.decide(okk, "EXIT", fmt.Sprintf("%s|wait-%d ends with the constructor's context", fnName(f2), k), instrPos(sel), "a case on ctx.Done() or a timer",
					"a blocking wait of the handshake (select{"+strings.Join(descs, ",")+"}) has neither a ctx.Done() case nor a timer: when the context is cancelled while the peer is silent the constructor never returns (nobody can call Close on a connection that was not handed out yet)")
			})
		}
	}
	c.decide(n >= 4, "EXIT", "handshake waits", token.NoPos, fmt.Sprintf("%d blocking waits in the two handshakes", n), fmt.Sprintf("only %d blocking waits found in the handshakes", n))
}
