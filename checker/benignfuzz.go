package main

import (
	"bytes"
	"fmt"
	"go/ast"
	"go/format"
	"go/parser"
	"go/token"
	"go/types"
	"os"
	"os/exec"
	"path/filepath"
	"sort"
	"strings"
	"sync"
)

// ---------------------------------------------------------------------------
// Behaviour-preserving transformation sweep ("benign fuzz").
//
// The hand-written benign mutants cover refactorings somebody thought of. This
// sweep is mechanical: for every non-test source file of the two target
// packages and every transformation below, ALL applicable sites of the file
// are rewritten at once on the syntax tree, the result is type-checked by
// loading it as an overlay, and all 20 properties are run on it. Since every
// transformation preserves behaviour, any finding that the unchanged tree does
// not have is a false alarm of the checker (or shows that a rule depends on
// surface syntax). `lncverif -benignfuzz` prints them and exits 1 if any.
//
//	swap-eq      a == b  ->  b == a   (and !=), operands without calls
//	flip-rel     a < b   ->  b > a    (<=, >, >=), operands without calls
//	negate-if    if c {A} else {B}  ->  if !(c) {B} else {A}   (else is a block)
//	for-cond     for c {B}  ->  for { if !(c) { break }; B }   (no init/post; no label/select/switch-break issues)
//	rename       every function-local variable and parameter x -> x_r
//	noop         `_ = 0` inserted at the start of every function body and block
//	early-else   if c { ...; return }  rest...  ->  if c { ...; return } else { rest... } is NOT done (changes scoping)
//
// The sweep is a development and thorough-tier self-test; it never changes a
// check's verdict.

type benignVariant struct {
	File, Kind string
	Sites      int
	Src        []byte
}

func pureOperand(e ast.Expr) bool {
	ok := true
	ast.Inspect(e, func(n ast.Node) bool {
		switch n.(type) {
		case *ast.CallExpr, *ast.FuncLit, *ast.UnaryExpr:
			if u, isU := n.(*ast.UnaryExpr); isU && u.Op != token.ARROW {
				return true
			}
			ok = false
		}
		return ok
	})
	return ok
}

// hasBareBreak reports whether body contains a break that would bind to the enclosing for.
func hasBareBreakOrContinue(body *ast.BlockStmt) bool {
	found := false
	var walk func(n ast.Node, depth int)
	walk = func(n ast.Node, depth int) {
		if n == nil || found {
			return
		}
		switch x := n.(type) {
		case *ast.BranchStmt:
			if x.Label == nil && (x.Tok == token.BREAK || x.Tok == token.CONTINUE) && depth == 0 {
				found = true
			}
			return
		case *ast.ForStmt, *ast.RangeStmt:
			return // breaks inside bind to the inner loop
		case *ast.SwitchStmt, *ast.TypeSwitchStmt, *ast.SelectStmt:
			// break inside binds to the switch/select, continue still binds to our loop
			ast.Inspect(x, func(m ast.Node) bool {
				if b, ok := m.(*ast.BranchStmt); ok && b.Label == nil && b.Tok == token.CONTINUE {
					found = true
				}
				if _, ok := m.(*ast.ForStmt); ok && m != n {
					return false
				}
				if _, ok := m.(*ast.RangeStmt); ok {
					return false
				}
				if _, ok := m.(*ast.FuncLit); ok {
					return false
				}
				return true
			})
			return
		case *ast.FuncLit:
			return
		}
		ast.Inspect(n, func(m ast.Node) bool {
			if m == n || m == nil {
				return true
			}
			walk(m, depth)
			return false
		})
	}
	for _, st := range body.List {
		walk(st, 0)
	}
	return found
}

func transformFile(fset *token.FileSet, path string, src []byte, kind string, info *types.Info, origFile *ast.File) ([]byte, int) {
	n := 0
	var f *ast.File
	if kind != "rename" && kind != "swap-add" {
		var err error
		f, err = parser.ParseFile(fset, path, src, parser.ParseComments)
		if err != nil {
			return nil, 0
		}
	}
	switch kind {
	case "swap-eq", "flip-rel":
		ast.Inspect(f, func(nd ast.Node) bool {
			be, ok := nd.(*ast.BinaryExpr)
			if !ok || !pureOperand(be.X) || !pureOperand(be.Y) {
				return true
			}
			if kind == "swap-eq" && (be.Op == token.EQL || be.Op == token.NEQ) {
				// keep nil / constants on whichever side: plain swap
				be.X, be.Y = be.Y, be.X
				n++
			}
			if kind == "flip-rel" {
				sw := map[token.Token]token.Token{token.LSS: token.GTR, token.GTR: token.LSS, token.LEQ: token.GEQ, token.GEQ: token.LEQ}
				if o, ok := sw[be.Op]; ok {
					be.X, be.Y, be.Op = be.Y, be.X, o
					n++
				}
			}
			return true
		})
	case "negate-if":
		ast.Inspect(f, func(nd ast.Node) bool {
			is, ok := nd.(*ast.IfStmt)
			if !ok || is.Else == nil {
				return true
			}
			eb, ok := is.Else.(*ast.BlockStmt)
			if !ok {
				return true
			}
			is.Cond = &ast.UnaryExpr{Op: token.NOT, X: &ast.ParenExpr{X: is.Cond}}
			is.Body, is.Else = eb, is.Body
			n++
			return true
		})
	case "for-cond":
		ast.Inspect(f, func(nd ast.Node) bool {
			fs, ok := nd.(*ast.ForStmt)
			if !ok || fs.Cond == nil || fs.Init != nil || fs.Post != nil || hasBareBreakOrContinue(fs.Body) {
				return true
			}
			guard := &ast.IfStmt{
				Cond: &ast.UnaryExpr{Op: token.NOT, X: &ast.ParenExpr{X: fs.Cond}},
				Body: &ast.BlockStmt{List: []ast.Stmt{&ast.BranchStmt{Tok: token.BREAK}}},
			}
			fs.Cond = nil
			fs.Body.List = append([]ast.Stmt{guard}, fs.Body.List...)
			n++
			return true
		})
	case "switch-to-if":
		// tagless or tagged switch (pure tag, single-expression-list cases allowed) without
		// fallthrough and without an unlabeled break in a case body -> if / else-if chain
		var rewrite func(list []ast.Stmt)
		rewrite = func(list []ast.Stmt) {
			for i, st := range list {
				sw, ok := st.(*ast.SwitchStmt)
				if !ok || sw.Init != nil || (sw.Tag != nil && !pureOperand(sw.Tag)) {
					continue
				}
				okAll := len(sw.Body.List) > 0
				var def *ast.CaseClause
				var clauses []*ast.CaseClause
				for _, cs := range sw.Body.List {
					cc := cs.(*ast.CaseClause)
					if cc.List == nil {
						def = cc
					} else {
						clauses = append(clauses, cc)
					}
					for _, b := range cc.Body {
						ast.Inspect(b, func(n ast.Node) bool {
							switch x := n.(type) {
							case *ast.BranchStmt:
								if x.Tok == token.FALLTHROUGH || (x.Tok == token.BREAK && x.Label == nil) {
									okAll = false
								}
							case *ast.ForStmt, *ast.RangeStmt, *ast.SwitchStmt, *ast.TypeSwitchStmt, *ast.SelectStmt, *ast.FuncLit:
								return false // a break inside binds to the inner statement; conservative: we also skip nested ones
							}
							return true
						})
					}
					for _, e := range cc.List {
						if !pureOperand(e) {
							okAll = false
						}
						// `switch cond { case true: ... case false: ... }` would become a chain that tests the
						// condition twice - legal, but nobody writes it; left alone
						if id, ok := e.(*ast.Ident); ok && (id.Name == "true" || id.Name == "false") {
							okAll = false
						}
					}
				}
				// the default clause must be last in source order for a straight chain (Go allows any order)
				if def != nil && sw.Body.List[len(sw.Body.List)-1] != ast.Stmt(def) {
					okAll = false
				}
				if !okAll || len(clauses) == 0 {
					continue
				}
				condOf := func(cc *ast.CaseClause) ast.Expr {
					var cond ast.Expr
					for _, e := range cc.List {
						var one ast.Expr = e
						if sw.Tag != nil {
							one = &ast.BinaryExpr{X: sw.Tag, Op: token.EQL, Y: e}
						}
						if cond == nil {
							cond = one
						} else {
							cond = &ast.BinaryExpr{X: cond, Op: token.LOR, Y: one}
						}
					}
					return cond
				}
				var head, cur *ast.IfStmt
				for _, cc := range clauses {
					is := &ast.IfStmt{Cond: condOf(cc), Body: &ast.BlockStmt{List: cc.Body}}
					if head == nil {
						head, cur = is, is
					} else {
						cur.Else = is
						cur = is
					}
				}
				if def != nil {
					cur.Else = &ast.BlockStmt{List: def.Body}
				}
				list[i] = head
				n++
			}
		}
		ast.Inspect(f, func(nd ast.Node) bool {
			switch x := nd.(type) {
			case *ast.BlockStmt:
				rewrite(x.List)
			case *ast.CaseClause:
				rewrite(x.Body)
			case *ast.CommClause:
				rewrite(x.Body)
			}
			return true
		})
	case "if-to-switch":
		// if c {A} else {B}  ->  switch { case c: A; default: B }   (no unlabeled break in A/B)
		var rewrite func(list []ast.Stmt)
		hasBreak := func(b *ast.BlockStmt) bool {
			found := false
			ast.Inspect(b, func(n ast.Node) bool {
				switch x := n.(type) {
				case *ast.BranchStmt:
					if x.Tok == token.BREAK && x.Label == nil {
						found = true
					}
				case *ast.ForStmt, *ast.RangeStmt, *ast.SwitchStmt, *ast.TypeSwitchStmt, *ast.SelectStmt, *ast.FuncLit:
					return false
				}
				return true
			})
			return found
		}
		rewrite = func(list []ast.Stmt) {
			for i, st := range list {
				is, ok := st.(*ast.IfStmt)
				if !ok || is.Init != nil || is.Else == nil {
					continue
				}
				eb, ok := is.Else.(*ast.BlockStmt)
				if !ok || hasBreak(is.Body) || hasBreak(eb) {
					continue
				}
				list[i] = &ast.SwitchStmt{Body: &ast.BlockStmt{List: []ast.Stmt{
					&ast.CaseClause{List: []ast.Expr{is.Cond}, Body: is.Body.List},
					&ast.CaseClause{Body: eb.List},
				}}}
				n++
			}
		}
		ast.Inspect(f, func(nd ast.Node) bool {
			switch x := nd.(type) {
			case *ast.BlockStmt:
				rewrite(x.List)
			case *ast.CaseClause:
				rewrite(x.Body)
			case *ast.CommClause:
				rewrite(x.Body)
			}
			return true
		})
	case "unnest-else", "nest-else":
		terminates := func(b *ast.BlockStmt) bool {
			if len(b.List) == 0 {
				return false
			}
			switch x := b.List[len(b.List)-1].(type) {
			case *ast.ReturnStmt:
				return true
			case *ast.BranchStmt:
				return x.Tok == token.CONTINUE || x.Tok == token.BREAK || x.Tok == token.GOTO
			}
			return false
		}
		hasLabel := func(list []ast.Stmt) bool {
			found := false
			for _, st := range list {
				ast.Inspect(st, func(n ast.Node) bool {
					if _, ok := n.(*ast.LabeledStmt); ok {
						found = true
					}
					return !found
				})
			}
			return found
		}
		var rewrite func(list []ast.Stmt) []ast.Stmt
		rewrite = func(list []ast.Stmt) []ast.Stmt {
			for i, st := range list {
				is, ok := st.(*ast.IfStmt)
				if !ok || !terminates(is.Body) {
					continue
				}
				if kind == "unnest-else" {
					eb, ok := is.Else.(*ast.BlockStmt)
					if !ok || is.Init != nil {
						continue
					}
					// if c {A; return} else {B}  ->  if c {A; return}; {B}
					is.Else = nil
					out := append([]ast.Stmt{}, list[:i+1]...)
					out = append(out, eb)
					out = append(out, list[i+1:]...)
					n++
					return out
				}
				if is.Else != nil || i == len(list)-1 || hasLabel(list[i+1:]) {
					continue
				}
				// declarations after the if would change scope for nothing that follows: fine; but a
				// := in the rest that shadows is unaffected. Only do it when the rest is non-empty.
				rest := append([]ast.Stmt{}, list[i+1:]...)
				is.Else = &ast.BlockStmt{List: rest}
				n++
				return append([]ast.Stmt{}, list[:i+1]...)
			}
			return list
		}
		ast.Inspect(f, func(nd ast.Node) bool {
			switch x := nd.(type) {
			case *ast.BlockStmt:
				x.List = rewrite(x.List)
			case *ast.CaseClause:
				x.Body = rewrite(x.Body)
			case *ast.CommClause:
				x.Body = rewrite(x.Body)
			}
			return true
		})
	case "reverse-select":
		// the order of the cases of a select has no meaning
		ast.Inspect(f, func(nd ast.Node) bool {
			sel, ok := nd.(*ast.SelectStmt)
			if !ok || len(sel.Body.List) < 2 {
				return true
			}
			l := sel.Body.List
			for i, j := 0, len(l)-1; i < j; i, j = i+1, j-1 {
				l[i], l[j] = l[j], l[i]
			}
			n++
			return true
		})
	case "reverse-typeswitch":
		// the cases of a type switch over distinct concrete (pointer) types are mutually exclusive
		ast.Inspect(f, func(nd ast.Node) bool {
			ts, ok := nd.(*ast.TypeSwitchStmt)
			if !ok || len(ts.Body.List) < 2 {
				return true
			}
			okAll := true
			for _, cs := range ts.Body.List {
				cc := cs.(*ast.CaseClause)
				for _, e := range cc.List {
					if _, isStar := e.(*ast.StarExpr); !isStar {
						okAll = false // interface types or nil: order may matter
					}
				}
				for _, b := range cc.Body {
					ast.Inspect(b, func(m ast.Node) bool {
						if br, ok := m.(*ast.BranchStmt); ok && br.Tok == token.FALLTHROUGH {
							okAll = false
						}
						return true
					})
				}
			}
			if !okAll {
				return true
			}
			l := ts.Body.List
			for i, j := 0, len(l)-1; i < j; i, j = i+1, j-1 {
				l[i], l[j] = l[j], l[i]
			}
			n++
			return true
		})
	case "demorgan":
		// if a || b  ->  if !(!(a) && !(b));   if a && b -> if !(!(a) || !(b))   (if conditions only)
		ast.Inspect(f, func(nd ast.Node) bool {
			is, ok := nd.(*ast.IfStmt)
			if !ok {
				return true
			}
			be, ok := is.Cond.(*ast.BinaryExpr)
			if !ok || (be.Op != token.LOR && be.Op != token.LAND) {
				return true
			}
			op := token.LAND
			if be.Op == token.LAND {
				op = token.LOR
			}
			not := func(e ast.Expr) ast.Expr { return &ast.UnaryExpr{Op: token.NOT, X: &ast.ParenExpr{X: e}} }
			is.Cond = not(&ast.BinaryExpr{X: not(be.X), Op: op, Y: not(be.Y)})
			n++
			return true
		})
	case "swap-add":
		// x + y -> y + x and x * y -> y * x for integer operands without calls (text edit by position)
		if info == nil || origFile == nil {
			return nil, 0
		}
		tf := fset.File(origFile.Pos())
		type span struct{ xs, xe, ys, ye int }
		var spans []span
		var visit func(nd ast.Node) bool
		visit = func(nd ast.Node) bool {
			be, ok := nd.(*ast.BinaryExpr)
			if !ok || (be.Op != token.ADD && be.Op != token.MUL) {
				return true
			}
			t := info.TypeOf(be)
			b, isB := t.Underlying().(*types.Basic)
			if t == nil || !isB || b.Info()&types.IsInteger == 0 || !pureOperand(be.X) || !pureOperand(be.Y) {
				return true
			}
			if tv, ok := info.Types[be]; ok && tv.Value != nil {
				return false // constant expression: leave alone
			}
			spans = append(spans, span{tf.Offset(be.X.Pos()), tf.Offset(be.X.End()), tf.Offset(be.Y.Pos()), tf.Offset(be.Y.End())})
			return false // do not descend: nested swaps would overlap
		}
		ast.Inspect(origFile, visit)
		sort.Slice(spans, func(i, j int) bool { return spans[i].xs > spans[j].xs })
		out := append([]byte{}, src...)
		for _, sp := range spans {
			x := string(out[sp.xs:sp.xe])
			y := string(out[sp.ys:sp.ye])
			mid := string(out[sp.xe:sp.ys])
			repl := "(" + y + ")" + mid + "(" + x + ")"
			out = append(out[:sp.xs], append([]byte(repl), out[sp.ye:]...)...)
			n++
		}
		if n == 0 {
			return nil, 0
		}
		return out, n
	case "noop":
		ast.Inspect(f, func(nd ast.Node) bool {
			var body *ast.BlockStmt
			switch x := nd.(type) {
			case *ast.FuncDecl:
				body = x.Body
			case *ast.FuncLit:
				body = x.Body
			case *ast.IfStmt:
				body = x.Body
			case *ast.ForStmt:
				body = x.Body
			}
			if body == nil {
				return true
			}
			nop := &ast.AssignStmt{Lhs: []ast.Expr{ast.NewIdent("_")}, Tok: token.ASSIGN, Rhs: []ast.Expr{&ast.BasicLit{Kind: token.INT, Value: "0"}}}
			body.List = append([]ast.Stmt{nop}, body.List...)
			n++
			return true
		})
	case "reverse-funcs":
		// the order of the function declarations of a file carries no meaning
		var idx []int
		for i, d := range f.Decls {
			if _, ok := d.(*ast.FuncDecl); ok {
				idx = append(idx, i)
			}
		}
		for a, b := 0, len(idx)-1; a < b; a, b = a+1, b-1 {
			f.Decls[idx[a]], f.Decls[idx[b]] = f.Decls[idx[b]], f.Decls[idx[a]]
			n++
		}
		// comments are positioned by offset: drop them rather than have them land inside other code
		f.Comments = nil
	case "reorder-fields":
		// the order of struct fields carries no meaning (keyed literals only; a file with unkeyed
		// ones does not load and is skipped)
		ast.Inspect(f, func(nd ast.Node) bool {
			st, ok := nd.(*ast.StructType)
			if !ok || st.Fields == nil || len(st.Fields.List) < 2 {
				return true
			}
			l := st.Fields.List
			for i, j := 0, len(l)-1; i < j; i, j = i+1, j-1 {
				l[i], l[j] = l[j], l[i]
			}
			n++
			return true
		})
	case "add-log":
		// a trace line at the top of every function, if, for and case body (people add and remove
		// log lines all the time). Functions that declare their own `log` are left alone.
		shadows := func(fd *ast.FuncDecl) bool {
			sh := false
			ast.Inspect(fd, func(nd ast.Node) bool {
				switch x := nd.(type) {
				case *ast.Field:
					for _, nm := range x.Names {
						if nm.Name == "log" {
							sh = true
						}
					}
				case *ast.AssignStmt:
					if x.Tok == token.DEFINE {
						for _, l := range x.Lhs {
							if id, ok := l.(*ast.Ident); ok && id.Name == "log" {
								sh = true
							}
						}
					}
				}
				return true
			})
			return sh
		}
		mk := func() ast.Stmt {
			return &ast.ExprStmt{X: &ast.CallExpr{
				Fun:  &ast.SelectorExpr{X: ast.NewIdent("log"), Sel: ast.NewIdent("Tracef")},
				Args: []ast.Expr{&ast.BasicLit{Kind: token.STRING, Value: `"benign trace"`}},
			}}
		}
		for _, d := range f.Decls {
			fd, ok := d.(*ast.FuncDecl)
			if !ok || fd.Body == nil || shadows(fd) {
				continue
			}
			ast.Inspect(fd, func(nd ast.Node) bool {
				switch x := nd.(type) {
				case *ast.FuncDecl:
					x.Body.List = append([]ast.Stmt{mk()}, x.Body.List...)
					n++
				case *ast.FuncLit:
					x.Body.List = append([]ast.Stmt{mk()}, x.Body.List...)
					n++
				case *ast.IfStmt:
					x.Body.List = append([]ast.Stmt{mk()}, x.Body.List...)
					n++
				case *ast.ForStmt:
					x.Body.List = append([]ast.Stmt{mk()}, x.Body.List...)
					n++
				case *ast.CaseClause:
					x.Body = append([]ast.Stmt{mk()}, x.Body...)
					n++
				case *ast.CommClause:
					x.Body = append([]ast.Stmt{mk()}, x.Body...)
					n++
				}
				return true
			})
		}
	case "rename":
		// needs type information of the ORIGINAL file: rename by position
		if info == nil || origFile == nil {
			return nil, 0
		}
		type edit struct {
			off int
			old string
		}
		var edits []edit
		tf := fset.File(origFile.Pos())
		local := func(obj types.Object) bool {
			v, ok := obj.(*types.Var)
			if !ok || v.IsField() || v.Pkg() == nil {
				return false
			}
			if v.Parent() == nil || v.Parent() == v.Pkg().Scope() || v.Parent() == types.Universe {
				return false
			}
			return v.Name() != "_" && v.Name() != ""
		}
		// the symbolic variable of a type switch (`switch r := x.(type)`) has no object of its own:
		// its clauses hold implicit objects positioned at the declaring identifier
		implicitAt := map[token.Pos]bool{}
		for _, obj := range info.Implicits {
			if local(obj) {
				implicitAt[obj.Pos()] = true
			}
		}
		ast.Inspect(origFile, func(nd ast.Node) bool {
			id, ok := nd.(*ast.Ident)
			if !ok {
				return true
			}
			if obj := info.Defs[id]; obj != nil && local(obj) {
				edits = append(edits, edit{tf.Offset(id.Pos()), id.Name})
			} else if obj := info.Uses[id]; obj != nil && local(obj) {
				edits = append(edits, edit{tf.Offset(id.Pos()), id.Name})
			} else if _, isDef := info.Defs[id]; isDef && implicitAt[id.Pos()] {
				edits = append(edits, edit{tf.Offset(id.Pos()), id.Name})
			}
			return true
		})
		// struct literal keys and selector fields are Uses of field vars: excluded by IsField.
		// receivers named in method declarations are locals too: fine.
		sort.Slice(edits, func(i, j int) bool { return edits[i].off > edits[j].off })
		out := append([]byte{}, src...)
		last := -1
		for _, e := range edits {
			if e.off == last || e.off+len(e.old) > len(out) || string(out[e.off:e.off+len(e.old)]) != e.old {
				continue
			}
			last = e.off
			out = append(out[:e.off+len(e.old)], append([]byte("_r"), out[e.off+len(e.old):]...)...)
			n++
		}
		return out, n
	}
	if n == 0 {
		return nil, 0
	}
	var buf bytes.Buffer
	if err := format.Node(&buf, fset, f); err != nil {
		return nil, 0
	}
	return buf.Bytes(), n
}

// runBenignFuzz performs the sweep; exit code 1 if a transformation produced a new finding.
func runBenignFuzz(repo, verif string, only string) int {
	self, err := os.Executable()
	if err != nil {
		fmt.Println("CHECKER-ERROR:", err)
		return 2
	}
	w, err := LoadWorld(repo, nil, "")
	if err != nil {
		fmt.Println("CHECKER-ERROR:", err)
		return 2
	}
	// baseline findings
	base := map[string]bool{}
	for id, pr := range registry {
		c := newChecker(w, id, "quick")
		pr.run(c)
		c.applyFloors()
		for _, o := range c.Obls {
			if o.Verdict != vOK {
				base[id+"|"+o.Rule+"|"+o.Key] = true
			}
		}
	}
	kinds := []string{"swap-eq", "flip-rel", "negate-if", "for-cond", "noop", "rename", "switch-to-if", "if-to-switch", "demorgan", "swap-add", "unnest-else", "nest-else", "reverse-select", "reverse-typeswitch", "add-log", "reorder-fields", "reverse-funcs"}
	var variants []benignVariant
	tmp, err := os.MkdirTemp("", "benignfuzz")
	if err != nil {
		fmt.Println("CHECKER-ERROR:", err)
		return 2
	}
	defer os.RemoveAll(tmp)
	for _, short := range []string{targetGBN, targetMbox} {
		p := w.Pkgs[short]
		for i, f := range p.Syntax {
			path := p.CompiledGoFiles[i]
			if strings.HasSuffix(path, "_test.go") || strings.Contains(path, ".pb.") {
				continue
			}
			rel, _ := filepath.Rel(repo, path)
			if only != "" && !strings.Contains(rel, only) {
				continue
			}
			src, err := os.ReadFile(path)
			if err != nil {
				continue
			}
			for _, k := range kinds {
				fs := token.NewFileSet()
				if k == "rename" || k == "swap-add" {
					fs = w.Fset // positions of the type-checked file
				}
				out, n := transformFile(fs, path, src, k, p.TypesInfo, f)
				if n == 0 || out == nil {
					continue
				}
				variants = append(variants, benignVariant{File: rel, Kind: k, Sites: n, Src: out})
			}
		}
	}
	type result struct {
		v        benignVariant
		findings []string
		skipped  string
	}
	res := make([]result, len(variants))
	sem := make(chan struct{}, 8)
	var wg sync.WaitGroup
	for i, v := range variants {
		wg.Add(1)
		go func(i int, v benignVariant) {
			defer wg.Done()
			sem <- struct{}{}
			defer func() { <-sem }()
			ov := filepath.Join(tmp, fmt.Sprintf("v%d.go", i))
			_ = os.WriteFile(ov, v.Src, 0o644)
			cmd := exec.Command(self, "-repo", repo, "-verif", verif, "-property", "all", "-no-evidence", "-overlay", filepath.Join(repo, v.File)+"="+ov)
			out, _ := cmd.CombinedOutput()
			r := result{v: v}
			for _, l := range strings.Split(string(out), "\n") {
				if strings.HasPrefix(l, "CHECKER-ERROR") || strings.HasPrefix(l, "MUTANT-SKIP") {
					r.skipped = l
				}
				if !strings.HasPrefix(l, "FINDING ") {
					continue
				}
				prop := strings.Fields(strings.SplitN(l, "property=", 2)[1])[0]
				rule := strings.Fields(strings.SplitN(l, "rule=", 2)[1])[0]
				cons := strings.SplitN(strings.SplitN(l, "construct=", 2)[1], " site=", 2)[0]
				if !base[prop+"|"+rule+"|"+cons] {
					r.findings = append(r.findings, l)
				}
			}
			res[i] = r
		}(i, v)
	}
	wg.Wait()
	bad, skipped := 0, 0
	for _, r := range res {
		switch {
		case r.skipped != "":
			skipped++
			fmt.Printf("benignfuzz %-28s %-10s sites=%-3d SKIPPED %s\n", r.v.File, r.v.Kind, r.v.Sites, truncate(r.skipped, 200))
		case len(r.findings) > 0:
			bad++
			fmt.Printf("benignfuzz %-28s %-10s sites=%-3d FALSE-ALARM (%d)\n", r.v.File, r.v.Kind, r.v.Sites, len(r.findings))
			for _, f := range r.findings {
				fmt.Println("    " + truncate(f, 330))
			}
		default:
			fmt.Printf("benignfuzz %-28s %-10s sites=%-3d quiet\n", r.v.File, r.v.Kind, r.v.Sites)
		}
	}
	fmt.Printf("benignfuzz: %d variants, %d quiet, %d with new findings, %d skipped (did not load)\n", len(res), len(res)-bad-skipped, bad, skipped)
	if bad > 0 {
		return 1
	}
	return 0
}

func truncate(s string, n int) string {
	if len(s) > n {
		return s[:n] + "…"
	}
	return s
}
