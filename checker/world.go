package main

import (
	"fmt"
	"go/ast"
	"go/token"
	"go/types"
	"os"
	"path/filepath"
	"sort"
	"strings"

	"golang.org/x/tools/go/packages"
	"golang.org/x/tools/go/ssa"
	"golang.org/x/tools/go/ssa/ssautil"
)

const (
	modPrefix  = "github.com/lightninglabs/lightning-node-connect/"
	gbnPath    = modPrefix + "gbn"
	mboxPath   = modPrefix + "mailbox"
	targetGBN  = "gbn"
	targetMbox = "mailbox"
)

// World is the type-checked, SSA-built view of the two target packages of the
// repository's current working tree.
type World struct {
	Repo  string
	Fset  *token.FileSet
	Pkgs  map[string]*packages.Package // by short name: gbn, mailbox
	Prog  *ssa.Program
	SSA   map[string]*ssa.Package
	Funcs []*ssa.Function // every source function (incl. closures) of the targets, sorted by position

	NumPackages int // all packages visited by the loader (targets + deps)

	Normalised *NormaliseNote // what the helper normalisation pre-pass did (nil: nothing to do)

	byName map[string]*ssa.Function

	// lazily built indices
	fieldStores map[*types.Var][]*ssa.Store
	fieldLoads  map[*types.Var][]ssa.Instruction
	fieldAddrs  map[*types.Var][]*ssa.FieldAddr
	callers     map[*ssa.Function][]CallSite
	cg          *CallGraph
	lines       map[string][]string
}

// CallSite is one resolved call.
type CallSite struct {
	Caller *ssa.Function
	Instr  ssa.CallInstruction
}

var skipNormalise bool

// LoadWorld loads gbn and mailbox from repo's working tree. overlay may replace
// the content of files (absolute path -> content) without touching the disk.
func LoadWorld(repo string, overlay map[string][]byte, tags string) (*World, error) {
	if os.Getenv("GOWORK") != "" && os.Getenv("GOWORK") != "off" {
		return nil, fmt.Errorf("GOWORK must be unset or off")
	}
	var note *NormaliseNote
	origOverlay := overlay
	if !skipNormalise {
		overlay, note = normaliseHelpers(repo, overlay, tags)
	}
	cfg := &packages.Config{
		Mode:    packages.LoadAllSyntax,
		Dir:     filepath.Join(repo, "mailbox"),
		Tests:   false,
		Overlay: overlay,
		Env:     append(os.Environ(), "GOWORK=off", "GOFLAGS=-mod=mod"),
	}
	if strings.HasPrefix(tags, "env:") {
		// another target platform, e.g. "env:GOOS=js GOARCH=wasm" (the wasm client)
		cfg.Env = append(cfg.Env, strings.Fields(strings.TrimPrefix(tags, "env:"))...)
	} else if tags != "" {
		cfg.BuildFlags = []string{"-tags=" + tags}
	}
	pkgs, err := packages.Load(cfg, ".", gbnPath)
	if err != nil {
		return nil, fmt.Errorf("packages.Load: %w", err)
	}
	w := &World{Repo: repo, Pkgs: map[string]*packages.Package{}, SSA: map[string]*ssa.Package{}, Normalised: note}
	for _, p := range pkgs {
		switch p.PkgPath {
		case gbnPath:
			w.Pkgs[targetGBN] = p
		case mboxPath:
			w.Pkgs[targetMbox] = p
		}
	}
	if w.Pkgs[targetGBN] == nil || w.Pkgs[targetMbox] == nil {
		return nil, fmt.Errorf("target packages not loaded (got %d packages)", len(pkgs))
	}
	var terrs []string
	packages.Visit(pkgs, nil, func(p *packages.Package) {
		w.NumPackages++
		for _, e := range p.Errors {
			terrs = append(terrs, fmt.Sprintf("%s: %s", p.PkgPath, e))
		}
	})
	if len(terrs) > 0 && note != nil && !skipNormalise {
		// the normalised source does not load (a rewrite of ours went wrong): analyse the tree as written
		skipNormalise = true
		w0, err := LoadWorld(repo, origOverlay, tags)
		skipNormalise = false
		if w0 != nil {
			w0.Normalised = &NormaliseNote{NewFuncs: note.NewFuncs, Kept: []string{"normalised source did not load; analysed as written"}}
		}
		return w0, err
	}
	if len(terrs) > 0 {
		sort.Strings(terrs)
		if len(terrs) > 8 {
			terrs = terrs[:8]
		}
		return nil, fmt.Errorf("load/type errors: %s", strings.Join(terrs, "; "))
	}
	// The local gbn must be the one under repo (the mailbox module replaces it).
	gdir := filepath.Dir(w.Pkgs[targetGBN].GoFiles[0])
	if want := filepath.Join(repo, "gbn"); gdir != want {
		return nil, fmt.Errorf("gbn loaded from %s, want %s", gdir, want)
	}
	w.Fset = pkgs[0].Fset

	prog, _ := ssautil.Packages(pkgs, ssa.InstantiateGenerics)
	w.Prog = prog
	for name, p := range w.Pkgs {
		sp := prog.Package(p.Types)
		if sp == nil {
			return nil, fmt.Errorf("no SSA package for %s", name)
		}
		sp.Build()
		w.SSA[name] = sp
	}
	w.collectFuncs()
	w.canonicaliseComparisons()
	return w, nil
}

// canonicaliseComparisons rewrites the comparison and commutative BinOps of the target
// functions into a normal form, in place, so that no rule depends on the order in which
// the programmer wrote the operands:
//
//   - a constant (incl. nil) operand is moved to the right: `nil != err` becomes `err != nil`,
//     `0 == q.size()` becomes `q.size() == 0`, `4 > len(b)` becomes `len(b) < 4`;
//   - `a > b` becomes `b < a` and `a >= b` becomes `b <= a` for non-constant operands (one
//     orientation for every relational test);
//   - for ==, != between two non-constants a parameter or a call result goes to the left of a
//     field load (`q.sequenceBase == seq` becomes `seq == q.sequenceBase`).
//
// The rewritten instructions compute the same values; referrer lists are unaffected because
// the set of operands of each instruction is unchanged.
func (w *World) canonicaliseComparisons() {
	mirror := map[token.Token]token.Token{token.LSS: token.GTR, token.GTR: token.LSS, token.LEQ: token.GEQ, token.GEQ: token.LEQ}
	isConst := func(v ssa.Value) bool { _, ok := v.(*ssa.Const); return ok }
	rank := func(v ssa.Value) int {
		switch x := v.(type) {
		case *ssa.Parameter:
			return 0
		case *ssa.Call, *ssa.Extract, *ssa.Phi:
			return 1
		case *ssa.UnOp:
			if x.Op == token.MUL {
				if _, ok := x.X.(*ssa.FieldAddr); ok {
					return 3 // field load
				}
				return 2
			}
		}
		return 2
	}
	for _, fn := range w.Funcs {
		for _, b := range fn.Blocks {
			for _, in := range b.Instrs {
				bo, ok := in.(*ssa.BinOp)
				if !ok {
					continue
				}
				switch bo.Op {
				case token.EQL, token.NEQ:
					if isConst(bo.X) && !isConst(bo.Y) {
						bo.X, bo.Y = bo.Y, bo.X
					} else if !isConst(bo.X) && !isConst(bo.Y) && rank(bo.X) > rank(bo.Y) {
						bo.X, bo.Y = bo.Y, bo.X
					}
				case token.LSS, token.LEQ, token.GTR, token.GEQ:
					if isConst(bo.X) && !isConst(bo.Y) {
						bo.X, bo.Y, bo.Op = bo.Y, bo.X, mirror[bo.Op]
					} else if !isConst(bo.X) && !isConst(bo.Y) && (bo.Op == token.GTR || bo.Op == token.GEQ) {
						bo.X, bo.Y, bo.Op = bo.Y, bo.X, mirror[bo.Op]
					}
				}
			}
		}
	}
}

func (w *World) collectFuncs() {
	seen := map[*ssa.Function]bool{}
	var add func(f *ssa.Function)
	add = func(f *ssa.Function) {
		if f == nil || seen[f] || f.Blocks == nil {
			return
		}
		if f.Synthetic != "" && !strings.HasPrefix(f.Synthetic, "package init") {
			// wrappers, bound methods, thunks: not source
			return
		}
		seen[f] = true
		w.Funcs = append(w.Funcs, f)
		for _, a := range f.AnonFuncs {
			add(a)
		}
	}
	for _, sp := range w.SSA {
		for _, m := range sp.Members {
			switch m := m.(type) {
			case *ssa.Function:
				add(m)
			case *ssa.Type:
				for _, t := range []types.Type{m.Type(), types.NewPointer(m.Type())} {
					ms := w.Prog.MethodSets.MethodSet(t)
					for i := 0; i < ms.Len(); i++ {
						fn := w.Prog.MethodValue(ms.At(i))
						if fn != nil && fn.Pkg == sp {
							add(fn)
						}
					}
				}
			}
		}
	}
	sort.Slice(w.Funcs, func(i, j int) bool {
		pi, pj := w.Fset.Position(w.Funcs[i].Pos()), w.Fset.Position(w.Funcs[j].Pos())
		if pi.Filename != pj.Filename {
			return pi.Filename < pj.Filename
		}
		if pi.Offset != pj.Offset {
			return pi.Offset < pj.Offset
		}
		return w.Funcs[i].Name() < w.Funcs[j].Name()
	})
	w.byName = map[string]*ssa.Function{}
	for _, f := range w.Funcs {
		w.byName[fnName(f)] = f
	}
}

// fnName is the short qualified name: gbn.(*GoBackNConn).Send, gbn.Deserialize,
// gbn.(*GoBackNConn).start$1.
func fnName(f *ssa.Function) string {
	if f == nil {
		return "<nil>"
	}
	s := f.String()
	s = strings.ReplaceAll(s, modPrefix, "")
	return s
}

// Func resolves a function by short name; nil if missing.
func (w *World) Func(name string) *ssa.Function { return w.byName[name] }

// Named resolves "gbn.GoBackNConn" to its *types.Named.
func (w *World) Named(q string) *types.Named {
	i := strings.Index(q, ".")
	if i < 0 {
		return nil
	}
	p := w.Pkgs[q[:i]]
	if p == nil {
		return nil
	}
	obj := p.Types.Scope().Lookup(q[i+1:])
	if obj == nil {
		return nil
	}
	n, _ := obj.Type().(*types.Named)
	return n
}

// Field resolves "gbn.GoBackNConn.recvSeq" to the field object.
func (w *World) Field(q string) *types.Var {
	i := strings.LastIndex(q, ".")
	if i < 0 {
		return nil
	}
	n := w.Named(q[:i])
	if n == nil {
		return nil
	}
	st, _ := n.Underlying().(*types.Struct)
	if st == nil {
		return nil
	}
	for k := 0; k < st.NumFields(); k++ {
		if st.Field(k).Name() == q[i+1:] {
			return st.Field(k)
		}
	}
	return nil
}

// Const resolves a package-level constant "gbn.DATA".
func (w *World) Const(q string) *types.Const {
	i := strings.Index(q, ".")
	if i < 0 {
		return nil
	}
	p := w.Pkgs[q[:i]]
	if p == nil {
		return nil
	}
	c, _ := p.Types.Scope().Lookup(q[i+1:]).(*types.Const)
	return c
}

// pos renders a position relative to the repository.
func (w *World) pos(p token.Pos) string {
	if !p.IsValid() {
		return "-"
	}
	ps := w.Fset.Position(p)
	rel, err := filepath.Rel(w.Repo, ps.Filename)
	if err != nil {
		rel = ps.Filename
	}
	return fmt.Sprintf("%s:%d", rel, ps.Line)
}

// instrPos finds the best source position of an instruction.
func instrPos(in ssa.Instruction) token.Pos {
	if in == nil {
		return token.NoPos
	}
	if p := in.Pos(); p.IsValid() {
		return p
	}
	// fall back to any operand position / enclosing block instruction
	if v, ok := in.(ssa.Value); ok {
		_ = v
	}
	b := in.Block()
	if b != nil {
		idx := -1
		for i, x := range b.Instrs {
			if x == in {
				idx = i
			}
		}
		for i := idx; i >= 0; i-- {
			if p := b.Instrs[i].Pos(); p.IsValid() {
				return p
			}
		}
		for i := idx + 1; i < len(b.Instrs) && i >= 0; i++ {
			if p := b.Instrs[i].Pos(); p.IsValid() {
				return p
			}
		}
	}
	if in.Parent() != nil {
		return in.Parent().Pos()
	}
	return token.NoPos
}

// fieldKey renders a field as pkg.Type.field.
func (w *World) fieldKey(f *types.Var) string {
	if f == nil {
		return "<nil>"
	}
	owner := w.fieldOwner(f)
	if owner != "" {
		return owner + "." + f.Name()
	}
	if f.Pkg() != nil {
		return f.Pkg().Name() + ".?." + f.Name()
	}
	return "?." + f.Name()
}

var fieldOwnerCache = map[*types.Var]string{}

// fieldOwner finds the named struct type declaring the field (targets only,
// else a best-effort scan of the field's package scope).
func (w *World) fieldOwner(f *types.Var) string {
	if s, ok := fieldOwnerCache[f]; ok {
		return s
	}
	res := ""
	if f.Pkg() != nil {
		sc := f.Pkg().Scope()
		for _, name := range sc.Names() {
			tn, ok := sc.Lookup(name).(*types.TypeName)
			if !ok {
				continue
			}
			st, ok := tn.Type().Underlying().(*types.Struct)
			if !ok {
				continue
			}
			for i := 0; i < st.NumFields(); i++ {
				if st.Field(i) == f {
					res = f.Pkg().Name() + "." + name
				}
			}
		}
	}
	fieldOwnerCache[f] = res
	return res
}

// structField returns the field selected by a FieldAddr / Field instruction.
func structFieldOf(v ssa.Value) *types.Var {
	switch v := v.(type) {
	case *ssa.FieldAddr:
		t := v.X.Type().Underlying()
		if p, ok := t.(*types.Pointer); ok {
			if st, ok := p.Elem().Underlying().(*types.Struct); ok {
				return st.Field(v.Field)
			}
		}
	case *ssa.Field:
		if st, ok := v.X.Type().Underlying().(*types.Struct); ok {
			return st.Field(v.Field)
		}
	}
	return nil
}

// buildFieldIndex indexes all stores/loads of struct fields in target functions.
func (w *World) buildFieldIndex() {
	if w.fieldStores != nil {
		return
	}
	w.fieldStores = map[*types.Var][]*ssa.Store{}
	w.fieldLoads = map[*types.Var][]ssa.Instruction{}
	w.fieldAddrs = map[*types.Var][]*ssa.FieldAddr{}
	for _, f := range w.Funcs {
		for _, b := range f.Blocks {
			for _, in := range b.Instrs {
				switch in := in.(type) {
				case *ssa.FieldAddr:
					if fv := structFieldOf(in); fv != nil {
						w.fieldAddrs[fv] = append(w.fieldAddrs[fv], in)
					}
				case *ssa.Store:
					if fa, ok := in.Addr.(*ssa.FieldAddr); ok {
						if fv := structFieldOf(fa); fv != nil {
							w.fieldStores[fv] = append(w.fieldStores[fv], in)
						}
					}
				case *ssa.UnOp:
					if in.Op == token.MUL {
						if fa, ok := in.X.(*ssa.FieldAddr); ok {
							if fv := structFieldOf(fa); fv != nil {
								w.fieldLoads[fv] = append(w.fieldLoads[fv], in)
							}
						}
					}
				case *ssa.Field:
					if fv := structFieldOf(in); fv != nil {
						w.fieldLoads[fv] = append(w.fieldLoads[fv], in)
					}
				}
			}
		}
	}
}

// Stores returns all stores to a field in the target packages.
func (w *World) Stores(f *types.Var) []*ssa.Store {
	w.buildFieldIndex()
	return w.fieldStores[f]
}

// Loads returns all loads of a field in the target packages.
func (w *World) Loads(f *types.Var) []ssa.Instruction {
	w.buildFieldIndex()
	return w.fieldLoads[f]
}

// FieldAddrs returns all address-of-field instructions for a field.
func (w *World) FieldAddrs(f *types.Var) []*ssa.FieldAddr {
	w.buildFieldIndex()
	return w.fieldAddrs[f]
}

// srcLine returns the trimmed source line for a position (for reports only).
func (w *World) srcLine(p token.Pos) string {
	if !p.IsValid() {
		return ""
	}
	ps := w.Fset.Position(p)
	if w.lines == nil {
		w.lines = map[string][]string{}
	}
	ls, ok := w.lines[ps.Filename]
	if !ok {
		b, err := os.ReadFile(ps.Filename)
		if err == nil {
			ls = strings.Split(string(b), "\n")
		}
		w.lines[ps.Filename] = ls
	}
	if ps.Line-1 < len(ls) && ps.Line >= 1 {
		return strings.TrimSpace(ls[ps.Line-1])
	}
	return ""
}

// fileOf returns the *ast.File of a target package that contains pos.
func (w *World) fileOf(p token.Pos) *ast.File {
	for _, pk := range w.Pkgs {
		for _, f := range pk.Syntax {
			if f.Pos() <= p && p <= f.End() {
				return f
			}
		}
	}
	return nil
}

// inTargets reports whether fn belongs to gbn or mailbox.
func (w *World) inTargets(fn *ssa.Function) bool {
	if fn == nil {
		return false
	}
	for fn.Parent() != nil {
		fn = fn.Parent()
	}
	if fn.Pkg == nil {
		return false
	}
	return fn.Pkg == w.SSA[targetGBN] || fn.Pkg == w.SSA[targetMbox]
}

// pkgShort returns gbn / mailbox for target functions.
func (w *World) pkgShort(fn *ssa.Function) string {
	for fn.Parent() != nil {
		fn = fn.Parent()
	}
	if fn.Pkg == w.SSA[targetGBN] {
		return targetGBN
	}
	if fn.Pkg == w.SSA[targetMbox] {
		return targetMbox
	}
	return ""
}
