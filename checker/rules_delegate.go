package main

import (
	"fmt"
	"go/token"
	"go/types"
	"strings"

	"golang.org/x/tools/go/ssa"
)

// ruleRecordWrappers (FLUSH "wrapper delegates"): the record-layer methods of NoiseConn are the
// only way a caller of the TCP variant reaches the Machine's framing state. Each of them must
// reach the Machine method of its role on every path to a return, and what it returns must be
// that call's results. A wrapper that can return without the call (a remembered "nothing
// pending" flag, a cached header) makes the framing depend on state the Machine does not own:
// a record cut by a partial write is then never completed and every later record is misframed.
func ruleRecordWrappers(c *Checker, rule string) {
	w := c.w
	for _, d := range []struct{ wrapper, target string }{
		{"ReadNextMessage", "ReadMessage"},
		{"ReadNextHeader", "ReadHeader"},
		{"ReadNextBody", "ReadBody"},
		{"WriteMessage", "WriteMessage"},
		{"Flush", "Flush"},
	} {
		fn := w.Func("(*mailbox.NoiseConn)." + d.wrapper)
		if fn == nil {
			c.anchorFail("(*mailbox.NoiseConn)." + d.wrapper)
			continue
		}
		var calls []*ssa.Call
		allInstrs(fn, func(in ssa.Instruction) {
			if call, ok := in.(*ssa.Call); ok && staticCalleeIs(call.Common(), "mailbox", "Machine", d.target) {
				calls = append(calls, call)
			}
		})
		isTarget := func(in ssa.Instruction) bool {
			for _, cl := range calls {
				if in == ssa.Instruction(cl) {
					return true
				}
			}
			return false
		}
		bad := ""
		allInstrs(fn, func(in ssa.Instruction) {
			ret, ok := in.(*ssa.Return)
			if !ok || ret.Block().Comment == "recover" {
				return
			}
			if pathFromEntry(fn, ret, isTarget) {
				// the one exception that preserves behaviour: Flush may answer (0, nil) itself under
				// the fact that the Machine's pending *body* is empty - the body is emptied last, so
				// nothing at all is pending then (an empty pending header alone does not say that)
				if d.wrapper == "Flush" && nothingPendingAt(w, ret) {
					return
				}
				bad = "a return at " + w.pos(instrPos(ret)) + " is reachable without calling Machine." + d.target
				return
			}
			// what is returned is what the Machine reported (or, on a leg that tested the
			// Machine's error, an error / zero value)
			for _, r := range ret.Results {
				for _, v := range expandValues(r) {
					fromCall := false
					switch x := v.(type) {
					case *ssa.Extract:
						if cl, ok := x.Tuple.(*ssa.Call); ok && isTarget(cl) {
							fromCall = true
						}
					case *ssa.Call:
						fromCall = isTarget(x)
					}
					if fromCall {
						continue
					}
					if isErrorType(v.Type()) && !isNilConst(v) {
						continue // an error is never a false success
					}
					// the unpacked form `x, err := m.F(); if err != nil { return zero, err }; return x, nil`:
					// a nil error under the fact "the Machine's error is nil", a zero value under the fact
					// "the Machine's error is not nil" (not for Flush: its count matters on the error leg)
					errRel := ""
					for _, cl := range calls {
						for _, ev := range machineErrValues(cl) {
							for _, f := range factsAt(ret.Block()) {
								if r := factRel(f, isCarrierOf(ev), isNilConst); r != "" {
									errRel = r
								}
							}
						}
					}
					if isErrorType(v.Type()) && isNilConst(v) && errRel == "==" {
						continue
					}
					if k, isK := v.(*ssa.Const); isK && !isErrorType(v.Type()) && d.wrapper != "Flush" && errRel == "!=" &&
						(k.Value == nil || k.Value.String() == "0") {
						continue
					}
					bad = "the return at " + w.pos(instrPos(ret)) + " hands out " + w.canonFB(v) + " instead of what Machine." + d.target + " reported"
				}
			}
		})
		if len(calls) == 0 {
			bad = "Machine." + d.target + " is never called"
		}
		c.decide(bad == "", rule, "NoiseConn."+d.wrapper+"|delegates to Machine."+d.target+" on every path", fn.Pos(),
			fmt.Sprintf("%d call(s) of Machine.%s; no return avoids them and every result is the call's", len(calls), d.target),
			"NoiseConn."+d.wrapper+": "+bad+" - the framing state of the Machine (pending header/body, nonces) is no longer what decides the outcome; after a partial write or read the stream is misframed")
	}
}

// ruleMetadataFresh (PUBLISH): the initiator publishes the auth payload it received through
// ConnData.SetAuthData; gRPC reads it back, per RPC, through GetRequestMetadata. "Both sides
// agree on the auth payload" therefore needs every successful GetRequestMetadata to decode what
// ConnData.AuthData() holds *now*: the map it returns is made in this invocation and AuthData()
// is read on every path to the return. A remembered map outlives the next handshake on the same
// credentials object (which may publish a different payload).
func ruleMetadataFresh(c *Checker, rule string) {
	w := c.w
	fn := w.Func("(*mailbox.NoiseGrpcConn).GetRequestMetadata")
	if fn == nil {
		c.anchorFail("(*mailbox.NoiseGrpcConn).GetRequestMetadata")
		return
	}
	isAuth := func(in ssa.Instruction) bool {
		call, ok := in.(*ssa.Call)
		return ok && staticCalleeIs(call.Common(), "mailbox", "ConnData", "AuthData")
	}
	bad := ""
	n := 0
	allInstrs(fn, func(in ssa.Instruction) {
		ret, ok := in.(*ssa.Return)
		if !ok || ret.Block().Comment == "recover" || len(ret.Results) < 2 {
			return
		}
		succ := false
		for _, e := range expandValues(ret.Results[1]) {
			if isNilConst(e) {
				succ = true
			}
		}
		if !succ {
			return
		}
		n++
		if pathFromEntry(fn, ret, isAuth) {
			bad = "a successful return at " + w.pos(instrPos(ret)) + " is reachable without reading ConnData.AuthData()"
		}
		for _, v := range expandValues(ret.Results[0]) {
			if mm, ok := v.(*ssa.MakeMap); ok && mm.Parent() == fn {
				continue
			}
			if k, ok := v.(*ssa.Const); ok && k.Value == nil {
				continue
			}
			bad = "the successful return at " + w.pos(instrPos(ret)) + " hands out " + w.canonFB(v) + ", not a map made in this call"
		}
	})
	if n == 0 {
		bad = "no successful return found"
	}
	c.decide(bad == "", rule, "GetRequestMetadata|decodes the auth payload published now", fn.Pos(),
		fmt.Sprintf("%d successful return(s): map made in this call, ConnData.AuthData() read on every path", n),
		"GetRequestMetadata: "+bad+" - after a later handshake on the same credentials published a different auth payload, RPCs still carry the old one (the two sides no longer agree on the auth payload in use)")
}

// nothingPendingAt: the block of ret is entered only under len(<Machine>.nextBodySend) == 0 and
// ret returns the constants (0, nil).
func nothingPendingAt(w *World, ret *ssa.Return) bool {
	fBody := w.Field("mailbox.Machine.nextBodySend")
	if fBody == nil || len(ret.Results) != 2 {
		return false
	}
	if k, ok := intConst(ret.Results[0]); !ok || k != 0 || !isNilConst(ret.Results[1]) {
		return false
	}
	isLenBody := func(v ssa.Value) bool {
		call, ok := v.(*ssa.Call)
		if !ok {
			return false
		}
		b, ok := call.Call.Value.(*ssa.Builtin)
		return ok && b.Name() == "len" && isLoadOfField(call.Call.Args[0], fBody)
	}
	for _, f := range factsAt(ret.Block()) {
		is0 := func(v ssa.Value) bool { k, ok := intConst(v); return ok && k == 0 }
		is1 := func(v ssa.Value) bool { k, ok := intConst(v); return ok && k == 1 }
		switch factRel(f, isLenBody, is0) {
		case "==", "<=":
			return true
		}
		if factRel(f, isLenBody, is1) == "<" {
			return true
		}
	}
	return false
}

// ruleSessionReset (RDC-2): NoiseGrpcConn is a long-lived credentials object; every handshake
// installs a new Machine on it. The part of a decrypted record that a Read keeps for the next
// call (nextMsg) belongs to the stream of the Machine that decrypted it. Every function that
// installs a new Machine must therefore drop that tail on every path to a successful return -
// otherwise the first Read of the new session yields bytes its peer never wrote (F17).
func ruleSessionReset(c *Checker, rule string) {
	w := c.w
	fNoise := w.Field("mailbox.NoiseGrpcConn.noise")
	fNext := w.Field("mailbox.NoiseGrpcConn.nextMsg")
	if fNoise == nil || fNext == nil {
		c.anchorFail("mailbox.NoiseGrpcConn.noise / nextMsg")
		return
	}
	isReset := func(in ssa.Instruction) bool {
		st, ok := in.(*ssa.Store)
		if !ok {
			return false
		}
		fa, ok := st.Addr.(*ssa.FieldAddr)
		if !ok || structFieldOf(fa) != fNext {
			return false
		}
		if isNilConst(st.Val) {
			return true
		}
		if sl, ok := st.Val.(*ssa.Slice); ok && sl.High != nil {
			if k, ok := intConst(sl.High); ok && k == 0 {
				return true
			}
		}
		return false
	}
	n := 0
	seen := map[*ssa.Function]bool{}
	for _, st := range w.Stores(fNoise) {
		fn := st.Parent()
		if seen[fn] {
			continue
		}
		seen[fn] = true
		n++
		bad := ""
		allInstrs(fn, func(in ssa.Instruction) {
			ret, ok := in.(*ssa.Return)
			if !ok || ret.Block().Comment == "recover" || len(ret.Results) == 0 {
				return
			}
			last := ret.Results[len(ret.Results)-1]
			if isErrorType(last.Type()) {
				succ := false
				for _, e := range expandValues(last) {
					if isNilConst(e) {
						succ = true
					}
				}
				if !succ {
					return
				}
			}
			if pathFromEntry(fn, ret, isReset) {
				bad = w.pos(instrPos(ret))
			}
		})
		c.decide(bad == "", rule, fnName(fn)+"|a new Machine comes with an empty read tail", instrPos(st),
			"every successful return has passed nextMsg = nil",
			fnName(fn)+" installs a new noise Machine but can return successfully (at "+bad+") with the unread tail of the previous session still in nextMsg: the first Read of the new session hands out bytes its peer never wrote")
	}
	if n < 2 {
		c.fail(rule, "session-reset|sites", 0, fmt.Sprintf("expected the two handshake entry points to install a Machine, found %d", n))
	}
}

// ruleChunkMinimal (WIN-5, C09): "Send returns without waiting for the peer for the first N
// messages" counts window slots per message. With splitting enabled a message of k*max bytes must
// occupy k slots, not k+1: a non-final chunk data[off:off+max] is cut only under
// remainder > max (strictly). Under `>=` an exact multiple is followed by one more, empty, final
// packet - the peer still reassembles the message (C14 accepts that), but the window fills one
// slot earlier and Send blocks on the peer before N messages are out.
func ruleChunkMinimal(c *Checker) {
	w := c.w
	send := w.Func("(*gbn.GoBackNConn).Send")
	fPayload := w.Field("gbn.PacketData.Payload")
	fMax := w.Field("gbn.config.maxChunkSize")
	if send == nil || fPayload == nil || fMax == nil || len(send.Params) < 2 {
		c.anchorFail("Send / PacketData.Payload / config.maxChunkSize")
		return
	}
	data := ssa.Value(send.Params[1])
	n := 0
	allInstrs(send, func(in ssa.Instruction) {
		st, ok := in.(*ssa.Store)
		if !ok {
			return
		}
		fa, ok := st.Addr.(*ssa.FieldAddr)
		if !ok || structFieldOf(fa) != fPayload {
			return
		}
		sl, ok := unwrapLoadAlloc(st.Val).(*ssa.Slice)
		if !ok || sl.X != data || sl.High == nil || sl.Low == nil {
			return
		}
		n++
		strict := false
		for _, f := range factsAt(st.Block()) {
			if factRel(f, func(v ssa.Value) bool { return isRemaining(v, data, sl.Low) }, func(v ssa.Value) bool { return isLoadOfField(v, fMax) }) == ">" {
				strict = true
			}
		}
		c.decide(strict, "WIN-5", "Send|a non-final chunk is cut only under remainder > max", instrPos(st),
			"k*max bytes occupy k window slots",
			"a non-final chunk is cut although the remainder fits one packet (remainder >= max instead of > max): a message of an exact multiple of the chunk size takes one window slot more than it needs, so Send waits for the peer before N such messages are out")
	})
	if n == 0 {
		c.fail("WIN-5", "Send|non-final chunk", send.Pos(), "no non-final chunk site found in Send")
	}
}

// ruleListenerClose (ORDER, C12): mailbox.Server owns the context every connection attempt of
// Accept runs under. While the first Accept is still inside the gbn handshake there is no
// mailboxConn yet and only that context can end the wait (the wait for a SYN has no timeout).
// Every path through Server.Close therefore closes quit and calls cancel().
func ruleListenerClose(c *Checker) {
	w := c.w
	fn := w.Func("(*mailbox.Server).Close")
	fCancel := w.Field("mailbox.Server.cancel")
	fQuit := w.Field("mailbox.Server.quit")
	if fn == nil || fCancel == nil || fQuit == nil {
		c.anchorFail("(*mailbox.Server).Close / Server.cancel / Server.quit")
		return
	}
	isCancel := func(in ssa.Instruction) bool {
		call, ok := in.(*ssa.Call)
		return ok && !call.Common().IsInvoke() && isLoadOfField(call.Common().Value, fCancel)
	}
	isCloseQuit := func(in ssa.Instruction) bool {
		call, ok := in.(*ssa.Call)
		if !ok {
			return false
		}
		b, ok := call.Common().Value.(*ssa.Builtin)
		return ok && b.Name() == "close" && isLoadOfField(call.Common().Args[0], fQuit)
	}
	// the same step inside the function literal of a sync.Once.Do (an idempotent Close) counts when
	// every path through the literal passes it
	viaOnce := func(is func(ssa.Instruction) bool) func(ssa.Instruction) bool {
		return func(in ssa.Instruction) bool {
			if is(in) {
				return true
			}
			call, ok := in.(*ssa.Call)
			if !ok || !staticCalleeIs(call.Common(), "sync", "Once", "Do") || len(call.Common().Args) < 2 {
				return false
			}
			mc, ok := call.Common().Args[1].(*ssa.MakeClosure)
			if !ok {
				return false
			}
			lit, ok := mc.Fn.(*ssa.Function)
			if !ok {
				return false
			}
			all := true
			allInstrs(lit, func(x ssa.Instruction) {
				if ret, ok := x.(*ssa.Return); ok && pathFromEntry(lit, ret, is) {
					all = false
				}
			})
			return all
		}
	}
	isCancelFV := isCancel
	isCancel = viaOnce(func(in ssa.Instruction) bool {
		if isCancelFV(in) {
			return true
		}
		// inside the literal the receiver is a captured variable: a call through a load of the
		// cancel field of whatever the literal captured
		call, ok := in.(*ssa.Call)
		return ok && !call.Common().IsInvoke() && isLoadOfField(call.Common().Value, fCancel)
	})
	isCloseQuit = viaOnce(isCloseQuit)
	for _, step := range []struct {
		name string
		is   func(ssa.Instruction) bool
		why  string
	}{
		{"cancel()", isCancel, "an Accept that is still inside the gbn handshake (no connection handed out yet) is never woken, its reader goroutine and relay stream stay behind"},
		{"close(quit)", isCloseQuit, "an Accept waiting for the previous connection's Done() is never woken"},
	} {
		bad := ""
		allInstrs(fn, func(in ssa.Instruction) {
			ret, ok := in.(*ssa.Return)
			if !ok || ret.Block().Comment == "recover" {
				return
			}
			if pathFromEntry(fn, ret, step.is) {
				bad = w.pos(instrPos(ret))
			}
		})
		c.decide(bad == "", "ORDER", "Server.Close|"+step.name+" on every path", fn.Pos(), "no return avoids it",
			"Server.Close can return (at "+bad+") without "+step.name+": "+step.why)
	}
}

// ruleCtorCleanup (LIFE, C12; imported by C11): the gbn constructors create the connection's
// context, hand it to the transport callbacks of the handshake (mailbox binds its relay streams
// to it) and start the handshake's reader goroutine. When the handshake fails the constructor is
// the only one who still knows the connection: every error leg after the handshake call passes
// Close(), which cancels that context. Without it the failed attempt keeps its relay stream
// (exclusive on the real hashmail server) and its reader goroutine for ever.
func ruleCtorCleanup(c *Checker) {
	w := c.w
	gclose := w.Func("(*gbn.GoBackNConn).Close")
	if gclose == nil {
		c.anchorFail("(*gbn.GoBackNConn).Close")
		return
	}
	for _, pr := range [][2]string{{"gbn.NewClientConn", "clientHandshake"}, {"gbn.NewServerConn", "serverHandshake"}} {
		ctor := w.Func(pr[0])
		if ctor == nil {
			c.anchorFail(pr[0])
			continue
		}
		isClose := func(in ssa.Instruction) bool {
			ci, ok := in.(ssa.CallInstruction)
			if !ok {
				return false
			}
			if _, isGo := in.(*ssa.Go); isGo {
				return false
			}
			if ci.Common().StaticCallee() == gclose {
				return true
			}
			// `defer func() { ... conn.Close() ... }()` on the error leg: the literal runs when the
			// constructor returns; it counts when every path through it calls Close
			if df, isDefer := in.(*ssa.Defer); isDefer {
				if mc, ok := df.Call.Value.(*ssa.MakeClosure); ok {
					if lit, ok := mc.Fn.(*ssa.Function); ok {
						all, any := true, false
						inner := func(x ssa.Instruction) bool {
							c2, ok := x.(ssa.CallInstruction)
							return ok && c2.Common().StaticCallee() == gclose
						}
						allInstrs(lit, func(x ssa.Instruction) {
							if inner(x) {
								any = true
							}
							if ret, ok := x.(*ssa.Return); ok && pathFromEntry(lit, ret, inner) {
								all = false
							}
						})
						return all && any
					}
				}
			}
			return false
		}
		n := 0
		bad := ""
		for _, ci := range findCalls(ctor, func(ci ssa.CallInstruction) bool {
			sc := ci.Common().StaticCallee()
			return sc != nil && sc.Name() == pr[1]
		}) {
			n++
			allInstrs(ctor, func(in ssa.Instruction) {
				ret, ok := in.(*ssa.Return)
				if !ok || len(ret.Results) == 0 || ret.Block().Comment == "recover" {
					return
				}
				failing := false
				for _, v := range expandValues(ret.Results[0]) {
					if isNilConst(v) {
						failing = true
					}
				}
				if failing && pathExists(ci, ret, isClose) {
					bad = w.pos(instrPos(ret))
				}
			})
		}
		if n == 0 {
			bad = "no call of " + pr[1]
		}
		c.decide(bad == "", "LIFE", pr[0]+"|a failed handshake closes the connection", ctor.Pos(), "every return without a connection after the handshake call passes Close()",
			pr[0]+" can give up after a failed handshake ("+bad+") without Close(): the attempt's context is never cancelled, so its reader goroutine and the relay stream bound to that context stay behind (the next attempt finds the mailbox occupied)")
	}
}

// ruleConnDataGuard (PUBLISH, C04): ConnData is shared between the handshake that publishes the
// remote key / auth payload, the per-RPC metadata reader and the next connection attempt (SID,
// pattern). Two lock-discipline obligations, both over all interleavings:
//  (a) every access to a field that is written after construction happens with ConnData.mu held
//      (exclusively for a write) - otherwise a reader can see a torn or stale payload;
//  (b) no application callback stored in ConnData is invoked while mu may be held - the callback
//      is free to read the ConnData again, which would block the handshake for ever after the
//      peer has already completed.
func ruleConnDataGuard(c *Checker, rule string) {
	w := c.w
	cd := w.Named("mailbox.ConnData")
	fMu := w.Field("mailbox.ConnData.mu")
	if cd == nil || fMu == nil {
		c.anchorFail("mailbox.ConnData / ConnData.mu")
		return
	}
	st, _ := cd.Underlying().(*types.Struct)
	var funcs []*ssa.Function
	roots := map[*ssa.Function]bool{}
	for _, fn := range w.Funcs {
		if w.pkgShort(fn) == targetMbox {
			funcs = append(funcs, fn)
			roots[fn] = true
		}
	}
	li := w.computeLocks(funcs, roots)
	allocates := func(fn *ssa.Function) bool {
		found := false
		allInstrs(fn, func(in ssa.Instruction) {
			if al, ok := in.(*ssa.Alloc); ok && namedOf(deref(al.Type())) == cd {
				found = true
			}
		})
		return found
	}
	nAcc, nCb := 0, 0
	for i := 0; i < st.NumFields(); i++ {
		f := st.Field(i)
		if f == fMu {
			continue
		}
		if _, isFunc := f.Type().Underlying().(*types.Signature); isFunc {
			// (b) calls through the callback field
			for _, fn := range funcs {
				allInstrs(fn, func(in ssa.Instruction) {
					ci, ok := in.(ssa.CallInstruction)
					if !ok || ci.Common().IsInvoke() || !isLoadOfField(ci.Common().Value, f) {
						return
					}
					nCb++
					_, held := li.MayAt(in)[fMu]
					c.decide(!held, rule, fmt.Sprintf("ConnData.%s|called without ConnData.mu in %s", f.Name(), fnName(fn)), instrPos(in),
						"the application callback runs with no ConnData lock held",
						"the application callback "+f.Name()+" can run while ConnData.mu is held: a callback that reads the ConnData again (RemoteKey, SID, HandshakePattern) blocks for ever - this side neither completes nor aborts the handshake while the peer has completed")
				})
			}
			continue
		}
		mutable := false
		for _, s := range w.Stores(f) {
			if !allocates(s.Parent()) {
				mutable = true
			}
		}
		if !mutable {
			continue
		}
		for _, fa := range w.FieldAddrs(f) {
			fn := fa.Parent()
			if allocates(fn) || fa.Referrers() == nil {
				continue
			}
			for _, r := range *fa.Referrers() {
				mode, have := li.At(r)[fMu]
				_, isStore := r.(*ssa.Store)
				okk := have && (!isStore || mode == lockExcl)
				nAcc++
				kind := "read"
				if isStore {
					kind = "write"
				}
				c.decide(okk, rule, fmt.Sprintf("ConnData.%s|%s under ConnData.mu in %s", f.Name(), kind, fnName(fn)), instrPos(r),
					"guarded by ConnData.mu",
					fmt.Sprintf("ConnData.%s is %s in %s without ConnData.mu held%s: it is written by a later handshake on the same long-lived object while RPCs and the next connection attempt read it - a torn or stale remote key / auth payload", f.Name(), map[bool]string{true: "written", false: "read"}[isStore], fnName(fn), map[bool]string{true: " exclusively", false: ""}[isStore]))
			}
		}
	}
	if nAcc < 4 || nCb < 2 {
		c.fail(rule, "ConnData|guarded accesses", 0, fmt.Sprintf("expected the accessors of remoteKey/authData and the two callbacks, found %d accesses / %d callback calls", nAcc, nCb))
	}
}

// ruleReadAtomic (RDC-2): NoiseGrpcConn.Read decides "is a tail pending?", reads and decrypts the
// next record and stores/advances the tail. These steps form one critical section of nextMsgMtx:
// once the mutex is released inside Read, no later access to nextMsg (and no ReadMessage) is
// reachable. Otherwise two overlapping Reads both go to the transport and the second one
// overwrites the tail the first one left - bytes vanish from the stream without an error.
func ruleReadAtomic(c *Checker, rule string) {
	w := c.w
	fn := w.Func("(*mailbox.NoiseGrpcConn).Read")
	fNext := w.Field("mailbox.NoiseGrpcConn.nextMsg")
	fMtx := w.Field("mailbox.NoiseGrpcConn.nextMsgMtx")
	if fn == nil || fNext == nil || fMtx == nil {
		c.anchorFail("(*mailbox.NoiseGrpcConn).Read / nextMsg / nextMsgMtx")
		return
	}
	var touches []ssa.Instruction
	allInstrs(fn, func(in ssa.Instruction) {
		if fa, ok := in.(*ssa.FieldAddr); ok && structFieldOf(fa) == fNext {
			touches = append(touches, in)
		}
		if call, ok := in.(*ssa.Call); ok && staticCalleeIs(call.Common(), "mailbox", "Machine", "ReadMessage") {
			touches = append(touches, in)
		}
	})
	bad := ""
	nLock := 0
	allInstrs(fn, func(in ssa.Instruction) {
		call, ok := in.(*ssa.Call)
		if !ok {
			return
		}
		f, acq, _, ok := lockOp(call.Common())
		if !ok || f != fMtx {
			return
		}
		if acq {
			nLock++
			return
		}
		for _, t := range touches {
			if pathExists(in, t, nil) {
				bad = "released at " + w.pos(instrPos(in)) + ", the tail / transport is used again at " + w.pos(instrPos(t))
			}
		}
	})
	c.decide(bad == "" && nLock >= 1 && len(touches) >= 3, rule, "(*mailbox.NoiseGrpcConn).Read|check, receive and store are one critical section", fn.Pos(),
		"nextMsgMtx is not released before the last use of the tail",
		"NoiseGrpcConn.Read gives up nextMsgMtx in the middle ("+bad+"): two overlapping Reads both fetch a record and the second overwrites the unread tail of the first - bytes of the stream are lost without an error")
}

// ruleMachineReplacedFirst (HSK-ERR, C03): a handshake entry point of the long-lived
// NoiseGrpcConn installs the new (keyless) Machine *before* it runs the handshake, and runs the
// handshake on that Machine. If the old Machine stayed in place until success, a rejected
// handshake would leave the object with the previous session's live traffic keys on the
// transport of the rejected peer ("neither side ends up with session keys").
func ruleMachineReplacedFirst(c *Checker, rule string) {
	w := c.w
	fNoise := w.Field("mailbox.NoiseGrpcConn.noise")
	if fNoise == nil {
		c.anchorFail("mailbox.NoiseGrpcConn.noise")
		return
	}
	n := 0
	for _, name := range []string{"(*mailbox.NoiseGrpcConn).ClientHandshake", "(*mailbox.NoiseGrpcConn).ServerHandshake"} {
		fn := w.Func(name)
		if fn == nil {
			c.anchorFail(name)
			continue
		}
		allInstrs(fn, func(in ssa.Instruction) {
			call, ok := in.(*ssa.Call)
			if !ok || !staticCalleeIs(call.Common(), "mailbox", "Machine", "DoHandshake") {
				return
			}
			n++
			dominated := false
			for _, st := range w.Stores(fNoise) {
				if st.Parent() == fn && instrDominates(st, call) {
					dominated = true
				}
			}
			onField := isLoadOfField(call.Common().Args[0], fNoise)
			c.decide(dominated && onField, rule, fnName(fn)+"|the new Machine is installed before the handshake runs", instrPos(call),
				"c.noise is replaced first and DoHandshake runs on c.noise",
				fnName(fn)+" runs the handshake before (or without) replacing c.noise: after a rejected handshake the connection object still holds the previous session's traffic keys, now on the rejected peer's transport")
		})
	}
	if n < 2 {
		c.fail(rule, "handshake entry points|DoHandshake calls", 0, fmt.Sprintf("expected 2 DoHandshake calls, found %d", n))
	}
}

// ruleNILWIRE (C07): the relay hands the endpoint protobuf messages (package hashmailrpc). Every
// sub-message is a pointer that a (malicious or merely terse) relay may leave out: a decoded
// CipherBox without `desc` is valid on the wire. Selecting a field through such a pointer
// (box.Desc.StreamId) instead of the generated nil-safe getters (box.GetDesc().GetStreamId())
// is a nil dereference in the goroutine gbn uses as its receive callback. Every field selection
// through a pointer that was loaded from a field of a hashmailrpc message needs a dominating
// nil test of that pointer.
func ruleNILWIRE(c *Checker) {
	w := c.w
	isRPCStruct := func(t types.Type) bool {
		n := namedOf(deref(t))
		return n != nil && n.Obj().Pkg() != nil && n.Obj().Pkg().Name() == "hashmailrpc"
	}
	nSel, nDeep := 0, 0
	for _, fn := range w.Funcs {
		if w.pkgShort(fn) != targetMbox {
			continue
		}
		allInstrs(fn, func(in ssa.Instruction) {
			fa, ok := in.(*ssa.FieldAddr)
			if !ok || !isRPCStruct(fa.X.Type()) {
				return
			}
			nSel++
			ld, ok := unwrapLoadAlloc(fa.X).(*ssa.UnOp)
			if !ok || ld.Op != token.MUL {
				return
			}
			inner, ok := ld.X.(*ssa.FieldAddr)
			if !ok || !isRPCStruct(inner.X.Type()) {
				return
			}
			nDeep++
			checked := hasFact(fa.Block(), func(f Fact) bool {
				return factRel(f, func(v ssa.Value) bool { return v == ssa.Value(ld) || w.canon(v) == w.canon(ld) }, isNilConst) == "!="
			})
			c.decide(checked, "NILWIRE", fmt.Sprintf("%s|%s selected through a checked pointer", fnName(fn), w.canonFB(fa)), instrPos(fa),
				"the sub-message pointer is tested against nil first",
				"a field is selected through the sub-message pointer "+w.canonFB(ld)+" of a relay message without a nil test: a message that omits the sub-message (valid on the wire) crashes the endpoint - use the generated getters")
		})
	}
	c.decide(nSel >= 4, "NILWIRE", "mailbox|field selections on relay messages examined", token.NoPos,
		fmt.Sprintf("%d field selections on hashmailrpc messages, %d of them through a sub-message pointer", nSel, nDeep),
		fmt.Sprintf("only %d field selections on hashmailrpc messages found", nSel))
}

// ruleFreshSYN (GBNHS-1, C10): the window the server echoes and adopts is the N of the SYN it
// received *last*. serverHandshake deserialises packets at two places (waiting for SYN, waiting
// for SYNACK) and jumps back to the echo code from both; the packet whose N is read there must be
// the result of the most recent Deserialize on every way in. A remembered earlier packet makes
// the server answer a second SYN (another client, another N) with the first one's window.
func ruleFreshSYN(c *Checker, sh *ssa.Function) {
	w := c.w
	isDeser := func(in ssa.Instruction) bool {
		call, ok := in.(*ssa.Call)
		if !ok {
			return false
		}
		sc := call.Common().StaticCallee()
		return sc != nil && sc.Name() == "Deserialize" && sc.Signature.Recv() == nil
	}
	var desers []ssa.Instruction
	allInstrs(sh, func(in ssa.Instruction) {
		if isDeser(in) {
			desers = append(desers, in)
		}
	})
	type arrival struct {
		v   ssa.Value
		end ssa.Instruction // last instruction of the block the value arrives from
	}
	n := 0
	allInstrs(sh, func(in ssa.Instruction) {
		ta, ok := in.(*ssa.TypeAssert)
		if !ok || ta.CommaOk || !isNamedType(deref(ta.AssertedType), "PacketSYN") {
			return
		}
		n++
		var arr []arrival
		seen := map[*ssa.Phi]bool{}
		var expand func(v ssa.Value, at ssa.Instruction)
		expand = func(v ssa.Value, at ssa.Instruction) {
			if phi, ok := v.(*ssa.Phi); ok {
				if seen[phi] {
					return
				}
				seen[phi] = true
				for i, e := range phi.Edges {
					p := phi.Block().Preds[i]
					expand(e, p.Instrs[len(p.Instrs)-1])
				}
				return
			}
			arr = append(arr, arrival{v, at})
		}
		expand(ta.X, in)
		bad := ""
		for _, a := range arr {
			ex, ok := a.v.(*ssa.Extract)
			var d ssa.Instruction
			if ok {
				if call, ok := ex.Tuple.(*ssa.Call); ok && isDeser(call) {
					d = call
				}
			}
			if d == nil {
				if k, ok := a.v.(*ssa.Const); ok && k.Value == nil {
					continue // the zero value of the variable before the first receive (infeasible at the assert)
				}
				bad = "the packet " + w.canonFB(a.v) + " is not the result of a Deserialize call"
				continue
			}
			for _, d2 := range desers {
				if d2 == d {
					continue
				}
				if pathExists(d, d2, nil) && pathExists(d2, a.end, func(x ssa.Instruction) bool { return x == d }) {
					bad = "the packet deserialised at " + w.pos(instrPos(d)) + " is still used although another packet was deserialised at " + w.pos(instrPos(d2)) + " on the way"
				}
			}
		}
		c.decide(bad == "", "GBNHS-1", "serverHandshake|N is read from the SYN received last", instrPos(ta),
			"on every way in, the asserted packet is the result of the most recent Deserialize",
			"serverHandshake reads N from a stale packet ("+bad+"): a second SYN with a different window is answered with, and the handshake completed on, the window of the first")
	})
	if n == 0 {
		c.fail("GBNHS-1", "serverHandshake|N is read from the SYN received last", sh.Pos(), "no assertion to *PacketSYN found")
	}
}

// ruleMnemonicTotal (CODEC-SIB, C17): entropy -> phrase is total over the 11-bit groups. Every
// group value 0..2047 has a word; the only way the encoder may fail is the bit reader failing.
// A range test on the word index that refuses a representable group (an off-by-one against the
// end of the list) leaves entropies the server cannot display as a phrase, and NewPassphraseEntropy
// failing for them. Accepted: an error return carrying ReadBits' own error, or one taken under
// index >= len(DefaultWordList) (dead for 11 bits, harmless).
func ruleMnemonicTotal(c *Checker, fn *ssa.Function) {
	w := c.w
	var readErr []ssa.Value
	var index []ssa.Value
	allInstrs(fn, func(in ssa.Instruction) {
		ex, ok := in.(*ssa.Extract)
		if !ok {
			return
		}
		if call, ok := ex.Tuple.(*ssa.Call); ok && calleeNameIs(call, "ReadBits") {
			if ex.Index == 1 {
				readErr = append(readErr, carriers(ex)...)
			} else {
				index = append(index, carriers(ex)...)
			}
		}
	})
	isIdx := func(v ssa.Value) bool {
		if cv, ok := v.(*ssa.Convert); ok {
			v = cv.X
		}
		for _, i := range index {
			if v == i {
				return true
			}
		}
		return false
	}
	isListLen := func(v ssa.Value) bool {
		if cv, ok := v.(*ssa.Convert); ok {
			v = cv.X
		}
		if k, ok := intConst(v); ok {
			return k == 2048
		}
		call, ok := v.(*ssa.Call)
		if !ok {
			return false
		}
		b, ok := call.Call.Value.(*ssa.Builtin)
		return ok && b.Name() == "len" && strings.Contains(w.canon(call.Call.Args[0]), "DefaultWordList")
	}
	bad := ""
	n := 0
	allInstrs(fn, func(in ssa.Instruction) {
		ret, ok := in.(*ssa.Return)
		if !ok || len(ret.Results) < 2 || ret.Block().Comment == "recover" {
			return
		}
		n++
		for _, e := range expandValues(ret.Results[1]) {
			if isNilConst(e) {
				continue
			}
			fromReader := false
			for _, r := range readErr {
				if e == r {
					fromReader = true
				}
			}
			if fromReader {
				continue
			}
			if hasFact(ret.Block(), func(f Fact) bool { return factRel(f, isIdx, isListLen) == ">=" }) {
				continue
			}
			bad = "error return at " + w.pos(instrPos(ret)) + " (" + w.canonFB(e) + ")"
		}
	})
	c.decide(bad == "" && n > 0 && len(readErr) > 0, "CODEC-SIB", "EntropyToMnemonic|total over the 11-bit groups", fn.Pos(),
		"the only failure is the bit reader's own error",
		"PassphraseEntropyToMnemonic can refuse a representable bit group: "+bad+" - some entropies have no phrase, so entropy and mnemonic are not inverses for them")
}

// machineErrValues: the error result(s) of a call (the call itself when it returns only an error).
func machineErrValues(cl *ssa.Call) []ssa.Value {
	if tup, ok := cl.Type().(*types.Tuple); ok {
		var out []ssa.Value
		if cl.Referrers() != nil {
			for _, r := range *cl.Referrers() {
				if ex, ok := r.(*ssa.Extract); ok && ex.Index == tup.Len()-1 {
					out = append(out, ex)
				}
			}
		}
		return out
	}
	return []ssa.Value{cl}
}

// guardTable: which mutex protects which mutable field of the long-lived mailbox objects. The
// instances were discovered from the tree (every access outside the allocating functions holds
// the mutex), confirmed by reading, and are frozen here (Engler et al.: statistics only to find
// candidates). A later access without the mutex is a data race between the gRPC goroutines, the
// gbn callbacks and the reconnect path.
var guardTable = [][2]string{
	{"mailbox.NoiseGrpcConn.noise", "mailbox.NoiseGrpcConn.proxyConnMtx"},
	{"mailbox.NoiseGrpcConn.ProxyConn", "mailbox.NoiseGrpcConn.proxyConnMtx"},
	{"mailbox.NoiseGrpcConn.nextMsg", "mailbox.NoiseGrpcConn.nextMsgMtx"},
	{"mailbox.ServerConn.receiveStream", "mailbox.ServerConn.receiveStreamMu"},
	{"mailbox.ServerConn.sendStream", "mailbox.ServerConn.sendStreamMu"},
	{"mailbox.ServerConn.status", "mailbox.ServerConn.statusMu"},
	{"mailbox.ClientConn.status", "mailbox.ClientConn.statusMu"},
	{"mailbox.Client.status", "mailbox.Client.statusMu"},
}

// guardExceptions: accesses that hold no mutex and are ordered by something else (one line of
// reason each; keyed by function and field, never by line).
var guardExceptions = map[[2]string]string{
	{"(*mailbox.ServerConn).Close$1", "receiveStream"}: "read after gbnConn.Close() returned: that call joins the gbn goroutines (and the FIN helper) which are the only callers of the callbacks that replace the stream; with gbnConn == nil no callback ever ran",
	{"(*mailbox.ServerConn).Close$1", "sendStream"}:    "as receiveStream: read after gbnConn.Close() has joined every goroutine that can replace the stream",
}

// ruleGuardTable (GUARD): every access to a guarded field outside the functions that allocate the
// struct happens with its mutex must-held (exclusively for a write); the lockset is
// interprocedural (a helper called only with the mutex held inherits it).
func ruleGuardTable(c *Checker, rule string) {
	w := c.w
	var funcs []*ssa.Function
	roots := map[*ssa.Function]bool{}
	for _, fn := range w.Funcs {
		if w.pkgShort(fn) != targetMbox {
			continue
		}
		funcs = append(funcs, fn)
		if sites, closed := w.CallersOf(fn); !closed || len(sites) == 0 {
			roots[fn] = true
		}
	}
	li := w.computeLocks(funcs, roots)
	n := 0
	for _, g := range guardTable {
		f, mu := w.Field(g[0]), w.Field(g[1])
		if f == nil || mu == nil {
			c.anchorFail(g[0] + " / " + g[1])
			continue
		}
		owner := namedOfField(w, g[0])
		for _, fa := range w.FieldAddrs(f) {
			fn := fa.Parent()
			if fa.Referrers() == nil || allocatesNamed(fn, owner) {
				continue
			}
			for _, r := range *fa.Referrers() {
				_, isStore := r.(*ssa.Store)
				if _, isLoad := r.(*ssa.UnOp); !isLoad && !isStore {
					continue
				}
				mode, have := li.At(r)[mu]
				okk := have && (!isStore || mode == lockExcl)
				n++
				kind := map[bool]string{true: "write", false: "read"}[isStore]
				if why, ex := guardExceptions[[2]string{fnName(fn), f.Name()}]; ex && !isStore {
					// the exception is only as good as its reason: the read must come after the gbn Close call
					after := false
					for _, ci := range findCalls(fn, func(ci ssa.CallInstruction) bool {
						return staticCalleeIs(ci.Common(), "gbn", "GoBackNConn", "Close")
					}) {
						if !pathExists(r, ci, nil) {
							after = true
						}
					}
					c.decide(after, rule, fmt.Sprintf("%s|%s in %s ordered by the join in gbn Close", f.Name(), kind, fnName(fn)), instrPos(r), why,
						"the unguarded read of "+f.Name()+" in "+fnName(fn)+" is no longer ordered after gbnConn.Close(): it races with the callback that re-creates the stream")
					continue
				}
				c.decide(okk, rule, fmt.Sprintf("%s|%s under %s in %s", f.Name(), kind, mu.Name(), fnName(fn)), instrPos(r),
					"guarded by "+mu.Name(),
					fmt.Sprintf("%s is accessed (%s) in %s without %s held%s: the field is shared between the gRPC reader/writer goroutines, the gbn callbacks and the reconnect path - a data race", g[0], kind, fnName(fn), mu.Name(), map[bool]string{true: " exclusively", false: ""}[isStore]))
			}
		}
	}
	if n < 20 {
		c.fail(rule, "guard table|accesses examined", 0, fmt.Sprintf("only %d guarded accesses found", n))
	}
}

func namedOfField(w *World, q string) *types.Named {
	i := strings.LastIndex(q, ".")
	return w.Named(q[:i])
}

func allocatesNamed(fn *ssa.Function, n *types.Named) bool {
	found := false
	allInstrs(fn, func(in ssa.Instruction) {
		if al, ok := in.(*ssa.Alloc); ok && namedOf(deref(al.Type())) == n {
			found = true
		}
	})
	return found
}

// ruleCtxAfterCancel (ORDER/RETRY): a function that cancels a context it owns (calls the `cancel`
// field of a struct whose sibling field `ctx` came from the same WithCancel) must not hand that
// very context to another call afterwards - the call is dead on arrival (ServerConn.Stop deletes
// the session's mailboxes on the relay with c.ctx: after cancel() both deletions fail and the old
// rendezvous stays occupied). Checked for every function of both packages.
func ruleCtxAfterCancel(c *Checker, rule string) {
	w := c.w
	n := 0
	for _, fn := range w.Funcs {
		if p := w.pkgShort(fn); p != targetMbox && p != targetGBN {
			continue
		}
		var cancels []ssa.Instruction
		allInstrs(fn, func(in ssa.Instruction) {
			call, ok := in.(*ssa.Call)
			if !ok || call.Common().IsInvoke() {
				return
			}
			ld, ok := unwrapLoadAlloc(call.Common().Value).(*ssa.UnOp)
			if !ok || ld.Op != token.MUL {
				return
			}
			fa, ok := ld.X.(*ssa.FieldAddr)
			if !ok {
				return
			}
			if f := structFieldOf(fa); f != nil && f.Name() == "cancel" {
				cancels = append(cancels, in)
			}
		})
		if len(cancels) == 0 {
			continue
		}
		for _, cn := range cancels {
			call := cn.(*ssa.Call)
			recvFA := unwrapLoadAlloc(call.Common().Value).(*ssa.UnOp).X.(*ssa.FieldAddr)
			n++
			bad := ""
			allInstrs(fn, func(in ssa.Instruction) {
				ci, ok := in.(ssa.CallInstruction)
				if !ok || in == cn {
					return
				}
				if _, isDefer := in.(*ssa.Defer); isDefer {
					return
				}
				for _, a := range ci.Common().Args {
					ld, ok := unwrapLoadAlloc(a).(*ssa.UnOp)
					if !ok || ld.Op != token.MUL {
						continue
					}
					fa, ok := ld.X.(*ssa.FieldAddr)
					if !ok {
						continue
					}
					f := structFieldOf(fa)
					if f == nil || f.Name() != "ctx" || w.canonFB(embeddedRoot(fa.X)) != w.canonFB(embeddedRoot(recvFA.X)) {
						continue
					}
					if pathExists(cn, in, nil) {
						bad = calleeLabel(ci.Common()) + " at " + w.pos(instrPos(in))
					}
				}
			})
			c.decide(bad == "", rule, fnName(fn)+"|the cancelled context is not used afterwards", instrPos(cn),
				"no call receives the struct's ctx after its cancel()",
				fnName(fn)+" hands the context it has just cancelled to "+bad+": that call fails at once (for ServerConn.Stop: the session's mailboxes are never deleted on the relay and the rendezvous stays occupied)")
		}
	}
	if n < 3 {
		c.fail(rule, "cancel sites", 0, fmt.Sprintf("only %d cancel() sites found", n))
	}
}

// ruleSyncerQuit (EXIT, C12): queue.stop() closes queue.quit, and that is the only thing that
// ends syncer.waitForSync / proceedAfterTime early. The channel newQueue hands to newSyncer must
// therefore be the one it stores in queue.quit, made before the hand-over (a nil channel blocks
// for ever: Close then waits out the whole sync timeout and the helper goroutines outlive it).
func ruleSyncerQuit(c *Checker) {
	w := c.w
	nq := w.Func("gbn.newQueue")
	ns := w.Func("gbn.newSyncer")
	fQuit := w.Field("gbn.queue.quit")
	fSQuit := w.Field("gbn.syncer.quit")
	if nq == nil || ns == nil || fQuit == nil || fSQuit == nil {
		c.anchorFail("gbn.newQueue / gbn.newSyncer / queue.quit / syncer.quit")
		return
	}
	// (1) newSyncer stores its quit parameter into syncer.quit
	okStore := false
	for _, st := range w.Stores(fSQuit) {
		if st.Parent() == ns {
			if p, ok := st.Val.(*ssa.Parameter); ok && p.Type().String() == "chan struct{}" {
				okStore = true
			}
		}
	}
	// (2) in newQueue the argument is the channel stored into queue.quit, and that store is a MakeChan
	// that happens before the call
	okArg, why := false, "no call of newSyncer in newQueue"
	for _, ci := range findCalls(nq, func(ci ssa.CallInstruction) bool { return ci.Common().StaticCallee() == ns }) {
		args := ci.Common().Args
		arg := unwrapLoadAlloc(args[len(args)-1])
		why = "the channel handed to newSyncer is " + w.canonFB(arg)
		var mk ssa.Value
		for _, st := range w.Stores(fQuit) {
			if st.Parent() != nq {
				continue
			}
			if _, isMk := st.Val.(*ssa.MakeChan); isMk && instrDominates(st, ci) {
				mk = st.Val
			}
		}
		if mk == nil {
			why = "queue.quit is not made before newSyncer is called"
			continue
		}
		if arg == mk || isLoadOfField(arg, fQuit) {
			okArg = true
		}
	}
	c.decide(okStore && okArg, "EXIT", "newQueue|the syncer waits on the channel queue.stop() closes", nq.Pos(),
		"queue.quit is made first and handed to newSyncer, which stores it",
		"the syncer's quit channel is not the (already made) channel that queue.stop() closes ("+why+"): a Close during the post-resend sync wait is not noticed - wg.Wait() sits out the sync timeout and the proceedAfterTime goroutines outlive Close")
}

// embeddedRoot strips loads of embedded (anonymous) struct fields: for the promoted field c.ctx
// (really c.connKit.ctx) it returns c.
func embeddedRoot(v ssa.Value) ssa.Value {
	for i := 0; i < 4; i++ {
		ld, ok := unwrapLoadAlloc(v).(*ssa.UnOp)
		if !ok || ld.Op != token.MUL {
			return v
		}
		fa, ok := ld.X.(*ssa.FieldAddr)
		if !ok {
			return v
		}
		f := structFieldOf(fa)
		if f == nil || !f.Embedded() {
			return v
		}
		v = fa.X
	}
	return v
}
