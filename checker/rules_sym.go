package main

import (
	"go/token"
	"go/types"

	"golang.org/x/tools/go/ssa"
)

// ruleSYM: the Noise symmetric-state primitives that every transcript rule (HSK-BIND,
// HSK-ORDER, HSK-SIB) treats as given:
//
//	SYM-1 mixHash: handshakeDigest := SHA-256(handshakeDigest || data) - the old digest and
//	      the whole input are both written into one fresh hash, whose Sum replaces the digest.
//	SYM-2 EncryptAndHash: AEAD-encrypts with the current digest as associated data, then
//	      mixes the *ciphertext* into the digest, and returns that ciphertext.
//	SYM-3 DecryptAndHash: AEAD-decrypts with the current digest as associated data; on failure
//	      returns an error and leaves the digest alone; on success mixes the *ciphertext it was
//	      given* into the digest (the sibling of SYM-2: both sides hash the same bytes).
//	SYM-4 mixKey: HKDF over the DH output with the chaining key as salt; the first read
//	      replaces the chaining key, the second the temp key, and the cipher is re-keyed with
//	      the temp key. InitializeSymmetric: digest = SHA-256(protocol name), chaining key =
//	      digest, cipher keyed.
func ruleSYM(c *Checker) {
	w := c.w
	const S = "(*mailbox.symmetricState)."
	mixHash, mixKey := w.Func(S+"mixHash"), w.Func(S+"mixKey")
	eah, dah, initS := w.Func(S+"EncryptAndHash"), w.Func(S+"DecryptAndHash"), w.Func(S+"InitializeSymmetric")
	fDigest := w.Field("mailbox.symmetricState.handshakeDigest")
	fCK := w.Field("mailbox.symmetricState.chainingKey")
	fTK := w.Field("mailbox.symmetricState.tempKey")
	if mixHash == nil || mixKey == nil || eah == nil || dah == nil || initS == nil || fDigest == nil || fCK == nil || fTK == nil {
		c.anchorFail("mailbox.symmetricState (mixHash/mixKey/EncryptAndHash/DecryptAndHash/InitializeSymmetric, handshakeDigest/chainingKey/tempKey)")
		return
	}
	// is v a slice (x[:]) of receiver field f?
	sliceOfField := func(fn *ssa.Function, v ssa.Value, f *types.Var) bool {
		sl, ok := unwrapLoadAlloc(v).(*ssa.Slice)
		if !ok {
			return false
		}
		fa, ok := sl.X.(*ssa.FieldAddr)
		return ok && structFieldOf(fa) == f && sl.Low == nil && sl.High == nil
	}
	// ---- SYM-1 ----
	{
		var newHash *ssa.Call
		var writes []*ssa.Call
		var sum *ssa.Call
		var cp *ssa.Call
		allInstrs(mixHash, func(in ssa.Instruction) {
			call, ok := in.(*ssa.Call)
			if !ok {
				return
			}
			cc := call.Common()
			switch {
			case staticCalleeIs(cc, "crypto/sha256", "", "New"):
				newHash = call
			case cc.IsInvoke() && cc.Method.Name() == "Write":
				writes = append(writes, call)
			case cc.IsInvoke() && cc.Method.Name() == "Sum":
				sum = call
			default:
				if b, ok := cc.Value.(*ssa.Builtin); ok && b.Name() == "copy" {
					cp = call
				}
			}
		})
		okk := newHash != nil && len(writes) == 2 && sum != nil && cp != nil
		if okk {
			okk = writes[0].Common().Value == ssa.Value(newHash) && writes[1].Common().Value == ssa.Value(newHash) && sum.Common().Value == ssa.Value(newHash) &&
				sliceOfField(mixHash, writes[0].Common().Args[0], fDigest) && writes[1].Common().Args[0] == ssa.Value(mixHash.Params[1]) &&
				instrDominates(writes[0], writes[1]) && instrDominates(writes[1], sum) &&
				sliceOfField(mixHash, cp.Common().Args[0], fDigest) && cp.Common().Args[1] == ssa.Value(sum) && len(mixHash.Blocks) == 1
		}
		c.decide(okk, "SYM-1", "mixHash|digest = SHA-256(digest || data)", mixHash.Pos(), "one fresh SHA-256; old digest, then the whole input; Sum copied over the digest",
			"mixHash does not fold the previous digest and the whole input into the new digest: parts of the handshake are no longer bound into the transcript")
	}
	// ---- SYM-2 / SYM-3 ----
	adIsDigest := func(fn *ssa.Function, call ssa.CallInstruction) bool {
		a := call.Common().Args
		return len(a) >= 2 && sliceOfField(fn, a[1], fDigest)
	}
	{
		encs := findCalls(eah, func(ci ssa.CallInstruction) bool { return calleeNameIsCI(ci, "Encrypt") })
		mixes := findCalls(eah, func(ci ssa.CallInstruction) bool { return ci.Common().StaticCallee() == mixHash })
		okk := len(encs) == 1 && len(mixes) == 1 && len(eah.Blocks) == 1
		if okk {
			enc := encs[0].(*ssa.Call)
			okk = adIsDigest(eah, enc) && enc.Common().Args[len(enc.Common().Args)-1] == ssa.Value(eah.Params[1]) &&
				mixes[0].Common().Args[1] == ssa.Value(enc) && instrDominates(enc, mixes[0])
			// sealed into a buffer of its own: the plaintext is the caller's (the responder's stored
			// auth payload, sent again on every reconnect) and must not be overwritten with ciphertext
			if a := enc.Common().Args; len(a) == 4 && !isNilConst(a[2]) {
				okk = false
			}
			allInstrs(eah, func(in ssa.Instruction) {
				if ret, ok := in.(*ssa.Return); ok && unwrapLoadAlloc(ret.Results[0]) != ssa.Value(enc) {
					okk = false
				}
			})
		}
		c.decide(okk, "SYM-2", "EncryptAndHash|AD = digest, ciphertext hashed and returned", eah.Pos(), "Encrypt(digest, plaintext) -> mixHash(ciphertext) -> return ciphertext",
			"EncryptAndHash does not authenticate under the running digest or does not hash the ciphertext it returns: the transcript of the two sides diverges or stops covering this message")
	}
	{
		decs := findCalls(dah, func(ci ssa.CallInstruction) bool { return calleeNameIsCI(ci, "Decrypt") })
		mixes := findCalls(dah, func(ci ssa.CallInstruction) bool { return ci.Common().StaticCallee() == mixHash })
		okk := len(decs) == 1 && len(mixes) == 1
		why := ""
		if okk {
			dec := decs[0].(*ssa.Call)
			e, w2 := errCheckedAndReturned(dec, 1)
			why = w2
			okk = e && adIsDigest(dah, dec) && dec.Common().Args[len(dec.Common().Args)-1] == ssa.Value(dah.Params[1]) &&
				mixes[0].Common().Args[1] == ssa.Value(dah.Params[1])
			// opened into a buffer of its own: the ciphertext is hashed AFTER the decryption
			if a := dec.Common().Args; len(a) == 4 && !isNilConst(a[2]) {
				okk = false
			}
			// the digest is only touched after a successful decryption
			var errv ssa.Value
			for _, r := range *dec.Referrers() {
				if ex, ok := r.(*ssa.Extract); ok && ex.Index == 1 {
					errv = ex
				}
			}
			okk = okk && errv != nil && hasFact(mixes[0].Block(), func(f Fact) bool {
				return factRel(f, isCarrierOf(errv), isNilConst) == "=="
			})
			// success returns the plaintext of that decryption
			allInstrs(dah, func(in ssa.Instruction) {
				ret, ok := in.(*ssa.Return)
				if !ok || !isNilConst(ret.Results[1]) {
					return
				}
				ex, ok := unwrapLoadAlloc(ret.Results[0]).(*ssa.Extract)
				if !ok || ex.Tuple != ssa.Value(dec) || ex.Index != 0 || !instrDominates(mixes[0], ret) {
					okk = false
				}
			})
		}
		c.decide(okk, "SYM-3", "DecryptAndHash|AD = digest, error first, the given ciphertext hashed", dah.Pos(), "Decrypt(digest, ciphertext); on success mixHash(ciphertext) and the plaintext is returned",
			"DecryptAndHash does not verify under the running digest, touches the digest on failure, or hashes something other than the ciphertext it was given ("+why+"): the two transcripts diverge or a forged message is bound")
	}
	// ---- SYM-4 ----
	{
		hk := findCalls(mixKey, func(ci ssa.CallInstruction) bool {
			return staticCalleeIs(ci.Common(), "golang.org/x/crypto/hkdf", "", "New")
		})
		var reads []*ssa.Call
		allInstrs(mixKey, func(in ssa.Instruction) {
			if call, ok := in.(*ssa.Call); ok && call.Common().IsInvoke() && call.Common().Method.Name() == "Read" {
				reads = append(reads, call)
			}
		})
		inits := findCalls(mixKey, func(ci ssa.CallInstruction) bool { return calleeNameIsCI(ci, "InitializeKey") })
		okk := len(hk) == 1 && len(reads) == 2 && len(inits) == 1
		if okk {
			h := hk[0].(*ssa.Call)
			a := h.Common().Args
			// hkdf.New(hash, secret, salt, info): secret = input, salt = a copy of the chaining key taken before the reads
			secretOK := unwrapLoadAlloc(a[1]) == ssa.Value(mixKey.Params[1])
			saltOK := false
			if sl, ok := unwrapLoadAlloc(a[2]).(*ssa.Slice); ok {
				if al, ok := sl.X.(*ssa.Alloc); ok {
					for _, r := range *al.Referrers() {
						if st, ok := r.(*ssa.Store); ok && st.Addr == ssa.Value(al) && isLoadOfField(st.Val, fCK) && instrDominates(st, h) {
							saltOK = true
						}
					}
				}
				if fa, ok := sl.X.(*ssa.FieldAddr); ok && structFieldOf(fa) == fCK {
					saltOK = true
				}
			}
			okk = secretOK && saltOK && reads[0].Common().Value == ssa.Value(h) && reads[1].Common().Value == ssa.Value(h) &&
				sliceOfField(mixKey, reads[0].Common().Args[0], fCK) && sliceOfField(mixKey, reads[1].Common().Args[0], fTK) &&
				instrDominates(reads[0], reads[1]) && instrDominates(reads[1], inits[0]) && isLoadOfField(inits[0].Common().Args[1], fTK)
		}
		c.decide(okk, "SYM-4", "mixKey|HKDF(salt = chaining key, secret = input) -> chaining key, temp key, re-key", mixKey.Pos(), "first read replaces the chaining key, second the temp key, InitializeKey(tempKey)",
			"mixKey does not ratchet the chaining key with the DH output as Noise prescribes (HKDF over the whole input with the chaining key as salt; ck first, k second; cipher re-keyed)")
		// InitializeSymmetric
		okI := false
		var sumCall *ssa.Call
		allInstrs(initS, func(in ssa.Instruction) {
			if call, ok := in.(*ssa.Call); ok && staticCalleeIs(call.Common(), "crypto/sha256", "", "Sum256") && call.Common().Args[0] == ssa.Value(initS.Params[1]) {
				sumCall = call
			}
		})
		if sumCall != nil {
			dOK, cOK := false, false
			for _, st := range w.Stores(fDigest) {
				if st.Parent() == initS && st.Val == ssa.Value(sumCall) {
					dOK = true
				}
			}
			for _, st := range w.Stores(fCK) {
				if st.Parent() == initS && (st.Val == ssa.Value(sumCall) || isLoadOfField(st.Val, fDigest)) {
					cOK = true
				}
			}
			okI = dOK && cOK && len(findCalls(initS, func(ci ssa.CallInstruction) bool { return calleeNameIsCI(ci, "InitializeKey") })) == 1
		}
		c.decide(okI, "SYM-4", "InitializeSymmetric|digest = chaining key = SHA-256(protocol name)", initS.Pos(), "both start from the hash of the whole protocol name; cipher keyed",
			"the symmetric state does not start from SHA-256(protocol name) for both the digest and the chaining key")
	}
	_ = token.NoPos
	c.floor("SYM-1", 1)
	c.floor("SYM-2", 1)
	c.floor("SYM-3", 1)
	c.floor("SYM-4", 2)
}
