package main

import (
	"fmt"
	"go/token"
	"go/types"
	"strings"

	"golang.org/x/tools/go/ssa"
)

// ---------------------------------------------------------------------------
// C06: progress or visible failure (the wiring that liveness needs).

func init() {
	register("C06",
		"WAKE: every potentially unbounded wait of the send goroutine (enumerated over the same-goroutine call graph) has a case on resendTicker.C or on resendSignal whose body reaches queue.resend, or is itself timer-bounded - tail loss is repaired wherever the loop waits. BOUNDED: the waits inside the resend path (syncer.waitForSync, proceedAfterTime) have a timer and a quit alternative. QUIESCE: queue.resend transmits only under the fact base != top (nothing is retransmitted once everything is acknowledged) and the resend ticker is re-armed after each resend. NACKWIRE: in the receive loop a NACK that asks for a resend reaches a non-blocking send on resendSignal (capacity >= 1) on every path, a valid ACK reaches a non-blocking send on receivedACKSignal, the window-full loop re-tests size() < n before every wait, and the receiver suppresses a NACK only under a time-bounded fact. RATELIMIT: queue.resend is skipped only while the last resend is recent or the queue is empty, and lastResend is refreshed only by a real resend. KA and TICK (as C13) and WIN-4 (as C01) are re-checked here, and the obligations of C18 (no lock-order deadlock or race in gbn) and C09 (exact window accounting) are imported as LAYER/<id>:<rule>, because the property also promises a visible failure with keepalive on and an end to retransmission once everything is acknowledged. STARVE: outside the send goroutine the resend ticker is restarted only under the fact that an ACK/NACK made progress on our own queue, so inbound traffic cannot postpone a retransmission forever. Not decided: bounds on delivery time, absence of livelock between syncer, NACK back-off and resend (liveness over all schedules is out of reach of a static argument here).",
		[]string{"time.Ticker delivers a tick on C at most one period after Reset"},
		runC06)
}

// reachesCall: some path from block b reaches a call whose callee (transitively, same goroutine) is target.
func reachesFunc(w *World, b *ssa.BasicBlock, target *ssa.Function) bool {
	seen := map[*ssa.BasicBlock]bool{}
	var walk func(b *ssa.BasicBlock) bool
	walk = func(b *ssa.BasicBlock) bool {
		if seen[b] {
			return false
		}
		seen[b] = true
		for _, in := range b.Instrs {
			if ci, ok := in.(ssa.CallInstruction); ok {
				if _, isGo := in.(*ssa.Go); isGo {
					continue
				}
				for _, cal := range w.Callees(ci) {
					if cal == target || w.ReachableSameGoroutine(cal)[target] {
						return true
					}
				}
			}
		}
		for _, s := range b.Succs {
			if walk(s) {
				return true
			}
		}
		return false
	}
	return walk(b)
}

// callsInLeg: the case body reaches target before leaving the dominated region.
func legCalls(w *World, body *ssa.BasicBlock, target *ssa.Function) bool {
	if len(body.Preds) != 1 {
		// the case has no block of its own (e.g. a bare continue): empty leg
		return false
	}
	for _, b := range body.Parent().Blocks {
		if b != body && !body.Dominates(b) {
			continue
		}
		for _, in := range b.Instrs {
			if ci, ok := in.(ssa.CallInstruction); ok {
				if _, isGo := in.(*ssa.Go); isGo {
					continue
				}
				for _, cal := range w.Callees(ci) {
					if cal == target || w.ReachableSameGoroutine(cal)[target] {
						return true
					}
				}
			}
		}
	}
	return false
}

func runC06(c *Checker) {
	w := c.w
	sl := w.Func("(*gbn.GoBackNConn).sendPacketsForever")
	rl := w.Func("(*gbn.GoBackNConn).receivePacketsForever")
	resend := w.Func("(*gbn.queue).resend")
	size := w.Func("(*gbn.queue).size")
	pACK := w.Func("(*gbn.queue).processACK")
	pNACK := w.Func("(*gbn.queue).processNACK")
	fResendT := w.Field("gbn.GoBackNConn.resendTicker")
	fResendSig := w.Field("gbn.GoBackNConn.resendSignal")
	fACKSig := w.Field("gbn.GoBackNConn.receivedACKSignal")
	fN := w.Field("gbn.config.n")
	fBase := w.Field("gbn.queue.sequenceBase")
	fTop := w.Field("gbn.queue.sequenceTop")
	if sl == nil || rl == nil || resend == nil || size == nil || pACK == nil || pNACK == nil || fResendT == nil || fResendSig == nil || fACKSig == nil || fN == nil || fBase == nil || fTop == nil {
		c.anchorFail("send/receive loops, queue.resend/size/processACK/processNACK, resendTicker/resendSignal/receivedACKSignal")
		return
	}

	// ---- WAKE / BOUNDED ----
	reach := w.ReachableSameGoroutine(sl)
	var windowSel *ssa.Select
	for fn := range reach {
		if w.pkgShort(fn) != targetGBN {
			continue
		}
		inResendPath := fn == resend || w.ReachableSameGoroutine(resend)[fn]
		for _, bp := range w.blockingPoints(fn) {
			if bp.Kind != "select" {
				continue
			}
			var descs []string
			for _, sc := range bp.Cases {
				descs = append(descs, map[bool]string{true: "send:", false: ""}[sc.IsSend]+sc.Desc)
			}
			key := fmt.Sprintf("%s|select{%s}", fnName(fn), strings.Join(descs, ","))
			hasTimer := caseOn(bp.Cases, "time.After()") != nil
			hasQuit := false
			for _, sc := range bp.Cases {
				if f := chanField(sc.Chan); f != nil && f.Name() == "quit" && !sc.IsSend {
					hasQuit = true
				}
			}
			if inResendPath && fn != sl {
				c.decide(hasTimer && hasQuit, "BOUNDED", key, instrPos(bp.Instr), "timer and quit alternatives",
					fmt.Sprintf("a wait inside the resend path is not bounded (timer:%v quit:%v): the send loop can stall in a resend", hasTimer, hasQuit))
				continue
			}
			tick := caseOn(bp.Cases, "resendTicker.C")
			sig := caseOn(bp.Cases, "resendSignal")
			okTick := tick != nil && tick.Body != nil && legCalls(w, tick.Body, resend)
			okSig := sig != nil && sig.Body != nil && legCalls(w, sig.Body, resend)
			switch {
			case okTick && okSig:
				c.ok("WAKE", key, instrPos(bp.Instr), "resendTicker.C and resendSignal cases both reach queue.resend")
			case hasTimer:
				c.ok("WAKE", key, instrPos(bp.Instr), "timer-bounded wait")
			default:
				c.fail("WAKE", key, instrPos(bp.Instr), fmt.Sprintf("an unbounded wait of the send goroutine that the resend timer / a NACK cannot wake into a resend (ticker case reaches resend:%v, signal case reaches resend:%v): a lost tail packet is never retransmitted while the loop waits here", okTick, okSig))
			}
			if fn == sl && caseOn(bp.Cases, "receivedACKSignal") != nil {
				windowSel = bp.Instr.(*ssa.Select)
			}
		}
	}
	c.floor("WAKE", 2)
	c.floor("BOUNDED", 1)
	// proceedAfterTime runs in its own goroutine but is part of the resend sync
	if pat := w.Func("(*gbn.syncer).proceedAfterTime"); pat != nil {
		for _, bp := range w.blockingPoints(pat) {
			if bp.Kind != "select" {
				continue
			}
			hasTimer := caseOn(bp.Cases, "time.After()") != nil
			hasQuit := false
			for _, sc := range bp.Cases {
				if f := chanField(sc.Chan); f != nil && f.Name() == "quit" {
					hasQuit = true
				}
			}
			c.decide(hasTimer && hasQuit, "BOUNDED", fnName(pat)+"|select", instrPos(bp.Instr), "timer and quit alternatives", "proceedAfterTime can wait forever")
		}
	} else {
		c.anchorFail("(*gbn.syncer).proceedAfterTime")
	}

	// ---- QUIESCE ----
	nSend := 0
	allInstrs(resend, func(in ssa.Instruction) {
		call, ok := in.(*ssa.Call)
		if !ok {
			return
		}
		f := chanField(call.Common().Value)
		if f == nil || f.Name() != "sendPkt" {
			return
		}
		nSend++
		// the index of the packet being retransmitted
		var idx ssa.Value
		if len(call.Common().Args) == 1 {
			if u, ok := unwrapLoadAlloc(call.Common().Args[0]).(*ssa.UnOp); ok && u.Op == token.MUL {
				if ia, ok := u.X.(*ssa.IndexAddr); ok {
					idx = ia.Index
				}
			}
		}
		guarded := idx != nil && hasFact(call.Block(), func(ft Fact) bool {
			bo, ok := ft.Cond.(*ssa.BinOp)
			if !ok {
				return false
			}
			ne := (bo.Op == token.NEQ && ft.Val) || (bo.Op == token.EQL && !ft.Val)
			if !ne {
				return false
			}
			return bo.X == idx && derivesFromField(bo.Y, fTop, 0) && derivesFromField(bo.X, fBase, 0) ||
				bo.Y == idx && derivesFromField(bo.X, fTop, 0) && derivesFromField(bo.Y, fBase, 0)
		})
		c.decide(guarded, "QUIESCE", "queue.resend|transmit only if base != top", instrPos(call), "every retransmission of content[i] is dominated by i != top",
			"queue.resend can transmit although the queue is empty: the connection keeps retransmitting after everything was acknowledged")
	})
	if nSend == 0 {
		c.fail("QUIESCE", "queue.resend|transmit", resend.Pos(), "queue.resend never transmits")
	}
	// the resend ticker is re-armed after every resend of the send goroutine: whichever
	// function of the send goroutine calls queue.resend (a closure of the loop, a method,
	// or the loop itself), no path leads from that call to a nil return of the function
	// without passing resendTicker.Reset
	nRQ := 0
	for fn := range w.ReachableSameGoroutine(sl) {
		fn := fn
		rcs := findCalls(fn, func(ci ssa.CallInstruction) bool { return ci.Common().StaticCallee() == resend })
		if len(rcs) == 0 {
			continue
		}
		isReset := func(in ssa.Instruction) bool {
			ci, ok := in.(ssa.CallInstruction)
			if !ok {
				return false
			}
			sc := ci.Common().StaticCallee()
			return sc != nil && isMethod(sc, "time", "Ticker", "Reset") && len(ci.Common().Args) > 0 && fieldOfValue(ci.Common().Args[0]) == fResendT
		}
		for _, rc := range rcs {
			nRQ++
			rc := rc
			ret := pathToReturn(rc, func(r *ssa.Return) bool {
				if len(r.Results) == 0 {
					return true
				}
				return isNilConst(r.Results[len(r.Results)-1])
			}, isReset)
			hasReset := len(findCalls(fn, func(ci ssa.CallInstruction) bool { return isReset(ci) })) > 0
			c.decide(ret == nil && hasReset, "QUIESCE", "resendQueue|ticker re-armed after resend", fn.Pos(), "resendTicker.Reset follows queue.resend on every way to a successful return", "the resend ticker is not re-armed after a resend")
		}
	}
	if nRQ == 0 {
		c.fail("QUIESCE", "resendQueue|closure", sl.Pos(), "no function of the send goroutine calls queue.resend")
	}
	c.floor("QUIESCE", 2)

	// ---- RATELIMIT: resend may only be skipped while the previous resend is recent ----
	fLast := w.Field("gbn.queue.lastResend")
	if fLast == nil {
		c.anchorFail("gbn.queue.lastResend")
	} else {
		// every nil return that precedes the transmissions is under: recent resend, or empty queue
		recent := func(f Fact) bool {
			bo, ok := f.Cond.(*ssa.BinOp)
			if !ok || !f.Val || bo.Op != token.LSS {
				return false
			}
			call, ok := unwrapLoadAlloc(bo.X).(*ssa.Call)
			return ok && staticCalleeIs(call.Common(), "time", "", "Since") && isLoadOfField(call.Common().Args[0], fLast)
		}
		empty := func(f Fact) bool {
			bo, ok := f.Cond.(*ssa.BinOp)
			if !ok || !f.Val || bo.Op != token.EQL {
				return false
			}
			if call, ok := bo.X.(*ssa.Call); ok && call.Common().StaticCallee() == size {
				k, ok := intConst(bo.Y)
				return ok && k == 0
			}
			return derivesFromField(bo.X, fBase, 0) && derivesFromField(bo.Y, fTop, 0) || derivesFromField(bo.X, fTop, 0) && derivesFromField(bo.Y, fBase, 0)
		}
		var sends []ssa.Instruction
		allInstrs(resend, func(in ssa.Instruction) {
			if call, ok := in.(*ssa.Call); ok {
				if f := chanField(call.Common().Value); f != nil && f.Name() == "sendPkt" {
					sends = append(sends, in)
				}
			}
		})
		okk := len(sends) > 0
		allInstrs(resend, func(in ssa.Instruction) {
			ret, ok := in.(*ssa.Return)
			if !ok {
				return
			}
			// early returns: not reachable from a transmission
			for _, sd := range sends {
				if pathExists(sd, ret, nil) {
					return
				}
			}
			if !(hasFact(ret.Block(), recent) || hasFact(ret.Block(), empty)) {
				okk = false
			}
		})
		// lastResend is refreshed only when a resend actually starts (not on the skipped calls)
		for _, st := range w.Stores(fLast) {
			if st.Parent() != resend {
				c.fail("RATELIMIT", "lastResend|written in "+fnName(st.Parent()), instrPos(st), "lastResend is written outside queue.resend")
				continue
			}
			if hasFact(st.Block(), recent) {
				okk = false
			}
			// ... i.e. once lastResend is refreshed the packets are transmitted: the only way to a
			// return without a transmission is an (by now) empty queue
			isSend := func(in ssa.Instruction) bool {
				for _, sd := range sends {
					if in == sd {
						return true
					}
				}
				return false
			}
			if returnReachableSkippingLoopBody(st, func(r *ssa.Return) bool { return !hasFact(r.Block(), empty) }, isSend) {
				okk = false
			}
		}
		c.decide(okk, "RATELIMIT", "queue.resend|skipped only while the last resend is recent or the queue is empty", resend.Pos(),
			"every early nil return is under time.Since(lastResend) < timeout or an empty queue; lastResend is refreshed only by a real resend",
			"queue.resend can be skipped although the last resend is old and packets are outstanding (or lastResend is refreshed by skipped calls): retransmission stops")
	}
	c.floor("RATELIMIT", 1)

	// ---- NACKWIRE ----
	head := loopHeadOf(rl)
	capk, okc := w.chanCapacity(fieldLoadIn(rl, fResendSig))
	c.decide(okc && capk >= 1, "NACKWIRE", "resendSignal|buffered", rl.Pos(), fmt.Sprintf("resendSignal has capacity %d", capk),
		"resendSignal is unbuffered: a resend request arriving while the send loop is busy is dropped")
	nonBlockingSendOn := func(fn *ssa.Function, f *types.Var) []ssa.Instruction {
		var out []ssa.Instruction
		allInstrs(fn, func(in ssa.Instruction) {
			sel, ok := in.(*ssa.Select)
			if !ok || sel.Blocking {
				return
			}
			cases, _ := w.selectCases(sel)
			for _, sc := range cases {
				if sc.IsSend && chanField(sc.Chan) == f {
					out = append(out, sel)
				}
			}
		})
		return out
	}
	isAny := func(xs []ssa.Instruction) func(ssa.Instruction) bool {
		return func(in ssa.Instruction) bool {
			for _, x := range xs {
				if in == x {
					return true
				}
			}
			return false
		}
	}
	// NACK leg
	for _, ci := range findCalls(rl, func(ci ssa.CallInstruction) bool { return ci.Common().StaticCallee() == pNACK }) {
		call := ci.(*ssa.Call)
		var should ssa.Value
		for _, r := range *call.Referrers() {
			if ex, ok := r.(*ssa.Extract); ok && ex.Index == 0 {
				should = ex
			}
		}
		sends := nonBlockingSendOn(rl, fResendSig)
		okk := should != nil && len(sends) > 0 && head != nil
		if okk {
			// from every block where shouldResend is known true, the path to the loop head passes the send
			for _, b := range rl.Blocks {
				if !hasFact(b, func(f Fact) bool { return f.Cond == should && f.Val }) || len(b.Instrs) == 0 {
					continue
				}
				if isAny(sends)(b.Instrs[0]) {
					continue
				}
				if pathToBlocks(b.Instrs[0], func(x *ssa.BasicBlock) bool { return x == head }, isAny(sends)) != nil {
					// only count blocks that are entries of the region (single pred outside)
					entry := false
					for _, p := range b.Preds {
						if !hasFact(p, func(f Fact) bool { return f.Cond == should && f.Val }) {
							entry = true
						}
					}
					if entry {
						okk = false
					}
				}
			}
			// and the region exists
			exists := false
			for _, b := range rl.Blocks {
				if hasFact(b, func(f Fact) bool { return f.Cond == should && f.Val }) {
					exists = true
				}
			}
			okk = okk && exists
		}
		c.decide(okk, "NACKWIRE", "receiveLoop|NACK -> resendSignal", instrPos(call), "on shouldResend every path to the next iteration passes a non-blocking send on resendSignal",
			"a NACK that requires a resend does not always signal the send loop: the retransmission waits for the timer or never happens")
	}
	// ACK leg
	for _, ci := range findCalls(rl, func(ci ssa.CallInstruction) bool { return ci.Common().StaticCallee() == pACK }) {
		call := ci.(*ssa.Call)
		sends := nonBlockingSendOn(rl, fACKSig)
		okk := len(sends) > 0 && head != nil
		exists := false
		for _, b := range rl.Blocks {
			if !hasFact(b, func(f Fact) bool { return f.Cond == ssa.Value(call) && f.Val }) || len(b.Instrs) == 0 {
				continue
			}
			exists = true
			entry := false
			for _, p := range b.Preds {
				if !hasFact(p, func(f Fact) bool { return f.Cond == ssa.Value(call) && f.Val }) {
					entry = true
				}
			}
			if entry && !isAny(sends)(b.Instrs[0]) && pathToBlocks(b.Instrs[0], func(x *ssa.BasicBlock) bool { return x == head }, isAny(sends)) != nil {
				okk = false
			}
		}
		c.decide(okk && exists, "NACKWIRE", "receiveLoop|valid ACK -> receivedACKSignal", instrPos(call), "on a valid ACK every path to the next iteration passes a non-blocking send on receivedACKSignal",
			"a valid ACK does not always wake the window-full wait")
	}
	// window-full loop re-tests size() < n
	if windowSel == nil {
		c.fail("NACKWIRE", "window-full|select", sl.Pos(), "the window-full wait (select with receivedACKSignal) was not found")
	} else {
		sizeCalls := findCalls(sl, func(ci ssa.CallInstruction) bool { return ci.Common().StaticCallee() == size })
		isSize := func(in ssa.Instruction) bool {
			for _, x := range sizeCalls {
				if in == ssa.Instruction(x) {
					return true
				}
			}
			return false
		}
		again := pathExists(windowSel, windowSel, isSize)
		isSizeCall := func(v ssa.Value) bool {
			call, ok := v.(*ssa.Call)
			return ok && call.Common().StaticCallee() == size
		}
		full := hasFact(windowSel.Block(), func(f Fact) bool {
			return factRel(f, isSizeCall, func(v ssa.Value) bool { return isLoadOfField(v, fN) }) == ">="
		})
		c.decide(!again && full, "NACKWIRE", "window-full|level-triggered", instrPos(windowSel), "the wait is entered only under size() >= n and size() is re-tested before every further wait",
			"the window-full wait is edge-triggered: a dropped signal blocks the sender although the window has room")
	}
	// NACK suppression only under a time-bounded fact
	checkNackSuppression(c, rl, head)
	c.floor("NACKWIRE", 5)

	// ---- STARVE ----
	sendSide := w.ReachableSameGoroutine(sl)
	nReset := 0
	for _, fn := range w.Funcs {
		if w.pkgShort(fn) != targetGBN || sendSide[fn] {
			continue
		}
		for _, ci := range findCalls(fn, func(ci ssa.CallInstruction) bool {
			sc := ci.Common().StaticCallee()
			return sc != nil && isMethod(sc, "time", "Ticker", "Reset") && fieldOfValue(ci.Common().Args[0]) == fResendT
		}) {
			nReset++
			progress := hasFact(ci.Block(), func(f Fact) bool {
				if !f.Val {
					return false
				}
				if call, ok := f.Cond.(*ssa.Call); ok && (call.Common().StaticCallee() == pACK) {
					return true
				}
				if ex, ok := f.Cond.(*ssa.Extract); ok {
					if call, ok := ex.Tuple.(*ssa.Call); ok && call.Common().StaticCallee() == pNACK {
						return true
					}
				}
				return false
			})
			c.decide(progress, "STARVE", "resendTicker.Reset|"+fnName(fn), instrPos(ci), "dominated by a true result of processACK/processNACK (progress on our own queue)",
				"the resend timer is restarted by inbound traffic that does not acknowledge our data: steady inbound packets starve the retransmission of a lost packet")
		}
	}
	if nReset == 0 {
		c.ok("STARVE", "resendTicker.Reset|none outside the send goroutine", rl.Pos(), "only the send goroutine restarts the resend timer")
	}
	c.floor("STARVE", 1)

	// 'with keepalive enabled the calls of both endpoints fail within a bounded time': the keepalive wiring
	ruleKA(c)
	ruleTICK(c)
	// progress needs the goroutines to be able to run at all (no lock-order deadlock, no race on the
	// window state: C18) and the window accounting to be exact (C09: size(), admission, sequence
	// space) - their obligations are part of this check under LAYER/<id>:<rule>
	importLayers(c, "C18", "C09", "C01", "C12")
	// 'stops retransmitting once everything has been acknowledged' also needs the base moves to be honoured
	ruleWIN4(c)
}

// derivesFromField: v is a load of f or a phi/modular step of one.
func derivesFromField(v ssa.Value, f *types.Var, d int) bool {
	v = unwrapLoadAlloc(v)
	if d > 6 {
		return false
	}
	if isLoadOfField(v, f) {
		return true
	}
	switch x := v.(type) {
	case *ssa.Phi:
		for _, e := range x.Edges {
			if e != v && derivesFromField(e, f, d+1) {
				return true
			}
		}
	}
	return false
}

// loopHeadOf returns the outermost loop header (a block with a back edge that dominates the most blocks).
func loopHeadOf(fn *ssa.Function) *ssa.BasicBlock {
	var head *ssa.BasicBlock
	for _, b := range fn.Blocks {
		for _, p := range b.Preds {
			if b.Dominates(p) { // back edge p->b
				if head == nil || b.Dominates(head) {
					head = b
				}
			}
		}
	}
	return head
}

// fieldLoadIn returns some load of field f inside fn (for capacity lookup).
func fieldLoadIn(fn *ssa.Function, f *types.Var) ssa.Value {
	var res ssa.Value
	allInstrs(fn, func(in ssa.Instruction) {
		if u, ok := in.(*ssa.UnOp); ok && u.Op == token.MUL && res == nil {
			if fa, ok := u.X.(*ssa.FieldAddr); ok && structFieldOf(fa) == f {
				res = u
			}
		}
	})
	return res
}

// checkNackSuppression: on the unexpected-sequence leg, a path to the next
// iteration that sends no NACK exists only under a fact time.Since(...) < X.
func checkNackSuppression(c *Checker, rl *ssa.Function, head *ssa.BasicBlock) {
	w := c.w
	isNackSend := func(ci ssa.CallInstruction) bool {
		sc := ci.Common().StaticCallee()
		if sc == nil || sc.Name() != "sendPacket" {
			return false
		}
		for _, a := range ci.Common().Args {
			if mi, ok := a.(*ssa.MakeInterface); ok {
				if n := namedOf(mi.X.Type()); n != nil && n.Obj().Name() == "PacketNACK" {
					return true
				}
			}
		}
		return false
	}
	var nackSends []ssa.Instruction
	for _, ci := range findCalls(rl, func(ci ssa.CallInstruction) bool {
		if isNackSend(ci) {
			return true
		}
		// a helper of the connection that sends the NACK
		for _, cal := range w.Callees(ci) {
			if w.pkgShort(cal) == targetGBN && cal != rl && len(findCalls(cal, isNackSend)) > 0 {
				return true
			}
		}
		return false
	}) {
		nackSends = append(nackSends, ci)
	}
	if len(nackSends) == 0 || head == nil {
		c.fail("NACKWIRE", "receiveLoop|NACK send", rl.Pos(), "the receive loop never sends a NACK")
		return
	}
	fSeq := w.Field("gbn.PacketData.Seq")
	fRecvSeq := w.Field("gbn.GoBackNConn.recvSeq")
	// entry blocks of the mismatch leg: blocks with the fact (Seq == recvSeq) false
	mismatch := func(f Fact) bool {
		bo, ok := f.Cond.(*ssa.BinOp)
		if !ok || bo.Op != token.EQL || f.Val {
			return false
		}
		return isLoadOfField(bo.X, fSeq) && isLoadOfField(bo.Y, fRecvSeq) || isLoadOfField(bo.Y, fSeq) && isLoadOfField(bo.X, fRecvSeq)
	}
	timeBounded := func(b *ssa.BasicBlock) bool {
		return hasFact(b, func(f Fact) bool {
			if !f.Val {
				return false
			}
			bo, ok := unwrapLoadAlloc(f.Cond).(*ssa.BinOp)
			if !ok || bo.Op != token.LSS {
				return false
			}
			call, ok := unwrapLoadAlloc(bo.X).(*ssa.Call)
			return ok && staticCalleeIs(call.Common(), "time", "", "Since")
		})
	}
	found, okk := false, true
	for _, b := range rl.Blocks {
		if !hasFact(b, mismatch) || len(b.Instrs) == 0 {
			continue
		}
		entry := false
		for _, p := range b.Preds {
			if !hasFact(p, mismatch) {
				entry = true
			}
		}
		if !entry {
			continue
		}
		found = true
		// paths to the loop head avoiding a NACK send and avoiding time-bounded blocks must not exist
		seen := map[*ssa.BasicBlock]bool{}
		var walk func(x *ssa.BasicBlock) bool
		walk = func(x *ssa.BasicBlock) bool {
			if x == head {
				return true
			}
			if seen[x] || timeBounded(x) {
				return false
			}
			seen[x] = true
			for _, in := range x.Instrs {
				for _, ns := range nackSends {
					if in == ns {
						return false
					}
				}
			}
			for _, s := range x.Succs {
				if edgeFeasible(x, s) && walk(s) {
					return true
				}
			}
			return false
		}
		if walk(b) {
			okk = false
		}
	}
	c.decide(found && okk, "NACKWIRE", "receiveLoop|NACK suppressed only briefly", instrPos(nackSends[0]),
		"an out-of-sequence packet is answered with a NACK unless one was sent within a bounded time",
		"an out-of-sequence DATA packet can be ignored without a NACK and without a time bound: the sender is never told what the receiver expects")
}

// forcedFirstSucc: control enters the loop header h from p (a block outside the loop) and
// h tests "phi != y" / "phi == y" where the phi's operand for the edge p->h is a value v0
// about which the facts at p already decide the test. Returns the only successor of h
// that can be taken on that first visit.
func forcedFirstSucc(p, h *ssa.BasicBlock) (*ssa.BasicBlock, bool) {
	if len(h.Instrs) == 0 || len(h.Succs) != 2 || h.Dominates(p) {
		return nil, false
	}
	iff, ok := h.Instrs[len(h.Instrs)-1].(*ssa.If)
	if !ok {
		return nil, false
	}
	bo, ok := iff.Cond.(*ssa.BinOp)
	if !ok || (bo.Op != token.NEQ && bo.Op != token.EQL) {
		return nil, false
	}
	idx := -1
	for i, q := range h.Preds {
		if q == p {
			idx = i
		}
	}
	if idx < 0 {
		return nil, false
	}
	initial := func(v ssa.Value) ssa.Value {
		if phi, ok := v.(*ssa.Phi); ok && phi.Block() == h {
			return phi.Edges[idx]
		}
		if in, ok := v.(ssa.Instruction); ok && in.Block() == h {
			return nil // recomputed in the header: unknown
		}
		return v
	}
	x0, y0 := initial(bo.X), initial(bo.Y)
	if x0 == nil || y0 == nil {
		return nil, false
	}
	for _, f := range factsOnEdge(p, h) {
		fb, ok := f.Cond.(*ssa.BinOp)
		if !ok || (fb.Op != token.NEQ && fb.Op != token.EQL) {
			continue
		}
		if !((fb.X == x0 && fb.Y == y0) || (fb.X == y0 && fb.Y == x0)) {
			continue
		}
		equal := (fb.Op == token.EQL) == f.Val
		condTrue := (bo.Op == token.EQL) == equal
		if condTrue {
			return h.Succs[0], true
		}
		return h.Succs[1], true
	}
	return nil, false
}

// returnReachableSkippingLoopBody: like pathToReturn, but a loop whose condition is already
// decided by the facts on entry is entered on its first visit (do-while reasoning).
func returnReachableSkippingLoopBody(from ssa.Instruction, isTarget func(*ssa.Return) bool, avoid func(ssa.Instruction) bool) bool {
	seen := map[*ssa.BasicBlock]bool{}
	var walk func(b *ssa.BasicBlock, i int, only *ssa.BasicBlock) bool
	walk = func(b *ssa.BasicBlock, i int, only *ssa.BasicBlock) bool {
		for ; i < len(b.Instrs); i++ {
			in := b.Instrs[i]
			if avoid != nil && avoid(in) {
				return false
			}
			if r, ok := in.(*ssa.Return); ok && isTarget(r) {
				return true
			}
		}
		for _, s := range b.Succs {
			if only != nil && s != only {
				continue
			}
			if seen[s] || !edgeFeasible(b, s) {
				continue
			}
			seen[s] = true
			forced, _ := forcedFirstSucc(b, s)
			if walk(s, 0, forced) {
				return true
			}
		}
		return false
	}
	return walk(from.Block(), instrIndex(from)+1, nil)
}
