package main

import (
	"fmt"
	"go/token"
	"go/types"
	"math"
	"regexp"
	"strings"

	"golang.org/x/tools/go/ssa"
)

// ---------------------------------------------------------------------------
// C07: no relay-delivered bytes can crash an endpoint.
//
// Decided part: every operation in gbn and mailbox that can panic on a bad
// value (index, slice, integer division, unchecked type assertion, make with a
// negative size, explicit panic) is either proved safe from dominating guards
// and field invariants, or listed in a table of sites that relay-controlled
// data cannot reach (with the reason); the window fields keep their range
// invariant.

// trustedSites lists panic-capable sites that the range engine does not prove
// and that are not reachable with relay-chosen values. Key: rule|function|canonical
// expression. One line of reason each.
var trustedSites = map[string]string{
	// gbn.Send: the caller's own payload, never relay-chosen; the chunk arithmetic itself is decided by C14 (CHUNK-2).
	"BND|(*gbn.GoBackNConn).Send|slice(param#1,phi,(load(gbn.config.maxChunkSize)+phi))": "local payload; chunk arithmetic decided by C14 CHUNK-2",
	"BND|(*gbn.GoBackNConn).Send|slice(param#1,phi,)":                                    "local payload; chunk arithmetic decided by C14 CHUNK-2",
	// NoiseConn.Write: the caller's own buffer.
	"BND|(*mailbox.NoiseConn).Write|slice(param#1,phi,(phi+phi))": "local buffer; chunk loop clamps chunkSize to the remainder (C15 RDC-3)",
	// AEAD plaintexts: len(plaintext) = len(ciphertext) - 16 for a successful Open, and the ciphertext buffers have fixed sizes;
	// the bytes are authenticated, i.e. chosen by the key-holding peer and not by the relay.
	"BND|(*mailbox.Machine).ReadHeader|binary.Uint16(extract0(call:(*mailbox.cipherState).Decrypt))":                      "AEAD plaintext of the 18-byte header array is 2 bytes",
	"BND|(*mailbox.handshakeState).readMsgPattern|binary.Uint32(extract0(call:(*mailbox.symmetricState).DecryptAndHash))": "AEAD plaintext of the 20-byte header array is 4 bytes",
	"BND|(*mailbox.handshakeState).readMsgPattern|slice(extract0(call:(*mailbox.symmetricState).DecryptAndHash),,2)":      "authenticated v0 act-2 payload is 0 or 500 bytes (non-empty tested before)",
	"BND|(*mailbox.handshakeState).readMsgPattern|slice(extract0(call:(*mailbox.symmetricState).DecryptAndHash),2,)":      "authenticated v0 act-2 payload is 0 or 500 bytes (non-empty tested before)",
	// Mnemonic codec: local entropy; ReadBits(aezeed.BitsPerWord=11) < 2048 = len(aezeed.DefaultWordList).
	"BND|mailbox.PassphraseEntropyToMnemonic|load(global:DefaultWordList)[extract0(call:(*github.com/kkdai/bstream.BStream).ReadBits)]": "11-bit index into the 2048-word list; local data (C17 CONST)",
}

// trustedSite looks a site up in trustedSites with the names of locals and parameters
// removed from the key (phi:<name> -> phi, var:<name> -> var, param:<name> -> param#<index>),
// so that renaming a variable does not turn a listed site into an alarm.
func trustedSite(rule string, fn *ssa.Function, key string) (string, bool) {
	k := key
	for i, p := range fn.Params {
		k = strings.ReplaceAll(k, "param:"+p.Name(), fmt.Sprintf("param#%d", i))
	}
	k = localNameRe.ReplaceAllString(k, "$1")
	why, ok := trustedSites[rule+"|"+k]
	return why, ok
}

var localNameRe = regexp.MustCompile(`\b(phi|var):[A-Za-z_][A-Za-z0-9_]*`)

func init() {
	register("C07",
		"Memory-safety obligations over every non-test function of gbn and mailbox: ERRUSE (a pointer-like value returned together with an error is not dereferenced, passed on or re-read from the field it was stored in before that error was found nil), WIN-4 (as C01: the window base moves only in the four legal ways, the exact-ACK move only on a non-empty queue - otherwise resend dereferences an empty slot), ORD-1 (as C01: containsSequence, the guard those moves rely on, decides membership in [base, top) exactly), BND (index/slice in bounds, proved from dominating length guards by interval analysis, or a listed site that relay data cannot reach), DIV (every integer divisor proved non-zero via field invariants that are themselves proved at every store and call site), INV (window fields sequenceBase/sequenceTop < s at every store; peer sequence numbers validated before use in window arithmetic; s=n+1 with n<=254 at every definition), ASSERT (every unchecked type assertion dominated by a successful test of that type, edge-sensitively for phis), MAKE (allocation sizes non-negative), PANIC (no explicit panic reachable), NILLATE (pointer fields of the connection that only start() fills in are nil-checked at every method call outside start and the goroutines it launches - Close also runs after a failed handshake). ERRUSE also covers slice results (indexing, slicing beyond 0, encoding/binary decoders) and errors handed to the caller untested. The GBNHS obligations of C10 (a failed handshake ends the constructor with an error) and SIZE are part of this check. NILWIRE: no field is selected through a sub-message pointer of a relay (hashmailrpc) message without a dominating nil test of that pointer (a box without desc is valid on the wire). Not decided: panics inside dependencies (protojson, websocket, btcec, regexp) on hostile input; nil-pointer dereferences.",
		[]string{
			"dependencies (bytes.Buffer, encoding/binary, protojson, websocket, btcec, regexp) do not panic on the inputs they are given; binary.BigEndian.UintNN requires a slice of sufficient length and is checked as such",
			"authenticated plaintext (output of a successful DecryptAndHash/Decrypt) is chosen by the peer that holds the keys, not by the relay",
			"int is 64 bits (amd64/wasm); no 32-bit build of mailbox can start (see DESIGN 2.3)",
		},
		runC07)
}

// gbnInvariants installs the field invariants used by DIV/INV (proved by
// proveFieldInvariants).
func gbnInvariants(w *World, rg *Ranger) map[string]Range {
	inv := map[string]Range{
		"gbn.config.n":   {0, 254, false},
		"gbn.config.s":   {1, 255, false},
		"gbn.queueCfg.s": {1, 255, false},
		"gbn.syncer.s":   {1, 255, false},
		"gbn.TimeoutManager.timeoutUpdateFrequency": {1, math.MaxInt64, false},
	}
	for k, r := range inv {
		if f := w.Field(k); f != nil {
			rg.FieldInv[f] = r
		}
	}
	return inv
}

// proveFieldInvariants: every store to an invariant field stores a value in
// range (assuming the invariants for loads).
func proveFieldInvariants(c *Checker, rg *Ranger, inv map[string]Range, rule string) {
	w := c.w
	for _, k := range sortedKeys(inv) {
		f := w.Field(k)
		if f == nil {
			c.anchorFail("field " + k)
			continue
		}
		stores := w.Stores(f)
		if len(stores) == 0 {
			c.fail(rule, "store|"+k, token.NoPos, "invariant field has no store at all")
			continue
		}
		for _, st := range stores {
			r := rg.At(st.Val, st.Block())
			key := fmt.Sprintf("store|%s|%s|%s", k, fnName(st.Parent()), w.canonFB(st.Val))
			c.decide(r.within(inv[k]), rule, key, instrPos(st),
				fmt.Sprintf("stored value range %s within invariant %s", r, inv[k]),
				fmt.Sprintf("stored value range %s not within invariant %s of %s", r, inv[k], k))
		}
	}
}

func sortedKeys[V any](m map[string]V) []string {
	var ks []string
	for k := range m {
		ks = append(ks, k)
	}
	sortStrings(ks)
	return ks
}

func runC07(c *Checker) {
	// the slots of the retransmission buffer and the window fields are shared between the send and
	// the receive goroutine: an ACK (a value the relay chooses, arriving when the relay chooses)
	// that races with a resend can leave a nil slot under the resend cursor - the race and
	// lock-order obligations of C18 are part of "no relay-delivered bytes can crash an endpoint"
	importLayers(c, "C18")
	// relay bytes decide whether the GBN handshake fails; a failed handshake must end in an error the
	// caller sees - a constructor that reports success without a connection makes mailbox
	// dereference nil (GBNHS obligations of C10)
	importLayers(c, "C10")
	// the window bookkeeping the SYN's window byte drives: size() must be exact for every N the peer
	// may propose (SIZE, as C01/C09)
	ruleSIZE(c)
	w := c.w
	rg := newRanger(w)
	inv := gbnInvariants(w, rg)
	proveFieldInvariants(c, rg, inv, "DIV-INV")
	c.floor("DIV-INV", 7)

	ws := newWindowSpace(c, rg)
	ws.proveStores("INV")
	ws.proveContainsArgs("INV")
	ws.proveImmutable("INV")
	c.floor("INV", 8)
	// the window base is what peer-chosen ACK/NACK numbers move: an illegal move (outside the four
	// templates, or the exact-ACK move on an empty queue) makes size() cover slots that hold no
	// packet, and resend then dereferences nil - the base-move rules (WIN-4, as C01) belong here too
	ruleNILLATE(c)
	ruleNILWIRE(c)
	ruleWIN4(c)
	// ... and WIN-4's guard is containsSequence: if it admits a number outside [base, top) the base
	// leaves the window just the same (ORD-1, as C01)
	ruleORD1(c)
	// a value obtained together with an error is not used before that error was found to be nil
	ruleERRUSE(c)

	nBND, nDIV := 0, 0
	for _, fn := range w.Funcs {
		allInstrs(fn, func(in ssa.Instruction) {
			switch in := in.(type) {
			case *ssa.IndexAddr:
				nBND++
				checkIndex(c, rg, ws, fn, in, in.X, in.Index)
			case *ssa.Index:
				nBND++
				checkIndex(c, rg, ws, fn, in, in.X, in.Index)
			case *ssa.Slice:
				nBND++
				checkSlice(c, rg, fn, in)
			case *ssa.BinOp:
				if (in.Op == token.QUO || in.Op == token.REM) && isInteger(in.Type()) {
					nDIV++
					r := rg.At(in.Y, in.Block())
					key := fmt.Sprintf("%s|%s", fnName(fn), w.canonFB(in.Y))
					nz := !r.empty && (r.lo > 0 || r.hi < 0)
					c.decide(nz, "DIV", key, instrPos(in),
						fmt.Sprintf("divisor range %s excludes 0", r),
						fmt.Sprintf("divisor %s has range %s which includes 0", w.canonFB(in.Y), r))
				}
			case *ssa.TypeAssert:
				if !in.CommaOk {
					checkAssert(c, fn, in)
				}
			case *ssa.MakeSlice:
				checkMakeSize(c, rg, fn, in, in.Len, "len")
			case *ssa.MakeChan:
				checkMakeSize(c, rg, fn, in, in.Size, "size")
			case *ssa.Panic:
				if isSelectFallthroughPanic(in) {
					return
				}
				key := fmt.Sprintf("%s|panic", fnName(fn))
				if why, ok := trustedSite("PANIC", fn, key); ok {
					c.ok("PANIC", key, instrPos(in), "listed: "+why)
				} else {
					c.fail("PANIC", key, instrPos(in), "explicit panic in non-test code of an endpoint package")
				}
			}
		})
	}
	c.floor("BND", 20)
	c.floor("DIV", 5)
	c.floor("ASSERT", 1)
	checkBinaryUintCalls(c, rg)
	checkNilFuncFields(c)
	c.note("examined %d index/slice sites and %d integer divisions in %d functions", nBND, nDIV, len(w.Funcs))
}

// isSelectFallthroughPanic recognises the unreachable panic go/ssa emits after
// a blocking select ("blocking select matched no case").
func isSelectFallthroughPanic(p *ssa.Panic) bool {
	v := p.X
	if mi, ok := v.(*ssa.MakeInterface); ok {
		v = mi.X
	}
	k, ok := v.(*ssa.Const)
	if !ok || k.Value == nil {
		return false
	}
	return strings.Contains(k.Value.ExactString(), "blocking select matched no case")
}

func checkMakeSize(c *Checker, rg *Ranger, fn *ssa.Function, in ssa.Instruction, size ssa.Value, what string) {
	r := rg.At(size, in.Block())
	key := fmt.Sprintf("%s|make|%s", fnName(fn), c.w.canonFB(size))
	c.decide(!r.empty && r.lo >= 0, "MAKE", key, instrPos(in),
		fmt.Sprintf("%s range %s is non-negative", what, r),
		fmt.Sprintf("%s %s has range %s which may be negative", what, c.w.canonFB(size), r))
}

// checkIndex proves 0 <= idx < len(x).
func checkIndex(c *Checker, rg *Ranger, ws *windowSpace, fn *ssa.Function, in ssa.Instruction, x, idx ssa.Value) {
	w := c.w
	key := fmt.Sprintf("%s|%s[%s]", fnName(fn), w.canonFB(x), w.canonFB(idx))
	if _, isMap := x.Type().Underlying().(*types.Map); isMap {
		return
	}
	facts := factsAt(in.Block())
	r := rg.At(idx, in.Block())
	if n, ok := arrayLen(x.Type()); ok {
		c.decide(!r.empty && r.lo >= 0 && r.hi < n, "BND", key, instrPos(in),
			fmt.Sprintf("index range %s within array length %d", r, n),
			fmt.Sprintf("index range %s not within array length %d", r, n))
		return
	}
	min := rg.minLen(x, facts)
	if !r.empty && r.lo >= 0 && r.hi < min {
		c.ok("BND", key, instrPos(in), fmt.Sprintf("index range %s < proven len >= %d", r, min))
		return
	}
	if !r.empty && r.lo >= 0 && rg.lenGreaterThan(x, idx, facts) {
		c.ok("BND", key, instrPos(in), fmt.Sprintf("index range %s and dominating guard index < len", r))
		return
	}
	// window space: content[i] with i < s = len(content)
	if ws != nil && ws.isContent(x) {
		if ok, why := ws.ltS(idx, in.Block(), 0); ok {
			c.ok("BND", key, instrPos(in), "index < s = len(content): "+why)
			return
		}
	}
	if why, ok := trustedSite("BND", fn, key); ok {
		c.ok("BND", key, instrPos(in), "listed: "+why)
		return
	}
	c.fail("BND", key, instrPos(in),
		fmt.Sprintf("cannot prove index %s (range %s) < len(%s) (proven >= %d)", w.canonFB(idx), r, w.canonFB(x), min))
}

// checkSlice proves 0 <= low <= high <= len(x).
func checkSlice(c *Checker, rg *Ranger, fn *ssa.Function, in *ssa.Slice) {
	w := c.w
	key := fmt.Sprintf("%s|%s", fnName(fn), w.canonFB(in))
	facts := factsAt(in.Block())
	var lenConst int64 = -1
	if n, ok := arrayLen(in.X.Type()); ok {
		lenConst = n
	}
	min := rg.minLen(in.X, facts)
	if lenConst >= 0 {
		min = lenConst
	}
	lo := Range{0, 0, false}
	if in.Low != nil {
		lo = rg.At(in.Low, in.Block())
	}
	okLow := !lo.empty && lo.lo >= 0
	var okHigh, okOrder bool
	detail := ""
	if in.High == nil {
		// high = len(x): need low <= len(x)
		okHigh = true
		okOrder = !lo.empty && lo.hi <= min
		if !okOrder && in.Low != nil && rg.lenAtLeastExpr(in.X, in.Low, facts) {
			okOrder = true
		}
		detail = fmt.Sprintf("low %s <= proven len >= %d", lo, min)
	} else {
		hi := rg.At(in.High, in.Block())
		okHigh = !hi.empty && hi.hi <= min
		if !okHigh && rg.lenAtLeastExpr(in.X, in.High, facts) {
			okHigh = true
		}
		okOrder = !lo.empty && !hi.empty && lo.hi <= hi.lo
		if !okOrder && in.Low != nil {
			// high = low + e with e >= 0
			if bo, ok := in.High.(*ssa.BinOp); ok && bo.Op == token.ADD {
				for _, pair := range [][2]ssa.Value{{bo.X, bo.Y}, {bo.Y, bo.X}} {
					if rg.sameValue(pair[0], in.Low) {
						e := rg.At(pair[1], in.Block())
						if !e.empty && e.lo >= 0 {
							okOrder = true
						}
					}
				}
			}
		}
		if in.Low == nil {
			okOrder = !hi.empty && hi.lo >= 0
		}
		detail = fmt.Sprintf("low %s, high %s, proven len >= %d", lo, hi, min)
	}
	if in.Max != nil {
		okHigh = false
	}
	// x[n:] with n = copy(dst, src) and src a prefix of x: 0 <= n <= len(src) <= len(x)
	if in.High == nil && in.Low != nil && isCopyCountWithin(rg, in.Low, in.X) {
		okLow, okOrder = true, true
		detail = "low is the count of a copy from a prefix of the same slice (0 <= n <= len)"
	}
	// x[n:] with n the count returned by w.Write(x): io.Writer guarantees 0 <= n <= len(x)
	if in.High == nil && in.Low != nil && isWriteCountOf(rg, in.Low, in.X) {
		okLow, okOrder = true, true
		detail = "low is the count returned by Write on the same slice (io.Writer contract: 0 <= n <= len)"
	}
	if okLow && okHigh && okOrder {
		c.ok("BND", key, instrPos(in), detail)
		return
	}
	if why, ok := trustedSite("BND", fn, key); ok {
		c.ok("BND", key, instrPos(in), "listed: "+why)
		return
	}
	c.fail("BND", key, instrPos(in), "cannot prove slice bounds: "+detail+
		fmt.Sprintf(" (low>=0:%v high<=len:%v low<=high:%v)", okLow, okHigh, okOrder))
}

// isWriteCountOf: n is result 0 of an io.Writer-style Write(x) call on the same slice value x.
func isWriteCountOf(rg *Ranger, n, x ssa.Value) bool {
	ex, ok := unwrapLoadAlloc(n).(*ssa.Extract)
	if !ok || ex.Index != 0 {
		return false
	}
	call, ok := ex.Tuple.(*ssa.Call)
	if !ok {
		return false
	}
	cc := call.Common()
	var arg ssa.Value
	if cc.IsInvoke() && cc.Method.Name() == "Write" && len(cc.Args) == 1 {
		arg = cc.Args[0]
	} else if sc := cc.StaticCallee(); sc != nil && sc.Name() == "Write" && sc.Signature.Recv() != nil && len(cc.Args) == 2 {
		arg = cc.Args[1]
	}
	if arg == nil {
		return false
	}
	sig := cc.Signature()
	if sig.Results().Len() != 2 || !isInteger(sig.Results().At(0).Type()) {
		return false
	}
	return rg.sameValue(arg, x)
}

// isCopyCountWithin: n = copy(dst, src) where every definition of src is x
// itself or a prefix x[:k] of it.
func isCopyCountWithin(rg *Ranger, n, x ssa.Value) bool {
	call, ok := unwrapLoadAlloc(n).(*ssa.Call)
	if !ok {
		return false
	}
	if b, ok := call.Call.Value.(*ssa.Builtin); !ok || b.Name() != "copy" {
		return false
	}
	srcs := expandValues(call.Call.Args[1])
	if len(srcs) == 0 {
		return false
	}
	for _, s := range srcs {
		if rg.sameValue(s, x) {
			continue
		}
		if sl, ok := s.(*ssa.Slice); ok && sl.Low == nil && sl.Max == nil && rg.sameValue(sl.X, x) {
			continue
		}
		return false
	}
	return true
}

// checkAssert: a non-comma-ok type assertion must be dominated by a successful
// test for the same type on the same value (edge-sensitive through phis).
func checkAssert(c *Checker, fn *ssa.Function, ta *ssa.TypeAssert) {
	w := c.w
	key := fmt.Sprintf("%s|%s", fnName(fn), "assert<"+typeStr(ta.AssertedType)+">")
	var justified func(v ssa.Value, facts []Fact, depth int) bool
	justified = func(v ssa.Value, facts []Fact, depth int) bool {
		if depth > 6 {
			return false
		}
		// a value built by MakeInterface from the asserted concrete type
		if mi, ok := v.(*ssa.MakeInterface); ok {
			return types.Identical(mi.X.Type(), ta.AssertedType)
		}
		for _, f := range facts {
			if !f.Val {
				continue
			}
			ex, ok := f.Cond.(*ssa.Extract)
			if !ok || ex.Index != 1 {
				continue
			}
			t, ok := ex.Tuple.(*ssa.TypeAssert)
			if !ok || !t.CommaOk {
				continue
			}
			if t.X == v && types.Identical(t.AssertedType, ta.AssertedType) {
				return true
			}
		}
		if phi, ok := v.(*ssa.Phi); ok {
			for i, e := range phi.Edges {
				p := phi.Block().Preds[i]
				if !justified(e, factsOnEdge(p, phi.Block()), depth+1) {
					return false
				}
			}
			return len(phi.Edges) > 0
		}
		return false
	}
	okk := justified(ta.X, factsAt(ta.Block()), 0)
	c.decide(okk, "ASSERT", key, instrPos(ta),
		"every definition reaching the assertion is dominated by a successful comma-ok test of the same type",
		"unchecked type assertion on "+w.canonFB(ta.X)+" is not dominated by a successful test for "+typeStr(ta.AssertedType)+": a different message type panics here")
}

// checkBinaryUintCalls: binary.ByteOrder.UintNN(b) panics when len(b) < N/8.
func checkBinaryUintCalls(c *Checker, rg *Ranger) {
	w := c.w
	need := map[string]int64{"Uint16": 2, "Uint32": 4, "Uint64": 8, "PutUint16": 2, "PutUint32": 4, "PutUint64": 8}
	for _, fn := range w.Funcs {
		allInstrs(fn, func(in ssa.Instruction) {
			call, ok := in.(*ssa.Call)
			if !ok {
				return
			}
			cc := call.Common()
			var name string
			var arg ssa.Value
			if cc.IsInvoke() {
				name = cc.Method.Name()
				if len(cc.Args) > 0 {
					arg = cc.Args[0]
				}
			} else if sc := cc.StaticCallee(); sc != nil && sc.Pkg != nil && sc.Pkg.Pkg.Path() == "encoding/binary" {
				name = sc.Name()
				if len(cc.Args) > 1 {
					arg = cc.Args[1]
				}
			}
			n, ok := need[name]
			if !ok || arg == nil {
				return
			}
			if cc.IsInvoke() {
				nt := namedOf(cc.Value.Type())
				if nt == nil || nt.Obj().Pkg() == nil || nt.Obj().Pkg().Path() != "encoding/binary" {
					return
				}
			}
			key := fmt.Sprintf("%s|binary.%s(%s)", fnName(fn), name, w.canonFB(arg))
			min := sliceMinLen(rg, arg, factsAt(call.Block()))
			if min >= n {
				c.ok("BND", key, instrPos(call), fmt.Sprintf("argument length >= %d (need %d)", min, n))
				return
			}
			if why, ok := trustedSite("BND", fn, key); ok {
				c.ok("BND", key, instrPos(call), "listed: "+why)
				return
			}
			c.fail("BND", key, instrPos(call), fmt.Sprintf("binary.%s needs %d bytes, proven length of %s is >= %d", name, n, w.canonFB(arg), min))
		})
	}
}

// sliceMinLen computes a lower bound of len(v) for slice expressions.
func sliceMinLen(rg *Ranger, v ssa.Value, facts []Fact) int64 {
	if s, ok := v.(*ssa.Slice); ok {
		var base int64
		if n, ok := arrayLen(s.X.Type()); ok {
			base = n
		} else {
			base = sliceMinLen(rg, s.X, facts)
		}
		var lo int64
		if s.Low != nil {
			r := rg.eval(s.Low, facts, 0)
			if r.empty || r.lo != r.hi {
				return 0
			}
			lo = r.lo
		}
		if s.High != nil {
			r := rg.eval(s.High, facts, 0)
			if r.empty {
				return 0
			}
			if r.lo-lo > 0 {
				return r.lo - lo
			}
			return 0
		}
		if base-lo > 0 {
			return base - lo
		}
		return 0
	}
	return rg.minLen(v, facts)
}

// ---------------------------------------------------------------------------
// Window space: sequenceBase, sequenceTop < s = len(content)

type windowSpace struct {
	c        *Checker
	rg       *Ranger
	base     *types.Var
	top      *types.Var
	content  *types.Var
	sQueue   *types.Var // queueCfg.s
	sAll     map[*types.Var]bool
	qcfg     *types.Var // queue.cfg
	memoParm map[*ssa.Parameter]int
}

func newWindowSpace(c *Checker, rg *Ranger) *windowSpace {
	w := c.w
	ws := &windowSpace{c: c, rg: rg, sAll: map[*types.Var]bool{}, memoParm: map[*ssa.Parameter]int{}}
	get := func(k string) *types.Var {
		f := w.Field(k)
		if f == nil {
			c.anchorFail("field " + k)
		}
		return f
	}
	ws.base = get("gbn.queue.sequenceBase")
	ws.top = get("gbn.queue.sequenceTop")
	ws.content = get("gbn.queue.content")
	ws.sQueue = get("gbn.queueCfg.s")
	ws.qcfg = get("gbn.queue.cfg")
	if ws.sQueue != nil {
		ws.sAll[ws.sQueue] = true
	}
	return ws
}

func (ws *windowSpace) isContent(x ssa.Value) bool {
	u, ok := x.(*ssa.UnOp)
	if !ok || u.Op != token.MUL {
		return false
	}
	fa, ok := u.X.(*ssa.FieldAddr)
	return ok && structFieldOf(fa) == ws.content && ws.content != nil
}

func (ws *windowSpace) isLoadOf(v ssa.Value, fields ...*types.Var) bool {
	v = unwrapLoadAlloc(v)
	var f *types.Var
	switch v := v.(type) {
	case *ssa.UnOp:
		if v.Op != token.MUL {
			return false
		}
		fa, ok := v.X.(*ssa.FieldAddr)
		if !ok {
			return false
		}
		f = structFieldOf(fa)
	case *ssa.Field:
		f = structFieldOf(v)
	default:
		return false
	}
	for _, x := range fields {
		if x != nil && f == x {
			return true
		}
	}
	return false
}

// ltS proves v < queueCfg.s at block b.
func (ws *windowSpace) ltS(v ssa.Value, b *ssa.BasicBlock, depth int) (bool, string) {
	return ws.ltSFacts(v, factsAt(b), depth, map[ssa.Value]bool{})
}

func (ws *windowSpace) ltSFacts(v ssa.Value, facts []Fact, depth int, seen map[ssa.Value]bool) (bool, string) {
	v = unwrapLoadAlloc(v)
	if depth > 10 {
		return false, "depth"
	}
	if seen[v] {
		// cyclic phi: the other operands decide
		return true, "cycle"
	}
	seen[v] = true
	defer delete(seen, v)
	if ws.isLoadOf(v, ws.base, ws.top) {
		return true, "load of a window field (invariant)"
	}
	if k, ok := intConst(v); ok && k == 0 {
		return true, "constant 0 < s (s >= 1)"
	}
	if bo, ok := v.(*ssa.BinOp); ok && bo.Op == token.REM && isUnsigned(bo.Type()) && ws.isLoadOf(bo.Y, ws.sQueue) {
		return true, "x % s"
	}
	// dominating guard v < s or !(v >= s)
	for _, f := range facts {
		bo, ok := f.Cond.(*ssa.BinOp)
		if !ok {
			continue
		}
		op := bo.Op
		var other ssa.Value
		if ws.rg.sameValue(bo.X, v) {
			other = bo.Y
		} else if ws.rg.sameValue(bo.Y, v) {
			other = bo.X
			switch op {
			case token.LSS:
				op = token.GTR
			case token.LEQ:
				op = token.GEQ
			case token.GTR:
				op = token.LSS
			case token.GEQ:
				op = token.LEQ
			}
		} else {
			continue
		}
		if !ws.isLoadOf(other, ws.sQueue) {
			continue
		}
		// x+1 != s with x < s gives x+1 < s (x <= 254, so the increment cannot wrap the uint8)
		if (op == token.NEQ && f.Val) || (op == token.EQL && !f.Val) {
			if add, ok := v.(*ssa.BinOp); ok && add.Op == token.ADD {
				for _, pr := range [][2]ssa.Value{{add.X, add.Y}, {add.Y, add.X}} {
					if k, isK := intConst(pr[1]); isK && k == 1 {
						if okx, _ := ws.ltSFacts(pr[0], facts, depth+1, seen); okx {
							return true, "x+1 != s with x < s"
						}
					}
				}
			}
		}
		if !f.Val {
			switch op {
			case token.LSS:
				op = token.GEQ
			case token.GEQ:
				op = token.LSS
			case token.LEQ:
				op = token.GTR
			case token.GTR:
				op = token.LEQ
			default:
				continue
			}
		}
		if op == token.LSS {
			return true, "guard seq < s"
		}
	}
	if phi, ok := v.(*ssa.Phi); ok {
		for i, e := range phi.Edges {
			p := phi.Block().Preds[i]
			if ok, why := ws.ltSFacts(e, factsOnEdge(p, phi.Block()), depth+1, seen); !ok {
				return false, "phi operand " + ws.c.w.canonFB(e) + ": " + why
			}
		}
		return true, "all phi operands < s"
	}
	if p, ok := v.(*ssa.Parameter); ok {
		sites, closed := ws.c.w.CallersOf(p.Parent())
		if !closed || len(sites) == 0 {
			return false, "parameter of a function whose callers are not all known"
		}
		idx := -1
		for i, q := range p.Parent().Params {
			if q == p {
				idx = i
			}
		}
		for _, s := range sites {
			args := s.Instr.Common().Args
			if idx < 0 || idx >= len(args) {
				return false, "call shape"
			}
			if ok, why := ws.ltSFacts(args[idx], factsAt(s.Instr.Block()), depth+1, seen); !ok {
				return false, fmt.Sprintf("argument at %s: %s", ws.c.w.pos(instrPos(s.Instr)), why)
			}
		}
		return true, "every call site passes a value < s"
	}
	return false, "no guard, modulo or invariant establishes " + ws.c.w.canonFB(v) + " < s"
}

// proveStores: every store to sequenceBase/sequenceTop stores a value < s.
func (ws *windowSpace) proveStores(rule string) {
	w := ws.c.w
	for _, f := range []*types.Var{ws.base, ws.top} {
		if f == nil {
			continue
		}
		for _, st := range w.Stores(f) {
			ok, why := ws.ltS(st.Val, st.Block(), 0)
			key := fmt.Sprintf("store|%s|%s|%s", w.fieldKey(f), fnName(st.Parent()), w.canonFB(st.Val))
			ws.c.decide(ok, rule, key, instrPos(st), why,
				"window field leaves [0,s): "+why)
		}
	}
}

// proveContainsArgs: containsSequence's documented precondition (all three
// arguments in [0,s)) holds at every call.
func (ws *windowSpace) proveContainsArgs(rule string) {
	w := ws.c.w
	fn := w.Func("gbn.containsSequence")
	if fn == nil {
		ws.c.anchorFail("func gbn.containsSequence")
		return
	}
	sites, _ := w.CallersOf(fn)
	if len(sites) == 0 {
		ws.c.fail(rule, "containsSequence|callers", fn.Pos(), "no call site found")
	}
	for _, s := range sites {
		for i, a := range s.Instr.Common().Args {
			ok, why := ws.ltS(a, s.Instr.Block(), 0)
			key := fmt.Sprintf("containsSequence|%s|arg%d|%s", fnName(s.Caller), i, w.canonFB(a))
			ws.c.decide(ok, rule, key, instrPos(s.Instr), why,
				"peer-controlled sequence number reaches the cyclic window test unvalidated: "+why)
		}
	}
}

// proveImmutable: queueCfg.s and queue.content are only written while the
// queue is constructed, and content is allocated with length s.
func (ws *windowSpace) proveImmutable(rule string) {
	w := ws.c.w
	nq := w.Func("gbn.newQueue")
	if nq == nil {
		ws.c.anchorFail("func gbn.newQueue")
		return
	}
	if ws.content != nil {
		for _, st := range w.Stores(ws.content) {
			key := fmt.Sprintf("content-store|%s", fnName(st.Parent()))
			okk := st.Parent() == nq
			if okk {
				ms, isMake := st.Val.(*ssa.MakeSlice)
				okk = isMake && ws.isLoadOf(ms.Len, ws.sQueue) || isMake && ws.convOfLoad(ms.Len)
			}
			ws.c.decide(okk, rule, key, instrPos(st), "content = make([]*PacketData, cfg.s) in newQueue only",
				"queue.content must only be allocated in newQueue with length cfg.s (len(content) == s is what makes index < s safe)")
		}
		// no reslicing / append of content elsewhere: every other use is a load for indexing
	}
	if ws.sQueue != nil {
		for _, st := range w.Stores(ws.sQueue) {
			// stores in composite literals: the base is a fresh allocation
			key := fmt.Sprintf("s-store|%s", fnName(st.Parent()))
			fa := st.Addr.(*ssa.FieldAddr)
			_, fresh := fa.X.(*ssa.Alloc)
			ws.c.decide(fresh, rule, key, instrPos(st), "queueCfg.s set only in a composite literal (fresh object)",
				"queueCfg.s is modified after construction: len(content) and s can diverge")
		}
	}
	if ws.qcfg != nil {
		for _, st := range w.Stores(ws.qcfg) {
			key := fmt.Sprintf("cfg-store|%s", fnName(st.Parent()))
			ws.c.decide(st.Parent() == nq, rule, key, instrPos(st), "queue.cfg set in newQueue only", "queue.cfg is re-assigned outside newQueue")
		}
	}
}

func (ws *windowSpace) convOfLoad(v ssa.Value) bool {
	for {
		switch x := v.(type) {
		case *ssa.Convert:
			v = x.X
			continue
		case *ssa.ChangeType:
			v = x.X
			continue
		}
		break
	}
	return ws.isLoadOf(v, ws.sQueue)
}

func sortStrings(s []string) {
	for i := 1; i < len(s); i++ {
		for j := i; j > 0 && s[j] < s[j-1]; j-- {
			s[j], s[j-1] = s[j-1], s[j]
		}
	}
}

var _ = strings.Contains

// checkNilFuncFields: a call through a func-typed struct field is safe only if the field is set by
// every composite literal that creates the struct, or the call is dominated by a nil check of the
// field (e.g. the optional onFIN callback, which the relay can trigger with a FIN packet).
func checkNilFuncFields(c *Checker) {
	w := c.w
	// fields set (to a non-nil constant-free value) by every literal of their owner
	alwaysSet := map[*types.Var]bool{}
	literalOwners := map[*types.Named][]*ssa.Alloc{}
	for _, fn := range w.Funcs {
		allInstrs(fn, func(in ssa.Instruction) {
			al, ok := in.(*ssa.Alloc)
			if !ok {
				return
			}
			if n := namedOf(al.Type()); n != nil && n.Obj().Pkg() != nil && (n.Obj().Pkg().Path() == gbnPath || n.Obj().Pkg().Path() == mboxPath) {
				literalOwners[n] = append(literalOwners[n], al)
			}
		})
	}
	isSetIn := func(al *ssa.Alloc, f *types.Var) bool {
		for _, r := range *al.Referrers() {
			fa, ok := r.(*ssa.FieldAddr)
			if !ok || structFieldOf(fa) != f {
				continue
			}
			for _, rr := range *fa.Referrers() {
				if st, ok := rr.(*ssa.Store); ok && st.Addr == ssa.Value(fa) && !isNilConst(st.Val) {
					return true
				}
			}
		}
		return false
	}
	n := 0
	for _, fn := range w.Funcs {
		allInstrs(fn, func(in ssa.Instruction) {
			call, ok := in.(ssa.CallInstruction)
			if !ok || call.Common().IsInvoke() || call.Common().StaticCallee() != nil {
				return
			}
			f := chanField(call.Common().Value)
			if f == nil {
				return
			}
			if _, isFn := f.Type().Underlying().(*types.Signature); !isFn {
				return
			}
			u := unwrapLoadAlloc(call.Common().Value).(*ssa.UnOp)
			owner := namedOf(u.X.(*ssa.FieldAddr).X.Type())
			if owner == nil {
				return
			}
			n++
			key := fmt.Sprintf("%s|call through %s", fnName(fn), w.fieldKey(f))
			set, known := alwaysSet[f]
			if !known {
				lits := literalOwners[owner]
				nLit := 0
				set = true
				for _, al := range lits {
					// zero-value literals (returned next to an error) do not create usable objects
					stores := 0
					for _, r := range *al.Referrers() {
						if fa, ok := r.(*ssa.FieldAddr); ok {
							for _, rr := range *fa.Referrers() {
								if st, ok := rr.(*ssa.Store); ok && st.Addr == ssa.Value(fa) {
									stores++
								}
							}
						}
					}
					if stores == 0 {
						continue
					}
					nLit++
					if !isSetIn(al, f) {
						set = false
					}
				}
				set = set && nLit > 0
				alwaysSet[f] = set
			}
			if set {
				c.ok("NILFN", key, instrPos(in), "the field is set by every composite literal that creates the struct")
				return
			}
			guarded := hasFact(in.Block(), func(ft Fact) bool {
				bo, ok := ft.Cond.(*ssa.BinOp)
				if !ok || !isNilConst(bo.Y) || fieldOfValue(bo.X) != f {
					return false
				}
				return (bo.Op == token.NEQ && ft.Val) || (bo.Op == token.EQL && !ft.Val)
			})
			c.decide(guarded, "NILFN", key, instrPos(in), "optional callback, called under a nil check",
				"a call through the optional func field "+w.fieldKey(f)+" is not dominated by a nil check: when the option is not set the call panics (nil function)")
		})
	}
	c.floor("NILFN", 4)
	_ = n
}

// ruleERRUSE: for a call that returns (pointer-like value, error) and whose error IS tested
// somewhere in the function, the value is not used (dereferenced, passed on, stored) on any path
// that has not yet passed that test with a nil outcome. Using it earlier hands nil (or garbage)
// to code that assumes a valid value: ParsePubKey failing on relay bytes followed by a use of
// the nil key is a remote crash.
func ruleERRUSE(c *Checker) {
	w := c.w
	n := 0
	for _, fn := range w.Funcs {
		if !w.inTargets(fn) {
			continue
		}
		allInstrs(fn, func(in ssa.Instruction) {
			call, ok := in.(*ssa.Call)
			if !ok {
				return
			}
			tup, ok := call.Type().(*types.Tuple)
			if !ok || tup.Len() != 2 || !isErrorType(tup.At(1).Type()) || call.Referrers() == nil {
				return
			}
			isSlice := false
			switch tup.At(0).Type().Underlying().(type) {
			case *types.Pointer, *types.Interface, *types.Map:
			case *types.Slice:
				isSlice = true
			default:
				return
			}
			var val, errv *ssa.Extract
			for _, r := range *call.Referrers() {
				if ex, ok := r.(*ssa.Extract); ok {
					if ex.Index == 0 {
						val = ex
					} else {
						errv = ex
					}
				}
			}
			if val == nil || errv == nil || val.Referrers() == nil || errv.Referrers() == nil {
				return
			}
			// only where the error is tested against nil at all (otherwise other rules apply)
			tested := false
			for _, r := range *errv.Referrers() {
				if bo, ok := r.(*ssa.BinOp); ok && (bo.Op == token.EQL || bo.Op == token.NEQ) {
					tested = true
				}
			}
			// ... or handed to the caller untested (`return f(x), err`): then no use in this function is
			// behind a test
			if !tested {
				for _, r := range *errv.Referrers() {
					if _, isRet := r.(*ssa.Return); isRet {
						tested = true
					}
					if st, isSt := r.(*ssa.Store); isSt {
						if _, isLocal := st.Addr.(*ssa.Alloc); isLocal {
							tested = true // named/spilled result
						}
					}
				}
			}
			if !tested {
				return
			}
			okNil := func(b *ssa.BasicBlock) bool {
				return hasFact(b, func(f Fact) bool { return factRel(f, isCarrierOf(errv), isNilConst) == "==" })
			}
			for _, r := range *val.Referrers() {
				use, ok := r.(ssa.Instruction)
				if !ok {
					continue
				}
				switch u := r.(type) {
				case *ssa.DebugRef:
					continue
				case *ssa.Return:
					continue // handed to the caller together with the error
				case *ssa.BinOp:
					if u.Op == token.EQL || u.Op == token.NEQ {
						continue // nil test of the value itself
					}
				case *ssa.Phi:
					continue
				}
				if isSlice {
					// a nil slice is a valid empty slice: only indexing, slicing beyond 0 and handing it
					// to code that does so (anything but len/cap/append/copy) can go wrong
					unsafeUse := false
					switch u := r.(type) {
					case *ssa.IndexAddr:
						unsafeUse = u.X == ssa.Value(val)
					case *ssa.Slice:
						if u.X == ssa.Value(val) {
							if u.High != nil {
								if k, isK := intConst(u.High); !isK || k > 0 {
									unsafeUse = true
								}
							}
							if u.Low != nil {
								if k, isK := intConst(u.Low); !isK || k > 0 {
									unsafeUse = true
								}
							}
						}
					case *ssa.Call:
						if bi, isB := u.Call.Value.(*ssa.Builtin); isB {
							switch bi.Name() {
							case "len", "cap", "append", "copy":
							default:
								unsafeUse = true
							}
						} else if sc := u.Common().StaticCallee(); sc != nil && sc.Pkg != nil && sc.Pkg.Pkg.Path() == "encoding/binary" {
							unsafeUse = true // fixed-width decoders index without a length check
						}
					}
					if !unsafeUse {
						continue
					}
				}
				switch u := r.(type) {
				case *ssa.Store:
					// `x.f, err = call()`: storing is not yet a use; every load of that field that the store
					// reaches before the error test has passed is
					if fa, isFA := u.Addr.(*ssa.FieldAddr); isFA && !okNil(u.Block()) {
						f := structFieldOf(fa)
						for _, ld := range w.Loads(f) {
							if ld.Parent() != fn || okNil(ld.Block()) || !reachableBeforeNilTest(u, ld, errv) {
								continue
							}
							// a load on the error leg that is only returned is harmless
							n++
							c.fail("ERRUSE", fmt.Sprintf("%s|%s result used only after its error is nil|load of %s", fnName(fn), calleeLabel(call.Common()), w.fieldKey(f)), instrPos(ld),
								"the result of "+calleeLabel(call.Common())+" was stored into "+f.Name()+" and that field is read again before the error was checked: on failure it holds nil (input chosen by the relay) and the use panics")
						}
					}
					continue
				}
				n++
				key := fmt.Sprintf("%s|%s result used only after its error is nil|%s", fnName(fn), calleeLabel(call.Common()), fmt.Sprintf("%T", use))
				c.decide(okNil(use.Block()), "ERRUSE", key, instrPos(use), "the use is dominated by err == nil",
					"the result of "+calleeLabel(call.Common())+" is used before its error was checked: on failure the value is nil/invalid (input chosen by the relay) and the use panics or acts on garbage")
			}
		})
	}
	if n < 10 {
		c.fail("ERRUSE", "sites", token.NoPos, fmt.Sprintf("only %d uses of error-returning call results found", n))
	}
}

// reachableBeforeNilTest: some path leads from `from` to `to` without crossing an edge on which
// errv == nil has been established (i.e. before the error of that call was checked).
func reachableBeforeNilTest(from, to ssa.Instruction, errv ssa.Value) bool {
	if from.Parent() != to.Parent() {
		return false
	}
	seen := map[*ssa.BasicBlock]bool{}
	var walk func(b *ssa.BasicBlock, i int) bool
	walk = func(b *ssa.BasicBlock, i int) bool {
		for ; i < len(b.Instrs); i++ {
			if b.Instrs[i] == to {
				return true
			}
		}
		for _, s := range b.Succs {
			if seen[s] || !edgeFeasible(b, s) {
				continue
			}
			if f, ok := edgeFact(b, s); ok && factRel(f, isCarrierOf(errv), isNilConst) == "==" {
				continue
			}
			seen[s] = true
			if walk(s, 0) {
				return true
			}
		}
		return false
	}
	return walk(from.Block(), instrIndex(from)+1)
}

// ruleNILLATE: fields of the connection that are only filled in by start() - the three tickers -
// are nil while the handshake runs, and Close() runs on every failed handshake (any malformed
// packet from the relay makes it fail). Outside start and the two loops that start launches, a
// method call on such a field is dominated by a nil check of that field.
func ruleNILLATE(c *Checker) {
	w := c.w
	conn := w.Named("gbn.GoBackNConn")
	start := w.Func("(*gbn.GoBackNConn).start")
	sl := w.Func("(*gbn.GoBackNConn).sendPacketsForever")
	rl := w.Func("(*gbn.GoBackNConn).receivePacketsForever")
	if conn == nil || start == nil || sl == nil || rl == nil {
		c.anchorFail("gbn.GoBackNConn / start / loops")
		return
	}
	st, ok := conn.Underlying().(*types.Struct)
	if !ok {
		return
	}
	allocates := func(fn *ssa.Function) bool {
		found := false
		allInstrs(fn, func(in ssa.Instruction) {
			if al, ok := in.(*ssa.Alloc); ok {
				if pt, ok := al.Type().(*types.Pointer); ok {
					if nn, ok := pt.Elem().(*types.Named); ok && nn == conn {
						found = true
					}
				}
			}
		})
		return found
	}
	afterStart := map[*ssa.Function]bool{}
	var mark func(fn *ssa.Function, d int)
	mark = func(fn *ssa.Function, d int) {
		if afterStart[fn] || d > 8 {
			return
		}
		afterStart[fn] = true
		for _, an := range fn.AnonFuncs {
			mark(an, d+1)
		}
	}
	mark(start, 0)
	mark(sl, 0)
	mark(rl, 0)
	top := func(fn *ssa.Function) *ssa.Function {
		for fn.Parent() != nil {
			fn = fn.Parent()
		}
		return fn
	}
	// helpers called only from after-start functions count as after-start
	onlyAfterStart := func(fn *ssa.Function) bool {
		fn = top(fn)
		if afterStart[fn] {
			return true
		}
		sites, closed := w.CallersOf(fn)
		if !closed || len(sites) == 0 {
			return false
		}
		for _, sx := range sites {
			if !afterStart[top(sx.Caller)] {
				return false
			}
		}
		return true
	}
	nLate, nUse := 0, 0
	lateSet := map[*types.Var]bool{}
	for i := 0; i < st.NumFields(); i++ {
		f := st.Field(i)
		if _, isPtr := f.Type().Underlying().(*types.Pointer); !isPtr {
			continue
		}
		late := false
		ctorSet := false
		for _, s2 := range w.Stores(f) {
			if isNilConst(s2.Val) {
				continue
			}
			if allocates(top(s2.Parent())) {
				ctorSet = true
			} else {
				late = true
			}
		}
		if late && !ctorSet {
			lateSet[f] = true
		}
	}
	for i := 0; i < st.NumFields(); i++ {
		f := st.Field(i)
		if !lateSet[f] {
			continue
		}
		nLate++
		for _, fn := range w.Funcs {
			if w.pkgShort(fn) != targetGBN || strings.HasSuffix(w.Fset.Position(fn.Pos()).Filename, "_test.go") || onlyAfterStart(fn) {
				continue
			}
			allInstrs(fn, func(in ssa.Instruction) {
				ci, ok := in.(ssa.CallInstruction)
				if !ok {
					return
				}
				sc := ci.Common().StaticCallee()
				if sc == nil || sc.Signature.Recv() == nil || len(ci.Common().Args) == 0 || !isLoadOfField(ci.Common().Args[0], f) {
					return
				}
				nUse++
				// a check of a sibling that start() creates in the same straight-line block is as good
				// (both exist or neither: nothing can run between the two stores)
				sameBlock := func(g *types.Var) bool {
					for _, a := range w.Stores(f) {
						for _, b := range w.Stores(g) {
							if a.Block() == b.Block() && !isNilConst(a.Val) && !isNilConst(b.Val) {
								return true
							}
						}
					}
					return false
				}
				guarded := hasFact(in.Block(), func(ft Fact) bool {
					return factRel(ft, func(v ssa.Value) bool {
						g := fieldOfValue(v)
						return g != nil && (g == f || (lateSet[g] && sameBlock(g)))
					}, isNilConst) == "!="
				})
				c.decide(guarded, "NILLATE", fmt.Sprintf("%s|%s.%s under a nil check", fnName(fn), f.Name(), sc.Name()), instrPos(in), f.Name()+" != nil dominates the call",
					f.Name()+" is only created by start(); "+fnName(fn)+" also runs when the handshake failed (any malformed handshake packet from the relay) and calls "+sc.Name()+" on it without a nil check: nil pointer dereference")
			})
		}
	}
	c.decide(nLate >= 3 && nUse >= 3, "NILLATE", "late-initialised fields", token.NoPos, fmt.Sprintf("%d fields filled in by start only, %d uses outside the started goroutines", nLate, nUse),
		fmt.Sprintf("expected the three tickers as late-initialised fields with their uses in Close (found %d fields, %d uses)", nLate, nUse))
}
