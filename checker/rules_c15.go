package main

import (
	"fmt"
	"go/token"
	"go/types"

	"golang.org/x/tools/go/ssa"
)

// ---------------------------------------------------------------------------
// C15: secured connections honour the net.Conn stream contract.

func init() {
	register("C15",
		"RDC-1: for every Read([]byte)(int,error) method of mailbox (NoiseGrpcConn, NoiseConn, connKit) every returned count is the constant 0, the result of copy(b, ...), or the count of a delegated Read(b) on a receiver-owned buffer - hence n <= len(b) on every path. RDC-2: the source of such a copy is a prefix of a receiver field F, F is advanced by exactly the copy count on every path to the return, F is only refilled when empty and only with a whole received message, and nobody else writes F; a received message otherwise flows whole into a receiver-owned bytes.Buffer. RDC-3: Write methods return 0 with an error, the count of Flush, or len(b) after the whole b was handed to the layer below; chunked writes are contiguous and accumulate the flushed count before testing the error; WriteMessage encrypts a new record only when nothing of the previous one is pending (accepted bytes are never overwritten). A payload is taken out of a message struct that is created anew for every receive. DUPLEX (as C05/C08): Decrypt on the read path and Encrypt on the write path use fresh destination buffers and the two paths share no Machine field, so bytes retained between Read calls are never overwritten. RDC-4: a Read that serves the caller through bytes.Buffer.Read (which reports io.EOF on an empty buffer) does so only under Len() != 0, so an empty record or empty message of the peer cannot end the stream. TRUNC: every narrowing integer conversion in mailbox is dominated by a bound that makes it exact (no silent truncation of lengths). RDC-3 record limit: a Write method that chunks hands the whole buffer over only under a proved len(b) <= 65535 and never cuts chunks of a constant above it. The obligations of C08 (nonce/rotation lock-step, PAIR) are imported as LAYER/C08. RDC-2 also: the bytes.Buffer a Read method delegates to is never replaced, reset or truncated. RDC-2 also (F17, fix a2d56b4): every function that installs a new noise Machine on a NoiseGrpcConn drops the retained tail (nextMsg = nil) on every path to a successful return, and nothing else outside Read writes that field. RDC-2 also: inside NoiseGrpcConn.Read the mutex of the retained tail is not released before the last use of the tail / of ReadMessage (check, receive and store are one critical section). GUARD: a frozen table (field -> mutex, discovered from the tree and confirmed by reading) of the mutable state of NoiseGrpcConn, ServerConn, ClientConn and Client; every access outside the allocating functions holds the mutex (interprocedural must-lockset; exclusive for writes); the two unguarded reads in ServerConn.Close are accepted only while they come after gbnConn.Close(), which joins every goroutine that can replace the streams. Not decided: the equality of concatenations as a property of histories (follows from RDC-1/2/3 + C08 + C16 only by an inductive argument the checker does not make).",
		[]string{"bytes.Buffer.Read/Write implement the io.Reader/io.Writer contract; copy returns min(len(dst), len(src))"},
		runC15)
}

func isByteSlice(t types.Type) bool {
	s, ok := t.Underlying().(*types.Slice)
	if !ok {
		return false
	}
	b, ok := s.Elem().Underlying().(*types.Basic)
	return ok && b.Kind() == types.Uint8
}

func isErrorType(t types.Type) bool {
	return types.Identical(t, types.Universe.Lookup("error").Type())
}

// ioMethods finds methods named `name` with signature func([]byte) (int, error).
func ioMethods(w *World, pkg, name string) []*ssa.Function {
	var out []*ssa.Function
	for _, fn := range w.Funcs {
		if fn.Name() != name || fn.Signature.Recv() == nil || fn.Parent() != nil || w.pkgShort(fn) != pkg {
			continue
		}
		sig := fn.Signature
		if sig.Params().Len() != 1 || sig.Results().Len() != 2 {
			continue
		}
		if !isByteSlice(sig.Params().At(0).Type()) || !isInteger(sig.Results().At(0).Type()) || !isErrorType(sig.Results().At(1).Type()) {
			continue
		}
		out = append(out, fn)
	}
	return out
}

// sliceOfParam: v is b or a slice b[lo:hi] of the parameter b.
func sliceOfParam(v ssa.Value, b ssa.Value) bool {
	v = unwrapLoadAlloc(v)
	if v == b {
		return true
	}
	if sl, ok := v.(*ssa.Slice); ok {
		return sliceOfParam(sl.X, b)
	}
	return false
}

// receiverField: v is load(recv.F) (possibly through recv.embedded.F); returns F.
func receiverFieldLoad(v ssa.Value, recv ssa.Value) *types.Var {
	u, ok := unwrapLoadAlloc(v).(*ssa.UnOp)
	if !ok || u.Op != token.MUL {
		return nil
	}
	fa, ok := u.X.(*ssa.FieldAddr)
	if !ok || fa.X != recv {
		return nil
	}
	return structFieldOf(fa)
}

// isBufferMethodOnRecvField: call is (*bytes.Buffer).<name>(&recv.F, ...).
func bufferCallOnRecvField(call *ssa.Call, recv ssa.Value, name string) (*types.Var, bool) {
	sc := call.Common().StaticCallee()
	if sc == nil || !isMethod(sc, "bytes", "Buffer", name) {
		return nil, false
	}
	fa, ok := call.Common().Args[0].(*ssa.FieldAddr)
	if !ok || fa.X != recv {
		return nil, false
	}
	return structFieldOf(fa), true
}

func runC15(c *Checker) {
	// "no byte lost" also depends on the framing below: exact-length reads that consume the
	// transport itself, the flush protocol (C16) - imported as LAYER/C16:<rule>
	importLayers(c, "C16", "C08")
	// connKit.Read is one gbn Recv: a Recv that loses or repeats part of a message (C14, the chunk
	// accumulator) breaks the byte stream above it
	importLayers(c, "C14")
	w := c.w
	rg := newRanger(w)
	reads := ioMethods(w, targetMbox, "Read")
	if len(reads) < 3 {
		c.fail("RDC-1", "methods", token.NoPos, fmt.Sprintf("expected the Read methods of NoiseGrpcConn, NoiseConn and connKit, found %d", len(reads)))
	}
	for _, fn := range reads {
		checkReadMethod(c, rg, fn)
	}
	c.floor("RDC-1", 6)
	ruleSessionReset(c, "RDC-2")
	ruleReadAtomic(c, "RDC-2")
	// net.Conn: "multiple goroutines may invoke methods on a Conn simultaneously" - the mutable
	// state of the secured connections is reached only under its mutex (frozen guard table)
	ruleGuardTable(c, "GUARD")
	c.floor("RDC-2", 8)
	writes := ioMethods(w, targetMbox, "Write")
	for _, fn := range writes {
		checkWriteMethod(c, rg, fn)
	}
	c.floor("RDC-3", 6)
	c.floor("RDC-4", 2)
	// the bytes a Read keeps for later calls must stay what they were: the record layer hands up
	// fresh plaintext buffers and keeps reader and writer state apart (DUPLEX, as C05/C08)
	ruleDUPLEX(c)
	// a new record may only be started when nothing of the previous one is pending: otherwise bytes
	// that Write already reported as written are overwritten and lost (as C16 FLUSH)
	if wm := w.Func("(*mailbox.Machine).WriteMessage"); wm != nil {
		hdr, body := w.Field("mailbox.Machine.nextHeaderSend"), w.Field("mailbox.Machine.nextBodySend")
		if hdr == nil || body == nil {
			c.anchorFail("mailbox.Machine.nextHeaderSend/nextBodySend")
		} else {
			ruleWriteMessageGuard(c, "RDC-3", wm, hdr, body)
		}
	} else {
		c.anchorFail("(*mailbox.Machine).WriteMessage")
	}
	checkNarrowing(c, rg, "TRUNC", targetMbox)
	c.floor("TRUNC", 3)
}

func checkReadMethod(c *Checker, rg *Ranger, fn *ssa.Function) {
	w := c.w
	recv, b := ssa.Value(fn.Params[0]), ssa.Value(fn.Params[1])
	name := fnName(fn)
	type copySite struct {
		call *ssa.Call
	}
	var copies []*ssa.Call
	// RDC-1: returned counts
	allInstrs(fn, func(in ssa.Instruction) {
		ret, ok := in.(*ssa.Return)
		if !ok {
			return
		}
		for _, v := range expandValues(ret.Results[0]) {
			key := fmt.Sprintf("%s|count|%s", name, w.canonFB(v))
			if k, ok := intConst(v); ok {
				c.decide(k == 0, "RDC-1", key, instrPos(ret), "constant 0", fmt.Sprintf("Read returns the constant count %d regardless of the buffer size", k))
				continue
			}
			// copy(b', src)
			if call, ok := v.(*ssa.Call); ok {
				if bi, ok := call.Call.Value.(*ssa.Builtin); ok && bi.Name() == "copy" {
					okk := sliceOfParam(call.Call.Args[0], b)
					c.decide(okk, "RDC-1", key, instrPos(call), "count of copy into the caller's buffer", "returned count is the result of a copy whose destination is not the caller's buffer")
					if okk {
						copies = appendCall(copies, call)
					}
					continue
				}
			}
			// delegated Read(b)
			if ex, ok := v.(*ssa.Extract); ok && ex.Index == 0 {
				if call, ok := ex.Tuple.(*ssa.Call); ok {
					cc := call.Common()
					var arg ssa.Value
					if cc.IsInvoke() && cc.Method.Name() == "Read" && len(cc.Args) == 1 {
						arg = cc.Args[0]
					} else if sc := cc.StaticCallee(); sc != nil && sc.Name() == "Read" && len(cc.Args) == 2 {
						arg = cc.Args[1]
					}
					if arg != nil && sliceOfParam(arg, b) {
						c.ok("RDC-1", key, instrPos(call), "count of a delegated Read on (a slice of) the caller's buffer: "+calleeLabel(cc))
						continue
					}
				}
			}
			c.fail("RDC-1", key, instrPos(ret), "returned count "+w.canonFB(v)+" is not tied to the caller's buffer (n may exceed len(b))")
		}
	})
	// any copy into b whose count is not returned is also suspicious: find all copies into b
	allInstrs(fn, func(in ssa.Instruction) {
		call, ok := in.(*ssa.Call)
		if !ok {
			return
		}
		if bi, ok := call.Call.Value.(*ssa.Builtin); ok && bi.Name() == "copy" && sliceOfParam(call.Call.Args[0], b) {
			found := false
			for _, x := range copies {
				if x == call {
					found = true
				}
			}
			if !found {
				c.fail("RDC-1", fmt.Sprintf("%s|copy-count-dropped|%s", name, w.canonFB(call.Call.Args[1])), instrPos(call),
					"a copy into the caller's buffer whose count is not the returned count")
			}
		}
	})

	// RDC-2
	for _, cp := range copies {
		srcs := expandValues(cp.Call.Args[1])
		var F *types.Var
		okSrc := len(srcs) > 0
		for _, s := range srcs {
			var f *types.Var
			if f = receiverFieldLoad(s, recv); f == nil {
				if sl, ok := s.(*ssa.Slice); ok && sl.Low == nil && sl.Max == nil {
					f = receiverFieldLoad(sl.X, recv)
				}
			}
			if f == nil || (F != nil && f != F) {
				okSrc = false
				break
			}
			F = f
		}
		key := fmt.Sprintf("%s|copy-source", name)
		if !okSrc && len(srcs) == 1 {
			// direct hand-out of a whole received message: fine when the caller's buffer is proved
			// to hold any record (>= 65535 bytes) and no earlier bytes are still buffered
			if ex, ok := srcs[0].(*ssa.Extract); ok && ex.Index == 0 {
				if _, isCall := ex.Tuple.(*ssa.Call); isCall {
					facts := factsAt(cp.Block())
					big := rg.minLen(b, facts) >= 65535
					drained := true
					allInstrs(fn, func(in ssa.Instruction) {
						call, ok := in.(*ssa.Call)
						if !ok {
							return
						}
						f, ok := bufferCallOnRecvField(call, recv, "Read")
						if !ok {
							return
						}
						empty := false
						for _, ft := range facts {
							bo, ok := ft.Cond.(*ssa.BinOp)
							if !ok {
								continue
							}
							lc, ok := bo.X.(*ssa.Call)
							if !ok {
								continue
							}
							if lf, ok := bufferCallOnRecvField(lc, recv, "Len"); !ok || lf != f {
								continue
							}
							if k, isK := intConst(bo.Y); isK && k == 0 && ((bo.Op == token.EQL && ft.Val) || (bo.Op == token.NEQ && !ft.Val) || (bo.Op == token.GTR && !ft.Val)) {
								empty = true
							}
						}
						if !empty {
							drained = false
						}
					})
					if c.decide(big && drained, "RDC-2", key+"|direct", instrPos(cp), "a whole record is copied straight into a buffer proved >= 65535 bytes while nothing is buffered",
						fmt.Sprintf("a received record is copied straight into the caller's buffer (buffer proved large enough for any record: %v; earlier unread bytes known to be absent: %v): bytes are dropped or overtaken", big, drained)) {
					}
					continue
				}
			}
		}
		if !okSrc {
			c.fail("RDC-2", key, instrPos(cp), "the copied source "+w.canonFB(cp.Call.Args[1])+" is not a prefix of one receiver field: bytes that do not fit the buffer cannot be retained")
			continue
		}
		c.ok("RDC-2", key, instrPos(cp), "source is a prefix of receiver field "+F.Name())
		// F advanced by the count on every path to return
		var adv []*ssa.Store
		var refill []*ssa.Store
		for _, st := range w.Stores(F) {
			if st.Parent() != fn {
				// dropping the tail is what a function that starts a new session (installs a
				// new noise Machine on the same object) has to do; nothing else may touch it
				if isNilConst(st.Val) && installsMachine(st.Parent()) {
					c.ok("RDC-2", fmt.Sprintf("%s|session-reset|%s", name, fnName(st.Parent())), instrPos(st),
						"the tail is dropped by a function that installs a new Machine (new session, new stream)")
					continue
				}
				c.fail("RDC-2", fmt.Sprintf("%s|foreign-writer|%s", name, fnName(st.Parent())), instrPos(st),
					"receiver field "+F.Name()+" holding unread bytes is written outside "+name)
				continue
			}
			if sl, ok := unwrapLoadAlloc(st.Val).(*ssa.Slice); ok && sl.High == nil && sl.Max == nil && sl.Low != nil &&
				receiverFieldLoad(sl.X, recv) == F && unwrapLoadAlloc(sl.Low) == ssa.Value(cp) {
				adv = append(adv, st)
				continue
			}
			refill = append(refill, st)
		}
		keyAdv := fmt.Sprintf("%s|advance|%s", name, F.Name())
		if len(adv) == 0 {
			c.fail("RDC-2", keyAdv, instrPos(cp), "after copy, "+F.Name()+" is not replaced by "+F.Name()+"[n:] with n the copy count: uncopied bytes are lost or bytes are delivered twice")
		} else {
			isAdv := func(in ssa.Instruction) bool {
				for _, a := range adv {
					if in == ssa.Instruction(a) {
						return true
					}
				}
				return false
			}
			bad := pathToReturn(cp, func(r *ssa.Return) bool { return true }, isAdv)
			c.decide(bad == nil, "RDC-2", keyAdv, instrPos(cp), F.Name()+" = "+F.Name()+"[n:] on every path from the copy to a return",
				"some path from the copy to a return does not advance "+F.Name()+" by the copy count")
		}
		for _, st := range refill {
			keyR := fmt.Sprintf("%s|refill|%s|%s", name, F.Name(), w.canonFB(st.Val))
			// whole message: result 0 of a call (ReadMessage) or nil
			if isNilConst(st.Val) {
				// resetting is only fine when empty
			}
			whole := false
			if ex, ok := unwrapLoadAlloc(st.Val).(*ssa.Extract); ok && ex.Index == 0 {
				if _, ok := ex.Tuple.(*ssa.Call); ok {
					whole = true
				}
			}
			// dominated by len(F) == 0
			empty := false
			for _, f := range factsAt(st.Block()) {
				bo, ok := f.Cond.(*ssa.BinOp)
				if !ok {
					continue
				}
				call, ok := bo.X.(*ssa.Call)
				if !ok {
					continue
				}
				bi, ok := call.Call.Value.(*ssa.Builtin)
				if !ok || bi.Name() != "len" || receiverFieldLoad(call.Call.Args[0], recv) != F {
					continue
				}
				k, ok := intConst(bo.Y)
				if !ok || k != 0 {
					continue
				}
				if (bo.Op == token.EQL && f.Val) || (bo.Op == token.GTR && !f.Val) || (bo.Op == token.NEQ && !f.Val) {
					empty = true
				}
			}
			c.decide(whole && empty, "RDC-2", keyR, instrPos(st), "refilled only when empty, with a whole received message",
				fmt.Sprintf("%s is overwritten (whole message: %v, only when empty: %v): unread bytes are dropped or a message is stored partially", F.Name(), whole, empty))
		}
	}
	// the delegated buffer (a bytes.Buffer field of the receiver) holds the not yet delivered rest of
	// the stream: the Read method only appends to it, serves from it and asks for its length - it
	// never replaces, resets or truncates it (not even "to give the memory back": the unread tail
	// would be dropped without an error)
	allInstrs(fn, func(in ssa.Instruction) {
		isBufField := func(v ssa.Value) (*types.Var, bool) {
			fa, ok := v.(*ssa.FieldAddr)
			if !ok || fa.X != recv {
				return nil, false
			}
			f := structFieldOf(fa)
			if nn := namedOf(f.Type()); nn != nil && nn.Obj().Pkg() != nil && nn.Obj().Pkg().Path() == "bytes" && nn.Obj().Name() == "Buffer" {
				return f, true
			}
			return nil, false
		}
		switch x := in.(type) {
		case *ssa.Store:
			if f, ok := isBufField(x.Addr); ok {
				c.fail("RDC-2", fmt.Sprintf("%s|buffer %s is never replaced", name, f.Name()), instrPos(x), f.Name()+" is overwritten as a whole in "+name+": whatever was not yet delivered from it is dropped silently")
			}
		case *ssa.Call:
			sc := x.Common().StaticCallee()
			if sc == nil || sc.Signature.Recv() == nil || len(x.Common().Args) == 0 {
				return
			}
			if f, ok := isBufField(x.Common().Args[0]); ok {
				switch sc.Name() {
				case "Write", "Read", "Len", "Cap", "Available":
				default:
					c.fail("RDC-2", fmt.Sprintf("%s|buffer %s is only appended to and served from|%s", name, f.Name(), sc.Name()), instrPos(x), name+" calls "+f.Name()+"."+sc.Name()+": the undelivered rest of the stream can be discarded or re-read")
				}
			}
		}
	})
	// delegated buffer: a received message flows whole into the buffer
	allInstrs(fn, func(in ssa.Instruction) {
		call, ok := in.(*ssa.Call)
		if !ok {
			return
		}
		if f, ok := bufferCallOnRecvField(call, recv, "Write"); ok {
			arg := unwrapLoadAlloc(call.Common().Args[1])
			key := fmt.Sprintf("%s|buffer-fill|%s", name, f.Name())
			whole := false
			desc := w.canonFB(arg)
			if ex, ok := arg.(*ssa.Extract); ok && ex.Index == 0 {
				_, whole = ex.Tuple.(*ssa.Call)
			}
			if u, ok := arg.(*ssa.UnOp); ok && u.Op == token.MUL {
				if mfa, ok := u.X.(*ssa.FieldAddr); ok {
					whole = true // a whole field of the received message (data.Payload)
					// the message struct the payload is taken from must be a fresh one for every receive: a
					// decoder that leaves a field untouched (empty payload) would otherwise hand out the
					// previous message's bytes again
					msg := unwrapLoadAlloc(mfa.X)
					var creation ssa.Instruction
					switch m := msg.(type) {
					case *ssa.Call:
						if m.Parent() == fn {
							creation = m
						}
					case *ssa.Alloc:
						if m.Parent() == fn {
							creation = m
						}
					}
					fresh := creation != nil
					if fresh {
						// every use of the message as a call argument (the receive) is re-reached only through the creation
						for _, r := range *msg.Referrers() {
							var user ssa.Instruction
							switch x := r.(type) {
							case *ssa.MakeInterface:
								for _, r2 := range *x.Referrers() {
									if ci, ok := r2.(ssa.CallInstruction); ok {
										user = ci
									}
								}
							case ssa.CallInstruction:
								user = x
							}
							if user != nil && user != creation && pathExists(user, user, func(in ssa.Instruction) bool { return in == creation }) {
								fresh = false
							}
						}
					}
					c.decide(fresh, "RDC-2", fmt.Sprintf("%s|fresh message per receive|%s", name, f.Name()), instrPos(call),
						"the message the payload is taken from is created anew before every receive",
						"the received payload is read out of a message struct that is reused across receives (receiver state or created once outside the loop): a message that leaves the field untouched (empty payload) re-delivers the previous message's bytes")
				}
			}
			c.decide(whole, "RDC-2", key, instrPos(call), "whole received message appended to the receiver-owned buffer: "+desc,
				"only part of the received message is buffered: "+desc)
			// the Read that serves the caller must be on the same buffer
		}
		if f, ok := bufferCallOnRecvField(call, recv, "Read"); ok {
			c.ok("RDC-2", fmt.Sprintf("%s|buffer-serve|%s", name, f.Name()), instrPos(call), "served from the receiver-owned buffer "+f.Name())
			// RDC-4: bytes.Buffer.Read reports io.EOF on an empty buffer. The caller may only be
			// served where the buffer is known to hold data (an empty record must not end the stream).
			var lenCall *ssa.Call
			for _, ft := range factsAt(call.Block()) {
				bo, ok := ft.Cond.(*ssa.BinOp)
				if !ok {
					continue
				}
				lc, ok := bo.X.(*ssa.Call)
				if !ok {
					continue
				}
				if lf, ok := bufferCallOnRecvField(lc, recv, "Len"); !ok || lf != f {
					continue
				}
				k, isK := intConst(bo.Y)
				if !isK {
					continue
				}
				if lenFactNonEmpty(bo.Op, k, ft.Val) {
					lenCall = lc
				}
			}
			okNE := lenCall != nil
			why := "the buffer may be empty here (e.g. after an empty record was received): bytes.Buffer.Read then returns io.EOF and the stream ends for the caller although more data follows"
			if okNE {
				// nothing drains the buffer between that test and the serve
				allInstrs(fn, func(in2 ssa.Instruction) {
					m, ok := in2.(*ssa.Call)
					if !ok || m == call || m == lenCall {
						return
					}
					sc := m.Common().StaticCallee()
					if sc == nil || sc.Signature.Recv() == nil || len(m.Common().Args) == 0 {
						return
					}
					fa, ok := m.Common().Args[0].(*ssa.FieldAddr)
					if !ok || fa.X != recv || structFieldOf(fa) != f || sc.Name() == "Len" || sc.Name() == "Write" {
						return
					}
					if pathExists(lenCall, m, nil) && pathExists(m, call, nil) {
						okNE = false
						why = "the buffer is drained by " + sc.Name() + " between the non-empty test and the serve"
					}
				})
			}
			c.decide(okNE, "RDC-4", fmt.Sprintf("%s|serve only from a non-empty buffer|%s", name, f.Name()), instrPos(call),
				"the serve is dominated by "+f.Name()+".Len() != 0", why)
		}
	})
}

func appendCall(s []*ssa.Call, c *ssa.Call) []*ssa.Call {
	for _, x := range s {
		if x == c {
			return s
		}
	}
	return append(s, c)
}

func checkWriteMethod(c *Checker, rg *Ranger, fn *ssa.Function) {
	w := c.w
	b := ssa.Value(fn.Params[1])
	name := fnName(fn)
	// every Flush a Write performs puts bytes on the wire that count as written: its count must reach
	// the count Write reports (returned directly, or added to the running count)
	nFl := 0
	allInstrs(fn, func(in ssa.Instruction) {
		call, ok := in.(*ssa.Call)
		if !ok || !calleeNamed(call, "Flush") {
			return
		}
		nFl++
		var cnt *ssa.Extract
		if call.Referrers() != nil {
			for _, r := range *call.Referrers() {
				if ex, ok := r.(*ssa.Extract); ok && ex.Index == 0 {
					cnt = ex
				}
			}
		}
		used := false
		if cnt != nil && cnt.Referrers() != nil {
			for _, r := range *cnt.Referrers() {
				switch x := r.(type) {
				case *ssa.Return:
					used = true
				case *ssa.BinOp:
					if x.Op == token.ADD {
						used = true
					}
				case *ssa.Phi, *ssa.Store:
					used = true
				}
			}
		}
		c.decide(used, "RDC-3", fmt.Sprintf("%s|flush-%d count is accounted", name, nFl), instrPos(call), "the count of this Flush is returned or added to the reported count",
			"the plaintext count of a Flush is dropped: bytes that went out on the wire are reported as not written, so a caller that retries the remainder sends them twice")
	})
	allInstrs(fn, func(in ssa.Instruction) {
		ret, ok := in.(*ssa.Return)
		if !ok {
			return
		}
		// pass-through: return f(...)
		if len(ret.Results) == 2 {
			if e0, ok := ret.Results[0].(*ssa.Extract); ok {
				if e1, ok := ret.Results[1].(*ssa.Extract); ok && e0.Tuple == e1.Tuple && e0.Index == 0 && e1.Index == 1 {
					if call, ok := e0.Tuple.(*ssa.Call); ok {
						key := fmt.Sprintf("%s|count|pass-through %s", name, calleeLabel(call.Common()))
						okk := calleeNamed(call, "Flush")
						c.decide(okk, "RDC-3", key, instrPos(ret), "count and error of Flush passed through",
							"Write passes through the count of "+calleeLabel(call.Common())+" which is not the flush of the record layer")
						return
					}
				}
			}
		}
		if acc, ok := accumulatesFlush(ret.Results[0]); ok {
			c.ok("RDC-3", fmt.Sprintf("%s|count|%s", name, w.canonFB(unwrapLoadAlloc(ret.Results[0]))), instrPos(ret), "accumulated Flush counts: "+acc)
			// a successful return of the accumulated count says "all of b was written": it is only
			// reached when the count is no longer below len(b) (the chunk loop runs until everything is
			// handed over - a loop with a precomputed number of rounds can stop short of the end)
			if len(ret.Results) == 2 && isNilConst(ret.Results[1]) {
				cnt := ret.Results[0]
				var buf ssa.Value
				if len(fn.Params) >= 2 {
					buf = fn.Params[1]
				}
				whole := hasFact(ret.Block(), func(f Fact) bool {
					bo, ok := f.Cond.(*ssa.BinOp)
					if !ok {
						return false
					}
					isLen := func(v ssa.Value) bool {
						for _, x := range expandValues(v) {
							call, ok := x.(*ssa.Call)
							if !ok {
								return false
							}
							b, ok := call.Call.Value.(*ssa.Builtin)
							if !ok || b.Name() != "len" || unwrapLoadAlloc(call.Call.Args[0]) != buf {
								return false
							}
						}
						return true
					}
					same := func(v ssa.Value) bool { return v == cnt || unwrapLoadAlloc(v) == unwrapLoadAlloc(cnt) }
					// !(cnt < len(b))  or  cnt >= len(b)  or  cnt == len(b)
					switch {
					case bo.Op == token.LSS && !f.Val && same(bo.X) && isLen(bo.Y):
						return true
					case bo.Op == token.GEQ && f.Val && same(bo.X) && isLen(bo.Y):
						return true
					case bo.Op == token.LEQ && f.Val && isLen(bo.X) && same(bo.Y):
						return true
					case bo.Op == token.EQL && f.Val && (same(bo.X) && isLen(bo.Y) || same(bo.Y) && isLen(bo.X)):
						return true
					}
					return false
				})
				c.decide(whole, "RDC-3", name+"|success only when the whole buffer was handed over", instrPos(ret), "the successful return is reached only under count >= len(b)",
					"a chunking Write can report success with a count below len(b): the tail of the buffer is never written and the caller is not told")
			}
			return
		}
		for _, v := range expandValues(ret.Results[0]) {
			key := fmt.Sprintf("%s|count|%s", name, w.canonFB(v))
			if k, ok := intConst(v); ok {
				// constant 0 must come with a non-nil error
				errNonNil := true
				for _, e := range expandValues(ret.Results[1]) {
					if isNilConst(e) {
						errNonNil = false
					}
				}
				c.decide(k == 0 && errNonNil, "RDC-3", key, instrPos(ret), "0 with an error",
					fmt.Sprintf("Write returns the constant %d (with nil error possible: %v)", k, !errNonNil))
				continue
			}
			if call, ok := v.(*ssa.Call); ok {
				if bi, ok := call.Call.Value.(*ssa.Builtin); ok && bi.Name() == "len" && unwrapLoadAlloc(call.Call.Args[0]) == b {
					// len(b): whole b must have been handed to the layer below on this path
					okk := wholeHandedBelow(c, fn, ret, b)
					c.decide(okk, "RDC-3", key, instrPos(ret), "len(b) returned after the whole buffer was handed to the layer below without error",
						"len(b) is reported although the whole buffer was not handed to the layer below on every path")
					continue
				}
			}
			if ex, ok := v.(*ssa.Extract); ok && ex.Index == 0 {
				if call, ok := ex.Tuple.(*ssa.Call); ok && calleeNamed(call, "Flush") {
					c.ok("RDC-3", key, instrPos(ret), "count of Flush")
					continue
				}
			}
			if phi, ok := v.(*ssa.Phi); ok {
				_ = phi
			}
			if acc, ok := accumulatesFlush(v); ok {
				c.ok("RDC-3", key, instrPos(ret), "accumulated Flush counts: "+acc)
				continue
			}
			c.fail("RDC-3", key, instrPos(ret), "returned count "+w.canonFB(v)+" is not tied to what was handed to the layer below")
		}
	})
	// a Write method that chunks promises to take any length: each record it forms must then fit the
	// record limit WriteMessage enforces (math.MaxUint16) - the unchunked hand-over only under a
	// proved len(b) <= 65535, a chunk length never a constant above it
	chunks := false
	allInstrs(fn, func(in ssa.Instruction) {
		if call, ok := in.(*ssa.Call); ok && calleeNamed(call, "WriteMessage") {
			args := call.Common().Args
			if sl, ok := unwrapLoadAlloc(args[len(args)-1]).(*ssa.Slice); ok && sl.X == b {
				chunks = true
			}
		}
	})
	if chunks {
		rg := newRanger(w)
		allInstrs(fn, func(in ssa.Instruction) {
			call, ok := in.(*ssa.Call)
			if !ok || !calleeNamed(call, "WriteMessage") {
				return
			}
			args := call.Common().Args
			arg := unwrapLoadAlloc(args[len(args)-1])
			key := fmt.Sprintf("%s|record fits the limit|%s", name, w.canonFB(arg))
			if arg == b {
				okk := false
				allInstrs(fn, func(x ssa.Instruction) {
					lc, isCall := x.(*ssa.Call)
					if !isCall {
						return
					}
					if bi, isB := lc.Call.Value.(*ssa.Builtin); isB && bi.Name() == "len" && unwrapLoadAlloc(lc.Call.Args[0]) == b {
						if r := rg.At(lc, call.Block()); !r.empty && r.hi <= 65535 {
							okk = true
						}
					}
				})
				c.decide(okk, "RDC-3", key, instrPos(call), "len(b) <= 65535 where the whole buffer is one record",
					"the whole buffer is handed over as one record without len(b) <= math.MaxUint16 being established: a write just above the limit is refused instead of being chunked")
				return
			}
			if sl, ok := arg.(*ssa.Slice); ok && sl.Low != nil && sl.High != nil {
				if add, ok := sl.High.(*ssa.BinOp); ok && add.Op == token.ADD {
					x := add.Y
					if add.Y == sl.Low {
						x = add.X
					}
					bad := ""
					for _, v := range expandValues(x) {
						if k, isK := intConst(v); isK && k > 65535 {
							bad = fmt.Sprint(k)
						}
					}
					c.decide(bad == "", "RDC-3", key, instrPos(call), "chunk length is never a constant above 65535",
						"a chunk of "+bad+" bytes exceeds the record limit: every large write fails")
				}
			}
		})
	}
	// chunk loop contiguity (NoiseConn.Write): every WriteMessage argument is b or b[acc : acc+k]
	allInstrs(fn, func(in ssa.Instruction) {
		call, ok := in.(*ssa.Call)
		if !ok || !calleeNamed(call, "WriteMessage") {
			return
		}
		args := call.Common().Args
		arg := unwrapLoadAlloc(args[len(args)-1])
		key := fmt.Sprintf("%s|record-source|%s", name, w.canonFB(arg))
		if arg == b {
			c.ok("RDC-3", key, instrPos(call), "the whole buffer is one record")
			return
		}
		if sl, ok := arg.(*ssa.Slice); ok && sl.X == b && sl.Low != nil && sl.High != nil {
			_, accOK := accumulatesFlush(sl.Low)
			contiguous := false
			if add, ok := sl.High.(*ssa.BinOp); ok && add.Op == token.ADD && (add.X == sl.Low || add.Y == sl.Low) {
				contiguous = true
			}
			c.decide(accOK && contiguous, "RDC-3", key, instrPos(call), "chunk starts at the accumulated flushed count and is contiguous",
				"chunk does not start at the number of bytes already flushed: bytes are skipped or repeated")
			return
		}
		c.fail("RDC-3", key, instrPos(call), "record payload is not (a contiguous chunk of) the caller's buffer")
	})
	// the accumulation must happen before the error test of Flush
	allInstrs(fn, func(in ssa.Instruction) {
		call, ok := in.(*ssa.Call)
		if !ok || !calleeNamed(call, "Flush") {
			return
		}
		// find the add that consumes extract 0
		var cnt, errv ssa.Value
		for _, r := range *call.Referrers() {
			if ex, ok := r.(*ssa.Extract); ok {
				if ex.Index == 0 {
					cnt = ex
				} else {
					errv = ex
				}
			}
		}
		if cnt == nil || errv == nil {
			return
		}
		var add *ssa.BinOp
		for _, r := range *cnt.Referrers() {
			if bo, ok := r.(*ssa.BinOp); ok && bo.Op == token.ADD {
				add = bo
			}
		}
		if add == nil {
			return // pass-through form
		}
		key := fmt.Sprintf("%s|flush-count-before-error", name)
		// the add must be in the same block as the call (before any branch on err)
		c.decide(add.Block() == call.Block(), "RDC-3", key, instrPos(add), "the flushed count is added before the error of Flush is tested",
			"the flushed count is only added on the success leg: a partial write followed by an error under-reports the bytes written")
	})
}

func calleeNamed(call *ssa.Call, name string) bool {
	cc := call.Common()
	if cc.IsInvoke() {
		return cc.Method.Name() == name
	}
	sc := cc.StaticCallee()
	return sc != nil && sc.Name() == name
}

// accumulatesFlush: v is a loop accumulator phi(0, phi + FlushCount).
func accumulatesFlush(v ssa.Value) (string, bool) {
	v = unwrapLoadAlloc(v)
	phi, ok := v.(*ssa.Phi)
	if !ok {
		if bo, ok := v.(*ssa.BinOp); ok && bo.Op == token.ADD {
			// phi + n form
			for _, pr := range [][2]ssa.Value{{bo.X, bo.Y}, {bo.Y, bo.X}} {
				if p, ok := pr[0].(*ssa.Phi); ok {
					if _, ok2 := accumulatesFlush(p); ok2 && isFlushCount(pr[1]) {
						return "acc + flush count", true
					}
				}
			}
		}
		return "", false
	}
	okAll := len(phi.Edges) > 0
	for _, e := range phi.Edges {
		if k, ok := intConst(e); ok && k == 0 {
			continue
		}
		if bo, ok := e.(*ssa.BinOp); ok && bo.Op == token.ADD {
			if (bo.X == ssa.Value(phi) && isFlushCount(bo.Y)) || (bo.Y == ssa.Value(phi) && isFlushCount(bo.X)) {
				continue
			}
		}
		okAll = false
	}
	return "phi(0, acc + flush count)", okAll
}

func isFlushCount(v ssa.Value) bool {
	ex, ok := unwrapLoadAlloc(v).(*ssa.Extract)
	if !ok || ex.Index != 0 {
		return false
	}
	call, ok := ex.Tuple.(*ssa.Call)
	return ok && calleeNamed(call, "Flush")
}

// wholeHandedBelow: on every path to ret, a call that received the whole b (directly or wrapped
// by a constructor taking b) has been made and its error was nil.
func wholeHandedBelow(c *Checker, fn *ssa.Function, ret *ssa.Return, b ssa.Value) bool {
	// find values wrapping b: calls with b as an argument returning a pointer (NewMsgData(_, b))
	wrapped := map[ssa.Value]bool{b: true}
	allInstrs(fn, func(in ssa.Instruction) {
		if call, ok := in.(*ssa.Call); ok {
			for _, a := range call.Common().Args {
				if a == b && call.Common().StaticCallee() != nil && call.Type() != nil {
					if _, isPtr := call.Type().Underlying().(*types.Pointer); isPtr {
						wrapped[call] = true
					}
				}
			}
		}
	})
	for _, f := range factsAt(ret.Block()) {
		bo, ok := f.Cond.(*ssa.BinOp)
		if !ok || !isNilConst(bo.Y) {
			continue
		}
		isNil := (bo.Op == token.NEQ && !f.Val) || (bo.Op == token.EQL && f.Val)
		if !isNil {
			continue
		}
		call, ok := bo.X.(*ssa.Call)
		if !ok {
			continue
		}
		for _, a := range call.Common().Args {
			x := a
			if mi, ok := a.(*ssa.MakeInterface); ok {
				x = mi.X
			}
			if ci, ok := x.(*ssa.ChangeInterface); ok {
				x = ci.X
			}
			if wrapped[x] {
				return true
			}
		}
	}
	return false
}

// checkNarrowing: every integer conversion to a narrower type is exact.
func checkNarrowing(c *Checker, rg *Ranger, rule, pkg string) {
	w := c.w
	for _, fn := range w.Funcs {
		if w.pkgShort(fn) != pkg {
			continue
		}
		allInstrs(fn, func(in ssa.Instruction) {
			cv, ok := in.(*ssa.Convert)
			if !ok || !isInteger(cv.Type()) || !isInteger(cv.X.Type()) {
				return
			}
			if _, isConst := cv.X.(*ssa.Const); isConst {
				return
			}
			src, dst := fullRange(cv.X.Type()), fullRange(cv.Type())
			narrowing := !src.within(dst) || (isU64(cv.X.Type()) && !isU64(cv.Type()))
			if !narrowing {
				return
			}
			// only lengths / counts matter: the operand must derive from len()
			if !derivesFromLen(cv.X, 0) {
				return
			}
			r := rg.At(cv.X, cv.Block())
			key := fmt.Sprintf("%s|conv<%s>(%s)", fnName(fn), typeStr(cv.Type()), w.canonFB(cv.X))
			if r.within(dst) && !(isU64(cv.X.Type()) && r.hi == maxI64) {
				c.ok(rule, key, instrPos(cv), fmt.Sprintf("operand range %s fits %s", r, typeStr(cv.Type())))
				return
			}
			if why, ok := trustedNarrowing[key]; ok {
				c.ok(rule, key, instrPos(cv), "listed: "+why)
				return
			}
			c.fail(rule, key, instrPos(cv), fmt.Sprintf("length %s (range %s) is converted to %s without a dominating bound: larger values are silently truncated", w.canonFB(cv.X), r, typeStr(cv.Type())))
		})
	}
}

const maxI64 = int64(^uint64(0) >> 1)

var trustedNarrowing = map[string]string{
	"(*mailbox.MsgData).Serialize|conv<uint32>(len(load(mailbox.MsgData.Payload)))": "a control message carries one Noise record (<= 65551 bytes) or one handshake act whose payload is bounded by the MaxInt32 check in writeMsgPattern; 4 GiB is unreachable",
}

func derivesFromLen(v ssa.Value, d int) bool {
	v = unwrapLoadAlloc(v)
	if d > 6 {
		return false
	}
	switch x := v.(type) {
	case *ssa.Call:
		if b, ok := x.Call.Value.(*ssa.Builtin); ok && (b.Name() == "len" || b.Name() == "cap") {
			return true
		}
	case *ssa.BinOp:
		return derivesFromLen(x.X, d+1) || derivesFromLen(x.Y, d+1)
	case *ssa.Convert:
		return derivesFromLen(x.X, d+1)
	case *ssa.Phi:
		for _, e := range x.Edges {
			if e != v && derivesFromLen(e, d+1) {
				return true
			}
		}
	}
	return false
}

// lenFactNonEmpty: the fact "Len() <op> k" (= val) implies Len() >= 1.
func lenFactNonEmpty(op token.Token, k int64, val bool) bool {
	if !val {
		switch op {
		case token.EQL:
			op = token.NEQ
		case token.NEQ:
			op = token.EQL
		case token.LSS:
			op = token.GEQ
		case token.LEQ:
			op = token.GTR
		case token.GTR:
			op = token.LEQ
		case token.GEQ:
			op = token.LSS
		}
	}
	switch op {
	case token.NEQ:
		return k == 0
	case token.GTR:
		return k >= 0
	case token.GEQ:
		return k >= 1
	case token.EQL:
		return k >= 1
	}
	return false
}

// installsMachine: fn stores a *Machine into a struct field (a new record-layer session).
func installsMachine(fn *ssa.Function) bool {
	found := false
	allInstrs(fn, func(in ssa.Instruction) {
		st, ok := in.(*ssa.Store)
		if !ok {
			return
		}
		if _, ok := st.Addr.(*ssa.FieldAddr); !ok {
			return
		}
		if isNamedType(deref(st.Val.Type()), "Machine") {
			found = true
		}
	})
	return found
}
