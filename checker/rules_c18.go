package main

import (
	"fmt"
	"go/token"
	"go/types"
	"sort"
	"strings"

	"golang.org/x/tools/go/ssa"
)

// ---------------------------------------------------------------------------
// C18: data races, channel panics, lock order (gbn).

func init() {
	register("C18",
		"RACE: a lockset + happens-before analysis over the goroutine roots of gbn (API methods Send/Recv/Close/SetSendTimeout/SetRecvTimeout as concurrently callable roots, the receive and send loops, the handshake reader, the ticker goroutine, proceedAfterTime, and the constructor goroutine). For every field of the connection-state types (GoBackNConn, config, queue, queueCfg, syncer, TimeoutManager, TimeoutBooster, IntervalAwareForceTicker, the sentTimes map and the queue's content elements) every pair of accesses from two roots (or a multi-instance root) with at least one write must hold a common lock (exclusively for the write), be atomic on both sides, or be ordered by one of three idioms: publication (constructor before API use), before-go (the access precedes, along every call path, the go statement that starts the other root) and after-Wait (the access is dominated by Wait on the WaitGroup the other root signals; restarts serialised by a common lock). CLOSE: every close(ch) matches a once/owner idiom and no channel with a close site has a send site. LOCKORD: the lock-class acquisition graph (through calls) is acyclic, no lock is re-acquired while held, and nothing that can wait indefinitely executes under a lock unless the goroutines it waits for never take that lock. LOCKBAL (gbn): no function of gbn returns holding a mutex it locked without a deferred unlock, none re-locks a mutex it may still hold. Not decided: races on the excluded message structs (ownership is handed over through channels/callbacks), value-sensitive orderings outside the three idioms (reported as findings, none on this tree), races inside dependencies.",
		[]string{"a mutex field of a struct guards the other fields of the same instance (instances are not confused); sync.Once, WaitGroup, channel close/receive and go statements give the happens-before edges of the Go memory model"},
		runC18)
}

type raceRoot struct {
	Name  string
	Entry *ssa.Function
	Many  bool // several instances may run concurrently
	Kind  string
	Reach map[*ssa.Function]bool
	Spawn []*ssa.Go  // go statements creating this root
	WG    *types.Var // WaitGroup field the root signals with a deferred Done
}

type access struct {
	Root  *raceRoot
	Instr ssa.Instruction
	Field *types.Var
	Write bool
	Atom  bool
	Locks LockSet
	What  string
}

var raceScopeTypes = []string{"GoBackNConn", "config", "queue", "queueCfg", "syncer", "TimeoutManager", "TimeoutBooster", "IntervalAwareForceTicker"}

func runC18(c *Checker) {
	// the ticker's reset/stop protocol (close quit, wait for the goroutine, restart) is only free of
	// self-deadlock if the goroutine can always see quit: its shape rules (TICK, as C13) belong here
	ruleTICK(c)
	// a mutex that a function leaves locked on one of its exits (explicit unlocks instead of a
	// deferred one, an early return added later) wedges every goroutine that needs it next - the
	// send loop, the receive loop and Close alike (LOCKBAL, as C05, here for package gbn)
	ruleLOCKBAL(c, targetGBN)
	w := c.w
	scope := map[*types.Named]bool{}
	for _, n := range raceScopeTypes {
		nt := w.Named("gbn." + n)
		if nt == nil {
			c.anchorFail("gbn." + n)
			return
		}
		scope[nt] = true
	}
	var gbnFuncs []*ssa.Function
	for _, f := range w.Funcs {
		if w.pkgShort(f) == targetGBN {
			gbnFuncs = append(gbnFuncs, f)
		}
	}
	// ---- roots ----
	var roots []*raceRoot
	addRoot := func(name string, entry *ssa.Function, many bool, kind string) *raceRoot {
		if entry == nil {
			c.anchorFail("root " + name)
			return nil
		}
		reach := w.ReachableWithin(func(f *ssa.Function) bool { return w.pkgShort(f) == targetGBN }, entry)
		r := &raceRoot{Name: name, Entry: entry, Many: many, Kind: kind, Reach: reach}
		roots = append(roots, r)
		return r
	}
	for _, n := range []string{"Send", "Recv", "Close", "SetSendTimeout", "SetRecvTimeout"} {
		addRoot("api:"+n, w.Func("(*gbn.GoBackNConn)."+n), true, "api")
	}
	addRoot("ctor:NewClientConn", w.Func("gbn.NewClientConn"), false, "ctor")
	addRoot("ctor:NewServerConn", w.Func("gbn.NewServerConn"), false, "ctor")
	// internal roots: every go statement in gbn
	byEntry := map[*ssa.Function]*raceRoot{}
	for _, f := range gbnFuncs {
		allInstrs(f, func(in ssa.Instruction) {
			g, ok := in.(*ssa.Go)
			if !ok {
				return
			}
			for _, callee := range w.Callees(g) {
				r := byEntry[callee]
				if r == nil {
					many := false
					// a goroutine spawned without WaitGroup tracking from a loop-driven function can have many instances
					r = addRoot("go:"+fnName(callee), callee, many, "go")
					if r == nil {
						continue
					}
					byEntry[callee] = r
				}
				r.Spawn = append(r.Spawn, g)
			}
		})
	}
	for _, r := range roots {
		if r.Kind != "go" {
			continue
		}
		// WaitGroup the root signals
		allInstrs(r.Entry, func(in ssa.Instruction) {
			d, ok := in.(*ssa.Defer)
			if !ok {
				return
			}
			find := func(fn *ssa.Function) {
				for _, ci := range findCalls(fn, func(ci ssa.CallInstruction) bool {
					sc := ci.Common().StaticCallee()
					return sc != nil && isMethod(sc, "sync", "WaitGroup", "Done")
				}) {
					if fa, ok := ci.Common().Args[0].(*ssa.FieldAddr); ok {
						r.WG = structFieldOf(fa)
					}
				}
			}
			if sc := d.Common().StaticCallee(); sc != nil && isMethod(sc, "sync", "WaitGroup", "Done") {
				if fa, ok := d.Common().Args[0].(*ssa.FieldAddr); ok {
					r.WG = structFieldOf(fa)
				}
			}
			for _, cal := range w.Callees(d) {
				find(cal)
			}
		})
		if r.WG == nil {
			// untracked goroutines may overlap with later instances of themselves
			r.Many = true
		}
	}
	c.note("roots: %d (%s)", len(roots), rootNames(roots))

	// ---- locksets ----
	rootSet := map[*ssa.Function]bool{}
	for _, r := range roots {
		rootSet[r.Entry] = true
	}
	li := w.computeLocks(gbnFuncs, rootSet)

	// ---- accesses ----
	var accs []access
	fieldInScope := func(fa *ssa.FieldAddr) bool {
		n := namedOf(fa.X.Type())
		return n != nil && scope[n]
	}
	isSyncField := func(f *types.Var) bool {
		n := namedOf(f.Type())
		if n == nil || n.Obj().Pkg() == nil {
			return false
		}
		return n.Obj().Pkg().Path() == "sync" || n.Obj().Pkg().Path() == "sync/atomic"
	}
	fContent := w.Field("gbn.queue.content")
	fSentTimes := w.Field("gbn.TimeoutManager.sentTimes")
	collect := func(fn *ssa.Function) []access {
		var out []access
		add := func(in ssa.Instruction, f *types.Var, write, atom bool, what string) {
			out = append(out, access{Instr: in, Field: f, Write: write, Atom: atom, Locks: li.At(in), What: what})
		}
		allInstrs(fn, func(in ssa.Instruction) {
			switch in := in.(type) {
			case *ssa.Store:
				switch a := in.Addr.(type) {
				case *ssa.FieldAddr:
					if fieldInScope(a) && !isSyncField(structFieldOf(a)) {
						add(in, structFieldOf(a), true, false, "store")
					}
				case *ssa.IndexAddr:
					if isLoadOfField(a.X, fContent) {
						add(in, fContent, true, false, "element store")
					}
				}
			case *ssa.UnOp:
				if in.Op != token.MUL {
					return
				}
				switch a := in.X.(type) {
				case *ssa.FieldAddr:
					if fieldInScope(a) && !isSyncField(structFieldOf(a)) {
						add(in, structFieldOf(a), false, false, "load")
					}
				case *ssa.IndexAddr:
					if isLoadOfField(a.X, fContent) {
						// element reads are tracked on a pseudo field distinct from the slice header
						add(in, fContent, false, false, "element load")
					}
				}
			case *ssa.MapUpdate:
				if isLoadOfField(in.Map, fSentTimes) {
					add(in, fSentTimes, true, false, "map update")
				}
			case *ssa.Lookup:
				if isLoadOfField(in.X, fSentTimes) {
					add(in, fSentTimes, false, false, "map lookup")
				}
			case *ssa.Call:
				cc := in.Common()
				if b, ok := cc.Value.(*ssa.Builtin); ok && b.Name() == "delete" && isLoadOfField(cc.Args[0], fSentTimes) {
					add(in, fSentTimes, true, false, "map delete")
				}
				// sync/atomic on &x.f
				if sc := cc.StaticCallee(); sc != nil && sc.Pkg != nil && sc.Pkg.Pkg.Path() == "sync/atomic" && len(cc.Args) > 0 {
					if fa, ok := cc.Args[0].(*ssa.FieldAddr); ok && fieldInScope(fa) {
						write := !strings.HasPrefix(sc.Name(), "Load")
						add(in, structFieldOf(fa), write, true, "atomic "+sc.Name())
					}
				}
			}
		})
		return out
	}
	perFn := map[*ssa.Function][]access{}
	for _, f := range gbnFuncs {
		perFn[f] = collect(f)
	}
	// loads of the slice header / map header that only serve an element access are reads of the header field;
	// header writes are the stores to the field itself (kept above).
	for _, r := range roots {
		for fn := range r.Reach {
			for _, a := range perFn[fn] {
				a.Root = r
				accs = append(accs, a)
			}
		}
	}
	byField := map[*types.Var][]access{}
	for _, a := range accs {
		byField[a.Field] = append(byField[a.Field], a)
	}
	var fields []*types.Var
	for f := range byField {
		fields = append(fields, f)
	}
	sort.Slice(fields, func(i, j int) bool { return w.fieldKey(fields[i]) < w.fieldKey(fields[j]) })

	hb := &hbOracle{w: w, roots: roots, li: li, byEntry: byEntry}
	nFields := 0
	for _, f := range fields {
		as := byField[f]
		hasWrite := false
		for _, a := range as {
			if a.Write {
				hasWrite = true
			}
		}
		key := w.fieldKey(f)
		if !hasWrite {
			continue
		}
		nFields++
		var problems []string
		var pos token.Pos
		seenPair := map[string]bool{}
		for i := range as {
			for j := range as {
				a, b := as[i], as[j]
				if !a.Write {
					continue
				}
				if a.Root == b.Root && !a.Root.Many {
					continue
				}
				if a.Root == b.Root && a.Instr == b.Instr && !a.Write {
					continue
				}
				if a.Atom && b.Atom {
					continue
				}
				// common lock, exclusive on the write side(s)
				if commonLock(a, b) {
					continue
				}
				if hb.freshInit(a) || hb.freshInit(b) {
					continue
				}
				if hb.ordered(a, b) {
					continue
				}
				pk := fmt.Sprintf("%s@%s|%s@%s", a.Root.Name, w.pos(instrPos(a.Instr)), b.Root.Name, w.pos(instrPos(b.Instr)))
				if seenPair[pk] {
					continue
				}
				seenPair[pk] = true
				if len(problems) < 4 {
					problems = append(problems, fmt.Sprintf("%s in %s [%s, %s] vs %s in %s [%s, %s]",
						a.What, fnName(a.Instr.Parent()), a.Root.Name, w.lockSetString(a.Locks),
						b.What, fnName(b.Instr.Parent()), b.Root.Name, w.lockSetString(b.Locks)))
				}
				if pos == token.NoPos {
					pos = instrPos(a.Instr)
				}
			}
		}
		if len(problems) == 0 {
			c.ok("RACE", key, fieldPos(as), fmt.Sprintf("%d accesses from %d roots: every conflicting pair shares a lock, is atomic, or is ordered", len(as), countRoots(as)))
		} else {
			c.fail("RACE", key, pos, "unsynchronised conflicting accesses: "+strings.Join(problems, "; "))
		}
	}
	c.floor("RACE", 20)
	c.note("RACE examined %d written fields, %d accesses", nFields, len(accs))

	// ---- CLOSE ----
	ruleCLOSE(c, gbnFuncs, li, hb, roots)
	// ---- LOCKORD ----
	ruleLOCKORD(c, gbnFuncs, li, roots)
}

func rootNames(rs []*raceRoot) string {
	var s []string
	for _, r := range rs {
		s = append(s, r.Name)
	}
	return strings.Join(s, ", ")
}

func fieldPos(as []access) token.Pos {
	for _, a := range as {
		if a.Write {
			return instrPos(a.Instr)
		}
	}
	return token.NoPos
}

func countRoots(as []access) int {
	m := map[*raceRoot]bool{}
	for _, a := range as {
		m[a.Root] = true
	}
	return len(m)
}

func commonLock(a, b access) bool {
	for l, ma := range a.Locks {
		mb, ok := b.Locks[l]
		if !ok {
			continue
		}
		if a.Write && ma != lockExcl {
			continue
		}
		if b.Write && mb != lockExcl {
			continue
		}
		return true
	}
	return false
}

// ---------------------------------------------------------------------------
// happens-before idioms

type hbOracle struct {
	w       *World
	roots   []*raceRoot
	li      *LockInfo
	byEntry map[*ssa.Function]*raceRoot
	paths   map[string][][]ssa.Instruction
}

// callPaths enumerates acyclic same-goroutine call paths (as sequences of call
// instructions) from root entry to target function.
func (h *hbOracle) callPaths(root *raceRoot, target *ssa.Function) [][]ssa.Instruction {
	if h.paths == nil {
		h.paths = map[string][][]ssa.Instruction{}
	}
	k := root.Name + "->" + fnName(target)
	if p, ok := h.paths[k]; ok {
		return p
	}
	var out [][]ssa.Instruction
	var cur []ssa.Instruction
	onStack := map[*ssa.Function]bool{}
	canReach := map[*ssa.Function]bool{}
	for f := range root.Reach {
		if f == target || h.w.ReachableSameGoroutine(f)[target] {
			canReach[f] = true
		}
	}
	var dfs func(f *ssa.Function)
	dfs = func(f *ssa.Function) {
		if len(out) > 400 || len(cur) > 10 {
			return
		}
		if f == target {
			out = append(out, append([]ssa.Instruction{}, cur...))
			return
		}
		onStack[f] = true
		allInstrs(f, func(in ssa.Instruction) {
			ci, ok := in.(ssa.CallInstruction)
			if !ok {
				return
			}
			if _, isGo := in.(*ssa.Go); isGo {
				return
			}
			for _, cal := range h.w.Callees(ci) {
				if onStack[cal] || !canReach[cal] {
					continue
				}
				cur = append(cur, in)
				dfs(cal)
				cur = cur[:len(cur)-1]
			}
		})
		onStack[f] = false
	}
	dfs(root.Entry)
	h.paths[k] = out
	return out
}

// before: in root r, whenever both execute, instruction x executes before instruction y
// (along every pair of call paths). With global=true the statement is about all
// activations: the common call prefix must then not sit inside a cycle.
func (h *hbOracle) before(r *raceRoot, x, y ssa.Instruction, global bool) bool {
	px := h.callPaths(r, x.Parent())
	py := h.callPaths(r, y.Parent())
	if len(px) == 0 || len(py) == 0 {
		return false
	}
	for _, a := range px {
		for _, b := range py {
			k := 0
			for k < len(a) && k < len(b) && a[k] == b[k] {
				k++
			}
			ia, ib := x, y
			if k < len(a) {
				ia = a[k]
			}
			if k < len(b) {
				ib = b[k]
			}
			if ia == ib {
				return false
			}
			// ia can never execute after ib in one activation of their function
			if pathExists(ib, ia, nil) {
				return false
			}
			// and ib is not reachable without passing ... (ia need not dominate ib: if ia did not run, nothing to order)
			if global {
				for _, ci := range a[:k] {
					if pathExists(ci, ci, nil) {
						return false
					}
				}
			}
		}
	}
	return true
}

// freshInit: a store to a field of an object allocated in the same function, executed before
// the object can have reached another goroutine: no go statement and no call that receives the
// object and can spawn goroutines may execute before the store.
func (h *hbOracle) freshInit(a access) bool {
	st, ok := a.Instr.(*ssa.Store)
	if !ok {
		return false
	}
	fa, ok := st.Addr.(*ssa.FieldAddr)
	if !ok {
		return false
	}
	obj, ok := fa.X.(*ssa.Alloc)
	if !ok || !obj.Heap {
		return false
	}
	fn := st.Parent()
	okk := true
	allInstrs(fn, func(in ssa.Instruction) {
		if !okk || in == ssa.Instruction(st) {
			return
		}
		switch x := in.(type) {
		case *ssa.Go:
			if pathExists(in, st, nil) {
				okk = false
			}
		case ssa.CallInstruction:
			passes := false
			for _, arg := range x.Common().Args {
				if arg == ssa.Value(obj) {
					passes = true
				}
			}
			if !passes || !pathExists(in, st, nil) {
				return
			}
			for _, cal := range h.w.Callees(x) {
				for f := range h.w.Reachable(cal) {
					allInstrs(f, func(i2 ssa.Instruction) {
						if _, isGo := i2.(*ssa.Go); isGo {
							okk = false
						}
					})
				}
			}
		}
	})
	return okk
}

// afterWait: in root r, access x is always preceded by Wait() on wg (along every call path).
func (h *hbOracle) afterWait(r *raceRoot, x ssa.Instruction, wg *types.Var) bool {
	if wg == nil {
		return false
	}
	isWait := func(in ssa.Instruction) bool {
		ci, ok := in.(ssa.CallInstruction)
		if !ok {
			return false
		}
		sc := ci.Common().StaticCallee()
		if sc == nil || !isMethod(sc, "sync", "WaitGroup", "Wait") {
			return false
		}
		fa, ok := ci.Common().Args[0].(*ssa.FieldAddr)
		return ok && structFieldOf(fa) == wg
	}
	paths := h.callPaths(r, x.Parent())
	if len(paths) == 0 {
		return false
	}
	for _, p := range paths {
		chain := append(append([]ssa.Instruction{}, p...), x)
		found := false
		for _, point := range chain {
			fn := point.Parent()
			allInstrs(fn, func(in ssa.Instruction) {
				if isWait(in) && instrDominates(in, point) {
					found = true
				}
			})
			if found {
				break
			}
		}
		if !found {
			return false
		}
	}
	return true
}

// ordered: the two accesses cannot overlap in time.
func (h *hbOracle) ordered(a, b access) bool {
	return h.orderedDir(a, b) || h.orderedDir(b, a)
}

func (h *hbOracle) orderedDir(a, b access) bool {
	ra, rb := a.Root, b.Root
	// publication: the constructor goroutine finishes before any API method runs on the connection
	if ra.Kind == "ctor" && rb.Kind == "api" {
		return true
	}
	if ra.Kind == "ctor" && rb.Kind == "ctor" {
		return true // different connections
	}
	if rb.Kind == "go" {
		// a is ordered with root rb if it precedes every spawn of rb, or follows a Wait for rb and
		// every spawn is either later in a's own context or serialised with a by a common lock or is object construction
		if h.beforeRoot(a, rb, map[*raceRoot]bool{}) {
			return true
		}
		if rb.WG != nil && h.afterWait(ra, a.Instr, rb.WG) {
			okAll := true
			for _, g := range rb.Spawn {
				if !h.spawnSerialised(a, g) {
					okAll = false
				}
			}
			if okAll {
				return true
			}
		}
	}
	return false
}

// beforeRoot: access a happens before every instance of root rb starts.
func (h *hbOracle) beforeRoot(a access, rb *raceRoot, seen map[*raceRoot]bool) bool {
	if seen[rb] {
		return true
	}
	seen[rb] = true
	if rb.Kind == "api" {
		return a.Root.Kind == "ctor"
	}
	if rb.Kind != "go" || len(rb.Spawn) == 0 {
		return false
	}
	for _, g := range rb.Spawn {
		// every root context in which g can execute
		inSome := false
		for _, r3 := range h.roots {
			if !r3.Reach[g.Parent()] {
				continue
			}
			inSome = true
			switch {
			case r3 == a.Root:
				if !h.before(r3, a.Instr, g, true) {
					return false
				}
			case a.Root.Kind == "ctor" && r3.Kind == "ctor":
				// another constructor: a different connection object
			default:
				if !h.beforeRoot(a, r3, seen) {
					return false
				}
			}
		}
		if !inSome {
			return false
		}
	}
	return true
}

// spawnSerialised: go statement g (starting a new instance of a root) cannot run between
// the Wait that precedes access a and a itself: g is later in a's own context, holds a lock
// that a also holds, or constructs the object.
func (h *hbOracle) spawnSerialised(a access, g *ssa.Go) bool {
	for _, r3 := range h.roots {
		if !r3.Reach[g.Parent()] {
			continue
		}
		okCtx := false
		if r3 == a.Root && h.before(r3, a.Instr, g, false) {
			okCtx = true
		}
		// common lock between a and the spawn: on every call path from r3 to the go statement some
		// call site (or the go statement itself) executes while a lock that a also holds is held
		paths := h.callPaths(r3, g.Parent())
		for l := range a.Locks {
			all := len(paths) > 0
			for _, p := range paths {
				held := false
				if _, ok := h.li.At(g)[l]; ok {
					held = true
				}
				for _, ci := range p {
					if _, ok := h.li.At(ci)[l]; ok {
						held = true
					}
				}
				if !held {
					all = false
				}
			}
			if all {
				okCtx = true
			}
		}
		// object construction: some call path from r3 to g passes a constructor of the object (New*)
		allCtor := true
		if len(paths) == 0 {
			allCtor = false
		}
		for _, p := range paths {
			viaNew := false
			for _, ci := range p {
				for _, cal := range h.w.Callees(ci.(ssa.CallInstruction)) {
					if strings.HasPrefix(cal.Name(), "New") && cal.Signature.Recv() == nil {
						viaNew = true
					}
				}
			}
			if !viaNew {
				allCtor = false
			}
		}
		if allCtor {
			okCtx = true
		}
		if !okCtx {
			return false
		}
	}
	return true
}

// ---------------------------------------------------------------------------
// CLOSE

func ruleCLOSE(c *Checker, funcs []*ssa.Function, li *LockInfo, hb *hbOracle, roots []*raceRoot) {
	w := c.w
	closedFields := map[*types.Var]bool{}
	closedLocals := map[ssa.Value]bool{}
	closeSites := map[*types.Var][]ssa.CallInstruction{}
	n := 0
	for _, fn := range funcs {
		allInstrs(fn, func(in ssa.Instruction) {
			ci, ok := in.(ssa.CallInstruction)
			if !ok || !isBuiltinCall(ci, "close") {
				return
			}
			n++
			ch := ci.Common().Args[0]
			f := chanField(ch)
			desc := w.accessPath(ch)
			key := fmt.Sprintf("%s|close(%s)", fnName(fn), desc)
			if f != nil {
				closedFields[f] = true
				closeSites[f] = append(closeSites[f], ci)
			} else {
				closedLocals[unwrapLoadAlloc(ch)] = true
			}
			// idioms
			switch {
			case inOnceBody(w, fn):
				c.ok("CLOSE", key, instrPos(in), "inside a sync.Once.Do closure")
			case isDeferOfLocalChan(in, ch):
				c.ok("CLOSE", key, instrPos(in), "defer close of a channel made in the same function")
			case f != nil && recreatedUnderLock(w, fn, ci, f, li):
				c.ok("CLOSE", key, instrPos(in), "closed and re-created under an exclusive lock")
			case allCallersOnce(w, fn, 0):
				c.ok("CLOSE", key, instrPos(in), "in a function whose every call site is in a once-guarded close path")
			case closeThenLeave(w, fn, in):
				c.ok("CLOSE", key, instrPos(in), "followed on every path by leaving a function that runs once per owner")
			default:
				c.fail("CLOSE", key, instrPos(in), "close(ch) outside the accepted idioms (once body, defer of a local, close+re-create under an exclusive lock, once-only caller): a second close panics")
			}
		})
	}
	// several close sites of one channel field: they must exclude each other by a common exclusive lock,
	// and a terminal close (no re-creation) must come after every goroutine that can run a re-creating one
	for f, sites := range closeSites {
		if len(sites) < 2 {
			continue
		}
		key := "close-sites|" + w.fieldKey(f)
		var common LockSet
		for i, s := range sites {
			ls := li.At(s)
			excl := LockSet{}
			for l, m := range ls {
				if m == lockExcl {
					excl[l] = m
				}
			}
			if i == 0 {
				common = excl
			} else {
				common = common.intersect(excl)
			}
		}
		if len(common) == 0 {
			c.fail("CLOSE", key, instrPos(sites[0]), fmt.Sprintf("%d close sites of the same channel without a common exclusive lock: two of them can close the same channel", len(sites)))
			continue
		}
		okk, why := true, fmt.Sprintf("%d close sites serialised by %s; terminal closes are ordered after the goroutines that re-create", len(sites), w.lockSetString(common))
		for _, t := range sites {
			if recreatedUnderLock(w, t.Parent(), t, f, li) {
				continue
			}
			// t is terminal
			for _, rsite := range sites {
				if rsite == t || !recreatedUnderLock(w, rsite.Parent(), rsite, f, li) {
					continue
				}
				for _, q := range roots {
					if q.Kind != "go" || !q.Reach[rsite.Parent()] {
						continue
					}
					for _, r := range roots {
						if !r.Reach[t.Parent()] {
							continue
						}
						if r == q {
							// the terminal close runs in the goroutine that also re-creates: sequential
							continue
						}
						if q.WG == nil || !hb.afterWait(r, t, q.WG) {
							okk = false
							why = fmt.Sprintf("the terminal close in %s (context %s) is not ordered after goroutine %s, which can still close and re-create the channel in %s: close of a closed channel", fnName(t.Parent()), r.Name, q.Name, fnName(rsite.Parent()))
						}
					}
				}
			}
		}
		c.decide(okk, "CLOSE", key, instrPos(sites[0]), why, why)
	}
	// SENDCLOSED
	for _, fn := range funcs {
		allInstrs(fn, func(in ssa.Instruction) {
			var chans []ssa.Value
			switch in := in.(type) {
			case *ssa.Send:
				chans = append(chans, in.Chan)
			case *ssa.Select:
				for _, st := range in.States {
					if st.Send != nil {
						chans = append(chans, st.Chan)
					}
				}
			}
			for _, ch := range chans {
				if f := chanField(ch); f != nil && closedFields[f] {
					c.fail("CLOSE", fmt.Sprintf("%s|send on closable %s", fnName(fn), w.fieldKey(f)), instrPos(in), "a channel that is closed somewhere is also sent on: send on closed channel panics")
				}
			}
		})
	}
	c.ok("CLOSE", "no send on a channel that has a close site", token.NoPos, fmt.Sprintf("%d closable channel fields have no send site", len(closedFields)))
	c.floor("CLOSE", 6)
	_ = n
}

func inOnceBody(w *World, fn *ssa.Function) bool {
	for _, s := range w.CG().callers[fn] {
		if sc := s.Instr.Common().StaticCallee(); sc != nil && isMethod(sc, "sync", "Once", "Do") {
			return true
		}
	}
	return false
}

func isDeferOfLocalChan(in ssa.Instruction, ch ssa.Value) bool {
	if _, ok := in.(*ssa.Defer); !ok {
		return false
	}
	_, ok := unwrapLoadAlloc(ch).(*ssa.MakeChan)
	return ok
}

// recreatedUnderLock: close(x.f) is executed under an exclusive lock and a store x.f = make(chan) follows it
// in the same function under the same lock.
func recreatedUnderLock(w *World, fn *ssa.Function, closeCall ssa.CallInstruction, f *types.Var, li *LockInfo) bool {
	held := li.At(closeCall)
	excl := false
	for _, m := range held {
		if m == lockExcl {
			excl = true
		}
	}
	if !excl {
		return false
	}
	for _, st := range w.Stores(f) {
		if st.Parent() != fn {
			continue
		}
		if _, ok := st.Val.(*ssa.MakeChan); ok && instrDominates(closeCall, st) {
			return true
		}
	}
	return false
}

// allCallersOnce: every call site of fn is inside a once body (transitively, a few levels).
func allCallersOnce(w *World, fn *ssa.Function, depth int) bool {
	if depth > 3 {
		return false
	}
	sites := w.CG().callers[fn]
	if len(sites) == 0 {
		return false
	}
	for _, s := range sites {
		if inOnceBody(w, s.Caller) {
			continue
		}
		if !allCallersOnce(w, s.Caller, depth+1) {
			return false
		}
	}
	return true
}

// closeThenLeave: after the close every path returns from fn, and fn is called from exactly one
// site that is the body of a goroutine started once per owner (WaitGroup-tracked wrapper).
func closeThenLeave(w *World, fn *ssa.Function, in ssa.Instruction) bool {
	if pathExists(in, in, nil) {
		return false
	}
	// no path from the close back to a loop header: every path reaches a return
	loops := false
	for _, b := range fn.Blocks {
		for _, p := range b.Preds {
			if b.Dominates(p) && len(b.Instrs) > 0 && pathFromBlockEntryFromInstr(in, b) {
				loops = true
			}
		}
	}
	if loops {
		return false
	}
	sites := w.CG().callers[fn]
	if len(sites) != 1 {
		return false
	}
	caller := sites[0].Caller
	// the caller is a goroutine entry spawned from one go statement outside any loop
	nGo := 0
	okGo := true
	for _, s := range w.CG().callers[caller] {
		if g, ok := s.Instr.(*ssa.Go); ok {
			nGo++
			if pathExists(g, g, nil) {
				okGo = false
			}
		} else {
			okGo = false
		}
	}
	return nGo == 1 && okGo
}

func pathFromBlockEntryFromInstr(from ssa.Instruction, target *ssa.BasicBlock) bool {
	return pathToBlocks(from, func(b *ssa.BasicBlock) bool { return b == target }, nil) != nil
}

// ---------------------------------------------------------------------------
// LOCKORD

func ruleLOCKORD(c *Checker, funcs []*ssa.Function, li *LockInfo, roots []*raceRoot) {
	w := c.w
	// acyclicity
	adj := map[*types.Var][]*types.Var{}
	classes := map[*types.Var]bool{}
	for e := range li.edges {
		adj[e[0]] = append(adj[e[0]], e[1])
		classes[e[0]], classes[e[1]] = true, true
	}
	for _, fn := range funcs {
		allInstrs(fn, func(in ssa.Instruction) {
			if ci, ok := in.(ssa.CallInstruction); ok {
				if f, _, _, ok := lockOp(ci.Common()); ok {
					classes[f] = true
				}
			}
		})
	}
	var cyc []string
	state := map[*types.Var]int{}
	var stack []*types.Var
	var dfs func(v *types.Var)
	dfs = func(v *types.Var) {
		state[v] = 1
		stack = append(stack, v)
		for _, n := range adj[v] {
			if state[n] == 1 {
				var names []string
				for i := len(stack) - 1; i >= 0; i-- {
					names = append([]string{w.fieldKey(stack[i])}, names...)
					if stack[i] == n {
						break
					}
				}
				cyc = append(cyc, strings.Join(names, " -> ")+" -> "+w.fieldKey(n))
			} else if state[n] == 0 {
				dfs(n)
			}
		}
		stack = stack[:len(stack)-1]
		state[v] = 2
	}
	var cls []*types.Var
	for v := range classes {
		cls = append(cls, v)
	}
	sort.Slice(cls, func(i, j int) bool { return w.fieldKey(cls[i]) < w.fieldKey(cls[j]) })
	for _, v := range cls {
		if state[v] == 0 {
			dfs(v)
		}
	}
	var es []string
	for e := range li.edges {
		es = append(es, w.fieldKey(e[0])+"->"+w.fieldKey(e[1]))
	}
	sort.Strings(es)
	if len(cyc) == 0 {
		c.ok("LOCKORD", "acquisition graph acyclic", token.NoPos, fmt.Sprintf("%d lock classes, %d order edges: %s", len(cls), len(es), strings.Join(es, ", ")))
	} else {
		sort.Strings(cyc)
		c.fail("LOCKORD", "acquisition graph acyclic", token.NoPos, "lock-order cycle (possible deadlock): "+strings.Join(cyc, "; "))
	}
	for _, e := range es {
		c.ok("LOCKORD", "edge|"+e, token.NoPos, "acquisition order observed")
	}
	// re-acquisition
	for _, in := range li.reacq {
		ci := in.(ssa.CallInstruction)
		f, _, _, _ := lockOp(ci.Common())
		c.fail("LOCKORD", fmt.Sprintf("%s|re-acquires %s", fnName(in.Parent()), w.fieldKey(f)), instrPos(in),
			"a lock is acquired while it is already held (through the call chain): self-deadlock, also for read locks when a writer is waiting")
	}
	c.ok("LOCKORD", "no lock re-acquired while held", token.NoPos, fmt.Sprintf("%d lock acquisitions examined", countLockOps(funcs)))
	// blocking under a lock
	takes := func(r *raceRoot, l *types.Var) bool {
		res := false
		for fn := range r.Reach {
			allInstrs(fn, func(in ssa.Instruction) {
				if ci, ok := in.(ssa.CallInstruction); ok {
					if f, acq, _, ok := lockOp(ci.Common()); ok && acq && f == l {
						res = true
					}
				}
			})
		}
		return res
	}
	for _, fn := range funcs {
		for _, bp := range w.blockingPoints(fn) {
			held := li.MayAt(bp.Instr)
			if len(held) == 0 {
				continue
			}
			key := fmt.Sprintf("%s|%s under %s", fnName(fn), bp.Kind+" "+bp.Desc, w.lockSetString(held))
			okk, why := false, "an operation that can wait indefinitely runs while a lock is held: every goroutine needing that lock stalls with it"
			if bp.Kind == "wait" {
				// the goroutines waited for must never take the held locks
				call := bp.Instr.(*ssa.Call)
				fa, _ := call.Common().Args[0].(*ssa.FieldAddr)
				okk = fa != nil
				for _, r := range roots {
					if fa == nil || r.WG != structFieldOf(fa) {
						continue
					}
					for l := range held {
						if takes(r, l) {
							okk = false
							why = "Wait under " + w.fieldKey(l) + " for a goroutine that takes the same lock: deadlock"
						}
					}
				}
				if okk {
					why = "the waited goroutine never takes the held lock(s)"
				}
			}
			if bp.Kind == "select" {
				// a select whose every case is non-blocking in effect is not enumerated here (Blocking only)
			}
			c.decide(okk, "LOCKORD", key, instrPos(bp.Instr), why, why)
		}
	}
	c.floor("LOCKORD", 5)
}

func countLockOps(funcs []*ssa.Function) int {
	n := 0
	for _, fn := range funcs {
		allInstrs(fn, func(in ssa.Instruction) {
			if ci, ok := in.(ssa.CallInstruction); ok {
				if _, acq, _, ok := lockOp(ci.Common()); ok && acq {
					n++
				}
			}
		})
	}
	return n
}
