package main

func allMutants() []Mutant {
	return mutantTable
}

// mutantTable is the frozen sensitivity suite (DESIGN.md appendix A). Every
// entry compiles; most survive the repository's 54 tests.
var mutantTable = []Mutant{
	// ---- C07 / C09 / C10: bounds, division, window invariants ----
	{Name: "gbn-data-guard-3", Prop: "C07,C19", Rule: "BND", File: "gbn/messages.go",
		Old: "if len(b) < 4 {", New: "if len(b) < 3 {"},
	{Name: "gbn-ack-guard-1", Prop: "C07,C19", Rule: "BND", File: "gbn/messages.go",
		Old: "\tcase ACK:\n\t\tif len(b) < 2 {", New: "\tcase ACK:\n\t\tif len(b) < 1 {"},
	{Name: "gbn-server-accepts-255", Prop: "C07,C09,C10", Rule: "DIV-INV", File: "gbn/gbn_server.go",
		Old: "if n == math.MaxUint8 {", New: "if false && n == math.MaxUint8 {"},
	{Name: "gbn-client-accepts-255", Prop: "C07,C09,C10", Rule: "DIV-INV", File: "gbn/gbn_client.go",
		Old: "if n == math.MaxUint8 {", New: "if false && n == math.MaxUint8 {"},
	{Name: "gbn-ack-seq-unvalidated", Prop: "C07,C09", Rule: "INV", File: "gbn/queue.go",
		Old: "func (q *queue) processACK(seq uint8) bool {\n\t// Sequence numbers live in [0, s). Anything else can not refer to a\n\t// packet we have sent and must not be used in the window arithmetic.\n\tif seq >= q.cfg.s {",
		New: "func (q *queue) processACK(seq uint8) bool {\n\t// Sequence numbers live in [0, s). Anything else can not refer to a\n\t// packet we have sent and must not be used in the window arithmetic.\n\tif seq > q.cfg.s {"},
	{Name: "gbn-nack-seq-unvalidated", Prop: "C07,C09", Rule: "INV", File: "gbn/queue.go",
		Old: "func (q *queue) processNACK(seq uint8) (bool, bool) {\n\t// Sequence numbers live in [0, s). Anything else can not refer to a\n\t// packet we have sent and must not be used in the window arithmetic.\n\tif seq >= q.cfg.s {",
		New: "func (q *queue) processNACK(seq uint8) (bool, bool) {\n\t// Sequence numbers live in [0, s). Anything else can not refer to a\n\t// packet we have sent and must not be used in the window arithmetic.\n\tif false {"},
	{Name: "gbn-setN-s-equals-n", Prop: "C07,C09", Rule: "DIV-INV", File: "gbn/gbn_conn.go",
		Old: "\tg.cfg.s = n + 1\n", New: "\tg.cfg.s = n\n"},
	{Name: "gbn-server-synack-assert", Prop: "C07", Rule: "ASSERT", File: "gbn/gbn_server.go",
		Old: "\t\tcase *PacketSYN:\n\n\t\tcase *PacketSYNACK, *PacketData:", New: "\t\tcase *PacketSYN, *PacketACK:\n\n\t\tcase *PacketSYNACK, *PacketData:"},
	{Name: "mbox-msgdata-length-test-removed", Prop: "C07,C19", Rule: "BND", File: "mailbox/interface.go",
		Old: "\tif len(b) < baseLength+int(payloadLen) {\n\t\treturn io.EOF\n\t}\n", New: ""},
	{Name: "mbox-msgdata-base-length", Prop: "C07", Rule: "BND", File: "mailbox/interface.go",
		Old: "\tif len(b) < baseLength {\n\t\treturn io.EOF\n\t}\n\tm.version = b[0]", New: "\tif len(b) < 1 {\n\t\treturn io.EOF\n\t}\n\tm.version = b[0]"},
	{Name: "gbn-update-frequency-zero", Prop: "C07", Rule: "DIV-INV", File: "gbn/config.go",
		Old: "\t\tif frequency > 0 {", New: "\t\tif frequency >= 0 {"},
	{Name: "gbn-addpacket-no-mod", Prop: "C07,C09,C01", Rule: "INV", File: "gbn/queue.go",
		Old: "q.sequenceTop = (q.sequenceTop + 1) % q.cfg.s", New: "q.sequenceTop = q.sequenceTop + 1"},

	// ---- C19: codecs ----
	{Name: "gbn-data-flags-swapped-on-read", Prop: "C19", Rule: "CODEC", File: "gbn/messages.go",
		Old: "FinalChunk: b[2] == TRUE,\n\t\t\tIsPing:     b[3] == TRUE,", New: "FinalChunk: b[3] == TRUE,\n\t\t\tIsPing:     b[2] == TRUE,"},
	{Name: "gbn-data-ping-written-false", Prop: "C19", Rule: "CODEC", File: "gbn/messages.go",
		Old: "\tif m.IsPing {\n\t\tif err := buf.WriteByte(TRUE); err != nil {", New: "\tif m.IsPing {\n\t\tif err := buf.WriteByte(FALSE); err != nil {"},
	{Name: "gbn-data-final-compares-false", Prop: "C19", Rule: "CODEC", File: "gbn/messages.go",
		Old: "FinalChunk: b[2] == TRUE,", New: "FinalChunk: b[2] == FALSE,"},
	{Name: "gbn-nack-written-with-ack-tag", Prop: "C19", Rule: "CODEC", File: "gbn/messages.go",
		Old: "if err := buf.WriteByte(NACK); err != nil {", New: "if err := buf.WriteByte(ACK); err != nil {"},
	{Name: "gbn-syn-reads-wrong-offset", Prop: "C19", Rule: "CODEC", File: "gbn/messages.go",
		Old: "return &PacketSYN{\n\t\t\tN: b[1],", New: "return &PacketSYN{\n\t\t\tN: b[0],"},
	{Name: "gbn-data-guard-5", Prop: "C19", Rule: "CODEC", File: "gbn/messages.go",
		Old: "if len(b) < 4 {", New: "if len(b) < 5 {"},
	{Name: "gbn-data-payload-from-3", Prop: "C19", Rule: "CODEC", File: "gbn/messages.go",
		Old: "Payload:    b[4:],", New: "Payload:    b[3:],"},
	{Name: "mbox-msgdata-len-from-0", Prop: "C19", Rule: "CODEC", File: "mailbox/interface.go",
		Old: "lenBytes := b[1:baseLength]", New: "lenBytes := b[0:4]"},
	{Name: "mbox-msgdata-len-of-version", Prop: "C19", Rule: "CODEC", File: "mailbox/interface.go",
		Old: "payloadLen := uint32(len(m.Payload))", New: "payloadLen := uint32(len(m.Payload) + 1)"},
	{Name: "mbox-msgdata-little-endian-read", Prop: "C19", Rule: "CODEC", File: "mailbox/interface.go",
		Old: "payloadLen := byteOrder.Uint32(lenBytes)", New: "payloadLen := binary.LittleEndian.Uint32(lenBytes)"},

	// ---- C15: stream contract ----
	{Name: "mbox-grpcread-returns-msglen", Prop: "C15", Rule: "RDC-1", File: "mailbox/grpc_noise_conn.go",
		Old: "\tn = copy(b, chunk)\n\tc.nextMsg = c.nextMsg[n:]\n\n\treturn n, nil", New: "\tn = copy(b, chunk)\n\tc.nextMsg = c.nextMsg[n:]\n\n\treturn len(chunk), nil"},
	{Name: "mbox-grpcread-drops-remainder", Prop: "C15", Rule: "RDC-2", File: "mailbox/grpc_noise_conn.go",
		Old: "\tc.nextMsg = c.nextMsg[n:]\n", New: "\tc.nextMsg = c.nextMsg[len(chunk):]\n"},
	{Name: "mbox-grpcread-refill-nonempty", Prop: "C15", Rule: "RDC-2", File: "mailbox/grpc_noise_conn.go",
		Old: "\tif len(c.nextMsg) == 0 {\n\t\trequestBytes, err", New: "\tif len(c.nextMsg) <= 1 {\n\t\trequestBytes, err"},
	{Name: "mbox-tcpread-returns-len", Prop: "C15", Rule: "RDC-1", File: "mailbox/tcp_noise_conn.go",
		Old: "\treturn c.readBuf.Read(b)\n", New: "\t_, err = c.readBuf.Read(b)\n\treturn c.readBuf.Len() + len(b), err\n"},
	{Name: "mbox-connkit-write-partial", Prop: "C15", Rule: "RDC-3", File: "mailbox/interface.go",
		Old: "\tdata := NewMsgData(ProtocolVersion, b)\n\tif err := k.impl.SendControlMsg(data); err != nil {", New: "\tdata := NewMsgData(ProtocolVersion, b[:len(b)/2])\n\tif err := k.impl.SendControlMsg(data); err != nil {"},
	{Name: "mbox-writemessage-no-maxlen", Prop: "C15,C16", Rule: "TRUNC", File: "mailbox/noise.go",
		Old: "\tif len(p) > math.MaxUint16 {\n\t\treturn ErrMaxMessageLengthExceeded\n\t}\n", New: ""},
	{Name: "mbox-tcpwrite-count-after-error", Prop: "C15", Rule: "RDC-3", File: "mailbox/tcp_noise_conn.go",
		Old: "\t\tn, err := c.noise.Flush(c.conn)\n\t\tbytesWritten += n\n\t\tif err != nil {\n\t\t\treturn bytesWritten, err\n\t\t}", New: "\t\tn, err := c.noise.Flush(c.conn)\n\t\tif err != nil {\n\t\t\treturn bytesWritten, err\n\t\t}\n\t\tbytesWritten += n"},
	{Name: "mbox-tcpwrite-chunk-skips", Prop: "C15", Rule: "RDC-3", File: "mailbox/tcp_noise_conn.go",
		Old: "chunk := b[bytesWritten : bytesWritten+chunkSize]", New: "chunk := b[bytesWritten+1 : bytesWritten+chunkSize]"},
	{Name: "mbox-connkit-read-partial-buffer", Prop: "C15", Rule: "RDC-2", File: "mailbox/interface.go",
		Old: "k.recvBuffer.Write(data.Payload)", New: "k.recvBuffer.Write(data.Payload[:len(data.Payload)/2])"},
}
