package main

import (
	"fmt"
	"go/constant"
	"go/token"
	"go/types"
	"math"
	"sort"
	"strings"

	"golang.org/x/tools/go/ssa"
)

// ---------------------------------------------------------------------------
// C20: adaptive resend timeout stays within its bounds.

func init() {
	register("C20",
		"TMO-1: in Sent and Received every state change (field store, map update, delete, call of a function that mutates the TimeoutManager or a TimeoutBooster) is dominated by the false leg of the useStaticTimeout test; useStaticTimeout/resendTimeout are written only by the constructor, option closures and updateResendTimeoutUnsafe, which is called from Received only; the resend booster is built after all options ran, from the configured timeout. TMO-2: every value stored to resendTimeout / passed to resendBooster.Reset is proved >= minimumResendTimeout by interval analysis (guard + phi), default >= minimum as constants, boostCount only ever ++ or =0 and boostPercent only set from values guarded > 0. TMO-3: under the fact 'resent' Sent inserts no sample, deletes the sample of that sequence number / zeroes the SYN time; a fresh sample is recorded only under !resent; Received consumes (deletes/zeroes) the sample on the path that uses it and derives the new timeout from that sample only. TMO-4: Boost increments boostCount once per call and only past the frequency-limit test; the resend booster is constructed with the limit on. TMO-5: updateResendTimeoutUnsafe always resets the resend booster with the value it stored; Reset zeroes boostCount and replaces originalTimeout. TMO-7: every getter/setter of the TimeoutManager reads/writes the field or booster its name says (and the connection's setters forward to the matching one). TMO-6: the connection reports truthfully: sendPacket calls Sent(msg, isResend) with its own parameters after the successful transport send on every success path; the queue's retransmission callbacks (called from queue.resend only) report isResend = true and the first transmission in the send loop false; the receive loop reports every parsed packet before dispatching on its type; the handshakes report their SYN with the restart flag. TMO-3 also: the invalidation under resent is unconditional (no further condition such as the boost having taken effect) and keyed by the packet's own Seq. TMO-3 also: a sample is consumed only on legs reached from the type tests of the message that answers the sampled one (SYN time: SYN/SYNACK; DATA send time: ACK). TMO-1 also: the static-timeout option is unconditional. TMO-6 also: on the boolean program over the restart flag of each handshake, every Sent(SYN) after the first sees resent == true. The race and lock obligations of C18 are imported (Boost's check-then-act is atomic only under the booster's mutex). Not decided: float32 rounding of the boost product; matching of a late duplicate ACK to the right sample.",
		[]string{"time.Time zero value / IsZero, map delete and lookup have their language semantics"},
		runC20)
}

// hasFact reports whether a dominating fact satisfies pred at block b.
func hasFact(b *ssa.BasicBlock, pred func(Fact) bool) bool {
	for _, f := range factsAt(b) {
		if pred(f) {
			return true
		}
	}
	return false
}

func isBoolConstVal(v ssa.Value, want bool) bool {
	k, ok := v.(*ssa.Const)
	return ok && k.Value != nil && k.Value.Kind() == constant.Bool && constant.BoolVal(k.Value) == want
}

func runC20(c *Checker) {
	// "a fresh sample replaces a boosted value" and "one step per base-timeout interval" are about
	// Boost and Reset running on different goroutines: the check-then-act inside Boost is atomic
	// only under the booster's mutex (C18 RACE/LOCKORD, imported)
	importLayers(c, "C18")
	w := c.w
	tm := w.Named("gbn.TimeoutManager")
	tb := w.Named("gbn.TimeoutBooster")
	sent := w.Func("(*gbn.TimeoutManager).Sent")
	received := w.Func("(*gbn.TimeoutManager).Received")
	update := w.Func("(*gbn.TimeoutManager).updateResendTimeoutUnsafe")
	ctor := w.Func("gbn.NewTimeOutManager")
	boost := w.Func("(*gbn.TimeoutBooster).Boost")
	reset := w.Func("(*gbn.TimeoutBooster).Reset")
	getCur := w.Func("(*gbn.TimeoutBooster).GetCurrentTimeout")
	newBooster := w.Func("gbn.NewTimeoutBooster")
	fStatic := w.Field("gbn.TimeoutManager.useStaticTimeout")
	fResend := w.Field("gbn.TimeoutManager.resendTimeout")
	fBooster := w.Field("gbn.TimeoutManager.resendBooster")
	fSentTimes := w.Field("gbn.TimeoutManager.sentTimes")
	fSYNTime := w.Field("gbn.TimeoutManager.latestSentSYNTime")
	fCount := w.Field("gbn.TimeoutBooster.boostCount")
	fOrig := w.Field("gbn.TimeoutBooster.originalTimeout")
	fLimit := w.Field("gbn.TimeoutBooster.withBoostFrequencyLimit")
	fPct := w.Field("gbn.TimeoutBooster.boostPercent")
	fLast := w.Field("gbn.TimeoutBooster.lastBoost")
	for name, v := range map[string]any{"TimeoutManager": tm, "TimeoutBooster": tb, "Sent": sent, "Received": received, "updateResendTimeoutUnsafe": update,
		"NewTimeOutManager": ctor, "Boost": boost, "Reset": reset, "GetCurrentTimeout": getCur, "NewTimeoutBooster": newBooster} {
		if v == nil || fmt.Sprint(v) == "<nil>" {
			c.anchorFail("gbn " + name)
			return
		}
	}
	for _, f := range []*types.Var{fStatic, fResend, fBooster, fSentTimes, fSYNTime, fCount, fOrig, fLimit, fPct, fLast} {
		if f == nil {
			c.anchorFail("a TimeoutManager/TimeoutBooster field")
			return
		}
	}
	isTMField := func(fa *ssa.FieldAddr) bool {
		n := namedOf(fa.X.Type())
		return n == tm || n == tb
	}
	// mutators: target functions that (transitively) store to TimeoutManager/TimeoutBooster fields
	direct := map[*ssa.Function]bool{}
	for _, fn := range w.Funcs {
		if w.pkgShort(fn) != targetGBN {
			continue
		}
		allInstrs(fn, func(in ssa.Instruction) {
			switch in := in.(type) {
			case *ssa.Store:
				if fa, ok := in.Addr.(*ssa.FieldAddr); ok && isTMField(fa) {
					direct[fn] = true
				}
			case *ssa.MapUpdate:
				direct[fn] = true
			}
		})
	}
	mutator := map[*ssa.Function]bool{}
	for fn := range direct {
		mutator[fn] = true
	}
	for changed := true; changed; {
		changed = false
		for _, fn := range w.Funcs {
			if mutator[fn] || w.pkgShort(fn) != targetGBN {
				continue
			}
			allInstrs(fn, func(in ssa.Instruction) {
				if call, ok := in.(ssa.CallInstruction); ok {
					for _, cal := range w.Callees(call) {
						if mutator[cal] && !mutator[fn] {
							mutator[fn] = true
							changed = true
						}
					}
				}
			})
		}
	}

	staticFalse := func(recv ssa.Value) func(Fact) bool {
		return func(f Fact) bool {
			return !f.Val && receiverFieldLoad(f.Cond, recv) == fStatic
		}
	}
	// ---- TMO-1
	for _, fn := range []*ssa.Function{sent, received} {
		recv := ssa.Value(fn.Params[0])
		n := 0
		allInstrs(fn, func(in ssa.Instruction) {
			var what string
			switch in := in.(type) {
			case *ssa.Store:
				if fa, ok := in.Addr.(*ssa.FieldAddr); ok && isTMField(fa) {
					what = "store " + w.fieldKey(structFieldOf(fa))
				}
			case *ssa.MapUpdate:
				what = "map update " + w.accessPath(in.Map)
			case *ssa.Call:
				if b, ok := in.Call.Value.(*ssa.Builtin); ok && b.Name() == "delete" {
					what = "delete " + w.accessPath(in.Call.Args[0])
				} else {
					for _, cal := range w.Callees(in) {
						if mutator[cal] {
							what = "call " + fnName(cal)
						}
					}
				}
			}
			if what == "" {
				return
			}
			n++
			c.decide(hasFact(in.Block(), staticFalse(recv)), "TMO-1", fmt.Sprintf("%s|%s", fnName(fn), what), instrPos(in),
				"dominated by !useStaticTimeout", "a statically configured timeout manager is changed by traffic: "+what+" is not guarded by the useStaticTimeout test")
		})
		if n == 0 {
			c.fail("TMO-1", fnName(fn)+"|effects", fn.Pos(), "no state change found (rule no longer matches)")
		}
	}
	allowedWriter := func(fn *ssa.Function) bool {
		if fn == ctor || fn == update {
			return true
		}
		// option closures: anonymous functions whose parent is an exported With* function returning TimeoutOptions
		if fn.Parent() != nil && len(fn.Params) == 1 && namedOf(fn.Params[0].Type()) == tm {
			return true
		}
		return false
	}
	for _, f := range []*types.Var{fStatic, fResend} {
		for _, st := range w.Stores(f) {
			c.decide(allowedWriter(st.Parent()), "TMO-1", fmt.Sprintf("writer|%s|%s", f.Name(), fnName(st.Parent())), instrPos(st),
				"written by the constructor, an option closure or updateResendTimeoutUnsafe", f.Name()+" is written outside the constructor/options/updateResendTimeoutUnsafe")
		}
	}
	sites, _ := w.CallersOf(update)
	for _, s := range sites {
		c.decide(s.Caller == received, "TMO-1", "caller|updateResendTimeoutUnsafe|"+fnName(s.Caller), instrPos(s.Instr),
			"called from Received only", "the resend timeout is recomputed outside Received")
	}
	// booster construction after the options
	var boosterStore *ssa.Store
	for _, st := range w.Stores(fBooster) {
		if st.Parent() == ctor {
			boosterStore = st
		} else {
			c.fail("TMO-1", "writer|resendBooster|"+fnName(st.Parent()), instrPos(st), "resendBooster is replaced outside the constructor")
		}
	}
	if boosterStore == nil {
		c.fail("TMO-1", "ctor|resendBooster", ctor.Pos(), "the constructor does not create the resend booster")
	} else {
		call, _ := boosterStore.Val.(*ssa.Call)
		okArgs := call != nil && call.Common().StaticCallee() == newBooster && len(call.Common().Args) == 3 &&
			isLoadOfField(call.Common().Args[0], fResend) && isBoolConstVal(call.Common().Args[2], true)
		c.decide(okArgs, "TMO-4", "ctor|resendBooster-args", instrPos(boosterStore), "NewTimeoutBooster(m.resendTimeout, m.resendBoostPercent, true)",
			"the resend booster is not built from the configured resend timeout with the frequency limit on")
		// no option call after the booster was created
		optAfter := false
		allInstrs(ctor, func(in ssa.Instruction) {
			cl, ok := in.(*ssa.Call)
			if !ok || cl.Common().StaticCallee() != nil || cl.Common().IsInvoke() {
				return
			}
			if _, isB := cl.Common().Value.(*ssa.Builtin); isB {
				return
			}
			if call != nil && pathExists(call, cl, nil) {
				optAfter = true
			}
		})
		c.decide(!optAfter, "TMO-1", "ctor|options-before-booster", instrPos(boosterStore), "all option closures run before the boosters are created",
			"an option can change resendTimeout after the booster captured it: a static timeout would differ from the configured one")
	}

	// ---- TMO-2
	rg := newRanger(w)
	minC := w.Const("gbn.minimumResendTimeout")
	defC := w.Const("gbn.defaultResendTimeout")
	if minC == nil || defC == nil {
		c.anchorFail("gbn.minimumResendTimeout / defaultResendTimeout")
		return
	}
	minV, _ := constant.Int64Val(minC.Val())
	defV, _ := constant.Int64Val(defC.Val())
	c.decide(defV >= minV && minV >= 1_000_000_000, "TMO-2", "const|default>=minimum>=1s", token.NoPos,
		fmt.Sprintf("default %d >= minimum %d >= 1s", defV, minV), fmt.Sprintf("default %d, minimum %d: the floor is below one second or above the default", defV, minV))
	for _, st := range w.Stores(fResend) {
		key := fmt.Sprintf("floor|store resendTimeout|%s|%s", fnName(st.Parent()), w.canonFB(st.Val))
		// static option: the same function sets useStaticTimeout = true
		setsStatic := false
		allInstrs(st.Parent(), func(in ssa.Instruction) {
			if s2, ok := in.(*ssa.Store); ok {
				if fa, ok := s2.Addr.(*ssa.FieldAddr); ok && structFieldOf(fa) == fStatic && isBoolConstVal(s2.Val, true) {
					setsStatic = true
				}
			}
		})
		if setsStatic {
			c.ok("TMO-2", key, instrPos(st), "static mode option (sets useStaticTimeout): the floor applies to adaptive mode")
			// ... and it does so for every value: the option's two stores are unconditional (a static
			// timeout that happens to equal the default must not leave the manager in adaptive mode)
			uncond := len(factsAt(st.Block())) == 0
			allInstrs(st.Parent(), func(in ssa.Instruction) {
				if s2, ok := in.(*ssa.Store); ok {
					if fa, ok := s2.Addr.(*ssa.FieldAddr); ok && structFieldOf(fa) == fStatic && len(factsAt(s2.Block())) != 0 {
						uncond = false
					}
				}
			})
			c.decide(uncond, "TMO-1", "static option|"+fnName(st.Parent())+"|unconditional", instrPos(st), "useStaticTimeout = true and resendTimeout = value on every path",
				"the static-timeout option does not always switch the manager to static mode: for some configured value the timeout is still recomputed from traffic")
			continue
		}
		r := rg.At(st.Val, st.Block())
		c.decide(!r.empty && r.lo >= minV, "TMO-2", key, instrPos(st), fmt.Sprintf("stored range %s >= minimum", r),
			fmt.Sprintf("resendTimeout can be set to a value below the one-second floor (range %s)", r))
	}
	// Reset argument in update
	nReset := 0
	var storedVal ssa.Value
	for _, st := range w.Stores(fResend) {
		if st.Parent() == update {
			storedVal = st.Val
		}
	}
	allInstrs(update, func(in ssa.Instruction) {
		call, ok := in.(*ssa.Call)
		if !ok || call.Common().StaticCallee() != reset {
			return
		}
		nReset++
		args := call.Common().Args
		onResend := isLoadOfField(args[0], fBooster)
		r := rg.At(args[1], call.Block())
		c.decide(onResend && !r.empty && r.lo >= minV, "TMO-2", "floor|Reset argument", instrPos(call), fmt.Sprintf("resendBooster.Reset(v), v in %s", r),
			fmt.Sprintf("the booster is reset with a value that may be below the floor (range %s, on resendBooster: %v)", r, onResend))
		c.decide(storedVal != nil && unwrapLoadAlloc(args[1]) == unwrapLoadAlloc(storedVal), "TMO-5", "update|Reset(stored value)", instrPos(call),
			"the booster is reset with exactly the value stored to resendTimeout", "the booster is reset with a different value than the one stored to resendTimeout")
		// on every path to return
		c.decide(call.Block().Dominates(returnBlock(update)) || allReturnsPass(update, call), "TMO-5", "update|Reset on every path", instrPos(call),
			"every path through updateResendTimeoutUnsafe resets the booster", "some path updates the timeout without resetting the boost")
	})
	if nReset == 0 {
		c.fail("TMO-5", "update|Reset", update.Pos(), "updateResendTimeoutUnsafe does not reset the resend booster: the timeout would not return to the measured value")
	}
	// Reset body
	zeroCount, setOrig := false, false
	allInstrs(reset, func(in ssa.Instruction) {
		st, ok := in.(*ssa.Store)
		if !ok {
			return
		}
		fa, ok := st.Addr.(*ssa.FieldAddr)
		if !ok {
			return
		}
		if structFieldOf(fa) == fCount {
			if k, ok := intConst(st.Val); ok && k == 0 && st.Block() == reset.Blocks[0] {
				zeroCount = true
			}
		}
		if structFieldOf(fa) == fOrig && st.Val == ssa.Value(reset.Params[1]) && st.Block() == reset.Blocks[0] {
			setOrig = true
		}
	})
	c.decide(zeroCount && setOrig, "TMO-5", "Reset|body", reset.Pos(), "boostCount = 0 and originalTimeout = newTimeout unconditionally",
		fmt.Sprintf("Reset does not unconditionally zero the boost (%v) and replace the base timeout (%v)", zeroCount, setOrig))
	// boostCount stores: ++ or 0; boostPercent from guarded positive values
	for _, st := range w.Stores(fCount) {
		key := fmt.Sprintf("boostCount|%s|%s", fnName(st.Parent()), w.canonFB(st.Val))
		okk := false
		if k, ok := intConst(st.Val); ok && k == 0 {
			okk = true
		}
		if bo, ok := st.Val.(*ssa.BinOp); ok && bo.Op == token.ADD && isLoadOfField(bo.X, fCount) {
			if k, ok := intConst(bo.Y); ok && k == 1 {
				okk = true
			}
		}
		c.decide(okk, "TMO-2", key, instrPos(st), "boostCount is only zeroed or incremented by one", "boostCount changes other than by ++ or = 0 (negative or multi-step boosts become possible)")
	}
	for _, fk := range []string{"gbn.TimeoutManager.resendBoostPercent", "gbn.TimeoutManager.handshakeBoostPercent"} {
		f := w.Field(fk)
		if f == nil {
			c.anchorFail(fk)
			continue
		}
		for _, st := range w.Stores(f) {
			key := fmt.Sprintf("boostPercent|%s|%s", f.Name(), fnName(st.Parent()))
			okk := false
			if k, ok := st.Val.(*ssa.Const); ok && k.Value != nil && constant.Sign(k.Value) > 0 {
				okk = true
			}
			if hasFact(st.Block(), func(ft Fact) bool {
				bo, ok := ft.Cond.(*ssa.BinOp)
				if !ok || !ft.Val || bo.Op != token.GTR || !rg.sameValue(bo.X, st.Val) {
					return false
				}
				k, ok := bo.Y.(*ssa.Const)
				return ok && k.Value != nil && constant.Sign(k.Value) == 0
			}) {
				okk = true
			}
			c.decide(okk, "TMO-2", key, instrPos(st), "set from a positive constant or under the guard > 0", "the boost percentage can be set to a non-positive value: a boost would shrink the timeout below the measured value")
		}
	}
	// GetResendTimeout returns the booster's current timeout; GetCurrentTimeout = original + increase
	okCur := false
	allInstrs(getCur, func(in ssa.Instruction) {
		if ret, ok := in.(*ssa.Return); ok && len(ret.Results) == 1 {
			for _, v := range expandValues(ret.Results[0]) {
				if bo, ok := v.(*ssa.BinOp); ok && bo.Op == token.ADD && (isLoadOfField(bo.X, fOrig) || isLoadOfField(bo.Y, fOrig)) {
					okCur = true
				}
			}
		}
	})
	c.decide(okCur, "TMO-2", "GetCurrentTimeout|original+increase", getCur.Pos(), "current timeout = originalTimeout + increase", "GetCurrentTimeout is not originalTimeout plus an increase")

	// ---- TMO-3
	checkSamples(c, sent, received, update, fSentTimes, fSYNTime)

	// ---- TMO-4
	recvB := ssa.Value(boost.Params[0])
	nInc := 0
	for _, st := range w.Stores(fCount) {
		if st.Parent() != boost {
			continue
		}
		nInc++
		// on the path to the increment: withBoostFrequencyLimit false, or !(time.Since(lastBoost) < originalTimeout)
		guard := false
		limited := hasFact(st.Block(), func(ft Fact) bool { return !ft.Val && receiverFieldLoad(ft.Cond, recvB) == fLimit })
		passed := hasFact(st.Block(), func(ft Fact) bool {
			bo, ok := ft.Cond.(*ssa.BinOp)
			if !ok || ft.Val || bo.Op != token.LSS {
				return false
			}
			call, ok := bo.X.(*ssa.Call)
			return ok && staticCalleeIs(call.Common(), "time", "", "Since") && receiverFieldLoad(bo.Y, recvB) == fOrig
		})
		// the increment block is reached either from the !limit edge or from the passed-limit edge: check every predecessor chain
		guard = limited || passed || incrementGuarded(st.Block(), recvB, fLimit, fOrig)
		c.decide(guard, "TMO-4", "Boost|rate-limit", instrPos(st), "the increment is reached only when the limit is off or the base timeout has elapsed since the last boost",
			"Boost increments without honouring the frequency limit: every resent packet of a window boosts the timeout")
	}
	c.decide(nInc == 1, "TMO-4", "Boost|single-increment", boost.Pos(), "exactly one increment per call", fmt.Sprintf("%d increments of boostCount in Boost", nInc))
	// lastBoost updated together with the increment
	okLast := false
	for _, st := range w.Stores(fLast) {
		if st.Parent() == boost {
			for _, s2 := range w.Stores(fCount) {
				if s2.Parent() == boost && s2.Block() == st.Block() {
					okLast = true
				}
			}
		}
	}
	c.decide(okLast, "TMO-4", "Boost|lastBoost-updated", boost.Pos(), "lastBoost is refreshed with the increment", "lastBoost is not refreshed when a boost is applied: the rate limit never engages")
	c.floor("TMO-1", 12)
	c.floor("TMO-2", 8)
	c.floor("TMO-3", 6)
	c.floor("TMO-4", 4)
	c.floor("TMO-5", 3)
	ruleTMO6(c)
	ruleTMO7(c)
}

func returnBlock(fn *ssa.Function) *ssa.BasicBlock {
	var rb *ssa.BasicBlock
	n := 0
	for _, b := range fn.Blocks {
		if _, ok := b.Instrs[len(b.Instrs)-1].(*ssa.Return); ok && b.Comment != "recover" {
			rb = b
			n++
		}
	}
	if n == 1 {
		return rb
	}
	return fn.Blocks[0]
}

// allReturnsPass: every path from entry to a return passes instruction x.
func allReturnsPass(fn *ssa.Function, x ssa.Instruction) bool {
	okk := true
	allInstrs(fn, func(in ssa.Instruction) {
		if r, ok := in.(*ssa.Return); ok && r.Block().Comment != "recover" {
			if pathFromEntry(fn, r, func(i ssa.Instruction) bool { return i == x }) {
				okk = false
			}
		}
	})
	return okk
}

// incrementGuarded handles the shape `if limit { if since < orig { return } }; count++`:
// the increment block has two predecessors, one carrying !limit and one carrying !(since < orig).
func incrementGuarded(b *ssa.BasicBlock, recv ssa.Value, fLimit, fOrig *types.Var) bool {
	if len(b.Preds) == 0 {
		return false
	}
	for _, p := range b.Preds {
		okk := false
		for _, f := range factsOnEdge(p, b) {
			if !f.Val && receiverFieldLoad(f.Cond, recv) == fLimit {
				okk = true
			}
			if bo, ok := f.Cond.(*ssa.BinOp); ok && !f.Val && bo.Op == token.LSS {
				if call, ok := bo.X.(*ssa.Call); ok && staticCalleeIs(call.Common(), "time", "", "Since") && receiverFieldLoad(bo.Y, recv) == fOrig {
					okk = true
				}
			}
		}
		if !okk {
			return false
		}
	}
	return true
}

func checkSamples(c *Checker, sent, received, update *ssa.Function, fSentTimes, fSYNTime *types.Var) {
	w := c.w
	resent := ssa.Value(sent.Params[2])
	resentIs := func(b *ssa.BasicBlock, val bool) bool {
		return hasFact(b, func(f Fact) bool { return f.Cond == resent && f.Val == val })
	}
	// extraFacts: a condition on the way to b other than the static-mode test, the packet type and
	// the resent flag ("" if none)
	extraFacts := func(b *ssa.BasicBlock) string {
		extra := ""
		for _, f := range factsAt(b) {
			switch x := f.Cond.(type) {
			case *ssa.Parameter:
				continue // resent
			case *ssa.Extract:
				if _, isTA := x.Tuple.(*ssa.TypeAssert); isTA {
					continue
				}
			case *ssa.UnOp:
				if x.Op == token.MUL {
					if fa, ok := x.X.(*ssa.FieldAddr); ok && structFieldOf(fa).Name() == "useStaticTimeout" {
						continue
					}
				}
			}
			extra = w.canonFB(f.Cond)
		}
		return extra
	}
	nIns, nDel, nZero, nSet := 0, 0, 0, 0
	allInstrs(sent, func(in ssa.Instruction) {
		switch in := in.(type) {
		case *ssa.MapUpdate:
			if isLoadOfField(in.Map, fSentTimes) {
				nIns++
				c.decide(resentIs(in.Block(), false), "TMO-3", "Sent|sample-insert", instrPos(in), "a DATA sample is recorded only under !resent",
					"a round-trip sample is recorded for a retransmitted packet: the timeout would be computed from an ambiguous sample")
				// ... and unconditionally there, with the time of THIS send: the only facts on the way are
				// the static-mode test, the packet type and the resent flag. A sample that is kept when the
				// sequence number is reused (window wrapped, own ACK lost) measures from the old packet.
				extra := extraFacts(in.Block())
				fresh := false
				for _, v := range expandValues(in.Value) {
					if call, ok := v.(*ssa.Call); ok && staticCalleeIs(call.Common(), "time", "", "Now") && call.Parent() == sent {
						fresh = true
					}
				}
				c.decide(extra == "" && fresh, "TMO-3", "Sent|sample-insert is unconditional and fresh", instrPos(in), "every first transmission overwrites the sample of its sequence number with time.Now() of this call",
					"the sample of a first transmission is not always overwritten with the current time (extra condition: "+extra+", value is this call's time.Now(): "+fmt.Sprint(fresh)+"): a reused sequence number is measured from the previous packet's send time")
			}
		case *ssa.Call:
			if b, ok := in.Call.Value.(*ssa.Builtin); ok && b.Name() == "delete" && isLoadOfField(in.Call.Args[0], fSentTimes) {
				nDel++
				c.decide(resentIs(in.Block(), true), "TMO-3", "Sent|sample-invalidate", instrPos(in), "the sample of a retransmitted sequence number is deleted under resent", "sample deletion is not tied to the resent flag")
				// ... for every retransmitted packet (not only when the boost took effect, say), and for
				// exactly the retransmitted sequence number
				extra := extraFacts(in.Block())
				keyOK := false
				if fSeq := w.Field("gbn.PacketData.Seq"); fSeq != nil && len(in.Call.Args) == 2 {
					keyOK = isLoadOfField(in.Call.Args[1], fSeq)
				}
				c.decide(extra == "" && keyOK, "TMO-3", "Sent|sample-invalidate is unconditional", instrPos(in), "every retransmission deletes the sample of its own sequence number",
					"the sample of a retransmitted packet is not always deleted (extra condition: "+extra+", key is the packet's Seq: "+fmt.Sprint(keyOK)+"): the ACK of a retransmitted packet is measured against the first transmission")
			}
		case *ssa.Store:
			if fa, ok := in.Addr.(*ssa.FieldAddr); ok && structFieldOf(fa) == fSYNTime {
				if k, ok := in.Val.(*ssa.Const); ok && k.Value == nil {
					nZero++
					c.decide(resentIs(in.Block(), true), "TMO-3", "Sent|syn-invalidate", instrPos(in), "the SYN sample is zeroed under resent", "the SYN sample is zeroed although the SYN was not resent")
					extra := extraFacts(in.Block())
					c.decide(extra == "", "TMO-3", "Sent|syn-invalidate is unconditional", instrPos(in), "every resent SYN zeroes the SYN sample",
						"the SYN sample is not always zeroed when the SYN is resent (extra condition: "+extra+")")
				} else {
					nSet++
					c.decide(resentIs(in.Block(), false), "TMO-3", "Sent|syn-record", instrPos(in), "the SYN send time is recorded only under !resent",
						"a SYN send time is recorded for a resent SYN: the handshake round trip would be measured from an ambiguous sample")
				}
			}
		}
	})
	c.decide(nDel >= 1, "TMO-3", "Sent|sample-invalidate-present", sent.Pos(), "a resent DATA packet invalidates its sample", "a resent DATA packet no longer invalidates its sample: its late ACK would update the timeout")
	c.decide(nZero >= 1, "TMO-3", "Sent|syn-invalidate-present", sent.Pos(), "a resent SYN invalidates the SYN sample", "a resent SYN no longer invalidates the SYN sample")
	c.decide(nIns >= 1 && nSet >= 1, "TMO-3", "Sent|samples-recorded", sent.Pos(), "fresh samples are recorded", "no fresh sample is ever recorded: the adaptive timeout can never be measured")
	// a resend boosts: under resent, Boost is called
	nBoost := 0
	allInstrs(sent, func(in ssa.Instruction) {
		if call, ok := in.(*ssa.Call); ok && call.Common().StaticCallee() != nil && call.Common().StaticCallee().Name() == "Boost" {
			nBoost++
			c.decide(resentIs(call.Block(), true), "TMO-3", "Sent|boost-only-on-resend|"+w.accessPath(call.Common().Args[0]), instrPos(call), "Boost is called under resent only",
				"the timeout is boosted for packets that were not retransmitted")
		}
	})
	// Received: each call of update uses a consumed sample
	allInstrs(received, func(in ssa.Instruction) {
		call, ok := in.(*ssa.Call)
		if !ok || call.Common().StaticCallee() != update {
			return
		}
		arg := unwrapLoadAlloc(call.Common().Args[1])
		key := "Received|update-from-sample|" + w.canonFB(arg)
		// arg = receivedAt.Sub(sample)
		sub, ok := arg.(*ssa.Call)
		if !ok || sub.Common().StaticCallee() == nil || sub.Common().StaticCallee().Name() != "Sub" {
			c.fail("TMO-3", key, instrPos(call), "the new timeout is not derived from receivedAt.Sub(sample)")
			return
		}
		sample := unwrapLoadAlloc(sub.Common().Args[1])
		okk, why := false, "the sample is neither a present sentTimes entry nor a non-zero latestSentSYNTime"
		// (a) map lookup with ok, deleted before the update
		if ex, ok := sample.(*ssa.Extract); ok && ex.Index == 0 {
			if lk, ok := ex.Tuple.(*ssa.Lookup); ok && lk.CommaOk && isLoadOfField(lk.X, fSentTimes) {
				present := hasFact(call.Block(), func(f Fact) bool {
					e2, ok := f.Cond.(*ssa.Extract)
					return ok && e2.Tuple == ex.Tuple && e2.Index == 1 && f.Val
				})
				deleted := false
				allInstrs(received, func(i2 ssa.Instruction) {
					if d, ok := i2.(*ssa.Call); ok {
						if b, ok := d.Call.Value.(*ssa.Builtin); ok && b.Name() == "delete" && isLoadOfField(d.Call.Args[0], fSentTimes) &&
							newRanger(w).sameValue(d.Call.Args[1], lk.Index) &&
							(instrDominates(d, call) || !pathExistsPS(lk, call, func(x ssa.Instruction) bool { return x == ssa.Instruction(d) })) {
							deleted = true
						}
					}
				})
				okk = present && deleted
				why = fmt.Sprintf("sentTimes sample (present: %v, deleted before use: %v)", present, deleted)
			}
		}
		// (b) latestSentSYNTime, non-zero, zeroed before the update
		if isLoadOfField(sample, fSYNTime) {
			nonZero := hasFact(call.Block(), func(f Fact) bool {
				cl, ok := f.Cond.(*ssa.Call)
				return ok && !f.Val && cl.Common().StaticCallee() != nil && cl.Common().StaticCallee().Name() == "IsZero" && isLoadOfField(cl.Common().Args[0], fSYNTime)
			})
			zeroed := false
			for _, st := range w.Stores(fSYNTime) {
				if st.Parent() == received && instrDominates(st, call) {
					if k, ok := st.Val.(*ssa.Const); ok && k.Value == nil {
						zeroed = true
					}
				}
			}
			okk = nonZero && zeroed
			why = fmt.Sprintf("SYN sample (non-zero: %v, zeroed before use: %v)", nonZero, zeroed)
		}
		c.decide(okk, "TMO-3", key, instrPos(call), "derived from a fresh, consumed sample: "+why, "the timeout is recomputed from a sample that is not fresh or not consumed: "+why)
		// ... and only a message that answers the sampled one consumes the sample: the SYN time is
		// matched by a SYN or SYNACK, a DATA send time by the ACK of that sequence number. (A DATA
		// packet that consumes the SYN sample measures "time since the SYN", not a round trip.)
		allowed := map[string]bool{}
		switch {
		case isLoadOfField(sample, fSYNTime):
			allowed["PacketSYN"], allowed["PacketSYNACK"] = true, true
		default:
			allowed["PacketACK"] = true
		}
		msgParam := ssa.Value(received.Params[1])
		isTestBlock := map[*ssa.BasicBlock]bool{}
		var tas []*ssa.TypeAssert
		allInstrs(received, func(x ssa.Instruction) {
			if ta, ok := x.(*ssa.TypeAssert); ok && ta.CommaOk && ta.X == msgParam {
				tas = append(tas, ta)
				isTestBlock[ta.Block()] = true
			}
		})
		var reach []string
		badT := ""
		for _, ta := range tas {
			var okEx ssa.Value
			for _, r := range *ta.Referrers() {
				if ex, ok := r.(*ssa.Extract); ok && ex.Index == 1 {
					okEx = ex
				}
			}
			if okEx == nil {
				continue
			}
			var succ *ssa.BasicBlock
			for _, r := range *okEx.Referrers() {
				if iff, ok := r.(*ssa.If); ok {
					succ = iff.Block().Succs[0]
				}
			}
			if succ == nil {
				continue
			}
			seen := map[*ssa.BasicBlock]bool{}
			var walk func(b *ssa.BasicBlock) bool
			walk = func(b *ssa.BasicBlock) bool {
				if b == call.Block() {
					return true
				}
				if seen[b] || isTestBlock[b] {
					return false
				}
				seen[b] = true
				for _, sx := range b.Succs {
					if walk(sx) {
						return true
					}
				}
				return false
			}
			if walk(succ) {
				tn := "?"
				if nn := namedOf(ta.AssertedType); nn != nil {
					tn = nn.Obj().Name()
				}
				reach = append(reach, tn)
				if !allowed[tn] {
					badT = tn
				}
			}
		}
		sort.Strings(reach)
		c.decide(badT == "" && len(reach) > 0, "TMO-3", key+"|consumed by the answering message type only", instrPos(call), "reached for "+strings.Join(reach, ", "),
			"the sample is consumed by a "+badT+" message, which is not the answer to the message whose send time was recorded: the 'round trip' is an arbitrary interval")
	})
}

// ruleTMO6: the timeout manager only sees the truth if the connection reports to it truthfully.
//
//	(a) sendPacket reports every packet that went out: each success return is preceded by
//	    Sent(msg, isResend) with exactly its own two parameters, and only after sendToStream
//	    succeeded;
//	(b) the retransmission path says so: the sendPkt callbacks handed to the queue (called only
//	    from queue.resend) pass `true` as the resend flag, the first transmission in the send loop
//	    passes `false`;
//	(c) the receive loop reports every successfully parsed packet (Received dominates the
//	    dispatch on the packet type);
//	(d) in the handshakes the resend flag given to Sent is the restart flag (false on the first
//	    SYN, true after a timeout), never a constant.
func ruleTMO6(c *Checker) {
	w := c.w
	sp := w.Func("(*gbn.GoBackNConn).sendPacket")
	sl := w.Func("(*gbn.GoBackNConn).sendPacketsForever")
	rl := w.Func("(*gbn.GoBackNConn).receivePacketsForever")
	sent := w.Func("(*gbn.TimeoutManager).Sent")
	recvd := w.Func("(*gbn.TimeoutManager).Received")
	resend := w.Func("(*gbn.queue).resend")
	if sp == nil || sl == nil || rl == nil || sent == nil || recvd == nil || resend == nil {
		c.anchorFail("sendPacket / sendPacketsForever / receivePacketsForever / TimeoutManager.Sent / Received / queue.resend")
		return
	}
	// (a)
	{
		calls := findCalls(sp, func(ci ssa.CallInstruction) bool { return ci.Common().StaticCallee() == sent })
		okk := len(calls) == 1
		why := fmt.Sprintf("%d Sent calls", len(calls))
		if okk {
			call := calls[0]
			a := call.Common().Args
			argOK := len(a) == 3 && a[1] == ssa.Value(sp.Params[2]) && a[2] == ssa.Value(sp.Params[3])
			// after a successful transport send
			var sendErr ssa.Value
			for _, ci := range findCalls(sp, func(ci ssa.CallInstruction) bool {
				f := chanField(ci.Common().Value)
				return f != nil && f.Name() == "sendToStream"
			}) {
				if v, ok := ci.(ssa.Value); ok {
					sendErr = v
				}
			}
			afterSend := sendErr != nil && hasFact(call.Block(), func(f Fact) bool { return factRel(f, isValue(sendErr), isNilConst) == "==" })
			skip := ""
			allInstrs(sp, func(in ssa.Instruction) {
				ret, ok := in.(*ssa.Return)
				if !ok || skip != "" {
					return
				}
				for _, v := range expandValues(ret.Results[0]) {
					if isNilConst(v) && pathFromEntry(sp, ret, func(i2 ssa.Instruction) bool { return i2 == ssa.Instruction(call) }) {
						skip = w.pos(instrPos(ret))
					}
				}
			})
			okk = argOK && afterSend && skip == ""
			why = fmt.Sprintf("arguments are (msg, isResend): %v, only after a successful sendToStream: %v, success return without it: %q", argOK, afterSend, skip)
		}
		c.decide(okk, "TMO-6", "sendPacket|reports every sent packet with its resend flag", sp.Pos(), "Sent(msg, isResend) after the successful transport send, on every success path",
			"sendPacket does not report exactly what it sent to the timeout manager ("+why+"): samples are missing, taken for packets that never went out, or the resend flag is lost")
	}
	// (b) resend flag at the call sites of sendPacket
	flagOf := func(ci ssa.CallInstruction) (bool, bool) {
		a := ci.Common().Args
		if len(a) < 4 {
			return false, false
		}
		k, ok := a[3].(*ssa.Const)
		if !ok || !isBoolConst(k) {
			return false, false
		}
		return isBoolConstVal(a[3], true), true
	}
	nResendCb, nFirst := 0, 0
	for _, fn := range w.Funcs {
		if w.pkgShort(fn) != targetGBN {
			continue
		}
		for _, ci := range findCalls(fn, func(ci ssa.CallInstruction) bool { return ci.Common().StaticCallee() == sp }) {
			isData := false
			for _, a := range ci.Common().Args {
				if mi, ok := a.(*ssa.MakeInterface); ok {
					if nt := namedOf(mi.X.Type()); nt != nil && nt.Obj().Name() == "PacketData" {
						isData = true
					}
				}
			}
			if !isData {
				continue
			}
			flag, known := flagOf(ci)
			// a closure stored into queueCfg.sendPkt is the retransmission callback
			isResendCb := false
			if fn.Parent() != nil {
				fSendPkt := w.Field("gbn.queueCfg.sendPkt")
				for _, st := range w.Stores(fSendPkt) {
					if mc, ok := st.Val.(*ssa.MakeClosure); ok && mc.Fn == ssa.Value(fn) {
						isResendCb = true
					}
				}
			}
			top := fn
			for top.Parent() != nil {
				top = top.Parent()
			}
			switch {
			case isResendCb:
				nResendCb++
				c.decide(known && flag, "TMO-6", "sendPkt callback in "+fnName(top)+"|resend flag true", instrPos(ci), "the queue's retransmission callback reports isResend = true",
					"a retransmission is reported to the timeout manager as a first transmission: its sample is kept and a later ACK updates the timeout from an ambiguous round trip")
			case top == sl:
				nFirst++
				c.decide(known && !flag, "TMO-6", "sendLoop|first transmission reports resend flag false", instrPos(ci), "the first transmission reports isResend = false",
					"the first transmission of a packet is reported as a retransmission: no sample is ever recorded (and the timeout is boosted for nothing)")
			}
		}
	}
	c.decide(nResendCb >= 2 && nFirst >= 1, "TMO-6", "call sites|retransmission callbacks and first transmission found", token.NoPos, fmt.Sprintf("%d retransmission callbacks, %d first-transmission sites", nResendCb, nFirst),
		fmt.Sprintf("expected the two sendPkt callbacks and the first transmission in the send loop, found %d / %d", nResendCb, nFirst))
	// the callbacks are only reachable from queue.resend
	if fSendPkt := w.Field("gbn.queueCfg.sendPkt"); fSendPkt != nil {
		bad := ""
		for _, fn := range w.Funcs {
			allInstrs(fn, func(in ssa.Instruction) {
				if ci, ok := in.(ssa.CallInstruction); ok {
					if f := chanField(ci.Common().Value); f == fSendPkt && fn != resend {
						bad = fnName(fn)
					}
				}
			})
		}
		c.decide(bad == "", "TMO-6", "sendPkt|called from queue.resend only", token.NoPos, "the callback that reports isResend = true is only used for retransmissions", "queueCfg.sendPkt is also called from "+bad+": a first transmission would be reported as a retransmission")
	}
	// (c)
	{
		calls := findCalls(rl, func(ci ssa.CallInstruction) bool { return ci.Common().StaticCallee() == recvd })
		okk := len(calls) == 1
		if okk {
			call := calls[0]
			// argument is the deserialized message, call is under "deserialize err == nil", and every type
			// dispatch on the message is dominated by it
			var des *ssa.Call
			for _, ci := range findCalls(rl, func(ci ssa.CallInstruction) bool { return calleeNameIsCI(ci, "Deserialize") }) {
				des, _ = ci.(*ssa.Call)
			}
			argOK := false
			if des != nil {
				if ex, ok := unwrapLoadAlloc(call.Common().Args[1]).(*ssa.Extract); ok && ex.Tuple == ssa.Value(des) && ex.Index == 0 {
					argOK = true
				}
			}
			domAll := true
			allInstrs(rl, func(in ssa.Instruction) {
				if ta, ok := in.(*ssa.TypeAssert); ok && des != nil {
					if ex, ok := unwrapLoadAlloc(ta.X).(*ssa.Extract); ok && ex.Tuple == ssa.Value(des) && !instrDominates(call, ta) {
						domAll = false
					}
				}
			})
			okk = argOK && domAll
		}
		c.decide(okk, "TMO-6", "receiveLoop|every parsed packet is reported", rl.Pos(), "Received(msg) with the parsed message dominates the dispatch on its type",
			"the receive loop does not report every parsed packet to the timeout manager before acting on it: response samples are lost for some packet types")
	}
	// (d) handshakes
	for _, hn := range []string{"(*gbn.GoBackNConn).clientHandshake", "(*gbn.GoBackNConn).serverHandshake"} {
		hf := w.Func(hn)
		if hf == nil {
			continue
		}
		for _, ci := range findCalls(hf, func(ci ssa.CallInstruction) bool { return ci.Common().StaticCallee() == sent }) {
			a := ci.Common().Args
			phi, isPhi := unwrapLoadAlloc(a[2]).(*ssa.Phi)
			okk := false
			if isPhi {
				hasFalse, hasTrue := false, false
				seen := map[*ssa.Phi]bool{}
				var walk func(p *ssa.Phi)
				walk = func(p *ssa.Phi) {
					if seen[p] {
						return
					}
					seen[p] = true
					for _, e := range p.Edges {
						switch {
						case isBoolConstVal(e, true):
							hasTrue = true
						case isBoolConstVal(e, false):
							hasFalse = true
						default:
							if q, ok := e.(*ssa.Phi); ok {
								walk(q)
							}
						}
					}
				}
				walk(phi)
				okk = hasFalse && hasTrue
			}
			// ... and exactly: every SYN that goes out after the first one of this handshake is reported
			// as a retransmission, whichever way the code came back to the send (timeout, a repeated SYN
			// of the client answered at once, ...) - decided on the boolean program over the flag variable
			if isPhi {
				why := flagAfterFirst(hf, ci, a[2])
				c.decide(why == "", "TMO-6", hf.Name()+"|every SYN after the first is reported as resent", instrPos(ci), "explored all (sent before?, flag) states of the handshake: a second Sent always sees resent == true",
					"a SYN that is sent again can be reported to the timeout manager as a first transmission ("+why+"): its answer is then used as a round-trip sample of a retransmitted packet and the handshake timeout is not boosted")
			}
			c.decide(okk, "TMO-6", hf.Name()+"|SYN reported with the restart flag", instrPos(ci), "Sent(SYN, resent): false for the first SYN, true after a restart",
				"the handshake reports its SYN to the timeout manager with a constant resend flag: a retransmitted SYN's round trip is used as a sample (or no handshake sample is ever taken)")
		}
	}
	c.floor("TMO-6", 8)
}

// ruleTMO7: each accessor of the TimeoutManager hands out / sets the quantity its name says:
// a getter returns its own field (or MaxInt64 for the two keepalive times when they are 0) or
// the current timeout of its own booster; a setter stores its argument into its own field.
// Mixing them up (the handshake timeout read from the resend booster, the send timeout from
// recvTimeout) keeps every caller type-correct and every test green while the wrong clock runs.
func ruleTMO7(c *Checker) {
	w := c.w
	const T = "(*gbn.TimeoutManager)."
	getField := map[string]string{"GetFinSendTimeout": "finSendTimeout", "GetSendTimeout": "sendTimeout", "GetRecvTimeout": "recvTimeout", "GetPingTime": "pingTime", "GetPongTime": "pongTime"}
	getBooster := map[string]string{"GetResendTimeout": "resendBooster", "GetHandshakeTimeout": "handshakeBooster"}
	setField := map[string]string{"SetSendTimeout": "sendTimeout", "SetRecvTimeout": "recvTimeout"}
	retVals := func(fn *ssa.Function) []ssa.Value {
		var out []ssa.Value
		allInstrs(fn, func(in ssa.Instruction) {
			if ret, ok := in.(*ssa.Return); ok && ret.Block().Comment != "recover" && len(ret.Results) == 1 {
				out = append(out, expandValues(ret.Results[0])...)
			}
		})
		return out
	}
	for g, fname := range getField {
		fn, f := w.Func(T+g), w.Field("gbn.TimeoutManager."+fname)
		if fn == nil || f == nil {
			c.anchorFail("gbn.TimeoutManager." + g + "/" + fname)
			continue
		}
		okk, n := true, 0
		for _, v := range retVals(fn) {
			n++
			if isLoadOfField(v, f) {
				continue
			}
			if cv, ok := v.(*ssa.Convert); ok {
				if isLoadOfField(cv.X, f) {
					continue
				}
			}
			if k, ok := intConst(v); ok && k == math.MaxInt64 {
				continue
			}
			okk = false
		}
		c.decide(okk && n > 0, "TMO-7", g+"|returns "+fname, fn.Pos(), "every returned value is the field "+fname+" (or 'never')", g+" does not return "+fname+": the wrong timeout is applied")
	}
	for g, bname := range getBooster {
		fn, f := w.Func(T+g), w.Field("gbn.TimeoutManager."+bname)
		if fn == nil || f == nil {
			c.anchorFail("gbn.TimeoutManager." + g + "/" + bname)
			continue
		}
		okk, n := true, 0
		for _, v := range retVals(fn) {
			n++
			call, ok := v.(*ssa.Call)
			if !ok || call.Common().StaticCallee() == nil || call.Common().StaticCallee().Name() != "GetCurrentTimeout" || !isLoadOfField(call.Common().Args[0], f) {
				okk = false
			}
		}
		c.decide(okk && n > 0, "TMO-7", g+"|current timeout of "+bname, fn.Pos(), "returns "+bname+".GetCurrentTimeout()", g+" does not return the current timeout of "+bname+": boosts and fresh samples act on the other timeout")
	}
	for sname, fname := range setField {
		fn, f := w.Func(T+sname), w.Field("gbn.TimeoutManager."+fname)
		if fn == nil || f == nil {
			c.anchorFail("gbn.TimeoutManager." + sname + "/" + fname)
			continue
		}
		okk := false
		for _, st := range w.Stores(f) {
			if st.Parent() == fn && st.Val == ssa.Value(fn.Params[1]) {
				okk = true
			}
		}
		nOther := 0
		allInstrs(fn, func(in ssa.Instruction) {
			if st, ok := in.(*ssa.Store); ok {
				if fa, ok := st.Addr.(*ssa.FieldAddr); ok && structFieldOf(fa) != f {
					nOther++
				}
			}
		})
		c.decide(okk && nOther == 0, "TMO-7", sname+"|stores into "+fname, fn.Pos(), fname+" = argument, nothing else", sname+" does not store its argument into "+fname+" (and only there)")
	}
	// the public setters of the connection forward to the matching manager setter
	for _, pr := range [][2]string{{"SetSendTimeout", "SetSendTimeout"}, {"SetRecvTimeout", "SetRecvTimeout"}} {
		fn := w.Func("(*gbn.GoBackNConn)." + pr[0])
		tgt := w.Func(T + pr[1])
		if fn == nil || tgt == nil {
			continue
		}
		cs := findCalls(fn, func(ci ssa.CallInstruction) bool { return ci.Common().StaticCallee() == tgt })
		c.decide(len(cs) == 1 && cs[0].Common().Args[1] == ssa.Value(fn.Params[1]), "TMO-7", "GoBackNConn."+pr[0]+"|forwards to the manager", fn.Pos(), "calls TimeoutManager."+pr[1]+" with its argument",
			"GoBackNConn."+pr[0]+" does not forward its argument to TimeoutManager."+pr[1])
	}
	c.floor("TMO-7", 11)
}
